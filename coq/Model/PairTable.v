(* Model/PairTable.v -- Gallina copy of the host code of
     /repo/mujoco_warp/_src/io.py : put_model, block "# precalculated geom pairs"
   that builds  m.nxn_geom_pair, m.nxn_pairid[:,0] (nxn_pairid_contact) and the
   *_filtered variants, for models WITHOUT collision sensors (column 1 of
   nxn_pairid is then the constant -1; the correspondence check asserts it).

   Host Python semantics are copied: `//` is floor division (Z.div), numpy
   subscripts in [-len, 0) wrap around.  The device-side lookup
   `upper_tri_index` is NOT modelled here: the theorems use the definition
   regenerated from math.py (Gen/math.v).  Definitions only, no proofs.

   int32 wrap-around is not modelled (ngeom <= 65535, nbody < 32768 assumed). *)
From Coq Require Import ZArith List Bool.
Import ListNotations.
Local Open Scope Z_scope.

(* numpy-style read of an int array; indices are non-negative in every use below *)
Definition znth (l : list Z) (i : Z) : Z := nth (Z.to_nat i) l 0.

(* lo, lo+1, ..., lo+len-1 *)
Definition zseq (lo : Z) (len : nat) : list Z := map (fun k => lo + Z.of_nat k) (seq 0 len).

(* np.triu_indices(n, k=1): row-major strict upper triangle; row i is (i,i+1) .. (i,n-1) *)
Definition triu_row (n i : Z) : list (Z * Z) := map (fun j => (i, j)) (zseq (i + 1) (Z.to_nat (n - 1 - i))).
Definition triu (n : Z) : list (Z * Z) := flat_map (triu_row n) (zseq 0 (Z.to_nat n)).

Record pmodel := {
  ngeom : Z;
  geom_bodyid : list Z;        (* mjm.geom_bodyid *)
  geom_contype : list Z;       (* mjm.geom_contype *)
  geom_conaffinity : list Z;   (* mjm.geom_conaffinity *)
  body_weldid : list Z;        (* mjm.body_weldid *)
  body_parentid : list Z;      (* mjm.body_parentid *)
  exclude_signature : list Z;  (* mjm.exclude_signature *)
  pairs : list (Z * Z);        (* (mjm.pair_geom1[i], mjm.pair_geom2[i]) *)
  filterparent : bool;         (* not (disableflags & FILTERPARENT) *)
}.

Section Table.
  Variable m : pmodel.

  Definition bodyid (g : Z) : Z := znth (geom_bodyid m) g.
  Definition weldid (g : Z) : Z := znth (body_weldid m) (bodyid g).
  (* weld_parentid = body_weldid[body_parentid[weldid]] *)
  Definition weld_parentid (g : Z) : Z := znth (body_weldid m) (znth (body_parentid m) (weldid g)).

  Definition self_collision (g1 g2 : Z) : bool := weldid g1 =? weldid g2.
  Definition parent_child_collision (g1 g2 : Z) : bool :=
    filterparent m && negb (weldid g1 =? 0) && negb (weldid g2 =? 0)
    && ((weldid g1 =? weld_parentid g2) || (weldid g2 =? weld_parentid g1)).
  (* np.array((contype1 & conaffinity2) | (contype2 & conaffinity1), dtype=bool) *)
  Definition mask (g1 g2 : Z) : bool :=
    negb (Z.lor (Z.land (znth (geom_contype m) g1) (znth (geom_conaffinity m) g2))
                (Z.land (znth (geom_contype m) g2) (znth (geom_conaffinity m) g1)) =? 0).
  (* np.isin((bodyid1 << 16) + bodyid2, mjm.exclude_signature) *)
  Definition exclude (g1 g2 : Z) : bool :=
    existsb (Z.eqb (Z.shiftl (bodyid g1) 16 + bodyid g2)) (exclude_signature m).

  (* -1 * ones; [~(mask & ~self & ~parent_child & ~exclude)] = -2 *)
  Definition base_id (p : Z * Z) : Z :=
    let '(g1, g2) := p in
    if mask g1 g2 && negb (self_collision g1 g2) && negb (parent_child_collision g1 g2) && negb (exclude g1 g2)
    then -1 else -2.

  Definition base_table : list Z := map base_id (triu (ngeom m)).
End Table.

(* the nested host function of put_model (Python ints: floor division) *)
Definition host_upper_tri_index (n i j : Z) : Z :=
  let '(i, j) := if j <? i then (j, i) else (i, j) in
  (i * (2 * n - i - 3)) / 2 + j - 1.

Fixpoint upd_nat (l : list Z) (i : nat) (x : Z) : list Z :=
  match l, i with
  | [], _ => []
  | _ :: r, O => x :: r
  | a :: r, S i' => a :: upd_nat r i' x
  end.
(* numpy `a[idx] = x` for idx in [-len, len): negative subscripts wrap.  (Outside that
   range numpy raises IndexError and put_model fails; modelled as "unchanged".) *)
Definition wrap_index (len idx : Z) : Z := if idx <? 0 then len + idx else idx.
Definition upd_wrap (l : list Z) (idx x : Z) : list Z :=
  let k := wrap_index (Z.of_nat (length l)) idx in
  if (0 <=? k) && (k <? Z.of_nat (length l)) then upd_nat l (Z.to_nat k) x else l.

(* for i in range(npair): nxn_pairid_contact[upper_tri_index(ngeom, pair_geom1[i], pair_geom2[i])] = i *)
Fixpoint apply_pairs (n : Z) (ps : list (Z * Z)) (k : Z) (t : list Z) : list Z :=
  match ps with
  | [] => t
  | (g1, g2) :: r => apply_pairs n r (k + 1) (upd_wrap t (host_upper_tri_index n g1 g2) k)
  end.

(* nxn_pairid_contact *)
Definition pair_table (m : pmodel) : list Z := apply_pairs (ngeom m) (pairs m) 0 (base_table m).

(* nxn_include (no collision sensors) = nxn_pairid_contact > -2; the *_filtered arrays *)
Definition filtered (m : pmodel) : list ((Z * Z) * Z) :=
  filter (fun e => snd e >? -2) (combine (triu (ngeom m)) (pair_table m)).

(* flat output used by the correspondence check:
   nxn_pairid[:,0] ++ flattened nxn_geom_pair ++ flattened filtered (g1, g2, id) *)
Definition flat_pairs (l : list (Z * Z)) : list Z := flat_map (fun p => [fst p; snd p]) l.
Definition table_out (m : pmodel) : list Z :=
  pair_table m ++ flat_pairs (triu (ngeom m))
  ++ flat_map (fun e => [fst (fst e); snd (fst e); snd e]) (filtered m).
