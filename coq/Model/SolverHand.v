(* Model/SolverHand.v -- hand-written model of what the KERNEL solver.py:_update_constraint_efc
   feeds to the (machine-translated) function _eval_constraint.  Definitions only.

   The kernel is not a @wp.func, so the translator cannot reach it; this file copies the few
   lines of the kernel that assemble the arguments:

     is_equality = efcid < ne ;  is_friction = (not is_equality) and efcid < ne + nf
     is_elliptic = efc_type == CONTACT_ELLIPTIC ;  frictionloss = efc_frictionloss if is_friction else 0
     non-elliptic rows: efcid0 = -1, jaref0 = D0 = mu = ufrictionj = TT = 0
     elliptic rows (contact conid, rows efcid_0 .. efcid_{dim-1}):
        mu = friction[0] * impratio_invsqrt ; jaref0 = Jaref[efcid_0] ; D0 = D[efcid_0]
        for j in 1 .. dim-1:  uj = Jaref[efcid_j] * friction[j-1] ; TT += uj*uj ;
                              if efcid == efcid_j: ufrictionj = uj * friction[j-1]

   and is run (PrimFloat, vm_compute) against the real kernel on generated row layouts by
   bin/props/C24.py (correspondence "kernel rows").  Not modelled: the early returns of the
   kernel (world done, efcid >= nefc, conid >= nacon, negative row address) - rows for which the
   kernel writes nothing. *)
From Coq Require Import ZArith List Bool.
From VF Require Import Base.Scalar Base.Vec Base.Loop Gen.solver.
Import ListNotations.
Local Open Scope Z_scope.

Section Hand.
Context {S : Type} `{Scalar S}.

(* a non-elliptic row (equality / friction loss / limit / frictionless or pyramidal contact) *)
Definition kernel_row_simple (ne nf efcid : Z) (jaref D_ fl : S) : list S :=
  let ie := efcid <? ne in
  let ifr := negb ie && (efcid <? ne + nf) in
  _eval_constraint ie ifr false jaref D_ (if ifr then fl else s0) efcid (-1) s0 s0 s0 s0 s0.

(* what the kernel stores for such a row: efc_force, efc_state *)
Definition simple_force_state (ne nf efcid : Z) (jaref D_ fl : S) : list S :=
  let r := kernel_row_simple ne nf efcid jaref D_ fl in [vget r 0; vget r 1].

(* the TT accumulation loop, in loop order, starting from 0.0 *)
Fixpoint tt_acc (acc : S) (jt fr : list S) : S :=
  match jt, fr with
  | j :: jt', f :: fr' => tt_acc (sadd acc (smul (smul j f) (smul j f))) jt' fr'
  | _, _ => acc
  end.
Definition block_TT (jt fr : list S) : S := tt_acc s0 jt fr.

(* rows of one elliptic contact whose rows sit at addresses adr0, adr0+1, ... (after the ne+nf
   equality/friction rows): [jt], [fr], [Dt] list the tangent rows' Jaref, friction coefficient
   and D; j0, D0 belong to the normal row; mu = friction[0] * impratio_invsqrt *)
Definition block_row_normal (adr0 : Z) (j0 D0 mu : S) (jt fr : list S) : list S :=
  _eval_constraint false false true j0 D0 s0 adr0 adr0 j0 D0 mu s0 (block_TT jt fr).

Definition block_row_tangent (adr0 : Z) (j0 D0 mu : S) (jt fr : list S) (k : nat) (jk fk Dk : S) : list S :=
  _eval_constraint false false true jk Dk s0 (adr0 + 1 + Z.of_nat k) adr0 j0 D0 mu
    (smul (smul jk fk) fk) (block_TT jt fr).

Fixpoint block_tangents (adr0 : Z) (j0 D0 mu : S) (jt fr : list S) (k : nat) (rows : list (S * S * S))
  : list (list S) :=
  match rows with
  | nil => nil
  | (jk, fk, Dk) :: r =>
      block_row_tangent adr0 j0 D0 mu jt fr k jk fk Dk :: block_tangents adr0 j0 D0 mu jt fr (Datatypes.S k) r
  end.

(* all rows of the contact, normal row first; each is [force; state; cost] *)
Definition block_rows (adr0 : Z) (fri0 impr j0 D0 : S) (rows : list (S * S * S)) : list (list S) :=
  let mu := smul fri0 impr in
  let jt := map (fun r => fst (fst r)) rows in
  let fr := map (fun r => snd (fst r)) rows in
  block_row_normal adr0 j0 D0 mu jt fr :: block_tangents adr0 j0 D0 mu jt fr O rows.

(* flattened (force, state) pairs, the two things the kernel writes *)
Definition rows_force_state (rs : list (list S)) : list S :=
  flat_map (fun r => [vget r 0; vget r 1]) rs.
End Hand.
