(* Model/Sensor.v -- hand models for C07 (definitions only).

   1. The cutoff rule: [cutoff_val] is a literal transcription of the value that
      sensor.py:_write_scalar / _write_vector store; [mj_cutoff] transcribes MuJoCo's
      engine_sensor.c:apply_cutoff (with mju_clip / mju_min of engine_util_misc.c).
   2. [write_scalar] / [write_vector]: the write lists of those two void helpers.
   3. [sensor_vel_model] / [sensor_pos_model] / ...: what one task of the sensor kernels writes,
      expressed with the helpers above and the machine-translated value functions of
      Gen/K_sensor.v.  Proof/Sensor.v PROVES that the machine translation of the kernels
      (Gen/K_sensor.v, regenerated from /repo on every run) equals these models, for every input
      and every scalar instance, so no separate correspondence run is needed for them.
   4. [sensor_dim_of_type]: MuJoCo's sensor_dim per sensor type (checked against compiled
      MuJoCo models by bin/props/C07.py) and the slot arithmetic.
   5. Energy: the kinetic-energy tile kernel (not translatable) as a plain sum, and the meaning
      of the atomic vec2 updates the potential-energy kernels emit. *)
From Coq Require Import ZArith List Bool String.
From VF Require Import Base.Scalar Base.Vec Base.Loop Base.Kernel Gen.K_sensor.
Import ListNotations.
Local Open Scope Z_scope.

(* mjtSensor / mjtDataType / mjtObj / mjtConstraint values used below (checked against the
   mujoco python enums by bin/props/C07.py) *)
Definition SENS_GEOMFROMTO : Z := 41.
Definition DT_REAL : Z := 0.
Definition DT_POSITIVE : Z := 1.

Section Cutoff.
  Context {S : Type} `{Scalar S}.

  (* value stored by _write_scalar (and per component by _write_vector) *)
  Definition cutoff_val (stype dtype : Z) (c x : S) : S :=
    if (sgtb c (sofZ 0)) && (negb (Z.eqb stype 41)) then
      if Z.eqb dtype 0 then sclamp x (sneg c) c
      else if Z.eqb dtype 1 then smin x c
      else x
    else x.

  (* MuJoCo: mju_clip(x, min, max) = x < min ? min : (x > max ? max : x);
             mju_min(a, b) = a <= b ? a : b;  (engine_util_misc.c) *)
  Definition mju_clip (x lo hi : S) : S := if sltb x lo then lo else if sltb hi x then hi else x.
  Definition mju_min (a b : S) : S := if sleb a b then a else b.
  (* engine_sensor.c apply_cutoff, one datum of sensor i at its stage:
       if (cutoff > 0) { if (type == mjSENS_CONTACT || type == mjSENS_GEOMFROMTO) continue;
         if (datatype == mjDATATYPE_REAL) x = mju_clip(x, -cutoff, cutoff);
         else if (datatype == mjDATATYPE_POSITIVE) x = mju_min(cutoff, x); }
     (the MuJoCo 3.13 binary is checked against this rule on every run by bin/props/C07.py: contact
     sensors (type 42) and fromto sensors (type 41) ignore their cutoff) *)
  Definition mj_cutoff (stype dtype : Z) (c x : S) : S :=
    if sgtb c (sofZ 0) then
      if (Z.eqb stype 41) || (Z.eqb stype 42) then x
      else if Z.eqb dtype 0 then mju_clip x (sneg c) c
      else if Z.eqb dtype 1 then mju_min c x
      else x
    else x.

  Definition SD : string := "sensordata_out"%string.

  Definition write_scalar (w adr stype dtype : Z) (c x : S) : list (write S) :=
    [mkW SD [w; adr] KSet (VS (cutoff_val stype dtype c x))].

  Definition write_vector (w adr stype dtype : Z) (c : S) (v : list S) (n : nat) : list (write S) :=
    map (fun i => mkW SD [w; Z.add adr (Z.of_nat i)] KSet (VS (cutoff_val stype dtype c (vget v (Z.of_nat i))))) (seq 0 n).
End Cutoff.

(* ---- one task of sensor._sensor_vel ------------------------------------------------------- *)
Section VelModel.
  Context {S : Type} `{Scalar S}.
  Variables (w velid : Z)
    (body_rootid jnt_dofadr geom_bodyid site_bodyid cam_bodyid sensor_type sensor_datatype sensor_objtype
       sensor_objid sensor_reftype sensor_refid sensor_adr : Z -> Z)
    (sensor_cutoff : Z -> S) (sensor_vel_adr : Z -> Z) (qvel_in : Z -> Z -> S)
    (xpos_in xmat_in xipos_in ximat_in geom_xpos_in geom_xmat_in site_xpos_in site_xmat_in cam_xpos_in cam_xmat_in
       subtree_com_in : Z -> Z -> list S)
    (ten_velocity_in actuator_velocity_in : Z -> Z -> S)
    (cvel_in subtree_linvel_in subtree_angmom_in : Z -> Z -> list S).

  (* [t] = the sensor type the branch is selected on, [sid] = sensor id, [objid] = its object *)
  Definition sensor_vel_model_gen (t sid objid : Z) : list (write S) :=
    let wv := write_vector w (sensor_adr sid) (sensor_type sid) (sensor_datatype sid) (sensor_cutoff sid) in
    let wsc := write_scalar w (sensor_adr sid) (sensor_type sid) (sensor_datatype sid) (sensor_cutoff sid) in
    if Z.eqb t 2 then wv (_velocimeter body_rootid site_bodyid site_xpos_in site_xmat_in subtree_com_in cvel_in w objid) 3%nat
    else if Z.eqb t 3 then wv (_gyro site_bodyid site_xmat_in cvel_in w objid) 3%nat
    else if Z.eqb t 10 then wsc (_joint_vel jnt_dofadr qvel_in w objid)
    else if Z.eqb t 12 then wsc (_tendon_vel ten_velocity_in w objid)
    else if Z.eqb t 14 then wsc (_actuator_vel actuator_velocity_in w objid)
    else if Z.eqb t 19 then wv (_ball_ang_vel jnt_dofadr qvel_in w objid) 3%nat
    else if Z.eqb t 31 then
      wv (_frame_linvel body_rootid geom_bodyid site_bodyid cam_bodyid xpos_in xmat_in xipos_in ximat_in geom_xpos_in
            geom_xmat_in site_xpos_in site_xmat_in cam_xpos_in cam_xmat_in subtree_com_in cvel_in w objid
            (sensor_objtype sid) (sensor_refid sid) (sensor_reftype sid)) 3%nat
    else if Z.eqb t 32 then
      wv (_frame_angvel body_rootid geom_bodyid site_bodyid cam_bodyid xpos_in xmat_in xipos_in ximat_in geom_xpos_in
            geom_xmat_in site_xpos_in site_xmat_in cam_xpos_in cam_xmat_in subtree_com_in cvel_in w objid
            (sensor_objtype sid) (sensor_refid sid) (sensor_reftype sid)) 3%nat
    else if Z.eqb t 36 then wv (_subtree_linvel subtree_linvel_in w objid) 3%nat
    else if Z.eqb t 37 then wv (_subtree_angmom subtree_angmom_in w objid) 3%nat
    else [].

  Definition sensor_vel_model : list (write S) :=
    let sid := sensor_vel_adr velid in
    sensor_vel_model_gen (sensor_type sid) sid (sensor_objid sid).
End VelModel.

(* ---- one task of sensor._sensor_pos (every type except the three geom-distance types, whose
        value comes out of a search loop; see Proof/Sensor.v pos_geom_shape) ------------------ *)
Section PosModel.
  Context {S : Type} `{Scalar S}.
  Variables (w posid : Z) (ngeom : Z) (opt_magnetic : Z -> list S) (body_geomnum body_geomadr : Z -> Z)
    (body_iquat : Z -> Z -> list S) (body_mass body_subtreemass : Z -> Z -> S) (jnt_qposadr geom_type geom_bodyid : Z -> Z)
    (geom_quat : Z -> Z -> list S) (site_type site_bodyid : Z -> Z) (site_size : Z -> list S) (site_quat : Z -> Z -> list S)
    (cam_bodyid : Z -> Z) (cam_quat : Z -> Z -> list S) (cam_fovy : Z -> Z -> S) (cam_resolution : Z -> list Z)
    (cam_sensorsize : Z -> list S) (cam_intrinsic : Z -> Z -> list S)
    (sensor_type sensor_datatype sensor_objtype sensor_objid sensor_reftype sensor_refid sensor_adr : Z -> Z)
    (sensor_cutoff : Z -> S) (nxn_pairid : Z -> list Z) (sensor_pos_adr rangefinder_sensor_adr : Z -> Z)
    (time_in : Z -> S) (energy_in : Z -> list S) (qpos_in : Z -> Z -> S)
    (xpos_in xquat_in xmat_in xipos_in ximat_in geom_xpos_in geom_xmat_in site_xpos_in site_xmat_in cam_xpos_in cam_xmat_in
       subtree_com_in : Z -> Z -> list S)
    (ten_length_in actuator_length_in rangefinder_dist_in : Z -> Z -> S)
    (opt_magnetic__shape0 cam_intrinsic__shape0 cam_fovy__shape0 body_iquat__shape0 geom_quat__shape0 site_quat__shape0
       cam_quat__shape0 body_mass__shape0 body_subtreemass__shape0 : Z).

  (* INSIDESITE: the point that is tested (None = object type the kernel returns on) *)
  Definition insidesite_point (objtype objid : Z) : option (list S) :=
    if Z.eqb objtype 2 then Some (xpos_in w objid)
    else if Z.eqb objtype 1 then
      Some (if Z.gtb objid 0 then
              (if (sltb (body_mass (Z.rem w body_mass__shape0) objid) (slit 1 1000000000000000))
                  && (sgeb (body_subtreemass (Z.rem w body_subtreemass__shape0) objid) (slit 1 1000000000000000))
               then subtree_com_in w objid else xipos_in w objid)
            else xipos_in w objid)
    else if Z.eqb objtype 5 then Some (geom_xpos_in w objid)
    else if Z.eqb objtype 6 then Some (site_xpos_in w objid)
    else if Z.eqb objtype 7 then Some (cam_xpos_in w objid)
    else None.

  Definition sensor_pos_model_gen (t sid objid : Z) : list (write S) :=
    let wv := write_vector w (sensor_adr sid) (sensor_type sid) (sensor_datatype sid) (sensor_cutoff sid) in
    let wsc := write_scalar w (sensor_adr sid) (sensor_type sid) (sensor_datatype sid) (sensor_cutoff sid) in
    if Z.eqb t 6 then wv (_magnetometer opt_magnetic site_xmat_in w objid opt_magnetic__shape0) 3%nat
    else if Z.eqb t 8 then
      wv (_cam_projection cam_fovy cam_resolution cam_sensorsize cam_intrinsic site_xpos_in cam_xpos_in cam_xmat_in w objid
            (sensor_refid sid) cam_intrinsic__shape0 cam_fovy__shape0) 2%nat
    else if Z.eqb t 7 then wsc (rangefinder_dist_in w (rangefinder_sensor_adr sid))
    else if Z.eqb t 9 then wsc (_joint_pos jnt_qposadr qpos_in w objid)
    else if Z.eqb t 11 then wsc (_tendon_pos ten_length_in w objid)
    else if Z.eqb t 13 then wsc (_actuator_pos actuator_length_in w objid)
    else if Z.eqb t 18 then wv (_ball_quat jnt_qposadr qpos_in w objid) 4%nat
    else if Z.eqb t 26 then
      wv (_frame_pos xpos_in xmat_in xipos_in ximat_in geom_xpos_in geom_xmat_in site_xpos_in site_xmat_in cam_xpos_in cam_xmat_in
            w objid (sensor_objtype sid) (sensor_refid sid) (sensor_reftype sid)) 3%nat
    else if (Z.eqb t 28) || (Z.eqb t 29) || (Z.eqb t 30) then
      wv (_frame_axis xmat_in ximat_in geom_xmat_in site_xmat_in cam_xmat_in w objid (sensor_objtype sid) (sensor_refid sid)
            (sensor_reftype sid) (if Z.eqb t 28 then 0 else if Z.eqb t 29 then 1 else 2)) 3%nat
    else if Z.eqb t 27 then
      wv (_frame_quat body_iquat geom_bodyid geom_quat site_bodyid site_quat cam_bodyid cam_quat xquat_in w objid
            (sensor_objtype sid) (sensor_refid sid) (sensor_reftype sid)
            body_iquat__shape0 geom_quat__shape0 site_quat__shape0 cam_quat__shape0) 4%nat
    else if Z.eqb t 35 then wv (_subtree_com subtree_com_in w objid) 3%nat
    else if Z.eqb t 38 then
      match insidesite_point (sensor_objtype sid) objid with
      | Some p =>
          let r := sensor_refid sid in
          wsc (if inside_geom (site_xpos_in w r) (site_xmat_in w r) (site_size r) (site_type r) p then s1 else s0)
      | None => []
      end
    else if Z.eqb t 43 then wsc (vget (energy_in w) 0)
    else if Z.eqb t 44 then wsc (vget (energy_in w) 1)
    else if Z.eqb t 45 then wsc (_clock time_in w)
    else [].

  Definition sensor_pos_model : list (write S) :=
    let sid := sensor_pos_adr posid in
    sensor_pos_model_gen (sensor_type sid) sid (sensor_objid sid).
End PosModel.

(* ---- the limit kernels and the tendon-actuator-force cutoff pass ---------------------------- *)
Section LimitModel.
  Context {S : Type} `{Scalar S}.
  (* MuJoCo (engine_sensor.c): JOINTLIMIT* reads a row with efc_type == mjCNSTR_LIMIT_JOINT and
     efc_id == objid; TENDONLIMIT* a row with efc_type == mjCNSTR_LIMIT_TENDON and efc_id == objid.
     The three position/velocity/force sensor types of each family are listed. *)
  Definition is_jointlimit_sensor (t : Z) : bool := (Z.eqb t 20) || (Z.eqb t 21) || (Z.eqb t 22).
  Definition is_tendonlimit_sensor (t : Z) : bool := (Z.eqb t 23) || (Z.eqb t 24) || (Z.eqb t 25).
  Definition mj_limit_row_matches (stype efc_type efc_id objid : Z) : bool :=
    (Z.eqb efc_id objid) &&
    ((is_jointlimit_sensor stype && Z.eqb efc_type 3) || (is_tendonlimit_sensor stype && Z.eqb efc_type 4)).
End LimitModel.

(* ---- sensor_dim per type (MuJoCo user_objects.cc; CONTACT/TACTILE/USER/plugin dims are data
        dependent and not listed) ---------------------------------------------------------------- *)
Definition sensor_dim_of_type (t : Z) : Z :=
  if (Z.eqb t 6) || (Z.eqb t 26) || (Z.eqb t 28) || (Z.eqb t 29) || (Z.eqb t 30) || (Z.eqb t 35) || (Z.eqb t 40)
     || (Z.eqb t 2) || (Z.eqb t 3) || (Z.eqb t 19) || (Z.eqb t 31) || (Z.eqb t 32) || (Z.eqb t 36) || (Z.eqb t 37) then 3
  else if Z.eqb t 8 then 2
  else if (Z.eqb t 18) || (Z.eqb t 27) then 4
  else if Z.eqb t 41 then 6
  else if (Z.eqb t 7) || (Z.eqb t 9) || (Z.eqb t 11) || (Z.eqb t 13) || (Z.eqb t 38) || (Z.eqb t 39) || (Z.eqb t 43)
          || (Z.eqb t 44) || (Z.eqb t 45) || (Z.eqb t 10) || (Z.eqb t 12) || (Z.eqb t 14)
          || (Z.eqb t 20) || (Z.eqb t 21) || (Z.eqb t 22) || (Z.eqb t 23) || (Z.eqb t 24) || (Z.eqb t 25) then 1
  else 0.

(* MuJoCo's layout invariant for sensor_adr / sensor_dim over sensors 0..n-1 *)
Definition adr_dim_invariant (n : Z) (adr dim : Z -> Z) : Prop :=
  adr 0 = 0 /\ (forall i, 0 <= i < n -> 0 <= dim i) /\ (forall i, 0 <= i -> i + 1 < n -> adr (i + 1) = adr i + dim i).
(* executable version for the correspondence check on real models *)
Fixpoint adr_dim_check (n : nat) (i : Z) (adr dim : Z -> Z) : bool :=
  match n with
  | O => true
  | Datatypes.S n' => (0 <=? dim i) && ((Nat.eqb n' 0) || (Z.eqb (adr (i + 1)) (adr i + dim i))) && adr_dim_check n' (i + 1) adr dim
  end.

(* all write locations of a write list lie in the slot [lo, lo+len) of row w of sensordata_out *)
Definition in_slot {S} (w lo len : Z) (x : write S) : Prop :=
  w_arr x = "sensordata_out"%string /\ exists k, w_idx x = [w; k] /\ lo <= k < lo + len.

(* ---- energy -------------------------------------------------------------------------------- *)
Section Energy.
  Context {S : Type} `{Scalar S}.
  (* sensor._energy_vel_kinetic: energy[1] = 0.5 * sum_i qvel[i] * (M qvel)[i]  (tile_map mul, tile_reduce add) *)
  Fixpoint dot_list (a b : list S) : S :=
    match a, b with
    | x :: a', y :: b' => sadd (smul x y) (dot_list a' b')
    | _, _ => s0
    end.
  Definition kinetic (qvel mqvel : list S) : S := smul (slit 1 2) (dot_list qvel mqvel).
  (* dense M as a list of rows *)
  Definition mat_vec_rows (M : list (list S)) (v : list S) : list S := map (fun r => dot_list r v) M.
  Definition quad_form (M : list (list S)) (v : list S) : S := dot_list v (mat_vec_rows M v).

  (* meaning of the writes the potential-energy kernels emit on the vec2 energy[world]:
     component store [w; 0] KSet, atomic_sub / atomic_add of a vec2 at [w] *)
  Definition energy_apply (w : Z) (e : S * S) (x : write S) : S * S :=
    if negb (String.eqb (w_arr x) "energy_out") then e
    else match w_idx x, w_kind x, w_val x with
         | [w'; 0], KSet, VS v => if Z.eqb w' w then (v, snd e) else e
         | [w'; 1], KSet, VS v => if Z.eqb w' w then (fst e, v) else e
         | [w'], KAdd, VV [a; b] => if Z.eqb w' w then (sadd (fst e) a, sadd (snd e) b) else e
         | [w'], KSub, VV [a; b] => if Z.eqb w' w then (ssub (fst e) a, ssub (snd e) b) else e
         | _, _, _ => e
         end.
  Definition energy_run (w : Z) (e : S * S) (ws : list (write S)) : S * S := fold_left (energy_apply w) ws e.
End Energy.
