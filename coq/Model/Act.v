(* Model/Act.v -- hand-written executable model of the actuation kernels of
   /repo/mujoco_warp/_src/forward.py (C03).  Definitions only.

   What is copied (line numbers of forward.py at the time of writing):

   * `_actuator_force`, scalar core for ONE actuator `uid` of ONE world, for every
     dyntype / gaintype / biastype EXCEPT the DC-motor ones (DynType.DCMOTOR = 5,
     GainType.DCMOTOR = 3, BiasType.DCMOTOR = 3).  DynType.USER with actearly is covered: since
     /repo 9478e66 the actearly block reads act = act_in[act_last] for USER too (before that fix the
     kernel passed an unassigned local to next_act; regression case kept in bin/props/C03.py):

        ctrl = ctrl_in[uid]
        if ctrllimited[uid] and not dsbl_clampctrl: ctrl = clamp(ctrl, ctrlrange[0], ctrlrange[1])
        ctrl_act = ctrl
        if na and actadr[uid] >= 0:
          INTEGRATOR: act_dot = ctrl
          FILTER / FILTEREXACT: act_dot = (ctrl - act) / max(dynprm[0], MINVAL)
          MUSCLE: act_dot = muscle_dynamics(ctrl, act, dynprm)      (T-translated, Gen/util_misc.v)
          USER / NONE: act_dot = 0
          act_dot_out[act_last] = act_dot
          ctrl_act = next_act(h, dyntype, dynprm, actrange, act, act_dot, 1.0, actlimited)  if actearly
                     act                                                                    otherwise
        gain  = FIXED: gainprm[0]; AFFINE: gainprm[0] + gainprm[1]*length + gainprm[2]*velocity;
                MUSCLE: muscle_gain(length, velocity, lengthrange, acc0, gainprm); USER: 0
        bias  = AFFINE: biasprm[0] + biasprm[1]*length + biasprm[2]*velocity;
                MUSCLE: muscle_bias(length, lengthrange, acc0, biasprm); NONE / USER: 0
        force = gain * ctrl_act + bias
        if forcelimited: force = clamp(force, forcerange[0], forcerange[1])

     where act = act_in[actadr + actnum - 1] in every branch that uses it (filter/muscle read it for
     act_dot, the actearly block for INTEGRATOR/NONE/DCMOTOR/USER; the harness reads it; any value
     when there is no activation).  `next_act`, `muscle_*` are the machine-translated functions.

   * `_next_activation`, non-DC-motor branch, one activation slot:
        act_out[j] = next_act(h, dyntype, dynprm, actrange, act_in[j], act_dot_in[j], act_dot_scale,
                              limit and actlimited)

   * `_tendon_actuator_force` + `_tendon_actuator_force_clamp` for one world: the
     atomic sums run in ascending actuator order on the CPU device (over R the order is immaterial).

   * `_qfrc_actuator_gravcomp_limits` for one dof.

   The correspondence (bin/props/C03.py) runs these definitions at binary64 inside Coq against
   mjw.fwd_actuation / the private kernels on generated actuator sets. *)
From Coq Require Import ZArith List Bool.
From VF Require Import Base.Scalar Base.Vec Base.Loop Gen.support_act Gen.util_misc.
Import ListNotations.
Local Open Scope Z_scope.

Section Act.
Context {S : Type} `{Scalar S}.

(* types.MJ_MINVAL = mujoco.mjMINVAL = 1e-15 *)
Definition MINVAL : S := slit 1 1000000000000000.

(* enum values (types.DynType / GainType / BiasType / TrnType mirror mujoco's) *)
Definition DYN_NONE := 0.  Definition DYN_INTEGRATOR := 1.  Definition DYN_FILTER := 2.
Definition DYN_FILTEREXACT := 3.  Definition DYN_MUSCLE := 4.  Definition DYN_DCMOTOR := 5.
Definition DYN_USER := 7.
Definition GAIN_FIXED := 0.  Definition GAIN_AFFINE := 1.  Definition GAIN_MUSCLE := 2.
Definition GAIN_DCMOTOR := 3.
Definition BIAS_NONE := 0.  Definition BIAS_AFFINE := 1.  Definition BIAS_MUSCLE := 2.
Definition BIAS_DCMOTOR := 3.
Definition TRN_TENDON := 3.

(* per-actuator model parameters, as the kernel reads them from Model *)
Record ActPrm := mkActPrm {
  p_dyntype : Z; p_gaintype : Z; p_biastype : Z;
  p_actadr : Z;                       (* actuator_actadr[uid]; -1 = stateless *)
  p_dynprm : list S; p_gainprm : list S; p_biasprm : list S;     (* vec10 *)
  p_actlimited : bool; p_actrange : list S;
  p_actearly : bool;
  p_forcelimited : bool; p_forcerange : list S;
  p_ctrllimited : bool; p_ctrlrange : list S;
  p_acc0 : S; p_lengthrange : list S;
}.

(* the control the kernel uses: clamped unless disabled.  dsbl = disableflags & CLAMPCTRL (an int) *)
Definition ctrl_used (ctrllimited : bool) (dsbl : Z) (ctrlrange : list S) (ctrl : S) : S :=
  if ctrllimited && (dsbl =? 0) then sclamp ctrl (vget ctrlrange 0) (vget ctrlrange 1) else ctrl.

(* activation derivative by dyntype (non-DC-motor) *)
Definition act_dot_of (dyntype : Z) (dynprm : list S) (ctrl act : S) : S :=
  if dyntype =? DYN_INTEGRATOR then ctrl
  else if (dyntype =? DYN_FILTER) || (dyntype =? DYN_FILTEREXACT) then
    sdiv (ssub ctrl act) (smax (vget dynprm 0) MINVAL)
  else if dyntype =? DYN_MUSCLE then muscle_dynamics ctrl act dynprm
  else s0.

Definition has_act (na : Z) (p : ActPrm) : bool := negb (na =? 0) && (0 <=? p_actadr p).

(* the value that multiplies the gain *)
Definition ctrl_act_of (na : Z) (h : S) (p : ActPrm) (ctrl act : S) : S :=
  if has_act na p then
    if p_actearly p then
      next_act h (p_dyntype p) (p_dynprm p) (p_actrange p) act
               (act_dot_of (p_dyntype p) (p_dynprm p) ctrl act) s1 (p_actlimited p)
    else act
  else ctrl.

Definition gain_of (p : ActPrm) (length velocity : S) : S :=
  let g := p_gainprm p in
  if p_gaintype p =? GAIN_FIXED then vget g 0
  else if p_gaintype p =? GAIN_AFFINE then
    sadd (sadd (vget g 0) (smul (vget g 1) length)) (smul (vget g 2) velocity)
  else if p_gaintype p =? GAIN_MUSCLE then muscle_gain length velocity (p_lengthrange p) (p_acc0 p) g
  else s0.

Definition bias_of (p : ActPrm) (length velocity : S) : S :=
  let b := p_biasprm p in
  if p_biastype p =? BIAS_AFFINE then
    sadd (sadd (vget b 0) (smul (vget b 1) length)) (smul (vget b 2) velocity)
  else if p_biastype p =? BIAS_MUSCLE then muscle_bias length (p_lengthrange p) (p_acc0 p) b
  else s0.

Definition force_clamp (p : ActPrm) (f : S) : S :=
  if p_forcelimited p then sclamp f (vget (p_forcerange p) 0) (vget (p_forcerange p) 1) else f.

(* everything after the control clamp, as a function of the control actually used *)
Definition force_after_clamp (na : Z) (h : S) (p : ActPrm) (c act length velocity : S) : S :=
  force_clamp p (sadd (smul (gain_of p length velocity) (ctrl_act_of na h p c act)) (bias_of p length velocity)).

(* actuator_force_out[uid] *)
Definition act_force (na : Z) (h : S) (dsbl : Z) (p : ActPrm) (ctrl act length velocity : S) : S :=
  force_after_clamp na h p (ctrl_used (p_ctrllimited p) dsbl (p_ctrlrange p) ctrl) act length velocity.

(* act_dot_out[act_last] (written only when has_act) *)
Definition act_dot_out (dsbl : Z) (p : ActPrm) (ctrl act : S) : S :=
  act_dot_of (p_dyntype p) (p_dynprm p) (ctrl_used (p_ctrllimited p) dsbl (p_ctrlrange p) ctrl) act.

(* [act_dot (0 when nothing is written); force] : the shape compared by the correspondence *)
Definition act_kernel (na : Z) (h : S) (dsbl : Z) (p : ActPrm) (ctrl act length velocity : S) : list S :=
  [ (if has_act na p then act_dot_out dsbl p ctrl act else s0);
    act_force na h dsbl p ctrl act length velocity ].

(* the configurations the model covers *)
Definition modelled (p : ActPrm) : bool :=
  negb (p_dyntype p =? DYN_DCMOTOR) && negb (p_gaintype p =? GAIN_DCMOTOR) && negb (p_biastype p =? BIAS_DCMOTOR).

(* _next_activation, non-DC-motor branch, one slot *)
Definition next_activation (h : S) (p : ActPrm) (act act_dot act_dot_scale : S) (limit : bool) : S :=
  next_act h (p_dyntype p) (p_dynprm p) (p_actrange p) act act_dot act_dot_scale (limit && p_actlimited p).

(* ---- tendon total force and clamp (one world) --------------------------------------
   trn : per actuator (trntype, trnid[0]);  force : per actuator;  limited/range : per tendon *)
Definition ten_total (trn : list (Z * Z)) (force : list S) (tenid : Z) : S :=
  fold_left (fun acc tf => let '((ty, id), f) := tf in
               if (ty =? TRN_TENDON) && (id =? tenid) then sadd acc f else acc)
            (combine trn force) s0.

Definition ten_scale (lo hi tot f : S) : S :=
  if sltb tot lo then smul f (sdiv lo tot)
  else if sgtb tot hi then smul f (sdiv hi tot)
  else f.

Definition ten_clamp_one (limited : Z -> bool) (range : Z -> list S) (tot : Z -> S) (tyid : Z * Z) (f : S) : S :=
  let '(ty, id) := tyid in
  if ty =? TRN_TENDON then
    if limited id then ten_scale (vget (range id) 0) (vget (range id) 1) (tot id) f else f
  else f.

Definition ten_clamp (limited : Z -> bool) (range : Z -> list S) (trn : list (Z * Z)) (force : list S) : list S :=
  let tot := ten_total trn force in
  map (fun tf => ten_clamp_one limited range tot (fst tf) (snd tf)) (combine trn force).

(* list-backed lookups for the case files *)
Definition lookb (l : list bool) (i : Z) : bool := nth (Z.to_nat i) l false.
Definition lookv (l : list (list S)) (i : Z) : list S := nth (Z.to_nat i) l [].

(* ---- joint-level gravity compensation and force limit (one dof) ----------------------- *)
Definition qfrc_limit (gravity_enabled : bool) (actgravcomp : Z) (limited : bool) (range : list S)
                      (gravcomp qfrc : S) : S :=
  let q := if gravity_enabled && negb (actgravcomp =? 0) then sadd qfrc gravcomp else qfrc in
  if limited then sclamp q (vget range 0) (vget range 1) else q.

(* ---- dcmotor_slots (util_misc.py; the translator rejects its integer vector) ------------
   used only to run the function against the real one; no theorem depends on it *)
Definition dcmotor_slots_model (dynprm gainprm : list S) : list Z :=
  let step (c : bool) (st : Z * list Z) : Z * list Z :=
    let '(n, acc) := st in if c then (n + 1, acc ++ [n]) else (n, acc ++ [-1]) in
  let st := (0, []) in
  let st := step (sgtb (vget dynprm 7) s0) st in
  let st := step (sgtb (vget gainprm 5) s0) st in
  let st := step (sgtb (vget dynprm 2) s0) st in
  let st := step (sgtb (vget dynprm 5) s0) st in
  let st := step (sgtb (vget dynprm 0) s0) st in
  snd st ++ [fst st].

End Act.
