(* Model/Island.v -- executable transcription of /repo/mujoco_warp/_src/island.py
   (one world; the kernels never mix worlds: every access is [worldid, ...]).

   Transcribed kernels / host functions
     _tree_edges + tree_edges            -> row_kind, row_marks, tree_edges_task, tree_edges
     _flood_fill + flood_fill            -> push_neighbors, dfs_step, dfs_loop, ff_outer, flood_fill
     island                              -> island
     _compute_efc_tree                   -> efc_tree_of, compute_efc_tree
     _init_*_arrays, _island_count_dofs, _island_count_constraints, _island_scan_sizes,
     _island_map_dofs, _island_map_constraints, compute_island_mapping
                                         -> count_dofs_task, count_efc_task, scan_sizes,
                                            map_dofs_task, map_efc_task, island_mapping

   Conventions
   * Arrays are lists of Z, read with getZ and written with setZ (2-D: get2/set2 on a list of
     rows).  Every index the kernels form is in range for well-formed inputs (tree ids in
     [-1,ntree), -1 always guarded by the code before indexing), so Warp's wrap-around of
     negative indices is never exercised; the model is claimed only for in-range inputs.
     setZ outside the array is a no-op here (in the real code it would be a memory error):
     Proof/Island.v proves that the stack writes of _flood_fill stay inside ntree*ntree.
   * A launch is a fold of the per-task function over the list of task ids (the schedule).
     Warp's CPU backend runs tasks in ascending tid order = zrange dim.  Theorems quantify over
     every Permutation of that list; atomics are single indivisible read-modify-writes, which
     is exactly what a sequential fold over some order gives.
   * labels_in / tree_island_out of _flood_fill are the same array (d.tree_island), and
     stack_in / stack_out are the same scratch array: one `lab`, one `stk` here.
   * wp.empty scratch (stack, efc_tree before _init_efc_arrays) is an arbitrary input list.
   * Dense Jacobian rows enter only through the test `J_val == 0.0`; J_nz holds 0 where the
     test is true and a non-zero integer where it is false. *)
From Coq Require Import ZArith List Bool.
Import ListNotations.
Local Open Scope Z_scope.

(* ---------- arrays ---------- *)
Definition getZ (l : list Z) (i : Z) : Z := nth (Z.to_nat i) l 0.

Fixpoint upd {A : Type} (k : nat) (v : A) (l : list A) : list A :=
  match l with
  | [] => []
  | x :: t => match k with O => v :: t | S k' => x :: upd k' v t end
  end.

Definition setZ (l : list Z) (i v : Z) : list Z := if i <? 0 then l else upd (Z.to_nat i) v l.

Definition mrow (m : list (list Z)) (i : Z) : list Z := nth (Z.to_nat i) m [].
Definition get2 (m : list (list Z)) (i j : Z) : Z := getZ (mrow m i) j.
Definition set2 (m : list (list Z)) (i j v : Z) : list (list Z) :=
  if i <? 0 then m else upd (Z.to_nat i) (setZ (mrow m i) j v) m.

Definition zrange2 (lo hi : Z) : list Z := map Z.of_nat (seq (Z.to_nat lo) (Z.to_nat (hi - lo))).
Definition zrange (n : Z) : list Z := zrange2 0 n.
Definition zfill (n v : Z) : list Z := repeat v (Z.to_nat n).
Definition zeros2 (n : Z) : list (list Z) := repeat (zfill n 0) (Z.to_nat n).
Definition incr (l : list Z) (i : Z) : list Z := setZ l i (getZ l i + 1).

(* ---------- enum values (types.py; checked against the real enums by bin/props/C28.py) ---------- *)
Definition EQUALITY := 0.
Definition FRICTION_DOF := 1.
Definition FRICTION_TENDON := 2.
Definition LIMIT_JOINT := 3.
Definition LIMIT_TENDON := 4.
Definition CONTACT_FRICTIONLESS := 5.
Definition CONTACT_PYRAMIDAL := 6.
Definition CONTACT_ELLIPTIC := 7.
Definition EQ_CONNECT := 0.
Definition EQ_WELD := 1.
Definition OBJ_SITE := 6.

(* ---------- inputs of the edge kernels ---------- *)
Record EModel := mkEModel {
  m_nv : Z;
  body_treeid : list Z;
  jnt_dofadr : list Z;
  dof_treeid : list Z;
  geom_bodyid : list Z;
  site_bodyid : list Z;
  eq_type : list Z;
  eq_obj1id : list Z;
  eq_obj2id : list Z;
  eq_objtype : list Z;
  is_sparse : bool
}.

Record EData := mkEData {
  d_nefc : Z;
  d_njmax : Z;
  contact_geom : list (Z * Z);
  efc_type : list Z;
  efc_id : list Z;
  J_rownnz : list Z;
  J_rowadr : list Z;
  J_colind : list Z;          (* efc_J_colind[worldid, 0, :] *)
  J_nz : list (list Z)        (* dense: J_nz[efcid][dof] = 0 iff efc_J[worldid, efcid, dof] == 0.0 *)
}.

(* `if efcid >= wp.min(njmax_in, nefc_in[worldid]): return` *)
Definition efc_active (d : EData) (efcid : Z) : bool := efcid <? Z.min (d_njmax d) (d_nefc d).

(* how a row is treated: two bodies, one dof, or the generic Jacobian scan *)
Inductive RowKind := RPair (t0 t1 : Z) | RSingle (t0 : Z) | RGeneric.

Definition is_contact (ty : Z) : bool :=
  (ty =? CONTACT_FRICTIONLESS) || (ty =? CONTACT_PYRAMIDAL) || (ty =? CONTACT_ELLIPTIC).

(* the if/elif chain shared (textually duplicated) by _tree_edges and _compute_efc_tree *)
Definition row_kind (m : EModel) (d : EData) (efcid : Z) : RowKind :=
  let ty := getZ (efc_type d) efcid in
  let id := getZ (efc_id d) efcid in
  if ty =? EQUALITY then
    let eqt := getZ (eq_type m) id in
    if (eqt =? EQ_CONNECT) || (eqt =? EQ_WELD) then
      let b1 := getZ (eq_obj1id m) id in
      let b2 := getZ (eq_obj2id m) id in
      let site := getZ (eq_objtype m) id =? OBJ_SITE in
      let b1' := if site then getZ (site_bodyid m) b1 else b1 in
      let b2' := if site then getZ (site_bodyid m) b2 else b2 in
      RPair (getZ (body_treeid m) b1') (getZ (body_treeid m) b2')
    else RGeneric
  else if ty =? FRICTION_DOF then RSingle (getZ (dof_treeid m) id)
  else if ty =? LIMIT_JOINT then RSingle (getZ (dof_treeid m) (getZ (jnt_dofadr m) id))
  else if is_contact ty then
    let gp := nth (Z.to_nat id) (contact_geom d) (0, 0) in
    if (0 <=? fst gp) && (0 <=? snd gp) then
      RPair (getZ (body_treeid m) (getZ (geom_bodyid m) (fst gp)))
            (getZ (body_treeid m) (getZ (geom_bodyid m) (snd gp)))
    else RGeneric
  else RGeneric.

(* dofs visited by `for i in range(count)` that survive the `J_val == 0.0: continue` test *)
Definition scan_dofs (m : EModel) (d : EData) (efcid : Z) : list Z :=
  if is_sparse m then
    map (fun i => getZ (J_colind d) (getZ (J_rowadr d) efcid + i)) (zrange (getZ (J_rownnz d) efcid))
  else
    filter (fun dof => negb (get2 (J_nz d) efcid dof =? 0)) (zrange (m_nv m)).

Definition scan_trees (m : EModel) (d : EData) (efcid : Z) : list Z :=
  map (getZ (dof_treeid m)) (scan_dofs m d efcid).

(* cells marked by the non-generic branch ("handle static bodies") *)
Definition pair_marks (t0 t1 : Z) : list (Z * Z) :=
  let swap := (t0 <? 0) && (0 <=? t1) in
  let a := if swap then t1 else t0 in
  let b := if swap then -1 else t1 in
  if 0 <=? a then
    if (b <? 0) || (a =? b) then [(a, a)]
    else [(Z.min a b, Z.max a b); (Z.max a b, Z.min a b)]
  else [].

(* generic branch: state (first_tree, has_cross_edge) and the cells marked so far *)
Definition generic_step (st : Z * bool * list (Z * Z)) (tree : Z) : Z * bool * list (Z * Z) :=
  let '(first, cross, ms) := st in
  if tree <? 0 then st
  else if first =? -1 then (tree, cross, ms)
  else if negb (tree =? first) then
    (first, true, ms ++ [(Z.min first tree, Z.max first tree); (Z.max first tree, Z.min first tree)])
  else st.

Definition generic_marks (trees : list Z) : list (Z * Z) :=
  let '(first, cross, ms) := fold_left generic_step trees (-1, false, []) in
  if (0 <=? first) && negb cross then ms ++ [(first, first)] else ms.

(* cells on which task efcid performs wp.atomic_max(tree_tree, ., ., 1), in program order *)
Definition row_marks (m : EModel) (d : EData) (efcid : Z) : list (Z * Z) :=
  if efc_active d efcid then
    match row_kind m d efcid with
    | RPair t0 t1 => pair_marks t0 t1
    | RSingle t0 => pair_marks t0 (-1)
    | RGeneric => generic_marks (scan_trees m d efcid)
    end
  else [].

(* wp.atomic_max(tree_tree, worldid, i, j, 1) *)
Definition mark (tt : list (list Z)) (p : Z * Z) : list (list Z) :=
  set2 tt (fst p) (snd p) (Z.max (get2 tt (fst p) (snd p)) 1).

Definition tree_edges_task (m : EModel) (d : EData) (tt : list (list Z)) (efcid : Z) : list (list Z) :=
  fold_left mark (row_marks m d efcid) tt.

(* tree_edges: tree_tree.zero_() then the launch with dim njmax, tasks in order `sched` *)
Definition tree_edges (m : EModel) (d : EData) (ntree : Z) (sched : list Z) : list (list Z) :=
  fold_left (tree_edges_task m d) sched (zeros2 ntree).

(* ---------- _flood_fill ---------- *)
(* lab = labels_in = tree_island_out; stk = stack_in = stack_out (ntree*ntree ints, wp.empty);
   ns = nstack.  `bad` is a ghost flag, not a kernel variable: it is raised when a stack write
   falls outside the scratch array (memory corruption in the real kernel; a no-op here) or when
   the model's fuel cuts the `while` loop.  flood_fill_safe proves it stays false. *)
Record FF := mkFF { lab : list Z; stk : list Z; ns : Z; bad : bool }.

Definition in_array (l : list Z) (i : Z) : bool := (0 <=? i) && (i <? Z.of_nat (length l)).

(* `for neighbor in range(ntree): if tree_tree[v, neighbor] != 0: if labels[neighbor] == -1: push` *)
Definition push_step (adj : list (list Z)) (v : Z) (s : FF) (nb : Z) : FF :=
  if negb (get2 adj v nb =? 0) then
    if getZ (lab s) nb =? -1 then
      mkFF (lab s) (setZ (stk s) (ns s) nb) (ns s + 1) (bad s || negb (in_array (stk s) (ns s)))
    else s
  else s.

(* one iteration of `while nstack > 0` *)
Definition dfs_step (n : Z) (adj : list (list Z)) (isl : Z) (s : FF) : FF :=
  let ns1 := ns s - 1 in
  let v := getZ (stk s) ns1 in
  if negb (getZ (lab s) v =? -1) then mkFF (lab s) (stk s) ns1 (bad s)
  else fold_left (push_step adj v) (zrange n) (mkFF (setZ (lab s) v isl) (stk s) ns1 (bad s)).

Fixpoint dfs_loop (fuel : nat) (n : Z) (adj : list (list Z)) (isl : Z) (s : FF) : FF :=
  match fuel with
  | O => mkFF (lab s) (stk s) (ns s) (bad s || (0 <? ns s))
  | S f => if 0 <? ns s then dfs_loop f n adj isl (dfs_step n adj isl s) else s
  end.

(* `for j in range(ntree): if tree_tree[i, j] != 0: has_edge = 1; break` *)
Definition has_edge (n : Z) (adj : list (list Z)) (i : Z) : bool :=
  existsb (fun j => negb (get2 adj i j =? 0)) (zrange n).

Definition ff_fuel (n : Z) : nat := Z.to_nat (n * n + n).

(* body of `for i in range(ntree)`; state = (labels/stack/nstack left by the last DFS, nisland) *)
Definition ff_outer (n : Z) (adj : list (list Z)) (st : FF * Z) (i : Z) : FF * Z :=
  let s := fst st in
  let nisland := snd st in
  if negb (getZ (lab s) i =? -1) then st
  else if negb (has_edge n adj i) then st
  else (dfs_loop (ff_fuel n) n adj nisland
          (mkFF (lab s) (setZ (stk s) 0 i) 1 (bad s || negb (in_array (stk s) 0))), nisland + 1).

(* flood_fill: d.tree_island.fill_(-1); stack_scratch = wp.empty(ntree*ntree) = stk0 (arbitrary) *)
Definition flood_fill (n : Z) (adj : list (list Z)) (stk0 : list Z) : FF * Z :=
  fold_left (ff_outer n adj) (zrange n) (mkFF (zfill n (-1)) stk0 0 false, 0).

Definition ff_labels (n : Z) (adj : list (list Z)) (stk0 : list Z) : list Z := lab (fst (flood_fill n adj stk0)).
Definition ff_nisland (n : Z) (adj : list (list Z)) (stk0 : list Z) : Z := snd (flood_fill n adj stk0).
Definition ff_bad (n : Z) (adj : list (list Z)) (stk0 : list Z) : bool := bad (fst (flood_fill n adj stk0)).

(* island(): (tree_island, nisland); ntree = 0 launches _zero_island_counts instead *)
Definition island (m : EModel) (d : EData) (ntree : Z) (sched : list Z) (stk0 : list Z) : list Z * Z :=
  if ntree =? 0 then ([], 0)
  else
    let r := flood_fill ntree (tree_edges m d ntree sched) stk0 in
    (lab (fst r), snd r).

(* ---------- _compute_efc_tree ---------- *)
Fixpoint first_nonneg (l : list Z) : Z :=
  match l with [] => -1 | t :: r => if 0 <=? t then t else first_nonneg r end.

Definition efc_tree_of (m : EModel) (d : EData) (efcid : Z) : Z :=
  match row_kind m d efcid with
  | RPair t1 t2 => if 0 <=? t1 then t1 else t2
  | RSingle t => t
  | RGeneric => first_nonneg (scan_trees m d efcid)
  end.

Definition efc_tree_task (m : EModel) (d : EData) (et : list Z) (efcid : Z) : list Z :=
  if efc_active d efcid then setZ et efcid (efc_tree_of m d efcid) else et.

(* _init_efc_arrays sets efc_tree to -1 (length njmax), then the launch *)
Definition compute_efc_tree (m : EModel) (d : EData) (sched : list Z) : list Z :=
  fold_left (efc_tree_task m d) sched (zfill (d_njmax d) (-1)).

(* ---------- compute_island_mapping ---------- *)
(* _island_count_dofs: state (dof_island, island_nv) *)
Definition count_dofs_task (dof_tree tree_island : list Z) (st : list Z * list Z) (dofid : Z) : list Z * list Z :=
  let isl := getZ tree_island (getZ dof_tree dofid) in
  (setZ (fst st) dofid isl, if 0 <=? isl then incr (snd st) isl else snd st).

(* _island_count_constraints *)
Record CC := mkCC { cc_island : list Z; cc_nefc : list Z; cc_ne : list Z; cc_nf : list Z }.

Definition is_fric (ty : Z) : bool := (ty =? FRICTION_DOF) || (ty =? FRICTION_TENDON).

Definition count_efc_task (na : Z) (efc_tree tree_island etype : list Z) (st : CC) (efcid : Z) : CC :=
  if negb (efcid <? na) then st
  else
    let t := getZ efc_tree efcid in
    if t <? 0 then mkCC (setZ (cc_island st) efcid (-1)) (cc_nefc st) (cc_ne st) (cc_nf st)
    else
      let isl := getZ tree_island t in
      let ei := setZ (cc_island st) efcid isl in
      if 0 <=? isl then
        let ty := getZ etype efcid in
        mkCC ei (incr (cc_nefc st) isl)
             (if ty =? EQUALITY then incr (cc_ne st) isl else cc_ne st)
             (if ty =? EQUALITY then cc_nf st else if is_fric ty then incr (cc_nf st) isl else cc_nf st)
      else mkCC ei (cc_nefc st) (cc_ne st) (cc_nf st).

(* _island_scan_sizes (one task per world) *)
Record SS := mkSS { ss_idofadr : list Z; ss_nv : list Z; ss_nefc : list Z; ss_iefcadr : list Z; ss_nidof : Z }.

Definition scan_step (nv_ nefc_ : list Z) (ab : list Z * list Z) (i : Z) : list Z * list Z :=
  (setZ (fst ab) i (getZ (fst ab) (i - 1) + getZ nv_ (i - 1)),
   setZ (snd ab) i (getZ (snd ab) (i - 1) + getZ nefc_ (i - 1))).

Definition scan_sizes (nisland : Z) (s : SS) : SS :=
  if nisland =? 0 then mkSS (ss_idofadr s) (ss_nv s) (ss_nefc s) (ss_iefcadr s) 0
  else
    let ab := fold_left (scan_step (ss_nv s) (ss_nefc s)) (zrange2 1 nisland)
                        (setZ (ss_idofadr s) 0 0, setZ (ss_iefcadr s) 0 0) in
    let nidof := getZ (fst ab) (nisland - 1) + getZ (ss_nv s) (nisland - 1) in
    let clear := fun l => fold_left (fun l i => setZ l i 0) (zrange nisland) l in
    mkSS (fst ab) (clear (ss_nv s)) (clear (ss_nefc s)) (snd ab) nidof.

(* _island_map_dofs *)
Record MD := mkMD { md_nv : list Z; md_dofadr : list Z; md_d2i : list Z; md_i2d : list Z; md_iid : list Z; md_ucnt : Z }.

Definition map_dofs_task (dof_island idofadr : list Z) (nidof : Z) (st : MD) (dofid : Z) : MD :=
  let isl := getZ dof_island dofid in
  if 0 <=? isl then
    let local := getZ (md_nv st) isl in                       (* atomic_add returns the old value *)
    let idof := getZ idofadr isl + local in
    mkMD (setZ (md_nv st) isl (local + 1))
         (setZ (md_dofadr st) isl (Z.min (getZ (md_dofadr st) isl) dofid))   (* atomic_min *)
         (setZ (md_d2i st) dofid idof)
         (setZ (md_i2d st) idof dofid)
         (setZ (md_iid st) idof isl)
         (md_ucnt st)
  else
    let idof := nidof + md_ucnt st in
    mkMD (md_nv st) (md_dofadr st) (setZ (md_d2i st) dofid idof) (setZ (md_i2d st) idof dofid) (md_iid st)
         (md_ucnt st + 1).

(* _island_map_constraints *)
Record MC := mkMC { mc_ne : list Z; mc_nf : list Z; mc_no : list Z; mc_nefc : list Z;
                    mc_e2i : list Z; mc_i2e : list Z; mc_iid : list Z }.

Definition map_efc_task (na : Z) (efc_island iefcadr ne nf etype : list Z) (st : MC) (efcid : Z) : MC :=
  if negb (efcid <? na) then st
  else
    let isl := getZ efc_island efcid in
    if 0 <=? isl then
      let ty := getZ etype efcid in
      let iseq := ty =? EQUALITY in
      let isfr := negb iseq && is_fric ty in
      let isot := negb iseq && negb (is_fric ty) in
      let ic :=
        if iseq then getZ iefcadr isl + getZ (mc_ne st) isl
        else if isfr then getZ iefcadr isl + getZ ne isl + getZ (mc_nf st) isl
        else getZ iefcadr isl + getZ ne isl + getZ nf isl + getZ (mc_no st) isl in
      mkMC (if iseq then incr (mc_ne st) isl else mc_ne st)
           (if isfr then incr (mc_nf st) isl else mc_nf st)
           (if isot then incr (mc_no st) isl else mc_no st)
           (incr (mc_nefc st) isl)
           (setZ (mc_e2i st) efcid ic)
           (setZ (mc_i2e st) ic efcid)
           (setZ (mc_iid st) ic isl)
    else st.

(* everything compute_island_mapping leaves in Data *)
Record IMap := mkIMap {
  o_dof_island : list Z; o_island_nv : list Z; o_island_idofadr : list Z; o_island_dofadr : list Z; o_nidof : Z;
  o_map_dof2idof : list Z; o_map_idof2dof : list Z; o_dof_islandid : list Z;
  o_efc_island : list Z; o_island_nefc : list Z; o_island_ne : list Z; o_island_nf : list Z; o_island_iefcadr : list Z;
  o_map_efc2iefc : list Z; o_map_iefc2efc : list Z; o_efc_islandid : list Z
}.

(* dof half: _init_island_arrays/_init_dof_arrays, _island_count_dofs (schedule s_cd), scan,
   island_dofadr.fill_(nv), _island_map_dofs (schedule s_md).  The scan also needs island_nefc,
   so the two halves are joined in island_mapping below. *)
Definition island_mapping
    (nv ntree njmax nefc nisland : Z) (dof_tree tree_island efc_tree etype : list Z)
    (s_cd s_cc s_md s_mc : list Z) : IMap :=
  let na := Z.min njmax nefc in
  (* init kernels *)
  let z := zfill ntree 0 in
  (* 1. count dofs *)
  let cd := fold_left (count_dofs_task dof_tree tree_island) s_cd (zfill nv (-1), z) in
  (* 2. count constraints *)
  let cc := fold_left (count_efc_task na efc_tree tree_island etype) s_cc (mkCC (zfill njmax (-1)) z z z) in
  (* 3. scan *)
  let ss := scan_sizes nisland (mkSS z (snd cd) (cc_nefc cc) z 0) in
  (* 4. map dofs *)
  let md := fold_left (map_dofs_task (fst cd) (ss_idofadr ss) (ss_nidof ss)) s_md
              (mkMD (ss_nv ss) (zfill ntree nv) (zfill nv 0) (zfill nv 0) (zfill nv (-1)) 0) in
  (* 5. map constraints *)
  let mc := fold_left (map_efc_task na (cc_island cc) (ss_iefcadr ss) (cc_ne cc) (cc_nf cc) etype) s_mc
              (mkMC z z z (ss_nefc ss) (zfill njmax 0) (zfill njmax 0) (zfill njmax (-1))) in
  mkIMap (fst cd) (md_nv md) (ss_idofadr ss) (md_dofadr md) (ss_nidof ss)
         (md_d2i md) (md_i2d md) (md_iid md)
         (cc_island cc) (mc_nefc mc) (cc_ne cc) (cc_nf cc) (ss_iefcadr ss)
         (mc_e2i mc) (mc_i2e mc) (mc_iid mc).

(* flat view used by the correspondence cases *)
Definition flat2 (m : list (list Z)) : list Z := concat m.

Definition imap_flat (r : IMap) : list Z :=
  o_dof_island r ++ o_island_nv r ++ o_island_idofadr r ++ o_island_dofadr r ++ [o_nidof r]
  ++ o_map_dof2idof r ++ o_map_idof2dof r ++ o_dof_islandid r
  ++ o_efc_island r ++ o_island_nefc r ++ o_island_ne r ++ o_island_nf r ++ o_island_iefcadr r
  ++ o_map_efc2iefc r ++ o_map_iefc2efc r ++ o_efc_islandid r.

(* whole pipeline with Warp's CPU schedule (ascending task ids), flattened in the order used by
   bin/props/C28.py: tree_tree, tree_island, nisland, efc_tree, then every map array *)
Definition pipeline_flat (m : EModel) (d : EData) (ntree : Z) : list Z :=
  let sched := zrange (d_njmax d) in
  let dsched := zrange (m_nv m) in
  let tt := tree_edges m d ntree sched in
  let isl := island m d ntree sched (zfill (ntree * ntree) 0) in
  let et := compute_efc_tree m d sched in
  let im := island_mapping (m_nv m) ntree (d_njmax d) (d_nefc d) (snd isl) (dof_treeid m) (fst isl) et (efc_type d)
                           dsched sched dsched sched in
  flat2 tt ++ fst isl ++ [snd isl] ++ et ++ imap_flat im.

Definition flood_flat (n : Z) (adj : list (list Z)) (stk0 : list Z) : list Z :=
  let r := flood_fill n adj stk0 in
  lab (fst r) ++ [snd r; if bad (fst r) then 1 else 0] ++ stk (fst r).

(* ---------- vocabulary of the specification (Props/C28.v) ---------- *)
Definition inr (n a : Z) : Prop := 0 <= a < n.
Definition edge (adj : list (list Z)) (a b : Z) : Prop := get2 adj a b <> 0.
Definition sym_adj (n : Z) (adj : list (list Z)) : Prop :=
  forall a b, inr n a -> inr n b -> edge adj a b -> edge adj b a.
(* a, b joined by a path of edges through trees in range *)
Inductive conn (n : Z) (adj : list (list Z)) : Z -> Z -> Prop :=
| conn_refl : forall a, inr n a -> conn n adj a a
| conn_step : forall a b c, conn n adj a b -> inr n c -> edge adj b c -> conn n adj a c.
(* some constraint row involves tree a *)
Definition touched (n : Z) (adj : list (list Z)) (a : Z) : Prop := exists j, inr n j /\ edge adj a j.
Definition square (n : Z) (m : list (list Z)) : Prop :=
  length m = Z.to_nat n /\ Forall (fun r => length r = Z.to_nat n) m.
(* number of entries x of l with p x *)
Definition cntf (p : Z -> bool) (l : list Z) : Z := Z.of_nat (length (filter p l)).

(* number of off-diagonal non-zero cells of row v / of the whole adjacency (directed edge count) *)
Definition zsum (l : list Z) : Z := fold_right Z.add 0 l.
Definition row_deg (n : Z) (adj : list (list Z)) (v : Z) : Z :=
  cntf (fun w => negb (get2 adj v w =? 0) && negb (w =? v)) (zrange n).
Definition nnz_off (n : Z) (adj : list (list Z)) : Z := zsum (map (row_deg n adj) (zrange n)).

(* island of a dof / of a constraint row as the mapping kernels see it, and the row's category
   (0 equality, 1 friction, 2 everything else) *)
Definition dof_isl (dof_tree tree_island : list Z) (d : Z) : Z := getZ tree_island (getZ dof_tree d).
Definition row_isl (njmax nefc : Z) (efc_tree tree_island : list Z) (e : Z) : Z :=
  if e <? Z.min njmax nefc then
    (if getZ efc_tree e <? 0 then -1 else getZ tree_island (getZ efc_tree e))
  else -1.
Definition row_cat (etype : list Z) (e : Z) : Z :=
  if getZ etype e =? EQUALITY then 0 else if is_fric (getZ etype e) then 1 else 2.

(* reference component labelling used by the finite check: repeated relaxation of
   "smallest reachable tree", then ranks of the representatives *)
Definition relax_once (n : Z) (adj : list (list Z)) (rep : list Z) : list Z :=
  map (fun a => fold_left (fun m b => if negb (get2 adj a b =? 0) || negb (get2 adj b a =? 0)
                                       then Z.min m (getZ rep b) else m) (zrange n) (getZ rep a)) (zrange n).
Fixpoint iter {A : Type} (k : nat) (f : A -> A) (x : A) : A := match k with O => x | S k' => iter k' f (f x) end.
Definition ref_labels (n : Z) (adj : list (list Z)) : list Z * Z :=
  let rep := iter (Z.to_nat n) (relax_once n adj) (zrange n) in
  let tch := fun a => existsb (fun j => negb (get2 adj a j =? 0) || negb (get2 adj j a =? 0)) (zrange n) in
  let roots := filter (fun a => tch a && (getZ rep a =? a)) (zrange n) in
  let rank := fun r => Z.of_nat (length (filter (fun x => x <? r) roots)) in
  (map (fun a => if tch a then rank (getZ rep a) else -1) (zrange n), Z.of_nat (length roots)).
