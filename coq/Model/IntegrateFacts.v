(* Model/IntegrateFacts.v -- S tie for C08: what Model/Integrate.v assumes about the HOST code
   of forward.py, stated as expected event sequences for the stage skeleton regenerated from
   /repo on every run (Gen/Skel_pipeline.v, flattened by Model/Pipeline.v).  Definitions only;
   the vm_compute facts are in Proof/Integrate.v.  Reordering the launches of _advance, swapping
   an input/output array, changing the RK tableau text, perturbing from another base state,
   dropping a forward() evaluation ... changes the regenerated skeleton and breaks a fact. *)
From Coq Require Import String List Bool Arith.
From VF Require Import Model.Pipeline Gen.Skel_pipeline.
Import ListNotations.
Local Open Scope string_scope.

(* callees kept as one node (their own content belongs to other properties) *)
Definition opq_names : list string :=
  ["forward.forward"; "forward._advance"; "history.insert_ctrl_history"; "sleep.sleep";
   "forward.fwd_velocity"; "sleep.update_sleep"; "smooth.factor_solve_i"; "smooth.factor_solve_lu";
   "derivative.deriv_smooth_vel"; "derivative.deriv_rne_vel"; "forward.euler"; "forward.implicit";
   "forward.rungekutta4"].
Definition opq (keep_advance : bool) (s : string) : bool :=
  if String.eqb s "forward._advance" then keep_advance else mem s opq_names.

(* an opaque group is shown as the call it is *)
Fixpoint prune (e : event) : event :=
  let all := (fix all (l : list event) : list event :=
                match l with nil => nil | x :: r => prune x :: all r end) in
  match e with
  | EGroup f a _ => EExt f a
  | EIf c t el => EIf c (all t) (all el)
  | ELoop h b => ELoop h (all b)
  | _ => e
  end.

Definition no_val : pval := fun _ => None.
Definition FUEL : nat := 400.
Definition flat_of (keep_advance : bool) (val : pval) (f : string) (args : list string) : list event :=
  map prune (flatten program (opq keep_advance) val FUEL f args []).

(* ---- _advance ------------------------------------------------------------------------------ *)
Definition act_model_args : list string :=
  ["m.opt.timestep"; "m.actuator_dyntype"; "m.actuator_actadr"; "m.actuator_actnum";
   "m.actuator_dynprm"; "m.actuator_gainprm"; "m.actuator_biasprm"; "m.actuator_actlimited";
   "m.actuator_actrange"].
Definition jnt_model_args : list string :=
  ["m.opt.timestep"; "m.jnt_type"; "m.jnt_qposadr"; "m.jnt_dofadr"].

Definition sleep_tail : list event :=
  [EAssign "sleep_enabled"
     "bool(m.opt.enableflags & EnableBit.SLEEP) and (not bool(m.opt.disableflags & DisableBit.ISLAND))";
   EIf "sleep_enabled"
     [EExt "sleep.sleep" ["m"; "d"]; EExt "forward.fwd_velocity" ["m"; "d"];
      EExt "sleep.update_sleep" ["m"; "d"]] []].

(* _advance(m, d, qacc, qvel): activation (in place, scale 1.0, limit True); velocity in place from
   the qacc ARGUMENT; `qvel_in = qvel or d.qvel`; position in place reading qvel_in; control
   history; time (+ overflow flags); warmstart <- d.qacc; sleep tail *)
Definition advance_events (qacc : string) : list event :=
  [ELaunch "forward._next_activation" []
     (act_model_args ++ ["d.act"; "d.act_dot"; "d.actuator_velocity"; "1.0"; "True"]) ["d.act"];
   ELaunch "forward._next_velocity" [] ["m.opt.timestep"; "d.qvel"; qacc; "1.0"] ["d.qvel"];
   EAssign "qvel_in" "qvel or d.qvel";
   ELaunch "forward._next_position" [] (jnt_model_args ++ ["d.qpos"; "qvel_in"; "1.0"]) ["d.qpos"];
   EExt "history.insert_ctrl_history" ["m"; "d"];
   ELaunch "forward._next_time_builder" ["bool(m.opt.warn_overflow)"]
     ["m.opt.timestep"; "m.is_sparse"; "d.nefc"; "d.time"; "d.efc.J_rownnz"; "d.efc.J_rowadr";
      "d.nworld"; "d.naconmax"; "d.njmax"; "d.njmax_nnz"; "d.nacon"; "d.ncollision"]
     ["d.time"; "d.overflow"];
   ECopy "d.qacc_warmstart" "d.qacc"] ++ sleep_tail.

(* the signature: the 4th argument is called qvel and defaults to None, so that
   `qvel or d.qvel` is d.qvel (the array _next_velocity has just overwritten) unless given *)
Definition advance_params : list (string * string) :=
  match lookup_fn program "forward._advance" with Some g => params g | None => nil end.
Definition advance_params_expected : list (string * string) :=
  [("m", ""); ("d", ""); ("qacc", ""); ("qvel", "None")].

(* ---- euler / implicit ---------------------------------------------------------------------- *)
Definition euler_events : list event :=
  [EIf "not m.opt.disableflags & (DisableBit.EULERDAMP | DisableBit.DAMPER)"
     [EAssign "qacc" "wp.empty((d.nworld, m.nv), dtype=float)";
      EAssign "damp_deriv" "wp.empty((d.nworld, m.nv), dtype=float)";
      ELaunch "forward._compute_damping_deriv" [] ["m.dof_damping"; "m.dof_dampingpoly"; "d.qvel"] ["damp_deriv"];
      EAssign "M" "wp.clone(d.M)"; EAssign "qLD" "wp.empty_like(d.qLD)";
      EAssign "qLDiagInv" "wp.empty((d.nworld, m.nv), dtype=float)";
      ELaunch "forward._euler_damp_qfrc" [] ["m.opt.timestep"; "m.M_rownnz"; "m.M_rowadr"; "damp_deriv"] ["M"];
      EExt "smooth.factor_solve_i" ["m"; "d"; "M"; "qLD"; "qLDiagInv"; "qacc"; "d.efc.Ma"];
      EExt "forward._advance" ["m"; "d"; "qacc"]]
     [EExt "forward._advance" ["m"; "d"; "d.qacc"]]].

Definition implicit_events : list event :=
  [EIf "m.opt.integrator == IntegratorType.IMPLICIT"
     [EAssign "qH_M" "wp.empty(d.M.shape, dtype=float)";
      EExt "derivative.deriv_smooth_vel" ["m"; "d"; "qH_M"];
      ELaunch "forward._map_m2d" [] ["m.mapM2D"; "qH_M"] ["d.qLU"];
      (* qLU = M - h qDeriv_smooth + h d(bias)/dv: the RNE term is ADDED *)
      EExt "derivative.deriv_rne_vel" ["m"; "d"; "d.qLU"; "flg_subtract=False"];
      EAssign "qacc" "wp.empty((d.nworld, m.nv), dtype=float)";
      EExt "smooth.factor_solve_lu" ["m"; "d"; "d.qLU"; "qacc"; "d.efc.Ma"];
      EExt "forward._advance" ["m"; "d"; "qacc"]]
     [EIf "~(m.opt.disableflags | ~(DisableBit.ACTUATION | DisableBit.SPRING | DisableBit.DAMPER))"
        [EAssign "qDeriv" "wp.empty((d.nworld, m.nC), dtype=float)";
         EAssign "qLD" "wp.empty_like(d.qLD)";
         EAssign "qLDiagInv" "wp.empty((d.nworld, m.nv), dtype=float)";
         EExt "derivative.deriv_smooth_vel" ["m"; "d"; "qDeriv"];
         EAssign "qacc" "wp.empty((d.nworld, m.nv), dtype=float)";
         EExt "smooth.factor_solve_i" ["m"; "d"; "qDeriv"; "qLD"; "qLDiagInv"; "qacc"; "d.efc.Ma"];
         EExt "forward._advance" ["m"; "d"; "qacc"]]
        [EExt "forward._advance" ["m"; "d"; "d.qacc"]]]].

(* ---- rungekutta4 --------------------------------------------------------------------------- *)
Definition rk_acc_events (scale : string) : list event :=
  [ELaunch "forward._rk_accumulate_velocity_acceleration" [] ["d.qvel"; "d.qacc"; scale] ["qvel_rk"; "qacc_rk"];
   EIf "m.na and act_dot_rk is not None"
     [ELaunch "forward._rk_accumulate_activation_velocity" [] ["d.act_dot"; scale] ["act_dot_rk"]] []].

(* perturb: position from qpos_t0 with the CURRENT d.qvel, then velocity from qvel_t0 with d.qacc,
   then activation from act_t0 with d.act_dot by plain Euler (_rk_perturb_activation); all scaled by a *)
Definition rk_perturb_events : list event :=
  [ELaunch "forward._next_position" [] (jnt_model_args ++ ["qpos_t0"; "d.qvel"; "a"]) ["d.qpos"];
   ELaunch "forward._next_velocity" [] ["m.opt.timestep"; "qvel_t0"; "d.qacc"; "a"] ["d.qvel"];
   EIf "m.na and act_t0 is not None"
     [ELaunch "forward._rk_perturb_activation" [] ["m.opt.timestep"; "act_t0"; "d.act_dot"; "a"] ["d.act"]] []].

Definition rk4_events : list event :=
  [EAssign "A" "[0.5, 0.5, 1.0]";
   EAssign "B" "[1.0 / 6.0, 1.0 / 3.0, 1.0 / 3.0, 1.0 / 6.0]";
   EAssign "qpos_t0" "wp.clone(d.qpos)"; EAssign "qvel_t0" "wp.clone(d.qvel)";
   EAssign "time_t0" "wp.clone(d.time)";
   EAssign "sensordata_t0" "wp.clone(d.sensordata)";   (* save/restore frame; not integration state *)
   EAssign "qvel_rk" "wp.zeros((d.nworld, m.nv), dtype=float)";
   EAssign "qacc_rk" "wp.zeros((d.nworld, m.nv), dtype=float)";
   EIf "m.na"
     [EAssign "act_t0" "wp.clone(d.act)"; EAssign "act_dot_rk" "wp.zeros((d.nworld, m.na), dtype=float)"]
     [EAssign "act_t0" "None"; EAssign "act_dot_rk" "None"]]
  ++ rk_acc_events "B[0]"
  ++ [ELoop "for range(3)"
        ([EAssign "(a, b)" "(float(A[i]), B[i + 1])"] ++ rk_perturb_events
         ++ [ELaunch "forward._rk_stage_time" [] ["m.opt.timestep"; "time_t0"; "a"] ["d.time"];
             EExt "forward.forward" ["m"; "d"]] ++ rk_acc_events "b");
      ECopy "d.qpos" "qpos_t0"; ECopy "d.qvel" "qvel_t0"; ECopy "d.time" "time_t0"; ECopy "d.sensordata" "sensordata_t0";
      EIf "m.na" [ECopy "d.act" "act_t0"; ECopy "d.act_dot" "act_dot_rk"] [];
      EExt "forward._advance" ["m"; "d"; "qacc_rk"; "qvel_rk"]].

(* ---- step ---------------------------------------------------------------------------------- *)
Definition step_events : list event :=
  [EExt "forward.forward" ["m"; "d"];
   EIf "m.opt.integrator == IntegratorType.EULER" [EExt "forward.euler" ["m"; "d"]]
     [EIf "m.opt.integrator == IntegratorType.RK4" [EExt "forward.rungekutta4" ["m"; "d"]]
        [EIf "m.opt.integrator in (IntegratorType.IMPLICITFAST, IntegratorType.IMPLICIT)"
           [EExt "forward.implicit" ["m"; "d"]]
           [ERaise "NotImplementedError(f'integrator {m.opt.integrator} not implemented.')"]]]].

(* number of calls of [name] in a pruned event tree, a `for range(3)` loop counted three times,
   both branches of an undecided `if` counted (none is left under the valuations used) *)
Fixpoint count_calls (name : string) (e : event) : nat :=
  let sum := (fix sum (l : list event) : nat :=
                match l with nil => 0 | x :: r => count_calls name x + sum r end) in
  match e with
  | EExt f _ => if String.eqb f name then 1 else 0
  | EGroup f _ b => (if String.eqb f name then 1 else 0) + sum b
  | EIf _ t el => sum t + sum el
  | ELoop h b => (if String.eqb h "for range(3)" then 3 else 1) * sum b
  | _ => 0
  end.
Definition count_in (name : string) (l : list event) : nat :=
  fold_right (fun e n => count_calls name e + n) 0 l.

(* step() with integrator = RK4: everything except forward.forward inlined *)
Definition val_rk4 : pval := fun c =>
  if String.eqb c "m.opt.integrator == IntegratorType.EULER" then Some false
  else if String.eqb c "m.opt.integrator == IntegratorType.RK4" then Some true
  else None.
Definition opq_fwd_only (s : string) : bool :=
  mem s ["forward.forward"; "history.insert_ctrl_history"; "sleep.sleep"; "forward.fwd_velocity"; "sleep.update_sleep"].
Definition step_rk4_flat : list event :=
  map prune (flatten program opq_fwd_only val_rk4 FUEL "forward.step" ["m"; "d"] []).
