(* Model/Kin.v -- C01: forward kinematics and subtree centre of mass.

   Executable models, polymorphic over the Scalar class (proved over R in
   Proof/Kin.v, run at binary64 by the correspondence check of bin/props/C01.py).

   What is copied from /repo/mujoco_warp/_src:
     io.py put_model      `branches`  (ancestor chain of every leaf body)   -> [branches]
     io.py put_model      `body_tree` (bodies grouped by depth)             -> [levels]
     smooth.py _kinematics_branch  (one task = one branch, walks its chain
                 from the root, recomputes every body from the pose STORED
                 for its parent, writes xpos/xquat/xanchor/xaxis)           -> [kin_task]
     smooth.py kinematics  launch over (world, branch)                      -> [fk_branch]
     smooth.py _compute_body_matrices / _compute_body_inertial_frames /
               _geom_local_to_global / _site_local_to_global                -> [xmat_of] [xipos_of] [local_to_global]
     smooth.py com_pos: _subtree_com_init, _subtree_com_acc (one launch per
               depth level, deepest first, atomic adds into the parent),
               _subtree_div                                                  -> [com_pos]
   and the specification, MuJoCo's mj_kinematics / mj_comPos (engine_core_smooth.c)
   written as the fold over bodies in index order                           -> [fk_spec] [subtree_sum]

   The joint step uses the machine-translated math.py functions of Gen/math.v
   (mul_quat, rot_vec_quat, axis_angle_to_quat, quat_to_mat, normalize_quat: identity
   below mjMINVAL, wp.normalize otherwise).

   Indices of bodies are positions in the body list (nat); body 0 is the world.
   qpos addresses are Z (Warp array indices).  Joint outputs (xanchor, xaxis) are
   kept with the owning body in joint order; MuJoCo numbers joints body by body
   (body_jntadr is the running sum of body_jntnum), so flattening the per-body
   lists in body order gives the xanchor/xaxis arrays -- the correspondence check
   compares exactly that flattening with the arrays written by the kernel. *)
From Coq Require Import ZArith List Bool Arith.
From VF Require Import Base.Scalar Base.Vec Gen.math.
Import ListNotations.

(* ------------------------------------------------------------------ generic *)
Fixpoint upd {A : Type} (l : list A) (i : nat) (x : A) : list A :=
  match l, i with
  | [], _ => []
  | _ :: r, O => x :: r
  | a :: r, Datatypes.S i' => a :: upd r i' x
  end.

(* a launch: tasks executed one after the other on a shared store; the Warp CPU
   device runs them in ascending tid order, a GPU in any order: a schedule is any
   permutation (or, for _kinematics_branch, any interleaving) of the task list *)
Definition launch {St T : Type} (task : St -> T -> St) (sched : list T) (init : St) : St :=
  fold_left task sched init.

(* ------------------------------------------ host code of io.py put_model *)
Section Topology.
  (* ps = body_parentid as a list; ps[0] = 0 *)
  Definition par (ps : list nat) (b : nat) : nat := nth b ps 0.

  (* children_count = np.bincount(body_parentid[1:], minlength=nbody) *)
  Definition children_count (ps : list nat) (b : nat) : nat :=
    length (filter (fun p => Nat.eqb p b) (tl ps)).

  (* ancestor_chain = lambda b: ancestor_chain(body_parentid[b]) + [b] if b else [] *)
  Fixpoint ancestor_chain (fuel : nat) (ps : list nat) (b : nat) : list nat :=
    match fuel with
    | O => []
    | Datatypes.S f => if Nat.eqb b 0 then [] else ancestor_chain f ps (par ps b) ++ [b]
    end.

  (* np.where(children_count[1:] == 0)[0] + 1 *)
  Definition leaves (ps : list nat) : list nat :=
    filter (fun b => Nat.eqb (children_count ps b) 0) (seq 1 (length ps - 1)).

  (* branches = [ancestor_chain(l) for l in leaves]; body_branches/body_branch_start
     are this list of lists flattened with offsets *)
  Definition branches (ps : list nat) : list (list nat) :=
    map (ancestor_chain (length ps) ps) (leaves ps).

  (* body_depth[i] = body_depth[body_parentid[i]] + 1, starting from -1 for all
     (so the world gets 0); bodies.setdefault(depth, []).append(i) *)
  Definition depths (ps : list nat) : list nat :=
    fold_left (fun acc p => acc ++ [match acc with [] => 0 | _ => Datatypes.S (nth p acc 0) end]) ps [].

  (* body_tree = tuple(bodies[d] for d in sorted(bodies)) *)
  Definition levels (ps : list nat) : list (list nat) :=
    let ds := depths ps in
    map (fun d => filter (fun i => Nat.eqb (nth i ds 0) d) (seq 0 (length ps)))
        (seq 0 (Datatypes.S (list_max ds))).
End Topology.

(* ---------------------------------------- leaf-to-root accumulation (generic) *)
Section Accumulate.
  Context {V : Type}.
  Variable add : V -> V -> V.
  Variable dflt : V.

  (* one task of _subtree_com_acc (also _crb_accumulate, _cfrc_backward):
       if bodyid != 0: atomic_add(out[parent[bodyid]], in[bodyid])   with in == out *)
  Definition acc_push (ps : list nat) (acc : list V) (b : nat) : list V :=
    if Nat.eqb b 0 then acc
    else upd acc (par ps b) (add (nth (par ps b) acc dflt) (nth b acc dflt)).

  (* one launch per level, `for i in reversed(range(len(m.body_tree)))` *)
  Definition acc_levels (ps : list nat) (sched : list (list nat)) (init : list V) : list V :=
    fold_left (fun acc level => launch (acc_push ps) level acc) (rev sched) init.

  (* specification: the recursive subtree sum  val b + sum over children c of b *)
  Definition children (ps : list nat) (b : nat) : list nat :=
    filter (fun c => Nat.eqb (par ps c) b) (seq 1 (length ps - 1)).
  Fixpoint subtree_sum (fuel : nat) (ps : list nat) (val : list V) (b : nat) : V :=
    match fuel with
    | O => nth b val dflt
    | Datatypes.S f => fold_left add (map (subtree_sum f ps val) (children ps b)) (nth b val dflt)
    end.
End Accumulate.

(* --------------------------------------------------------------- the tree *)
Inductive jtype := JFree | JBall | JSlide | JHinge.

Record joint {S : Type} := mkJoint {
  jtyp : jtype;
  jpos : list S;      (* jnt_pos: anchor in the body frame *)
  jaxis : list S;     (* jnt_axis *)
  jqadr : Z           (* jnt_qposadr *)
}.
Arguments joint : clear implicits.
Arguments mkJoint {S}.

Record body {S : Type} := mkBody {
  bparent : nat;            (* body_parentid, < own index; 0 for the world itself *)
  bpos : list S;            (* body_pos *)
  bquat : list S;           (* body_quat *)
  bmocap : option nat;      (* body_mocapid >= 0 *)
  bjoints : list (joint S); (* body_jntadr .. body_jntadr + body_jntnum *)
  bipos : list S;           (* body_ipos *)
  bmass : S;                (* body_mass *)
  bsubmass : S              (* body_subtreemass (computed by the MuJoCo compiler) *)
}.
Arguments body : clear implicits.
Arguments mkBody {S}.

Record state {S : Type} := mkState {
  qpos : list S;
  qpos0 : list S;
  mocap_pos : list (list S);
  mocap_quat : list (list S)
}.
Arguments state : clear implicits.
Arguments mkState {S}.

(* what the kernel writes for one body: xpos, xquat and (xanchor, xaxis) per joint *)
Record bout {S : Type} := mkOut {
  oxpos : list S;
  oxquat : list S;
  ojnt : list (list S * list S)
}.
Arguments bout : clear implicits.
Arguments mkOut {S}.

Section Kin.
  Context {S : Type} `{Scalar S}.
  Local Open Scope Z_scope.

  Definition tree := list (body S).
  Definition parents (t : tree) : list nat := map bparent t.
  Definition dbody : body S := mkBody 0%nat [] [] None [] [] s0 s0.
  Definition dout : bout S := mkOut [] [] [].
  Definition getb (t : tree) (b : nat) : body S := nth b t dbody.

  (* MuJoCo: mju_zero3(d->xpos); mju_unit4(d->xquat).  MJWarp never writes body 0:
     make_data / put_data seed it from mujoco.mj_kinematics *)
  Definition world_out : bout S := mkOut [s0; s0; s0] [s1; s0; s0; s0] [].

  (* mjMINVAL and mju_normalize4: norm < mjMINVAL -> (1,0,0,0); else scale
     (MuJoCo skips the scaling when |norm - 1| <= mjMINVAL; that 1e-15 relative
     difference is below the specification's resolution and not modelled) *)
  Definition mj_minval : S := slit 1 1000000000000000.
  Definition qnormalize_mj (q : list S) : list S :=
    let l := vlen q in
    if sltb l mj_minval then [s1; s0; s0; s0] else vscaler q (sdiv s1 l).

  Definition quat_at (q : list S) (a : Z) : list S :=
    [vget q a; vget q (a + 1); vget q (a + 2); vget q (a + 3)].
  Definition vec3_at (q : list S) (a : Z) : list S :=
    [vget q a; vget q (a + 1); vget q (a + 2)].

  Section Step.
    (* [nrm] = the quaternion normalisation in use: math.normalize_quat (the kernel,
       translated in Gen/math.v) or qnormalize_mj (MuJoCo, the specification) *)
    Variable nrm : list S -> list S.
    Variable st : state S.

    (* body of `for _ in range(jntnum)` in _kinematics_branch / of the joint loop
       of mj_kinematics; a FREE joint reaching this loop matches no branch *)
    Definition joint_step (acc : (list S * list S) * list (list S * list S)) (j : joint S)
        : (list S * list S) * list (list S * list S) :=
      let '((xpos, xquat), outs) := acc in
      let qadr := jqadr j in
      let xanchor := vadd (rot_vec_quat (jpos j) xquat) xpos in
      let xaxis := rot_vec_quat (jaxis j) xquat in
      let pq :=
        match jtyp j with
        | JBall =>
            let qloc := nrm (quat_at (qpos st) qadr) in
            let xquat' := mul_quat xquat qloc in
            (vsub xanchor (rot_vec_quat (jpos j) xquat'), xquat')
        | JSlide =>
            (vadd xpos (vscaler xaxis (ssub (vget (qpos st) qadr) (vget (qpos0 st) qadr))), xquat)
        | JHinge =>
            let qloc := axis_angle_to_quat (jaxis j) (ssub (vget (qpos st) qadr) (vget (qpos0 st) qadr)) in
            let xquat' := mul_quat xquat qloc in
            (vsub xanchor (rot_vec_quat (jpos j) xquat'), xquat')
        | JFree => (xpos, xquat)
        end in
      (pq, outs ++ [(xanchor, xaxis)]).

    (* `if jntnum == 1: if jnt_type[jntadr] == FREE` *)
    Definition single_free (b : body S) : option (joint S) :=
      match bjoints b with
      | [j] => match jtyp j with JFree => Some j | _ => None end
      | _ => None
      end.

    Definition free_out (j : joint S) : bout S :=
      let xpos := vec3_at (qpos st) (jqadr j) in
      let xquat := nrm (quat_at (qpos st) (jqadr j + 3)) in
      mkOut xpos xquat [(xpos, jaxis j)].

    Definition finish_body (b : body S) (start : list S * list S) : bout S :=
      let '((xpos, xquat), outs) := fold_left joint_step (bjoints b) (start, []) in
      mkOut xpos (nrm xquat) outs.
  End Step.

  (* ---- MJWarp: loop body of _kinematics_branch for one body, given the pose
     currently STORED for its parent (xpos_out[pid], xquat_out[pid]) *)
  Definition body_step (st : state S) (b : body S) (pp : bout S) : bout S :=
    match single_free b with
    | Some j => free_out normalize_quat st j
    | None =>
        let '(p0, q0) :=
          match bmocap b with
          | Some mid => (nth mid (mocap_pos st) [], nth mid (mocap_quat st) [])
          | None => (bpos b, bquat b)
          end in
        (* `if pid >= 0:` always holds (body_parentid[0] = 0) *)
        let xpos := vadd (rot_vec_quat p0 (oxquat pp)) (oxpos pp) in
        let xquat := mul_quat (oxquat pp) q0 in
        finish_body normalize_quat st b (xpos, xquat)
    end.

  Definition kin_step (t : tree) (st : state S) (store : list (bout S)) (b : nat) : list (bout S) :=
    upd store b (body_step st (getb t b) (nth (bparent (getb t b)) store dout)).

  (* one task: for i in range(start, end): bodyid = body_branches[i] ... *)
  Definition kin_task (t : tree) (st : state S) (store : list (bout S)) (branch : list nat) : list (bout S) :=
    fold_left (kin_step t st) branch store.

  (* wp.launch(_kinematics_branch, dim=(nworld, nbranch)) for one world, CPU order *)
  Definition fk_branch (t : tree) (st : state S) (init : list (bout S)) : list (bout S) :=
    launch (kin_task t st) (branches (parents t)) init.

  (* ---- specification: mj_kinematics, bodies in index order *)
  Definition spec_body (st : state S) (b : body S) (pp : bout S) : bout S :=
    match single_free b with
    | Some j => free_out qnormalize_mj st j
    | None =>
        let '(p0, q0) :=
          match bmocap b with
          | Some mid => (nth mid (mocap_pos st) [], qnormalize_mj (nth mid (mocap_quat st) []))
          | None => (bpos b, bquat b)
          end in
        let start :=
          if Nat.eqb (bparent b) 0 then (p0, q0)                       (* parent is the world: copy *)
          else (vadd (mat_vec 3 3 (quat_to_mat (oxquat pp)) p0) (oxpos pp),   (* xmat[pid] * pos + xpos[pid] *)
                mul_quat (oxquat pp) q0) in
        finish_body qnormalize_mj st b start
    end.

  Definition fk_spec_go (st : state S) (bodies : list (body S)) (acc : list (bout S)) : list (bout S) :=
    fold_left (fun acc b => acc ++ [spec_body st b (nth (bparent b) acc dout)]) bodies acc.
  Definition fk_spec (t : tree) (st : state S) : list (bout S) :=
    match t with [] => [] | _ :: r => fk_spec_go st r [world_out] end.

  (* ---- derived frames *)
  Definition xmat_of (o : bout S) : list S := quat_to_mat (oxquat o).
  (* xpos + rot_vec_quat(pos, xquat),  quat_to_mat(mul_quat(xquat, quat)): body inertial
     frames, geoms, sites, fixed cameras *)
  Definition local_to_global (pos quat : list S) (o : bout S) : list S * list S :=
    (vadd (oxpos o) (rot_vec_quat pos (oxquat o)), quat_to_mat (mul_quat (oxquat o) quat)).
  Definition xipos_of (b : body S) (o : bout S) : list S :=
    vadd (oxpos o) (rot_vec_quat (bipos b) (oxquat o)).

  (* ---- com_pos: subtree centre of mass *)
  Fixpoint map2 {A B C : Type} (f : A -> B -> C) (a : list A) (b : list B) : list C :=
    match a, b with x :: a', y :: b' => f x y :: map2 f a' b' | _, _ => [] end.

  (* _subtree_com_init: xipos * body_mass *)
  Definition com_init (t : tree) (outs : list (bout S)) : list (list S) :=
    map2 (fun b o => vscaler (xipos_of b o) (bmass b)) t outs.
  (* _subtree_div: if mass != 0: com / mass *)
  Definition com_div (t : tree) (acc : list (list S)) : list (list S) :=
    map2 (fun b c => if sneb (bsubmass b) s0 then vdivs c (bsubmass b) else c) t acc.
  (* init; one _subtree_com_acc launch per level, deepest first; div *)
  Definition com_pos (t : tree) (sched : list (list nat)) (outs : list (bout S)) : list (list S) :=
    com_div t (acc_levels vadd [] (parents t) sched (com_init t outs)).
  (* specification (mj_comPos): mass-weighted subtree sums divided by the subtree mass *)
  Definition com_spec (t : tree) (outs : list (bout S)) : list (list S) :=
    com_div t (map (subtree_sum vadd [] (length t) (parents t) (com_init t outs)) (seq 0 (length t))).

  (* flattening used by the correspondence check *)
  Definition flat_pose (outs : list (bout S)) : list S :=
    flat_map (fun o => oxpos o ++ oxquat o) outs.
  Definition flat_jnt (outs : list (bout S)) : list S :=
    flat_map (fun o => flat_map (fun aa => fst aa ++ snd aa) (ojnt o)) outs.
End Kin.
