(* Model/Reset.v -- executable model of mujoco_warp/_src/io.py : make_data (initial values),
   reset_data (six kernels + optional sleep.update_sleep) and reset_data_keyframe.

   Definitions only (lemmas are in Proof/Reset.v).  Every value is a Z: integers are
   themselves, booleans are 0/1 and float32 values are carried as their bit pattern
   (the reset kernels only copy values and store the constants 0.0 / 0 / -1 / 1 / n,
   never compute with floats, so bit patterns are exact; +0.0 is the pattern 0).

   The model copies what the code DOES:
   - reset_nworld:  `for i in range(nu): ctrl[i]=0`, `for i in range(na): act[i]=0; act_dot[i]=0`
                    `for i in range(nq): qpos[i]=qpos0[..]; if i < nv: qvel[i]=0 ... cdof_dot[i]=0`
                    `for i in range(nhistory): history[i] = history0[i]`
                    `if worldid == 0: nacon_out[0] = 0`
   - reset_contact: clears slot conid < nacon[0] unless (mask given, worldid >= 0, world not
                    selected); a cleared slot gets worldid 0, geom (0,0), efc_address -1
   - reset_xfrc_applied also clears cvel; reset_sleep tests the mocap id of the body's root
   - launches are sequential, in io.py's order: xfrc_applied, M, efc_J, mocap, contact, sleep,
     nworld, then sleep.update_sleep when the SLEEP enable bit is set.
   Per-world kernels write disjoint cells per thread, so a launch over (nworld, n, ...) is
   modelled world by world; the contact kernel is a loop over conid in ascending order
   (Warp CPU order; the result does not depend on it: each thread touches its own slot). *)
From Coq Require Import ZArith List Bool.
From VF Require Import Base.Loop.
Import ListNotations.
Local Open Scope Z_scope.

(* ---- list cells -------------------------------------------------------------------- *)
Definition nthZ {A : Type} (l : list A) (i : Z) (d : A) : A :=
  if i <? 0 then d else nth (Z.to_nat i) l d.

Fixpoint upd_nat {A : Type} (l : list A) (i : nat) (x : A) : list A :=
  match l, i with
  | [], _ => []
  | _ :: t, O => x :: t
  | h :: t, S i' => h :: upd_nat t i' x
  end.

(* l[i] = x ; an index outside [0, len) is outside the model (never produced by the
   kernels under [wf]) and leaves the list unchanged *)
Definition upd {A : Type} (l : list A) (i : Z) (x : A) : list A :=
  if i <? 0 then l else upd_nat l (Z.to_nat i) x.

(* threads i = 0 .. n-1 :  if c i then l[i] = g i l[i] *)
Definition cond_map {A : Type} (n : Z) (c : Z -> bool) (g : Z -> A -> A) (d : A) (l : list A) : list A :=
  for_range 0 n l (fun i acc => if c i then upd acc i (g i (nthZ acc i d)) else acc).

Definition ctrue (_ : Z) : bool := true.
Definition zeros (n : Z) : list Z := repeat 0 (Z.to_nat n).
Definition zconst (n v : Z) : list Z := repeat v (Z.to_nat n).
Definition b2z (b : bool) : Z := if b then 1 else 0.
Definition lenZ {A : Type} (l : list A) : Z := Z.of_nat (length l).

(* ---- static model data --------------------------------------------------------------- *)
Record MModel := {
  nq : Z; nv : Z; nu : Z; na : Z; nbody : Z; ntree : Z; neq : Z;
  nuserdata : Z; nsensordata : Z; nmocap : Z; nhistory : Z;
  nM : Z;                 (* d.M.shape[1] *)
  nJr : Z; nJc : Z;       (* d.efc.J.shape[1], d.efc.J.shape[2] (dense: njmax_pad x nv_pad, sparse: 1 x njmax_nnz) *)
  nefcaddress : Z;        (* d.contact.efc_address.shape[1] *)
  nfev : Z;               (* 6 when contact.flex/elem/vert are allocated (nflex > 0), else 0 *)
  minawake : Z;           (* types.MJ_MINAWAKE *)
  sleep_enabled : bool;   (* m.opt.enableflags & EnableBit.SLEEP *)
  (* device model m (rows: leading dimension may be 1 or batched; kernels index worldid % rows) *)
  qpos0 : list (list Z);
  eq_active0 : list Z;
  body_mocapid : list Z; body_treeid : list Z; body_rootid : list Z; dof_bodyid : list Z;
  body_pos : list (list (list Z)); body_quat : list (list (list Z));
  history0 : list Z;      (* m.history0: MuJoCo's initial delay buffers *)
  (* host model mjm as make_data reads it (h_history0 = mujoco.MjData(mjm).history) *)
  h_qpos0 : list Z; h_eq_active0 : list Z;
  h_body_pos : list (list Z); h_body_quat : list (list Z); h_history0 : list Z;
  (* keyframes (device model) *)
  nkey : Z; key_time : list Z;
  key_qpos : list (list Z); key_qvel : list (list Z); key_act : list (list Z); key_ctrl : list (list Z);
  key_mpos : list (list (list Z)); key_mquat : list (list (list Z))
}.

(* ---- Data ---------------------------------------------------------------------------- *)
Record World := {
  (* integration state (types.State.INTEGRATION) *)
  w_time : Z; w_qpos : list Z; w_qvel : list Z; w_act : list Z; w_history : list Z;
  w_qacc_warmstart : list Z; w_ctrl : list Z; w_qfrc_applied : list Z;
  w_xfrc_applied : list (list Z);                  (* nbody x 6 *)
  w_eq_active : list Z;
  w_mocap_pos : list (list Z); w_mocap_quat : list (list Z);
  w_userdata : list Z;
  (* other fields written by reset_data *)
  w_solver_niter : Z; w_ne : Z; w_nf : Z; w_nl : Z; w_nefc : Z;
  w_ntree_awake : Z; w_nbody_awake : Z; w_nv_awake : Z;
  w_energy : list Z; w_qacc : list Z; w_act_dot : list Z; w_sensordata : list Z; w_M : list Z;
  w_tree_asleep : list Z; w_tree_awake : list Z; w_body_awake : list Z;
  w_body_awake_ind : list Z; w_dof_awake_ind : list Z;
  w_cvel : list (list Z);        (* nbody x 6 *)
  w_cdof_dot : list (list Z);    (* nv x 6 *)
  w_efc_J : list (list Z);       (* nJr x nJc: the constraint Jacobian buffer d.efc.J *)
  w_overflow : Z
}.

(* one slot of the flat contact buffer shared by all worlds *)
Record Slot := {
  c_worldid : Z; c_geom : list Z; c_dim : Z; c_type : Z; c_gcid : Z;
  c_efc : list Z;      (* efc_address row *)
  c_flt : list Z;      (* dist pos frame includemargin friction solref solreffriction solimp adhesion: 29 floats *)
  c_fev : list Z       (* flex elem vert: 6 ints, or [] when those arrays have shape 0 *)
}.

Record Data := { worlds : list World; contacts : list Slot; nacon : Z }.

Definition nworld (d : Data) : Z := lenZ (worlds d).
Definition naconmax (d : Data) : Z := lenZ (contacts d).

(* ---- make_data ------------------------------------------------------------------------- *)
Definition Zseq (n : Z) : list Z := map Z.of_nat (seq 0 (Z.to_nat n)).
Definition bodies (m : MModel) : list Z := Zseq (nbody m).
(* mocap_body = np.nonzero(mjm.body_mocapid >= 0)[0] ; mocap_id = mjm.body_mocapid[mocap_body] *)
Definition mocap_body (m : MModel) : list Z := filter (fun b => 0 <=? nthZ (body_mocapid m) b (-1)) (bodies m).
Definition mocap_id (m : MModel) : list Z := map (fun b => nthZ (body_mocapid m) b (-1)) (mocap_body m).
(* np.tile(mjm.body_pos[mocap_body[mocap_id]], ...) reshaped to (nworld, nmocap) *)
Definition fresh_mocap (m : MModel) (tbl : list (list Z)) : list (list Z) :=
  map (fun k => nthZ tbl (nthZ (mocap_body m) k 0) []) (mocap_id m).

Definition STATIC : Z := -1.
Definition ASLEEP : Z := 0.
Definition AWAKE : Z := 1.

(* _initial_body_awake(mjm, nworld, False) *)
Definition initial_body_awake (m : MModel) : list Z :=
  map (fun b =>
         if nthZ (body_treeid m) b 0 <? 0
         then (if 0 <=? nthZ (body_mocapid m) (nthZ (body_rootid m) b 0) (-1) then AWAKE else STATIC)
         else AWAKE) (bodies m).

Definition fresh_world (m : MModel) : World := {|
  w_time := 0; w_qpos := h_qpos0 m; w_qvel := zeros (nv m); w_act := zeros (na m);
  w_history := h_history0 m;
  w_qacc_warmstart := zeros (nv m); w_ctrl := zeros (nu m); w_qfrc_applied := zeros (nv m);
  w_xfrc_applied := repeat (zeros 6) (Z.to_nat (nbody m));
  w_eq_active := h_eq_active0 m;
  w_mocap_pos := fresh_mocap m (h_body_pos m); w_mocap_quat := fresh_mocap m (h_body_quat m);
  w_userdata := zeros (nuserdata m);
  w_solver_niter := 0; w_ne := 0; w_nf := 0; w_nl := 0; w_nefc := 0;
  w_ntree_awake := ntree m; w_nbody_awake := nbody m; w_nv_awake := nv m;
  w_energy := [0; 0]; w_qacc := zeros (nv m); w_act_dot := zeros (na m);
  w_sensordata := zeros (nsensordata m); w_M := zeros (nM m);
  w_tree_asleep := zconst (ntree m) (- (1 + minawake m)); w_tree_awake := zconst (ntree m) 1;
  w_body_awake := initial_body_awake m;
  w_body_awake_ind := Zseq (nbody m); w_dof_awake_ind := Zseq (nv m);   (* np.arange *)
  w_cvel := repeat (zeros 6) (Z.to_nat (nbody m)); w_cdof_dot := repeat (zeros 6) (Z.to_nat (nv m));
  w_efc_J := repeat (zeros (nJc m)) (Z.to_nat (nJr m));
  w_overflow := 0
|}.

Definition fresh_slot (m : MModel) : Slot := {|
  c_worldid := 0; c_geom := [0; 0]; c_dim := 0; c_type := 0; c_gcid := 0;
  c_efc := zconst (nefcaddress m) (-1); c_flt := zeros 29; c_fev := zeros (nfev m)
|}.

(* make_data(mjm, nworld=nw, naconmax=ncm) *)
Definition fresh (m : MModel) (nw ncm : Z) : Data := {|
  worlds := repeat (fresh_world m) (Z.to_nat nw);
  contacts := repeat (fresh_slot m) (Z.to_nat ncm);
  nacon := 0
|}.

(* ---- reset_data kernels ------------------------------------------------------------------ *)
(* reset mask as the kernels see it: None = `reset is None` (the test is compiled out) *)
Definition selected (mask : option (list bool)) (w : Z) : bool :=
  match mask with None => true | Some l => nthZ l w false end.

(* apply a per-world kernel body to every world whose thread does not return early *)
Fixpoint map_worlds_from (mask : option (list bool)) (f : Z -> World -> World) (w : Z) (l : list World) : list World :=
  match l with
  | [] => []
  | x :: t => (if selected mask w then f w x else x) :: map_worlds_from mask f (w + 1) t
  end.
Definition map_worlds mask f (d : Data) : Data :=
  {| worlds := map_worlds_from mask f 0 (worlds d); contacts := contacts d; nacon := nacon d |}.

Definition set_xfrc (x : World) (v cv : list (list Z)) : World := {|
  w_time := w_time x; w_qpos := w_qpos x; w_qvel := w_qvel x; w_act := w_act x; w_history := w_history x;
  w_qacc_warmstart := w_qacc_warmstart x; w_ctrl := w_ctrl x; w_qfrc_applied := w_qfrc_applied x;
  w_xfrc_applied := v; w_eq_active := w_eq_active x; w_mocap_pos := w_mocap_pos x; w_mocap_quat := w_mocap_quat x;
  w_userdata := w_userdata x; w_solver_niter := w_solver_niter x; w_ne := w_ne x; w_nf := w_nf x; w_nl := w_nl x;
  w_nefc := w_nefc x; w_ntree_awake := w_ntree_awake x; w_nbody_awake := w_nbody_awake x; w_nv_awake := w_nv_awake x;
  w_energy := w_energy x; w_qacc := w_qacc x; w_act_dot := w_act_dot x; w_sensordata := w_sensordata x; w_M := w_M x;
  w_tree_asleep := w_tree_asleep x; w_tree_awake := w_tree_awake x; w_body_awake := w_body_awake x;
  w_body_awake_ind := w_body_awake_ind x; w_dof_awake_ind := w_dof_awake_ind x;
  w_cvel := cv; w_cdof_dot := w_cdof_dot x; w_efc_J := w_efc_J x; w_overflow := w_overflow x |}.

Definition set_M (x : World) (v : list Z) : World := {|
  w_time := w_time x; w_qpos := w_qpos x; w_qvel := w_qvel x; w_act := w_act x; w_history := w_history x;
  w_qacc_warmstart := w_qacc_warmstart x; w_ctrl := w_ctrl x; w_qfrc_applied := w_qfrc_applied x;
  w_xfrc_applied := w_xfrc_applied x; w_eq_active := w_eq_active x; w_mocap_pos := w_mocap_pos x; w_mocap_quat := w_mocap_quat x;
  w_userdata := w_userdata x; w_solver_niter := w_solver_niter x; w_ne := w_ne x; w_nf := w_nf x; w_nl := w_nl x;
  w_nefc := w_nefc x; w_ntree_awake := w_ntree_awake x; w_nbody_awake := w_nbody_awake x; w_nv_awake := w_nv_awake x;
  w_energy := w_energy x; w_qacc := w_qacc x; w_act_dot := w_act_dot x; w_sensordata := w_sensordata x; w_M := v;
  w_tree_asleep := w_tree_asleep x; w_tree_awake := w_tree_awake x; w_body_awake := w_body_awake x;
  w_body_awake_ind := w_body_awake_ind x; w_dof_awake_ind := w_dof_awake_ind x;
  w_cvel := w_cvel x; w_cdof_dot := w_cdof_dot x; w_efc_J := w_efc_J x; w_overflow := w_overflow x |}.

Definition set_efcJ (x : World) (v : list (list Z)) : World := {|
  w_time := w_time x; w_qpos := w_qpos x; w_qvel := w_qvel x; w_act := w_act x; w_history := w_history x;
  w_qacc_warmstart := w_qacc_warmstart x; w_ctrl := w_ctrl x; w_qfrc_applied := w_qfrc_applied x;
  w_xfrc_applied := w_xfrc_applied x; w_eq_active := w_eq_active x; w_mocap_pos := w_mocap_pos x; w_mocap_quat := w_mocap_quat x;
  w_userdata := w_userdata x; w_solver_niter := w_solver_niter x; w_ne := w_ne x; w_nf := w_nf x; w_nl := w_nl x;
  w_nefc := w_nefc x; w_ntree_awake := w_ntree_awake x; w_nbody_awake := w_nbody_awake x; w_nv_awake := w_nv_awake x;
  w_energy := w_energy x; w_qacc := w_qacc x; w_act_dot := w_act_dot x; w_sensordata := w_sensordata x; w_M := w_M x;
  w_tree_asleep := w_tree_asleep x; w_tree_awake := w_tree_awake x; w_body_awake := w_body_awake x;
  w_body_awake_ind := w_body_awake_ind x; w_dof_awake_ind := w_dof_awake_ind x;
  w_cvel := w_cvel x; w_cdof_dot := w_cdof_dot x; w_efc_J := v; w_overflow := w_overflow x |}.

Definition set_mocap (x : World) (p q : list (list Z)) : World := {|
  w_time := w_time x; w_qpos := w_qpos x; w_qvel := w_qvel x; w_act := w_act x; w_history := w_history x;
  w_qacc_warmstart := w_qacc_warmstart x; w_ctrl := w_ctrl x; w_qfrc_applied := w_qfrc_applied x;
  w_xfrc_applied := w_xfrc_applied x; w_eq_active := w_eq_active x; w_mocap_pos := p; w_mocap_quat := q;
  w_userdata := w_userdata x; w_solver_niter := w_solver_niter x; w_ne := w_ne x; w_nf := w_nf x; w_nl := w_nl x;
  w_nefc := w_nefc x; w_ntree_awake := w_ntree_awake x; w_nbody_awake := w_nbody_awake x; w_nv_awake := w_nv_awake x;
  w_energy := w_energy x; w_qacc := w_qacc x; w_act_dot := w_act_dot x; w_sensordata := w_sensordata x; w_M := w_M x;
  w_tree_asleep := w_tree_asleep x; w_tree_awake := w_tree_awake x; w_body_awake := w_body_awake x;
  w_body_awake_ind := w_body_awake_ind x; w_dof_awake_ind := w_dof_awake_ind x;
  w_cvel := w_cvel x; w_cdof_dot := w_cdof_dot x; w_efc_J := w_efc_J x; w_overflow := w_overflow x |}.

(* sleep-related fields: tree_asleep tree_awake body_awake body_awake_ind dof_awake_ind + 3 counters *)
Definition set_sleep (x : World) (tas taw baw bind dind : list Z) (nt nb nd : Z) : World := {|
  w_time := w_time x; w_qpos := w_qpos x; w_qvel := w_qvel x; w_act := w_act x; w_history := w_history x;
  w_qacc_warmstart := w_qacc_warmstart x; w_ctrl := w_ctrl x; w_qfrc_applied := w_qfrc_applied x;
  w_xfrc_applied := w_xfrc_applied x; w_eq_active := w_eq_active x; w_mocap_pos := w_mocap_pos x; w_mocap_quat := w_mocap_quat x;
  w_userdata := w_userdata x; w_solver_niter := w_solver_niter x; w_ne := w_ne x; w_nf := w_nf x; w_nl := w_nl x;
  w_nefc := w_nefc x; w_ntree_awake := nt; w_nbody_awake := nb; w_nv_awake := nd;
  w_energy := w_energy x; w_qacc := w_qacc x; w_act_dot := w_act_dot x; w_sensordata := w_sensordata x; w_M := w_M x;
  w_tree_asleep := tas; w_tree_awake := taw; w_body_awake := baw;
  w_body_awake_ind := bind; w_dof_awake_ind := dind;
  w_cvel := w_cvel x; w_cdof_dot := w_cdof_dot x; w_efc_J := w_efc_J x; w_overflow := w_overflow x |}.

(* kernel reset_xfrc_applied, dim (nworld, nbody, 6):
   xfrc_applied_out[worldid, bodyid][elemid] = 0.0 ; cvel_out[worldid, bodyid][elemid] = 0.0 *)
Definition k_xfrc (m : MModel) (_ : Z) (x : World) : World :=
  set_xfrc x (cond_map (nbody m) ctrue (fun _ row => cond_map 6 ctrue (fun _ _ => 0) 0 row) [] (w_xfrc_applied x))
             (cond_map (nbody m) ctrue (fun _ row => cond_map 6 ctrue (fun _ _ => 0) 0 row) [] (w_cvel x)).

(* kernel reset_M, dim (nworld, d.M.shape[1]) *)
Definition k_M (m : MModel) (_ : Z) (x : World) : World :=
  set_M x (cond_map (nM m) ctrue (fun _ _ => 0) 0 (w_M x)).

(* kernel reset_efc_J, dim d.efc.J.shape = (nworld, nJr, nJc): efc_J_out[worldid, rowid, colid] = 0.0 *)
Definition k_efcJ (m : MModel) (_ : Z) (x : World) : World :=
  set_efcJ x (cond_map (nJr m) ctrue (fun _ row => cond_map (nJc m) ctrue (fun _ _ => 0) 0 row) [] (w_efc_J x)).

(* kernel reset_mocap, dim (nworld, nbody): scatter body_pos/quat of mocap bodies *)
Definition scatter_mocap (m : MModel) (row : list (list Z)) (old : list (list Z)) : list (list Z) :=
  for_range 0 (nbody m) old (fun b acc =>
    let mid := nthZ (body_mocapid m) b (-1) in
    if 0 <=? mid then upd acc mid (nthZ row b []) else acc).
Definition k_mocap (m : MModel) (w : Z) (x : World) : World :=
  set_mocap x
    (scatter_mocap m (nthZ (body_pos m) (Z.rem w (lenZ (body_pos m))) []) (w_mocap_pos x))
    (scatter_mocap m (nthZ (body_quat m) (Z.rem w (lenZ (body_quat m))) []) (w_mocap_quat x)).

(* kernel reset_contact, dim naconmax *)
Definition clear_slot (m : MModel) (c : Slot) : Slot := {|
  c_worldid := 0; c_geom := [0; 0]; c_dim := 0; c_type := 0; c_gcid := 0;
  c_efc := cond_map (nefcaddress m) ctrue (fun _ _ => -1) 0 (c_efc c);
  c_flt := map (fun _ => 0) (c_flt c);
  c_fev := map (fun _ => 0) (c_fev c)     (* `if contact_flex_out.shape[0] > 0`: [] stays [] *)
|}.
(* does thread conid return before clearing (given conid < nacon)? *)
Definition slot_kept (mask : option (list bool)) (c : Slot) : bool :=
  match mask with
  | None => false
  | Some l => (0 <=? c_worldid c) && negb (nthZ l (c_worldid c) false)
  end.
Definition k_contact (m : MModel) (mask : option (list bool)) (d : Data) : Data := {|
  worlds := worlds d;
  contacts := cond_map (naconmax d) (fun conid => conid <? nacon d)
                (fun _ c => if slot_kept mask c then c else clear_slot m c) (fresh_slot m) (contacts d);
  nacon := nacon d
|}.

(* kernel reset_sleep, dim (nworld, max(ntree, nbody, nv)) *)
Definition k_sleep (m : MModel) (_ : Z) (x : World) : World :=
  let n := Z.max (Z.max (ntree m) (nbody m)) (nv m) in
  set_sleep x
    (cond_map n (fun e => e <? ntree m) (fun _ _ => - (1 + minawake m)) 0 (w_tree_asleep x))
    (cond_map n (fun e => e <? ntree m) (fun _ _ => 1) 0 (w_tree_awake x))
    (cond_map n (fun e => e <? nbody m)
       (fun e _ => if nthZ (body_treeid m) e 0 <? 0
                   then (if 0 <=? nthZ (body_mocapid m) (nthZ (body_rootid m) e 0) (-1) then AWAKE else STATIC)
                   else AWAKE) 0 (w_body_awake x))
    (cond_map n (fun e => e <? nbody m) (fun e _ => e) 0 (w_body_awake_ind x))
    (cond_map n (fun e => e <? nv m) (fun e _ => e) 0 (w_dof_awake_ind x))
    (w_ntree_awake x) (w_nbody_awake x) (w_nv_awake x).

(* kernel reset_nworld, dim nworld (everything except nacon, handled in [k_nworld]) *)
Definition k_nworld_w (m : MModel) (w : Z) (x : World) : World :=
  let q0 := nthZ (qpos0 m) (Z.rem w (lenZ (qpos0 m))) [] in
  let vguard := fun i => i <? nv m in
  {|
  w_time := 0;
  w_qpos := cond_map (nq m) ctrue (fun i _ => nthZ q0 i 0) 0 (w_qpos x);
  w_qvel := cond_map (nq m) vguard (fun _ _ => 0) 0 (w_qvel x);
  w_act := cond_map (na m) ctrue (fun _ _ => 0) 0 (w_act x);
  w_history := cond_map (nhistory m) ctrue (fun i _ => nthZ (history0 m) i 0) 0 (w_history x);
  w_qacc_warmstart := cond_map (nq m) vguard (fun _ _ => 0) 0 (w_qacc_warmstart x);
  w_ctrl := cond_map (nu m) ctrue (fun _ _ => 0) 0 (w_ctrl x);
  w_qfrc_applied := cond_map (nq m) vguard (fun _ _ => 0) 0 (w_qfrc_applied x);
  w_xfrc_applied := w_xfrc_applied x;
  w_eq_active := cond_map (neq m) ctrue (fun i _ => nthZ (eq_active0 m) i 0) 0 (w_eq_active x);
  w_mocap_pos := w_mocap_pos x; w_mocap_quat := w_mocap_quat x;
  w_userdata := cond_map (nuserdata m) ctrue (fun _ _ => 0) 0 (w_userdata x);
  w_solver_niter := 0; w_ne := 0; w_nf := 0; w_nl := 0; w_nefc := 0;
  w_ntree_awake := ntree m; w_nbody_awake := nbody m; w_nv_awake := nv m;
  w_energy := [0; 0];
  w_qacc := cond_map (nq m) vguard (fun _ _ => 0) 0 (w_qacc x);
  w_act_dot := cond_map (na m) ctrue (fun _ _ => 0) 0 (w_act_dot x);
  w_sensordata := cond_map (nsensordata m) ctrue (fun _ _ => 0) 0 (w_sensordata x);
  w_M := w_M x;
  w_tree_asleep := w_tree_asleep x; w_tree_awake := w_tree_awake x; w_body_awake := w_body_awake x;
  w_body_awake_ind := w_body_awake_ind x; w_dof_awake_ind := w_dof_awake_ind x;
  w_cvel := w_cvel x;
  w_cdof_dot := cond_map (nq m) vguard (fun _ _ => zeros 6) [] (w_cdof_dot x);
  w_efc_J := w_efc_J x;
  w_overflow := 0
  |}.
(* `if worldid == 0: nacon_out[0] = 0` is executed by thread 0 iff it does not return early *)
Definition k_nworld (m : MModel) (mask : option (list bool)) (d : Data) : Data :=
  let d1 := map_worlds mask (k_nworld_w m) d in
  {| worlds := worlds d1; contacts := contacts d1;
     nacon := if (0 <? nworld d) && selected mask 0 then 0 else nacon d |}.

(* ---- sleep.update_sleep(m, d), flg_staticawake = 0: runs on EVERY world ------------------- *)
(* compaction `idx = atomic_add(counter, 1); ind[idx] = id` in ascending thread order (Warp CPU) *)
Definition compact (n : Z) (keep : Z -> bool) (ind : list Z) : Z * list Z :=
  for_range 0 n (0, ind) (fun i st => if keep i then (fst st + 1, upd (snd st) (fst st) i) else st).
Definition update_sleep_w (m : MModel) (x : World) : World :=
  let taw := cond_map (ntree m) ctrue (fun t _ => b2z (nthZ (w_tree_asleep x) t 0 <? 0)) 0 (w_tree_awake x) in
  let nt := for_range 0 (ntree m) 0 (fun t c => if nthZ (w_tree_asleep x) t 0 <? 0 then c + 1 else c) in
  let state := fun b =>
    let tree := nthZ (body_treeid m) b 0 in
    if tree <? 0
    then (if 0 <=? nthZ (body_mocapid m) (nthZ (body_rootid m) b 0) (-1) then AWAKE else STATIC)
    else (if nthZ taw tree 0 =? 1 then AWAKE else ASLEEP) in
  let baw := cond_map (nbody m) ctrue (fun b _ => state b) 0 (w_body_awake x) in
  let cb := compact (nbody m) (fun b => negb (state b =? ASLEEP)) (w_body_awake_ind x) in
  let cd := compact (nv m)
              (fun dof => let b := nthZ (dof_bodyid m) dof 0 in
                          (0 <=? nthZ (body_treeid m) b 0) && (nthZ baw b 0 =? AWAKE))
              (w_dof_awake_ind x) in
  set_sleep x (w_tree_asleep x) taw baw (snd cb) (snd cd) nt (fst cb) (fst cd).
Definition update_sleep (m : MModel) (d : Data) : Data :=
  {| worlds := map (update_sleep_w m) (worlds d); contacts := contacts d; nacon := nacon d |}.

(* ---- reset_data(m, d, reset) ------------------------------------------------------------------ *)
(* None result = the Python wrapper raises ValueError (mask of the wrong shape).  An integer
   mask is cast to bool (non-zero = True) by the wrapper before the launches: callers of the
   model pass the cast mask. *)
Definition reset_kernels (m : MModel) (mask : option (list bool)) (d : Data) : Data :=
  let d1 := map_worlds mask (k_xfrc m) d in
  let d2 := map_worlds mask (k_efcJ m) (map_worlds mask (k_M m) d1) in
  let d3 := map_worlds mask (k_mocap m) d2 in
  let d4 := k_contact m mask d3 in
  let d5 := map_worlds mask (k_sleep m) d4 in
  let d6 := k_nworld m mask d5 in
  if sleep_enabled m then update_sleep m d6 else d6.

Definition reset_data (m : MModel) (mask : option (list bool)) (d : Data) : option Data :=
  match mask with
  | Some l => if lenZ l =? nworld d then Some (reset_kernels m mask d) else None
  | None => Some (reset_kernels m mask d)
  end.

(* ---- reset_data_keyframe(m, d, key) --------------------------------------------------------- *)
Inductive KeyArg := KInt (k : Z) | KArr (ks : list Z).

Definition valid_key (m : MModel) (k : Z) : bool := (0 <=? k) && (k <? nkey m).

(* kernel reset_keyframe_data, dim nworld *)
Definition k_keyframe_w (m : MModel) (key : Z) (x : World) : World := {|
  w_time := nthZ (key_time m) key 0;
  w_qpos := cond_map (nq m) ctrue (fun i _ => nthZ (nthZ (key_qpos m) key []) i 0) 0 (w_qpos x);
  w_qvel := cond_map (nv m) ctrue (fun i _ => nthZ (nthZ (key_qvel m) key []) i 0) 0 (w_qvel x);
  w_act := cond_map (na m) ctrue (fun i _ => nthZ (nthZ (key_act m) key []) i 0) 0 (w_act x);
  w_history := w_history x;
  w_qacc_warmstart := w_qacc_warmstart x;
  w_ctrl := cond_map (nu m) ctrue (fun i _ => nthZ (nthZ (key_ctrl m) key []) i 0) 0 (w_ctrl x);
  w_qfrc_applied := w_qfrc_applied x; w_xfrc_applied := w_xfrc_applied x; w_eq_active := w_eq_active x;
  w_mocap_pos := cond_map (nmocap m) ctrue (fun i _ => nthZ (nthZ (key_mpos m) key []) i []) [] (w_mocap_pos x);
  w_mocap_quat := cond_map (nmocap m) ctrue (fun i _ => nthZ (nthZ (key_mquat m) key []) i []) [] (w_mocap_quat x);
  w_userdata := w_userdata x; w_solver_niter := w_solver_niter x; w_ne := w_ne x; w_nf := w_nf x; w_nl := w_nl x;
  w_nefc := w_nefc x; w_ntree_awake := w_ntree_awake x; w_nbody_awake := w_nbody_awake x; w_nv_awake := w_nv_awake x;
  w_energy := w_energy x; w_qacc := w_qacc x; w_act_dot := w_act_dot x; w_sensordata := w_sensordata x; w_M := w_M x;
  w_tree_asleep := w_tree_asleep x; w_tree_awake := w_tree_awake x; w_body_awake := w_body_awake x;
  w_body_awake_ind := w_body_awake_ind x; w_dof_awake_ind := w_dof_awake_ind x;
  w_cvel := w_cvel x; w_cdof_dot := w_cdof_dot x; w_efc_J := w_efc_J x; w_overflow := w_overflow x
|}.

Definition reset_data_keyframe (m : MModel) (key : KeyArg) (d : Data) : option Data :=
  let keys :=
    match key with
    | KArr ks => if lenZ ks =? nworld d then Some ks else None
    | KInt k => if (k <? 0) || (nkey m <=? k) then None else Some (repeat k (length (worlds d)))
    end in
  match keys with
  | None => None
  | Some ks =>
      let mask := map (valid_key m) ks in              (* kernel valid_key_mask *)
      match reset_data m (Some mask) d with
      | None => None
      | Some d1 => Some (map_worlds (Some mask) (fun w x => k_keyframe_w m (nthZ ks w 0) x) d1)
      end
  end.

(* ---- observations ----------------------------------------------------------------------------- *)
(* contacts reported for world w: slots below nacon tagged w, in buffer order *)
Definition contacts_of (d : Data) (w : Z) : list Slot :=
  filter (fun c => c_worldid c =? w) (firstn (Z.to_nat (nacon d)) (contacts d)).
Definition world_of (d : Data) (w : Z) : option World :=
  if w <? 0 then None else nth_error (worlds d) (Z.to_nat w).
Definition obs (d : Data) (w : Z) : option World * list Slot := (world_of d w, contacts_of d w).

(* ---- flattening used by the correspondence case files ------------------------------------------ *)
Definition flat_world (x : World) : list Z :=
  [w_time x] ++ w_qpos x ++ w_qvel x ++ w_act x ++ w_history x ++ w_qacc_warmstart x ++ w_ctrl x
  ++ w_qfrc_applied x ++ concat (w_xfrc_applied x) ++ w_eq_active x ++ concat (w_mocap_pos x)
  ++ concat (w_mocap_quat x) ++ w_userdata x
  ++ [w_solver_niter x; w_ne x; w_nf x; w_nl x; w_nefc x; w_ntree_awake x; w_nbody_awake x; w_nv_awake x]
  ++ w_energy x ++ w_qacc x ++ w_act_dot x ++ w_sensordata x ++ w_M x ++ w_tree_asleep x ++ w_tree_awake x
  ++ w_body_awake x ++ w_body_awake_ind x ++ w_dof_awake_ind x ++ concat (w_cvel x) ++ concat (w_cdof_dot x)
  ++ concat (w_efc_J x) ++ [w_overflow x].
Definition flat_slot (c : Slot) : list Z :=
  [c_worldid c] ++ c_geom c ++ [c_dim c; c_type c; c_gcid c] ++ c_efc c ++ c_flt c ++ c_fev c.
Definition flat_data (d : option Data) : list Z :=
  match d with
  | None => [-999]
  | Some d => concat (map flat_world (worlds d)) ++ concat (map flat_slot (contacts d)) ++ [nacon d]
  end.

(* flattening of the static model data (lists are followed by the separator -7) *)
Definition sep (l : list Z) : list Z := l ++ [-7].
Definition flat_mmodel (m : MModel) : list Z :=
  [nq m; nv m; nu m; na m; nbody m; ntree m; neq m; nuserdata m; nsensordata m; nmocap m; nhistory m; nM m; nJr m; nJc m;
   nefcaddress m; nfev m; minawake m; b2z (sleep_enabled m)]
  ++ sep (concat (qpos0 m)) ++ sep (eq_active0 m) ++ sep (body_mocapid m) ++ sep (body_treeid m)
  ++ sep (body_rootid m) ++ sep (dof_bodyid m) ++ sep (concat (concat (body_pos m))) ++ sep (concat (concat (body_quat m)))
  ++ sep (history0 m)
  ++ sep (h_qpos0 m) ++ sep (h_eq_active0 m) ++ sep (concat (h_body_pos m)) ++ sep (concat (h_body_quat m))
  ++ sep (h_history0 m)
  ++ [nkey m] ++ sep (key_time m) ++ sep (concat (key_qpos m)) ++ sep (concat (key_qvel m)) ++ sep (concat (key_act m))
  ++ sep (concat (key_ctrl m)) ++ sep (concat (concat (key_mpos m))) ++ sep (concat (concat (key_mquat m))).
