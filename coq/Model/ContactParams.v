(* Model/ContactParams.v -- C04, per-pair contact PARAMETER logic and the contact writer.

   Definitions only.  Three things live here:

   1. [write_contact_model]: hand model of collision_core.write_contact as a state
      transformer on the contact counter `nacon` (wp.atomic_add returns the OLD value and
      increments unconditionally; the stores happen only under `cid < naconmax_in`).
      Its decision part is NOT written by hand: it calls [write_contact_decision], the
      Gallina term regenerated from the source prefix of write_contact (Gen/collision_core.v).
      The stores are tied to the source by the regenerated table [write_contact_writes]
      ([expected_writes] below must equal it: Proof/ContactParams.v) and by the
      correspondence run of bin/props/C04.py against the real function.

   2. [mj_contact_param]: the REFERENCE rule, i.e. what MuJoCo does for a
      geom pair without explicit <pair> (mj_contactParam in engine_collision_driver.c as
      described in the XML reference for geom/priority, solmix, friction, condim, solref):
      higher priority copies everything from that geom; equal priority: condim = max,
      friction = element-wise max, solimp = solmix-weighted average, solref = weighted
      average when both solref[0] > 0 ("standard" format) else element-wise min ("direct"
      format), weight = solmix1/(solmix1+solmix2) with the mjMINVAL corner cases.
      MuJoCo's C source is not available in this sandbox: adhesion (higher priority's,
      else sum) and margin/gap (sum of the two geoms') are the rule OBSERVED on the
      mujoco 3.13 binary by the oracle of bin/props/C04.py, stated here as reference.

   3. [geom_of]: how the translated contact_material_params reads one geom's parameters out
      of the batched Model arrays (`worldid % arr.shape[0]`, Warp/C remainder = Z.rem). *)
From Coq Require Import ZArith List Bool String.
From VF Require Import Base.Scalar Base.Vec Base.Loop Gen.collision_core.
Import ListNotations.
Local Open Scope Z_scope.

(* ---- 1. write_contact ------------------------------------------------------------- *)
Section Writer.
  Context {S : Type} `{Scalar S}.

  Record contact := mkContact {
    c_dist : S; c_pos : list S; c_frame : list S; c_geom : list Z; c_worldid : Z;
    c_includemargin : S; c_dim : Z; c_friction : list S; c_solref : list S;
    c_solreffriction : list S; c_solimp : list S; c_adhesion : S; c_type : Z;
    c_geomcollisionid : Z; c_efc_address : list Z
  }.

  (* one call of write_contact; [nefc] = contact_efc_address_out.shape[1].
     result: (return value, nacon after, Some (slot, contact stored) | None) *)
  Definition write_contact_model (naconmax nefc nacon id_ : Z)
      (dist : S) (pos frame : list S) (margin gap : S) (condim : Z)
      (friction solref solreffriction solimp : list S) (adhesion : S)
      (geoms pairid : list Z) (worldid : Z) : Z * Z * option (Z * contact) :=
    let '(go, ret, dim, ctype) := write_contact_decision dist margin gap condim adhesion pairid in
    if go =? 0 then (ret, nacon, None)                 (* skipped: no allocation *)
    else
      let cid := nacon in                              (* atomic_add returns the old value *)
      if cid <? naconmax then
        (ret, nacon + 1,
         Some (cid, mkContact dist pos frame geoms worldid margin dim friction solref
                      solreffriction solimp adhesion ctype id_
                      (repeat (-1) (Z.to_nat nefc))))
      else (0, nacon + 1, None).                       (* overflow: counted, not stored *)

  (* the stores of the guarded block, in source order: what [mkContact] above encodes *)
  Definition expected_writes : list (string * string) := [
    ("contact_dist_out", "dist_in");
    ("contact_pos_out", "pos_in");
    ("contact_frame_out", "frame_in");
    ("contact_geom_out", "geoms_in");
    ("contact_worldid_out", "worldid_in");
    ("contact_includemargin_out", "margin_in");
    ("contact_dim_out", "condim");
    ("contact_friction_out", "friction_in");
    ("contact_solref_out", "solref_in");
    ("contact_solreffriction_out", "solreffriction_in");
    ("contact_solimp_out", "solimp_in");
    ("contact_adhesion_out", "adhesion_in");
    ("contact_type_out", "contact_type");
    ("contact_geomcollisionid_out", "id_");
    ("contact_efc_address_out[*]", "-1")
  ]%string.

  (* flattened view used by the correspondence case files *)
  Definition contact_ints (c : contact) : list Z :=
    c_geom c ++ [c_worldid c; c_dim c; c_type c; c_geomcollisionid c] ++ c_efc_address c.
  Definition contact_floats (c : contact) : list S :=
    [c_dist c] ++ c_pos c ++ c_frame c ++ [c_includemargin c] ++ c_friction c ++ c_solref c
    ++ c_solreffriction c ++ c_solimp c ++ [c_adhesion c].
End Writer.

(* ---- 2. reference rule ------------------------------------------------------------- *)
Section Reference.
  Context {S : Type} `{Scalar S}.
  Local Open Scope scalar_scope.

  (* the per-geom parameters that enter the rule *)
  Record geomp := mkGeomp {
    g_condim : Z; g_priority : Z; g_solmix : S;
    g_solref : list S;       (* 2 *)
    g_solimp : list S;       (* 5 *)
    g_friction : list S;     (* 3: slide, spin, roll *)
    g_adhesion : S
  }.

  Definition mjMINVAL : S := slit 1 1000000000000000.   (* 1e-15 *)
  Definition mjMINMU : S := slit 1 100000.                (* 1e-5 *)

  (* mixing weight of geom 1 *)
  Definition mj_mix (m1 m2 : S) : S :=
    if (mjMINVAL <=? m1) && (mjMINVAL <=? m2) then m1 / (m1 + m2)
    else if (m1 <? mjMINVAL) && (m2 <? mjMINVAL) then slit 1 2
    else if m1 <? mjMINVAL then s0
    else s1.

  Fixpoint lerpv (w : S) (a b : list S) : list S :=
    match a, b with
    | x :: a', y :: b' => (w * x + (s1 - w) * y) :: lerpv w a' b'
    | _, _ => nil
    end.
  Fixpoint maxv (a b : list S) : list S :=
    match a, b with x :: a', y :: b' => smax x y :: maxv a' b' | _, _ => nil end.
  Fixpoint minv (a b : list S) : list S :=
    match a, b with x :: a', y :: b' => smin x y :: minv a' b' | _, _ => nil end.

  (* 3 -> 5 friction coefficients: tangent1, tangent2, spin, roll1, roll2; floor mjMINMU *)
  Definition unpack_friction (f : list S) : list S :=
    map (smax mjMINMU) [vget f 0; vget f 0; vget f 1; vget f 2; vget f 2].

  (* (condim, friction[5], solref[2], solreffriction[2], solimp[5], adhesion) *)
  Definition mj_contact_param (a b : geomp) : Z * list S * list S * list S * list S * S :=
    if g_priority a >? g_priority b then
      (g_condim a, unpack_friction (g_friction a), g_solref a, [s0; s0], g_solimp a, g_adhesion a)
    else if g_priority b >? g_priority a then
      (g_condim b, unpack_friction (g_friction b), g_solref b, [s0; s0], g_solimp b, g_adhesion b)
    else
      let w := mj_mix (g_solmix a) (g_solmix b) in
      (Z.max (g_condim a) (g_condim b),
       unpack_friction (maxv (g_friction a) (g_friction b)),
       (if (s0 <? vget (g_solref a) 0) && (s0 <? vget (g_solref b) 0)
        then lerpv w (g_solref a) (g_solref b)
        else minv (g_solref a) (g_solref b)),
       [s0; s0],
       lerpv w (g_solimp a) (g_solimp b),
       g_adhesion a + g_adhesion b).

End Reference.

(* ---- 3. reading one geom out of the batched arrays ---------------------------------- *)
Section Read.
  Context {S : Type} `{Scalar S}.

  Definition geom_of (geom_condim geom_priority : Z -> Z) (geom_solmix : Z -> Z -> S)
      (geom_solref geom_solimp geom_friction : Z -> Z -> list S) (geom_adhesion : Z -> Z -> S)
      (worldid n_solmix n_friction n_solref n_solimp n_adhesion g : Z) : geomp :=
    mkGeomp (geom_condim g) (geom_priority g)
      (geom_solmix (Z.rem worldid n_solmix) g)
      (geom_solref (Z.rem worldid n_solref) g)
      (geom_solimp (Z.rem worldid n_solimp) g)
      (geom_friction (Z.rem worldid n_friction) g)
      (geom_adhesion (Z.rem worldid n_adhesion) g).
End Read.
