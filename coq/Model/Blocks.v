(* Model/Blocks.v -- Gallina copy of the inertia-factor machinery of mujoco_warp.

   Host side (Python ints: `//` is floor division, numpy subscripts in [-len,0) wrap):
     io.py : _m_blocks, m_block_layout            -> m_blocks, layout_run, m_block_layout
     io.py : put_model, "Per-block scalar/tile/sparse layout" .. "qLD_level_offsets"
                                                   -> m_tiles, sparse_updates, qLD_updates,
                                                      qLD_all_updates, qLD_level_offsets,
                                                      M_elemid / tile elemid (gather indices)
   Device side (kernel ints: `//` truncates; the index expressions are non-negative):
     smooth.py : _small_cholesky_factorize_block   -> small_factor_block
                 _small_cholesky_solve(_block)      -> small_solve / small_solve_block
                 _small_cholesky_factorize_solve_block -> small_factor_solve_block
                 _tile_cholesky_factorize_block     -> tile_factor  (densify by elemid, then
                     wp.tile_cholesky_inplace(fill_mode="upper") modelled as the same upper Cholesky
                     algorithm with the strict lower part zeroed, as observed on Warp 1.17)
                 _tile_cholesky_solve_block         -> small_solve (U^T z = y, U x = z; Warp builtin
                     wp.tile_cholesky_solve modelled as the scalar substitution)
                 _qLD_acc, _qLDiag_div, _factor_i_sparse -> qLD_acc, factor_i_sparse
                 _solve_LD_sparse_fused (CPU launch: block_dim = 1, one thread per world)
                                                   -> solve_LD_sparse
                 factor_m / solve_LD / solve_m / factor_solve_i -> factor_m, solve_m, factor_solve_i
   One world is modelled (the kernels never mix worlds: that is property C10).  Arrays are
   flat lists; an out-of-range read returns 0 and an out-of-range write is dropped (the real
   code would access out of bounds: excluded by the well-formedness hypotheses of the theorems
   and never exercised by the correspondence).  Definitions only, no proofs. *)
From Coq Require Import ZArith List Bool.
From VF Require Import Base.Scalar Base.Vec Base.Loop.
Import ListNotations.
Local Open Scope Z_scope.

(* types.py *)
Definition M_BLOCK_DENSE_MAX : Z := 64.
Definition M_BLOCK_SCALAR_MAX : Z := 6.
Definition Q_LD_BLOCK_COMPACT : Z := -2.
Definition Q_LD_BLOCK_SPARSE : Z := -1.

(* ---------------------------------------------------------------- integer arrays *)
Definition zget (l : list Z) (i : Z) : Z := nth (Z.to_nat i) l 0.
(* numpy read a[i] for i in [-len, len) *)
Definition zget_wrap (l : list Z) (i : Z) : Z :=
  if i <? 0 then zget l (Z.of_nat (length l) + i) else zget l i.
Fixpoint zset_nat (l : list Z) (i : nat) (x : Z) : list Z :=
  match l, i with
  | [], _ => []
  | _ :: r, O => x :: r
  | a :: r, S i' => a :: zset_nat r i' x
  end.
Definition zset (l : list Z) (i : Z) (x : Z) : list Z := zset_nat l (Z.to_nat i) x.
(* numpy  a[start : start+size] = v  (0 <= start): the slice is clipped to the array *)
Definition fill (l : list Z) (start size : Z) (v : Z) : list Z :=
  let s := Z.to_nat start in
  let n := Z.to_nat size in
  firstn s l ++ repeat v (length (firstn n (skipn s l))) ++ skipn (s + n) l.
Definition zrange (n : Z) : list Z := map Z.of_nat (seq 0 (Z.to_nat n)).

(* ---------------------------------------------------------------- host: m_block_layout *)
(* the fields of mjm read by m_block_layout and by the put_model block that follows it *)
Record lmodel := mkL {
  l_nv : Z;
  l_nC : Z;
  l_tree_dofadr : list Z;
  l_tree_dofnum : list Z;
  l_M_rowadr : list Z;
  l_M_rownnz : list Z;
  l_M_colind : list Z;
  l_dof_parentid : list Z;
}.

(* [(adr, num) for adr, num in zip(tree_dofadr, tree_dofnum) if num > 0] *)
Definition m_blocks (m : lmodel) : list (Z * Z) :=
  filter (fun p => 0 <? snd p) (combine (l_tree_dofadr m) (l_tree_dofnum m)).

(* Python dict {size: [start, ...]} in insertion order;  d.setdefault(k, []).append(v) *)
Definition dict := list (Z * list Z).
Fixpoint dict_append (d : dict) (k v : Z) : dict :=
  match d with
  | [] => [(k, [v])]
  | (k', l) :: r => if k' =? k then (k', l ++ [v]) :: r else (k', l) :: dict_append r k v
  end.

Record lstate := mkS {
  s_off : Z;
  s_dof_adr : list Z;
  s_scalar : dict;
  s_gather : dict;
}.

Section Layout.
  (* M_BLOCK_SCALAR_MAX, M_BLOCK_DENSE_MAX (parameters so that the theorems hold for any
     thresholds; m_block_layout below instantiates the values of types.py) *)
  Variables smax dmax : Z.
  Variable m : lmodel.

  Definition block_nnz (start size : Z) : Z :=
    let last := start + size - 1 in
    let madr := zget (l_M_rowadr m) start in
    zget (l_M_rowadr m) last + zget (l_M_rownnz m) last - madr.
  Definition is_compact (start size : Z) : bool := block_nnz start size =? size.
  Definition is_triangular (start size : Z) : bool := block_nnz start size =? (size * (size + 1)) / 2.

  (* one iteration of `for start, size in blocks:` *)
  Definition layout_step (st : lstate) (blk : Z * Z) : lstate :=
    let '(start, size) := blk in
    let compact := is_compact start size in
    let triangular := is_triangular start size in
    if (size <=? smax) && (compact || triangular) then
      if compact then
        mkS (s_off st) (fill (s_dof_adr st) start size Q_LD_BLOCK_COMPACT)
            (dict_append (s_scalar st) size start) (s_gather st)
      else
        mkS (s_off st + size * size) (fill (s_dof_adr st) start size (s_off st))
            (dict_append (s_scalar st) size start) (s_gather st)
    else if size <=? dmax then
      mkS (s_off st + size * size) (fill (s_dof_adr st) start size (s_off st))
          (s_scalar st) (dict_append (s_gather st) size start)
    else st.

  Definition layout_init : lstate :=
    mkS 0 (repeat Q_LD_BLOCK_SPARSE (Z.to_nat (l_nv m))) [] [].
  Definition layout_loop : lstate := fold_left layout_step (m_blocks m) layout_init.

  (* starts.sort(key=lambda start: dof_adr[start] >= 0): stable, False (factor-less) first *)
  Definition sort_starts (dof_adr : list Z) (starts : list Z) : list Z :=
    filter (fun s => negb (0 <=? zget dof_adr s)) starts ++ filter (fun s => 0 <=? zget dof_adr s) starts.

  Record layout := mkLay {
    lay_total : Z;
    lay_dof_adr : list Z;
    lay_scalar_tiles : dict;
    lay_gather_tiles : dict;
    lay_has_sparse : bool;
  }.

  Definition layout_run : layout :=
    let st := layout_loop in
    mkLay (s_off st) (s_dof_adr st)
          (map (fun e => (fst e, sort_starts (s_dof_adr st) (snd e))) (s_scalar st))
          (s_gather st)
          (existsb (Z.eqb Q_LD_BLOCK_SPARSE) (s_dof_adr st)).
End Layout.

Definition m_block_layout (m : lmodel) : layout := layout_run M_BLOCK_SCALAR_MAX M_BLOCK_DENSE_MAX m.

(* flattening used by the correspondence check: every field, dicts in insertion order *)
Definition dict_flat (d : dict) : list Z :=
  flat_map (fun e => fst e :: Z.of_nat (length (snd e)) :: snd e) d.
Definition layout_flat (l : layout) : list Z :=
  [lay_total l; if lay_has_sparse l then 1 else 0] ++ lay_dof_adr l ++ [-7]
  ++ dict_flat (lay_scalar_tiles l) ++ [-7] ++ dict_flat (lay_gather_tiles l).

(* ---------------------------------------------------------------- host: put_model *)
(* sorted(dict): insertion sort of the entries by key (keys are distinct) *)
Fixpoint dict_insert (e : Z * list Z) (d : dict) : dict :=
  match d with
  | [] => [e]
  | e' :: r => if fst e <=? fst e' then e :: d else e' :: dict_insert e r
  end.
Definition dict_sorted (d : dict) : dict := fold_right dict_insert [] d.

(* m.M_tiles = scalar tiles (sorted by size) then gather tiles (sorted by size);
   an entry is (is_gather, size, adr) -- `tile.elemid.size == 0` iff not is_gather *)
Definition m_tiles (l : layout) : list (bool * Z * list Z) :=
  map (fun e => (false, fst e, snd e)) (dict_sorted (lay_scalar_tiles l))
  ++ map (fun e => (true, fst e, snd e)) (dict_sorted (lay_gather_tiles l)).
Definition tiles_flat (t : list (bool * Z * list Z)) : list Z :=
  flat_map (fun e : bool * Z * list Z => let '(g, size, adr) := e in (if g then 1 else 0) :: size :: Z.of_nat (length adr) :: adr) t.

(* M_elemid[i, col] = madr for the CSR entries of row i, else -1; as a lookup function *)
Definition M_elemid (m : lmodel) (i col : Z) : Z :=
  let rowadr := zget (l_M_rowadr m) i in
  let rownnz := zget (l_M_rownnz m) i in
  for_range 0 rownnz (-1) (fun k acc =>
    if zget (l_M_colind m) (rowadr + k) =? col then rowadr + k else acc).
(* gather indices of one dense tile block starting at dof [start]:
   slot (r, c) -> M_elemid[max(gi,gj), min(gi,gj)], absent -> nC *)
Definition tile_elemid (m : lmodel) (start size : Z) : list Z :=
  flat_map (fun r => map (fun c =>
      let gi := start + r in let gj := start + c in
      let e := M_elemid m (Z.max gi gj) (Z.min gi gj) in
      if 0 <=? e then e else l_nC m) (zrange size)) (zrange size).

(* "Group sparse LDL updates by tree depth": the loop `for k in range(mjm.nv)`.
   State: dof_depth and the (level, (i, k, Madr_ki)) entries in generation order. *)
Definition upd3 := (Z * Z * Z)%type.
Fixpoint ancestors_walk (fuel : nat) (m : lmodel) (depth : list Z) (k i Madr_ki : Z)
         (acc : list (Z * upd3)) : list (Z * upd3) :=
  match fuel with
  | O => acc
  | S f =>
      if -1 <? i then
        ancestors_walk f m depth k (zget (l_dof_parentid m) i) (Madr_ki - 1)
                       (acc ++ [(zget depth i, (i, k, Madr_ki))])
      else acc
  end.
Definition sparse_step (m : lmodel) (dof_adr : list Z) (k : Z) (st : list Z * list (Z * upd3))
  : list Z * list (Z * upd3) :=
  let '(depth, acc) := st in
  if zget (l_M_rownnz m) k =? 1 then st
  else
    (* dof_depth[k] = dof_depth[dof_parentid[k]] + 1   (numpy: index -1 wraps) *)
    let depth := zset depth k (zget_wrap depth (zget (l_dof_parentid m) k) + 1) in
    if negb (zget dof_adr k =? Q_LD_BLOCK_SPARSE) then (depth, acc)
    else
      let i := zget (l_dof_parentid m) k in
      let diag_k := zget (l_M_rowadr m) k + zget (l_M_rownnz m) k - 1 in
      (depth, ancestors_walk (Z.to_nat (l_nv m)) m depth k i (diag_k - 1) acc).
Definition sparse_updates (m : lmodel) (dof_adr : list Z) : list (Z * upd3) :=
  snd (for_range 0 (l_nv m) (repeat (-1) (Z.to_nat (l_nv m)), []) (sparse_step m dof_adr)).

(* sorted(sparse_updates): distinct level keys in ascending order *)
Fixpoint zinsert (x : Z) (l : list Z) : list Z :=
  match l with
  | [] => [x]
  | y :: r => if x <? y then x :: l else if x =? y then l else y :: zinsert x r
  end.
Definition level_keys (u : list (Z * upd3)) : list Z := fold_right zinsert [] (map fst u).
(* m.qLD_updates: one list of (i, k, Madr_ki) per level, levels ascending, generation order inside *)
Definition qLD_updates (m : lmodel) (dof_adr : list Z) : list (list upd3) :=
  let u := sparse_updates m dof_adr in
  map (fun d => map snd (filter (fun e => fst e =? d) u)) (level_keys u).
Definition qLD_all_updates (lv : list (list upd3)) : list upd3 :=
  match concat lv with [] => [(0, 0, 0)] | l => l end.
Fixpoint level_offsets_from (o : Z) (lv : list (list upd3)) : list Z :=
  match lv with
  | [] => []
  | l :: r => (o + Z.of_nat (length l)) :: level_offsets_from (o + Z.of_nat (length l)) r
  end.
Definition qLD_level_offsets (lv : list (list upd3)) : list Z := 0 :: level_offsets_from 0 lv.
Definition upd_flat (l : list upd3) : list Z := flat_map (fun u : upd3 => let '(i, k, a) := u in [i; k; a]) l.
Definition levels_flat (lv : list (list upd3)) : list Z :=
  flat_map (fun l => Z.of_nat (length l) :: upd_flat l) lv.

(* everything put_model derives from the layout, flattened for the correspondence *)
Definition put_model_flat (m : lmodel) : list Z :=
  let lay := m_block_layout m in
  let lv := qLD_updates m (lay_dof_adr lay) in
  [lay_total lay] ++ lay_dof_adr lay ++ [-7] ++ tiles_flat (m_tiles lay) ++ [-7]
  ++ levels_flat lv ++ [-7] ++ upd_flat (qLD_all_updates lv) ++ [-7] ++ qLD_level_offsets lv.

(* ---------------------------------------------------------------- device: kernels *)
Section Kernels.
  Context {S : Type} `{Scalar S}.
  Local Open Scope scalar_scope.
  Notation vec := (list S).

  (* ---- compact block: D[start+i] = 1 / M[matrix_adr+i];  x = D * y *)
  Definition compact_factor (size matrix_adr start : Z) (M D : vec) : vec :=
    for_range 0 size D (fun i D => vset D (start + i)%Z (s1 / vget M (matrix_adr + i)%Z)).
  Definition compact_solve (size start : Z) (D y x : vec) : vec :=
    for_range 0 size x (fun i x => vset x (start + i)%Z (vget D (start + i)%Z * vget y (start + i)%Z)).

  (* ---- _small_cholesky_factorize_block, non-compact branch: upper factor U, U[k][i] at
     factor_adr + k*size + i; M read in triangular packing M[j][i] at matrix_adr + j(j+1)//2 + i *)
  Definition small_factor (size matrix_adr factor_adr : Z) (M L : vec) : vec :=
    for_range 0 size L (fun i L =>
      let value := for_range 0 i (vget M (matrix_adr + Z.quot (i * (i + 1)) 2 + i)%Z)
                     (fun k v => let factor := vget L (factor_adr + k * size + i)%Z in v - factor * factor) in
      let diagonal_value := ssqrt value in
      let L := vset L (factor_adr + i * size + i)%Z diagonal_value in
      let diagonal_inv := s1 / diagonal_value in
      for_range (i + 1) size L (fun j L =>
        let value := for_range 0 i (vget M (matrix_adr + Z.quot (j * (j + 1)) 2 + i)%Z)
                       (fun k v => v - vget L (factor_adr + k * size + i)%Z * vget L (factor_adr + k * size + j)%Z) in
        vset L (factor_adr + i * size + j)%Z (value * diagonal_inv))).

  (* ---- _small_cholesky_solve: forward U^T z = y then backward U x = z, in place in x *)
  Definition small_solve_fwd (size factor_adr start : Z) (L y x : vec) : vec :=
    for_range 0 size x (fun i x =>
      let value := for_range 0 i (vget y (start + i)%Z)
                     (fun k v => v - vget L (factor_adr + k * size + i)%Z * vget x (start + k)%Z) in
      vset x (start + i)%Z (value / vget L (factor_adr + i * size + i)%Z)).
  Definition small_solve_bwd (size factor_adr start : Z) (L x : vec) : vec :=
    for_range 0 size x (fun reverse_i x =>
      let i := (size - 1 - reverse_i)%Z in
      let value := for_range (i + 1) size (vget x (start + i)%Z)
                     (fun k v => v - vget L (factor_adr + i * size + k)%Z * vget x (start + k)%Z) in
      vset x (start + i)%Z (value / vget L (factor_adr + i * size + i)%Z)).
  Definition small_solve (size factor_adr start : Z) (L y x : vec) : vec :=
    small_solve_bwd size factor_adr start L (small_solve_fwd size factor_adr start L y x).

  (* kernels: one (world, blk) task; start = block_dof[blk] *)
  Definition small_factor_block (rowadr qLD_block_adr : list Z) (size start : Z) (M : vec) (DL : vec * vec)
    : vec * vec :=
    let '(D, L) := DL in
    let matrix_adr := zget rowadr start in
    let factor_adr := zget qLD_block_adr start in
    if (factor_adr =? Q_LD_BLOCK_COMPACT)%Z then (compact_factor size matrix_adr start M D, L)
    else (D, small_factor size matrix_adr factor_adr M L).
  Definition small_solve_block (qLD_block_adr : list Z) (size start : Z) (D L y x : vec) : vec :=
    let factor_adr := zget qLD_block_adr start in
    if (factor_adr =? Q_LD_BLOCK_COMPACT)%Z then compact_solve size start D y x
    else small_solve size factor_adr start L y x.

  (* ---- _small_cholesky_factorize_solve_block (fused; same loop structure as the source) *)
  Definition small_factor_solve (size matrix_adr factor_adr start : Z) (M y : vec) (Lx : vec * vec) : vec * vec :=
    let Lx :=
      for_range 0 size Lx (fun i Lx =>
        let '(L, x) := Lx in
        let '(diagonal_value, rhs_value) :=
          for_range 0 i (vget M (matrix_adr + Z.quot (i * (i + 1)) 2 + i)%Z, vget y (start + i)%Z)
            (fun k dr => let '(dv, rv) := dr in
               let factor := vget L (factor_adr + k * size + i)%Z in
               (dv - factor * factor, rv - factor * vget x (start + k)%Z)) in
        let diagonal_factor := ssqrt diagonal_value in
        let L := vset L (factor_adr + i * size + i)%Z diagonal_factor in
        let diagonal_inv := s1 / diagonal_factor in
        let x := vset x (start + i)%Z (rhs_value * diagonal_inv) in
        (for_range (i + 1) size L (fun j L =>
           let value := for_range 0 i (vget M (matrix_adr + Z.quot (j * (j + 1)) 2 + i)%Z)
                          (fun k v => v - vget L (factor_adr + k * size + i)%Z * vget L (factor_adr + k * size + j)%Z) in
           vset L (factor_adr + i * size + j)%Z (value * diagonal_inv)), x)) in
    let '(L, x) := Lx in
    (L, small_solve_bwd size factor_adr start L x).
  Definition small_factor_solve_block (rowadr qLD_block_adr : list Z) (size start : Z) (M y : vec)
             (DLx : vec * vec * vec) : vec * vec * vec :=
    let '(D, L, x) := DLx in
    let matrix_adr := zget rowadr start in
    let factor_adr := zget qLD_block_adr start in
    if (factor_adr =? Q_LD_BLOCK_COMPACT)%Z then
      let Dx := for_range 0 size (D, x) (fun i Dx =>
        let '(D, x) := Dx in
        let inverse := s1 / vget M (matrix_adr + i)%Z in
        (vset D (start + i)%Z inverse, vset x (start + i)%Z (inverse * vget y (start + i)%Z))) in
      (fst Dx, L, snd Dx)
    else
      let '(L, x) := small_factor_solve size matrix_adr factor_adr start M y (L, x) in (D, L, x).

  (* ---- tile path.  Densify: block[slot] = M[idx[slot]] (index nC is out of bounds -> 0). *)
  Definition tile_densify (nC : Z) (elemid : list Z) (M : vec) : vec :=
    map (fun e => if (e <? nC)%Z then vget M e else s0) elemid.
  (* symmetric dense block -> triangular packing expected by small_factor: entry (j,i), i<=j *)
  Definition tri_pack (size : Z) (block : vec) : vec :=
    flat_map (fun j => map (fun i => vget block (j * size + i)%Z) (zrange (j + 1))) (zrange size).
  (* upper Cholesky factor of the dense block with zero strict lower part, stored at factor_adr *)
  Definition tile_factor (nC : Z) (elemid : list Z) (size factor_adr : Z) (M L : vec) : vec :=
    let block := tile_densify nC elemid M in
    let L := for_range 0 (size * size) L (fun s L => vset L (factor_adr + s)%Z s0) in
    small_factor size 0 factor_adr (tri_pack size block) L.

  (* ---- sparse LDL: _qLD_acc for one update (i, k, Madr_ki), in place *)
  Definition qLD_acc (rowadr rownnz : list Z) (u : upd3) (L : vec) : vec :=
    let '(i, k, Madr_ki) := u in
    let Madr_i := zget rowadr i in
    let diag_k := (zget rowadr k + zget rownnz k - 1)%Z in
    let tmp := vget L Madr_ki / vget L diag_k in
    let L := for_range 0 (zget rownnz i) L (fun j L =>
               vset L (Madr_i + j)%Z (vget L (Madr_i + j)%Z - vget L (zget rowadr k + j)%Z * tmp)) in
    vset L Madr_ki tmp.
  (* _factor_i_sparse: wp.copy(L, M); levels in reverse order; then D[dof] = 1/L[diag] for all dofs *)
  Definition factor_i_sparse (nv : Z) (rowadr rownnz : list Z) (levels : list (list upd3)) (M D : vec)
    : vec * vec :=
    let L := fold_left (fun L lev => fold_left (fun L u => qLD_acc rowadr rownnz u L) lev L) (rev levels) M in
    (for_range 0 nv D (fun dof D =>
       vset D dof (s1 / vget L (zget rowadr dof + zget rownnz dof - 1)%Z)), L).

  (* _solve_LD_sparse_fused with block_dim = 1 (the CPU launch) *)
  Definition lev_slice (all : list upd3) (offs : list Z) (level_idx : Z) : list upd3 :=
    let o := zget offs level_idx in
    firstn (Z.to_nat (zget offs (level_idx + 1) - o)) (skipn (Z.to_nat o) all).
  Definition solve_LD_sparse (nv nlevels : Z) (qLD_block_adr : list Z) (L D : vec)
             (all : list upd3) (offs : list Z) (y x : vec) : vec :=
    let x := for_range 0 nv x (fun dof x =>
               if (zget qLD_block_adr dof =? Q_LD_BLOCK_SPARSE)%Z then vset x dof (vget y dof) else x) in
    let x := for_range 0 nlevels x (fun level x =>
               fold_left (fun x u => let '(i, k, a) := u in vset x i (vget x i - vget L a * vget x k))
                         (lev_slice all offs (nlevels - 1 - level)) x) in
    let x := for_range 0 nv x (fun dof x =>
               if (zget qLD_block_adr dof =? Q_LD_BLOCK_SPARSE)%Z then vset x dof (vget x dof * vget D dof) else x) in
    for_range 0 nlevels x (fun level x =>
      fold_left (fun x u => let '(i, k, a) := u in vset x k (vget x k - vget L a * vget x i))
                (lev_slice all offs level) x).

  (* ---- drivers.  qLD = [packed dense region (total) | nC LDL region (iff some block sparse)] *)
  Record dmodel := mkD {
    d_m : lmodel;
    d_lay : layout;
    d_tiles : list (bool * Z * list Z);
    d_levels : list (list upd3);
  }.
  Definition mk_dmodel (m : lmodel) : dmodel :=
    let lay := m_block_layout m in
    mkD m lay (m_tiles lay) (qLD_updates m (lay_dof_adr lay)).

  Definition factor_blocks (dm : dmodel) (M : vec) (DL : vec * vec) : vec * vec :=
    let m := d_m dm in
    fold_left (fun DL t =>
      let '(g, size, adr) := t in
      fold_left (fun DL start =>
        if (g : bool) then
          (fst DL, tile_factor (l_nC m) (tile_elemid m start size) size (zget (lay_dof_adr (d_lay dm)) start) M (snd DL))
        else small_factor_block (l_M_rowadr m) (lay_dof_adr (d_lay dm)) size start M DL) adr DL)
      (d_tiles dm) DL.
  Definition solve_blocks (dm : dmodel) (D L y x : vec) : vec :=
    fold_left (fun x t =>
      let '(g, size, adr) := t in
      fold_left (fun x start =>
        if (g : bool) then small_solve size (zget (lay_dof_adr (d_lay dm)) start) start L y x
        else small_solve_block (lay_dof_adr (d_lay dm)) size start D L y x) adr x)
      (d_tiles dm) x.

  Definition sparse_present (dm : dmodel) (qLD : vec) : bool :=
    (lay_total (d_lay dm) <? Z.of_nat (length qLD))%Z.
  Definition region_dense (dm : dmodel) (qLD : vec) : vec := firstn (Z.to_nat (lay_total (d_lay dm))) qLD.
  Definition region_ldl (dm : dmodel) (qLD : vec) : vec := skipn (Z.to_nat (lay_total (d_lay dm))) qLD.

  (* factor_i on an arbitrary CSR matrix M (factor_m passes d.M, d.qLD, d.qLDiagInv) *)
  Definition factor_m (dm : dmodel) (M qLD D : vec) : vec * vec :=
    let m := d_m dm in
    let '(D, qLD) := match d_tiles dm with [] => (D, qLD) | _ => factor_blocks dm M (D, qLD) end in
    if sparse_present dm qLD then
      (* wp.copy(L, M): L (length nC) := M *)
      let '(D, Ls) := factor_i_sparse (l_nv m) (l_M_rowadr m) (l_M_rownnz m) (d_levels dm)
                        (firstn (length (region_ldl dm qLD)) M) D in
      (D, region_dense dm qLD ++ Ls)
    else (D, qLD).

  Definition solve_sparse_region (dm : dmodel) (Ls D y x : vec) : vec :=
    let lv := d_levels dm in
    solve_LD_sparse (l_nv (d_m dm)) (Z.of_nat (length lv)) (lay_dof_adr (d_lay dm)) Ls D
                    (qLD_all_updates lv) (qLD_level_offsets lv) y x.
  Definition solve_m (dm : dmodel) (qLD D y x : vec) : vec :=
    let x := match d_tiles dm with [] => x | _ => solve_blocks dm D qLD y x end in
    if sparse_present dm qLD then solve_sparse_region dm (region_ldl dm qLD) D y x else x.

  Definition factor_solve_blocks (dm : dmodel) (M y : vec) (DLx : vec * vec * vec) : vec * vec * vec :=
    let m := d_m dm in
    fold_left (fun DLx t =>
      let '(g, size, adr) := t in
      fold_left (fun DLx start =>
        let '(D, L, x) := DLx in
        if (g : bool) then
          let fadr := zget (lay_dof_adr (d_lay dm)) start in
          let L := tile_factor (l_nC m) (tile_elemid m start size) size fadr M L in
          (D, L, small_solve size fadr start L y x)
        else small_factor_solve_block (l_M_rowadr m) (lay_dof_adr (d_lay dm)) size start M y DLx) adr DLx)
      (d_tiles dm) DLx.
  Definition factor_solve_i (dm : dmodel) (M qLD D y x : vec) : vec * vec * vec :=
    let m := d_m dm in
    let '(D, qLD, x) := match d_tiles dm with [] => (D, qLD, x) | _ => factor_solve_blocks dm M y (D, qLD, x) end in
    if sparse_present dm qLD then
      let '(D, Ls) := factor_i_sparse (l_nv m) (l_M_rowadr m) (l_M_rownnz m) (d_levels dm)
                        (firstn (length (region_ldl dm qLD)) M) D in
      (D, region_dense dm qLD ++ Ls, solve_sparse_region dm Ls D y x)
    else (D, qLD, x).
End Kernels.
