(* Model/BatchBaseline.v -- COMMITTED baseline of array accesses (in kernels reachable from
   step / forward / step1 / step2 / inverse) that the abstract interpretation of
   bin/extract_access.py cannot classify as obeying the batch-indexing discipline on the
   unchanged tree.  Each entry is keyed by (kernel, parameter, role, index class, kind) - no
   line numbers - so that ANY change of the index class of one of these accesses, and any NEW
   undisciplined access anywhere, makes `discipline_ok baseline accesses` false.

   Classes of entries (all hand-inspected on the pinned tree):
   * wp.func helpers that receive `worldid: int` from callers the analysis cannot resolve to
     the world id (they are called from kernels launched over flat collision/contact lists
     that load the world id from a *_worldid array first): index is  worldid % p.shape[0]  on
     the field's own size, or  [worldid, ...]  on per-world arrays.  (IMod p false / IParam)
   * _sap_broadphase body_awake_in[worldid, b]: worldid = (flat index) / ngeom, an OTHER
     expression that equals the world id by the work-package decoding (C18 proves that).
   * flex SAP sweep kernels: wp.atomic_or(overflow_out, worldid, bit) with worldid decoded
     from a flat index.
   * _add_surface_vel: geom_xpos_in[worldid % geom_xpos_in.shape[0], g] - a per-world Data
     array indexed modulo its own leading size (= nworld), which equals the world id.
   (The former entry for _flex_narrowphase's opt_ccd_tolerance[0 % n] was a genuine C10 defect;
   it was repaired in /repo by a `fix:` commit and removed from this baseline.) *)
From Coq Require Import String List.
From VF Require Import Model.Batch.
Import ListNotations.
Local Open Scope string_scope.

Definition baseline : list access := [
  (* solver._compact_tolerance: launched over opt_tolerance.shape[0]; a row-wise map of the batched
     field into ctol (same leading size), which is then read at worldid % ctol.shape[0] *)
  mkA "solver._compact_tolerance" "opt_tolerance" RBatch (ITid 0) ARead;
  (* collision_convex._hfield_filter *)
  mkA "collision_convex._hfield_filter" "geom_dataid" RBatch (IMod "geom_dataid" false) ARead;
  mkA "collision_convex._hfield_filter" "geom_xpos_in" RWorld (IParam "worldid") ARead;
  mkA "collision_convex._hfield_filter" "geom_xmat_in" RWorld (IParam "worldid") ARead;
  mkA "collision_convex._hfield_filter" "geom_rbound" RBatch (IMod "geom_rbound" false) ARead;
  mkA "collision_convex._hfield_filter" "geom_margin" RBatch (IMod "geom_margin" false) ARead;
  mkA "collision_convex._hfield_filter" "geom_size" RBatch (IMod "geom_size" false) ARead;
  (* collision_core.contact_margin_gap *)
  mkA "collision_core.contact_margin_gap" "pair_margin" RBatch (IMod "pair_margin" false) ARead;
  mkA "collision_core.contact_margin_gap" "pair_gap" RBatch (IMod "pair_gap" false) ARead;
  mkA "collision_core.contact_margin_gap" "geom_margin" RBatch (IMod "geom_margin" false) ARead;
  mkA "collision_core.contact_margin_gap" "geom_gap" RBatch (IMod "geom_gap" false) ARead;
  (* collision_core.contact_material_params *)
  mkA "collision_core.contact_material_params" "pair_friction" RBatch (IMod "pair_friction" false) ARead;
  mkA "collision_core.contact_material_params" "pair_solref" RBatch (IMod "pair_solref" false) ARead;
  mkA "collision_core.contact_material_params" "pair_solreffriction" RBatch (IMod "pair_solreffriction" false) ARead;
  mkA "collision_core.contact_material_params" "pair_solimp" RBatch (IMod "pair_solimp" false) ARead;
  mkA "collision_core.contact_material_params" "pair_adhesion" RBatch (IMod "pair_adhesion" false) ARead;
  mkA "collision_core.contact_material_params" "geom_solmix" RBatch (IMod "geom_solmix" false) ARead;
  mkA "collision_core.contact_material_params" "geom_adhesion" RBatch (IMod "geom_adhesion" false) ARead;
  mkA "collision_core.contact_material_params" "geom_friction" RBatch (IMod "geom_friction" false) ARead;
  mkA "collision_core.contact_material_params" "geom_solref" RBatch (IMod "geom_solref" false) ARead;
  mkA "collision_core.contact_material_params" "geom_solimp" RBatch (IMod "geom_solimp" false) ARead;
  (* collision_core.geom_collision_pair_from_types *)
  mkA "collision_core.geom_collision_pair_from_types" "geom_xpos_in" RWorld (IParam "worldid") ARead;
  mkA "collision_core.geom_collision_pair_from_types" "geom_xmat_in" RWorld (IParam "worldid") ARead;
  mkA "collision_core.geom_collision_pair_from_types" "geom_size" RBatch (IMod "geom_size" false) ARead;
  mkA "collision_core.geom_collision_pair_from_types" "geom_dataid" RBatch (IMod "geom_dataid" false) ARead;
  (* collision_driver._broadphase_filter.func (wp.func built by a factory, called from the NXN and SAP
     broadphase kernels with a decoded world id): each batched geom field is read at
     worldid % n where n is the factory's static parameter; the extractor resolves n through the
     factory call sites to <the same array>.shape[0] (otherwise the index class names the other
     expression and this entry no longer matches) *)
  mkA "collision_driver._broadphase_filter.func" "geom_aabb" RBatch (IMod "geom_aabb" false) ARead;
  mkA "collision_driver._broadphase_filter.func" "geom_rbound" RBatch (IMod "geom_rbound" false) ARead;
  mkA "collision_driver._broadphase_filter.func" "geom_margin" RBatch (IMod "geom_margin" false) ARead;
  mkA "collision_driver._broadphase_filter.func" "geom_gap" RBatch (IMod "geom_gap" false) ARead;
  mkA "collision_driver._broadphase_filter.func" "geom_xpos_in" RWorld (IParam "worldid") ARead;
  mkA "collision_driver._broadphase_filter.func" "geom_xmat_in" RWorld (IParam "worldid") ARead;
  (* collision_driver._sap_broadphase.kernel *)
  mkA "collision_driver._sap_broadphase.kernel" "body_awake_in" RWorld IOther ARead;
  (* collision_flex._flex_flex_sap_sweep.kernel *)
  mkA "collision_flex._flex_flex_sap_sweep.kernel" "overflow_out" RWorld IOther AAtomic;
  (* collision_flex._self_flex_sap_sweep.kernel *)
  mkA "collision_flex._self_flex_sap_sweep.kernel" "overflow_out" RWorld IOther AAtomic;
  (* constraint._add_surface_vel.kernel *)
  mkA "constraint._add_surface_vel.kernel" "geom_xpos_in" RWorld (IMod "geom_xpos_in" true) ARead;
  mkA "constraint._add_surface_vel.kernel" "geom_xmat_in" RWorld (IMod "geom_xpos_in" true) ARead;
  (* support.jac_dof *)
  mkA "support.jac_dof" "subtree_com_in" RWorld (IParam "worldid") ARead;
  mkA "support.jac_dof" "cdof_in" RWorld (IParam "worldid") ARead].
