(* Model/Integrate.v -- executable model of the time-integration stage of
   /repo/mujoco_warp/_src/forward.py:

     kernels   _next_position, _next_velocity, _next_activation (non-DCMOTOR branch, with
               support.next_act), _next_time (time update only),
               _rk_accumulate_velocity_acceleration, _rk_accumulate_activation_velocity, _rk_stage_time,
               _rk_perturb_activation;
     host code _advance, euler (branch without implicit damping), the shape shared by
               euler-with-damping / implicit / implicitfast (advance with the result of an
               ABSTRACT linear solve), _rk_perturb_state, _rk_accumulate, rungekutta4.

   Everything is polymorphic in the Scalar: theorems are proved at R (Proof/Integrate.v),
   the correspondence check runs the same terms at binary64 against the real kernels.
   The quaternion update is the machine-translated Gen.math.quat_integrate.

   What is copied from the code (and is NOT what a textbook would write):
   * _next_position:  hinge/slide  qpos + (timestep * qvel) * scale   (this association);
     free: pos + timestep * (v_lin * scale), quat_integrate quat (v_ang * scale) timestep.
   * every kernel task writes into the OUTPUT array; _advance passes the same array as input
     and output (in place), _rk_perturb_state reads qpos_t0 / qvel_t0 / act_t0 and writes d.*.
     CPU launches run the tasks in ascending order, so the in-place run is a left fold in
     which task j reads the array already modified by tasks < j.
   * _advance: activation, then velocity, then position with `qvel or d.qvel` (d.qvel is the
     array just overwritten: the NEW velocity), then time, then qacc_warmstart <- d.qacc
     (the Data field, not the qacc argument).
   * rungekutta4: before each of the three intermediate forward() calls d.time is set to
     time_t0 + a_i * timestep (kernel _rk_stage_time; c_i = a_i for this tableau) and restored
     to time_t0 before the final _advance.  d.sensordata is cloned at entry and copied back with the other
     restores (the stages' forward() recomputes sensors; MuJoCo skips them): sensordata is not part of
     the integration state modelled here, the clone/copy pair is pinned by IntegrateFacts.rk4_events.
   Enum values (checked against types.py by bin/props/C08.py on every run):
     JointType FREE=0 BALL=1 SLIDE=2 HINGE=3;  DynType FILTEREXACT=3 DCMOTOR=5 USER=7. *)
From Coq Require Import ZArith List Bool.
From VF Require Import Base.Scalar Base.Vec Base.Loop Gen.math.
Import ListNotations.
Local Open Scope Z_scope.

Record joint := { jtype : Z; qposadr : Z; dofadr : Z }.

(* dynprm0 = actuator_dynprm[.,u][0]; (rlo, rhi) = actuator_actrange[.,u] *)
Record actuator (S : Type) := {
  dyntype : Z; actadr : Z; actnum : Z; dynprm0 : S; rlo : S; rhi : S; actlimited : bool }.
Arguments dyntype {S}. Arguments actadr {S}. Arguments actnum {S}. Arguments dynprm0 {S}.
Arguments rlo {S}. Arguments rhi {S}. Arguments actlimited {S}.

Definition jwidth (j : joint) : Z := if jtype j =? 0 then 7 else if jtype j =? 1 then 4 else 1.
(* qpos slots task j writes (and the only qpos slots it reads) *)
Definition jslots (j : joint) : list Z :=
  map (fun k => qposadr j + Z.of_nat k) (seq 0 (Z.to_nat (jwidth j))).
Definition aslots {S} (a : actuator S) : list Z :=
  map (fun k => actadr a + Z.of_nat k) (seq 0 (Z.to_nat (actnum a))).

Section Integrate.
Context {S : Type} `{Scalar S}.
Local Open Scope scalar_scope.

(* a kernel task = the list of (index, value) stores it performs, in program order *)
Fixpoint vset_all (out : list S) (ws : list (Z * S)) : list S :=
  match ws with
  | nil => out
  | (i, x) :: r => vset_all (vset out i x) r
  end.

(* tasks that read [qin] and write [out] (two different arrays) *)
Definition run_sep {T} (wr : list S -> T -> list (Z * S)) (tasks : list T) (qin out : list S) : list S :=
  fold_left (fun o t => vset_all o (wr qin t)) tasks out.
(* the same launch with input and output aliased *)
Definition run_inplace {T} (wr : list S -> T -> list (Z * S)) (tasks : list T) (q : list S) : list S :=
  fold_left (fun o t => vset_all o (wr o t)) tasks q.

(* ---- _next_position ------------------------------------------------------------------- *)
Definition npos_writes (h scale : S) (qvel : list S) (qpos : list S) (j : joint) : list (Z * S) :=
  let a := qposadr j in
  let d := dofadr j in
  if (jtype j =? 0)%Z then
    let qpos_pos := [vget qpos a; vget qpos (a + 1)%Z; vget qpos (a + 2)%Z] in
    let qvel_lin := vscaler [vget qvel d; vget qvel (d + 1)%Z; vget qvel (d + 2)%Z] scale in
    let qpos_new := vadd qpos_pos (vscale h qvel_lin) in
    let qpos_quat := [vget qpos (a + 3)%Z; vget qpos (a + 4)%Z; vget qpos (a + 5)%Z; vget qpos (a + 6)%Z] in
    let qvel_ang := vscaler [vget qvel (d + 3)%Z; vget qvel (d + 4)%Z; vget qvel (d + 5)%Z] scale in
    let qn := quat_integrate qpos_quat qvel_ang h in
    [ (a, vget qpos_new 0); ((a + 1)%Z, vget qpos_new 1); ((a + 2)%Z, vget qpos_new 2);
      ((a + 3)%Z, vget qn 0); ((a + 4)%Z, vget qn 1); ((a + 5)%Z, vget qn 2); ((a + 6)%Z, vget qn 3) ]
  else if (jtype j =? 1)%Z then
    let qpos_quat := [vget qpos a; vget qpos (a + 1)%Z; vget qpos (a + 2)%Z; vget qpos (a + 3)%Z] in
    let qvel_ang := vscaler [vget qvel d; vget qvel (d + 1)%Z; vget qvel (d + 2)%Z] scale in
    let qn := quat_integrate qpos_quat qvel_ang h in
    [ (a, vget qn 0); ((a + 1)%Z, vget qn 1); ((a + 2)%Z, vget qn 2); ((a + 3)%Z, vget qn 3) ]
  else
    [ (a, vget qpos a + h * vget qvel d * scale) ].

(* wp.launch(_next_position, inputs=[.., qpos_in, qvel_in, scale], outputs=[qpos_out]) *)
Definition next_position (h scale : S) (joints : list joint) (qpos_in qvel qpos_out : list S) : list S :=
  run_sep (npos_writes h scale qvel) joints qpos_in qpos_out.
Definition next_position_inplace (h scale : S) (joints : list joint) (qpos qvel : list S) : list S :=
  run_inplace (npos_writes h scale qvel) joints qpos.

(* ---- _next_velocity (element-wise: aliasing cannot matter) --------------------------------- *)
Definition next_velocity (h : S) (qvel qacc : list S) (scale : S) : list S :=
  vmap2 (fun v a => v + scale * a * h) qvel qacc.

(* ---- support.next_act and _next_activation (dyntype <> DCMOTOR) ---------------------------- *)
Definition MJ_MINVAL : S := slit 1 1000000000000000.

Definition next_act (h : S) (dyn : Z) (prm0 lo hi act_in act_dot scale : S) (clamp : bool) : S :=
  let act :=
    if (dyn =? 3)%Z then                                        (* FILTEREXACT *)
      let tau := smax MJ_MINVAL prm0 in
      act_in + scale * act_dot * tau * (s1 - sexp (sneg h / tau))
    else if (dyn =? 7)%Z then act_in                            (* USER: unchanged, but clamped below *)
    else act_in + scale * act_dot * h in
  if clamp then sclamp act lo hi else act.

Definition nact_writes (h : S) (act_dot : list S) (scale : S) (limit : bool)
    (act_in : list S) (u : actuator S) : list (Z * S) :=
  map (fun k => let j := (actadr u + Z.of_nat k)%Z in
         (j, next_act h (dyntype u) (dynprm0 u) (rlo u) (rhi u) (vget act_in j) (vget act_dot j)
                      scale (limit && actlimited u)))
      (seq 0 (Z.to_nat (actnum u))).

Definition next_activation (h : S) (acts : list (actuator S)) (act_in act_dot : list S)
    (scale : S) (limit : bool) (act_out : list S) : list S :=
  run_sep (nact_writes h act_dot scale limit) acts act_in act_out.
Definition next_activation_inplace (h : S) (acts : list (actuator S)) (act act_dot : list S)
    (scale : S) (limit : bool) : list S :=
  run_inplace (nact_writes h act_dot scale limit) acts act.

(* ---- euler(): implicit joint damping ------------------------------------------------------- *)
(* util_misc._poly_force_deriv(damping, dpoly, v, 1) as called by _compute_damping_deriv: the
   velocity derivative of the polynomial damper force v (d + p0 |v| + p1 v^2), evaluated with |v| *)
Definition damping_deriv (d p0 p1 v : S) : S :=
  let x := sabs v in
  d + sofZ 2 * p0 * x + sofZ 3 * p1 * x * x.

(* _compute_damping_deriv over all dofs: dpoly is the list of (p0, p1) *)
Fixpoint compute_damping_deriv (damping : list S) (dpoly : list (S * S)) (qvel : list S) : list S :=
  match damping, dpoly, qvel with
  | d :: dr, (p0, p1) :: pr, v :: vr => damping_deriv d p0 p1 v :: compute_damping_deriv dr pr vr
  | _, _, _ => nil
  end.

(* _euler_damp_qfrc: task tid adds timestep * deriv[tid] to the LAST stored entry of row tid of the
   cloned M (CSR lower triangle: the diagonal), adr = M_rowadr[tid] + M_rownnz[tid] - 1 *)
Definition euler_damp_qfrc (h : S) (rownnz rowadr : list Z) (deriv : list S) (M : list S) : list S :=
  fold_left (fun M (t : (Z * Z) * S) =>
               let adr := (snd (fst t) + fst (fst t) - 1)%Z in
               vset M adr (vget M adr + h * snd t))
            (combine (combine rownnz rowadr) deriv) M.

(* ---- _rk_perturb_activation: act_out[i] = act_t0[i] + scale * act_dot[i] * timestep, all na slots
   (element-wise; no exact filter, no clamp, no dyntype dispatch in the RK sub-stages) *)
Definition rk_perturb_activation (h : S) (act_t0 act_dot : list S) (scale : S) : list S :=
  vmap2 (fun a ad => a + scale * ad * h) act_t0 act_dot.

(* ---- the part of Data the integrators touch ------------------------------------------------ *)
Record data := {
  qpos : list S; qvel : list S; act : list S; time : S;
  qacc : list S; act_dot : list S;        (* outputs of forward() *)
  warmstart : list S }.

Record model := { timestep : S; joints : list joint; acts : list (actuator S) }.

Section Steps.
  Variable m : model.
  (* forward(): (qpos, qvel, act, time) |-> (qacc, act_dot); ABSTRACT *)
  Variable fwd : list S -> list S -> list S -> S -> list S * list S.

  Definition do_forward (d : data) : data :=
    let '(a, ad) := fwd (qpos d) (qvel d) (act d) (time d) in
    {| qpos := qpos d; qvel := qvel d; act := act d; time := time d;
       qacc := a; act_dot := ad; warmstart := warmstart d |}.

  (* _advance(m, d, qacc, qvel=None) without the sleep tail *)
  Definition advance (d : data) (qacc_arg : list S) (qvel_arg : option (list S)) : data :=
    let h := timestep m in
    let act' := next_activation_inplace h (acts m) (act d) (act_dot d) s1 true in
    let qvel' := next_velocity h (qvel d) qacc_arg s1 in
    let qvel_in := match qvel_arg with Some v => v | None => qvel' end in   (* qvel or d.qvel *)
    let qpos' := next_position_inplace h s1 (joints m) (qpos d) qvel_in in
    {| qpos := qpos'; qvel := qvel'; act := act'; time := time d + h;
       qacc := qacc d; act_dot := act_dot d; warmstart := qacc d |}.

  (* euler(), branch `_advance(m, d, d.qacc)` (EULERDAMP or DAMPER disabled) *)
  Definition euler_step (d : data) : data := advance d (qacc d) None.

  (* euler() with implicit damping, implicit(), implicitfast(): _advance(m, d, qacc) where qacc
     is the result of a linear solve that is not modelled here (C27 / C06) *)
  Definition solved_step (solve : data -> list S) (d : data) : data := advance d (solve d) None.

  (* euler() with EULERDAMP and DAMPER enabled: qacc solves (M + h diag(D)) qacc = Ma, D the damper
     derivative at the CURRENT velocity; the factor-solve itself is abstract and receives the diagonal
     increments h * D the code adds to its clone of M *)
  Definition euler_damped_step (damping : list S) (dpoly : list (S * S))
      (solve : list S -> data -> list S) (d : data) : data :=
    let incr := map (fun dv => timestep m * dv) (compute_damping_deriv damping dpoly (qvel d)) in
    advance d (solve incr d) None.

  (* ---- Runge-Kutta ---- *)
  Definition rkA : list S := [slit 1 2; slit 1 2; s1].
  Definition rkB : list S := [slit 1 6; slit 1 3; slit 1 3; slit 1 6].

  Definition accum (scale : S) (acc x : list S) : list S := vmap2 (fun r v => r + scale * v) acc x.

  (* _rk_accumulate: (qvel_rk, qacc_rk, act_dot_rk) += scale * (d.qvel, d.qacc, d.act_dot) *)
  Definition rk_accumulate (d : data) (scale : S) (r : list S * list S * list S) :=
    let '(vr, ar, adr) := r in (accum scale vr (qvel d), accum scale ar (qacc d), accum scale adr (act_dot d)).

  (* _rk_perturb_state: position FIRST (with the velocity of the previous stage), then velocity,
     then activation by plain Euler for every dyntype (kernel _rk_perturb_activation) *)
  Definition rk_perturb (d : data) (scale : S) (qpos_t0 qvel_t0 act_t0 : list S) : data :=
    let h := timestep m in
    let qpos' := next_position h scale (joints m) qpos_t0 (qvel d) (qpos d) in
    let qvel' := next_velocity h qvel_t0 (qacc d) scale in
    let act' := rk_perturb_activation h act_t0 (act_dot d) scale in
    {| qpos := qpos'; qvel := qvel'; act := act'; time := time d;
       qacc := qacc d; act_dot := act_dot d; warmstart := warmstart d |}.

  (* _rk_stage_time: d.time <- time_t0 + a * timestep (the node c_i of this tableau equals a_i) *)
  Definition rk_stage_time (time_t0 scale : S) : S := time_t0 + scale * timestep m.

  Definition rk_stage (i : Z) (st : data * (list S * list S * list S))
      (qpos_t0 qvel_t0 act_t0 : list S) (time_t0 : S) : data * (list S * list S * list S) :=
    let '(d, r) := st in
    let a := vget rkA i in
    let b := vget rkB (i + 1)%Z in
    let d := rk_perturb d a qpos_t0 qvel_t0 act_t0 in
    let d := {| qpos := qpos d; qvel := qvel d; act := act d; time := rk_stage_time time_t0 a;
                qacc := qacc d; act_dot := act_dot d; warmstart := warmstart d |} in
    let d := do_forward d in
    (d, rk_accumulate d b r).

  (* rungekutta4(m, d); step() has called forward() before, so d carries k1 *)
  Definition rk4_step (d : data) : data :=
    let qpos_t0 := qpos d in
    let qvel_t0 := qvel d in
    let time_t0 := time d in
    let act_t0 := act d in
    let zero l := map (fun _ : S => s0) l in
    let r := rk_accumulate d (vget rkB 0) (zero (qvel d), zero (qvel d), zero (act d)) in
    let '(d, (vr, ar, adr)) :=
      for_range 0 3 (d, r) (fun i st => rk_stage i st qpos_t0 qvel_t0 act_t0 time_t0) in
    let d := {| qpos := qpos_t0; qvel := qvel_t0; act := act_t0; time := time_t0;
                qacc := qacc d; act_dot := adr; warmstart := warmstart d |} in
    advance d ar (Some vr).

  (* step(): forward then the integrator *)
  Definition step_euler (d : data) : data := euler_step (do_forward d).
  Definition step_rk4 (d : data) : data := rk4_step (do_forward d).
End Steps.

(* flat views used by the correspondence check *)
Definition data_flat (d : data) : list S :=
  qpos d ++ qvel d ++ act d ++ [time d] ++ warmstart d.

End Integrate.

Arguments data S : clear implicits.
Arguments model S : clear implicits.
