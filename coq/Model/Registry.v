(* Model/Registry.v -- process-global state that could carry information from one simulated
   model to the next (C36): the @cache_kernel registry and the narrowphase dispatch list.
   Definitions only. *)
From Coq Require Import ZArith String List Bool.
Import ListNotations.
Local Open Scope string_scope.

(* ---- skeleton data regenerated from /repo (Gen/Skel_cache.v) ------------------------ *)
Inductive pkind := PBool | PInt | PEnum | PTile | PList | PUntyped | POther.
Record param := mkP { p_name : string; p_kind : pkind; p_attrs : list string }.
Record factory := mkF { f_module : string; f_name : string; f_params : list param }.

Definition pkind_eqb (a b : pkind) : bool :=
  match a, b with
  | PBool, PBool | PInt, PInt | PEnum, PEnum | PTile, PTile | PList, PList | PUntyped, PUntyped | POther, POther => true
  | _, _ => false
  end.

(* a TileSet parameter is hashed by its .size only (hasattr(a,"size")): the factory body may
   therefore depend on nothing but .size *)
Definition param_ok (p : param) : bool :=
  match p_kind p with
  | PBool | PInt | PEnum => true
  | PTile => match p_attrs p with ["size"] => true | _ => false end
  | PUntyped | PList => true           (* hashed through hash(tuple(list)); see [arg] *)
  | POther => false
  end.

Fixpoint nodup_str (l : list string) : bool :=
  match l with nil => true | x :: r => negb (existsb (String.eqb x) r) && nodup_str r end.

Definition factories_ok (fs : list factory) : bool :=
  forallb (fun f => forallb param_ok (f_params f)) fs && nodup_str (map f_name fs).

Definition allowed_globals : list (string * string) :=
  [("warp_util", "_KERNEL_CACHE"); ("warp_util", "_STACK")].
Definition globals_ok (gs : list (string * string)) : bool :=
  forallb (fun g => existsb (fun a => String.eqb (fst a) (fst g) && String.eqb (snd a) (snd g)) allowed_globals) gs.

(* ---- the cache key --------------------------------------------------------------------- *)
(* argument values as cache_kernel sees them *)
Inductive arg :=
| ABool (b : bool)
| AInt (z : Z)                       (* int or IntEnum value *)
| ATile (size : Z) (adr : list Z)    (* TileSet: only .size enters the key *)
| AList (ids : list Z).              (* list of hashable objects, identified by their identity *)

(* CPython's hash on small ints: identity, except hash(-1) = -2; bools hash as 0/1 *)
Definition pyhash_int (z : Z) : Z := if Z.eqb z (-1) then (-2)%Z else z.

Section Key.
  Variable hash_tuple : list Z -> Z.      (* hash(tuple(a)) *)
  Variable hash_str : string -> Z.        (* hash(func.__name__) *)

  Definition hash_arg (a : arg) : Z :=
    match a with
    | ABool b => if b then 1%Z else 0%Z
    | AInt z => pyhash_int z
    | ATile size _ => size
    | AList ids => hash_tuple ids
    end.
  Definition cache_key (fname : string) (args : list arg) : list Z :=
    map hash_arg args ++ [hash_str fname].

  (* what the kernel built by a factory may depend on *)
  Definition relevant (a : arg) : arg :=
    match a with ATile size _ => ATile size nil | x => x end.

  (* argument is in the domain where the key is faithful: ints / enum values / sizes >= 0 *)
  Definition arg_ok (k : pkind) (a : arg) : bool :=
    match k, a with
    | PBool, ABool _ => true
    | (PInt | PEnum), AInt z => Z.leb 0 z
    | PTile, ATile s _ => Z.leb 0 s
    | (PList | PUntyped), AList _ => true
    | _, _ => false
    end.
  Fixpoint args_ok (ks : list pkind) (args : list arg) : bool :=
    match ks, args with
    | nil, nil => true
    | k :: ks', a :: args' => arg_ok k a && args_ok ks' args'
    | _, _ => false
    end.

  (* the registry: first build wins *)
  Definition registry := list (list Z * (string * list arg)).
  Fixpoint lookup (r : registry) (k : list Z) : option (string * list arg) :=
    match r with
    | nil => None
    | (k', v) :: r' => if (list_eq_dec Z.eq_dec k k') then Some v else lookup r' k
    end.
  Definition get_kernel (r : registry) (fname : string) (args : list arg) : registry * (string * list arg) :=
    let k := cache_key fname args in
    match lookup r k with
    | Some v => (r, v)
    | None => ((k, (fname, args)) :: r, (fname, args))
    end.
End Key.

(* ---- narrowphase dispatch ------------------------------------------------------------------ *)
(* pair types are numbered; a model has a collision table (which pair types are primitive for it)
   and a count of geom pairs per type *)
Record cmodel := { table : list nat; paircount : nat -> nat }.
Definition all_pair_types : list nat := seq 0 64.

(* what the code does after the repair: rebuilt per call, from this model only *)
Definition dispatch_local (m : cmodel) : list nat :=
  filter (fun t => existsb (Nat.eqb t) (table m) && negb (Nat.eqb (paircount m t) 0)) all_pair_types.

(* the former design: a process-wide list that only grows *)
Definition dispatch_global (g : list nat) (m : cmodel) : list nat :=
  fold_left (fun acc t => if existsb (Nat.eqb t) acc then acc else acc ++ [t])%list (dispatch_local m) g.
