(* Model/Pipeline.v -- the host-side stage language that bin/extract_launch.py
   regenerates from /repo's Python source (Gen/Skel_pipeline.v), its flattening into
   a sequence of primitive events under a valuation of the Python conditions, and an
   abstract semantics of events over named fields (footprints).  Definitions only. *)
From Coq Require Import String List Bool Arith.
Import ListNotations.
Local Open Scope string_scope.

Inductive stmt :=
| Launch (kernel : string) (fargs ins outs : list string)
| Call (f : string) (args : list string) (kwargs : list (string * string))
| If (cond : string) (t e : list stmt)
| Zero (field : string)
| Fill (field value : string)
| Copy (dst src : string)
| Assign (name expr : string)
| Loop (head : string) (body : list stmt)
| Return (e : string)
| Raise (t : string)
| Other (t : string).

(* function: name, parameters (name, default text or ""), body *)
Record fn := { fname : string; params : list (string * string); body : list stmt }.
Definition prog := list fn.

(* events of a flattened run.  Conditions the (partial) valuation leaves undecided stay as
   EIf nodes; calls on the [opaque] list are kept as one EGroup carrying their own
   flattened body (so that their footprint is derived, not asserted). *)
Inductive event :=
| ELaunch (kernel : string) (fargs ins outs : list string)
| EZero (field : string)
| EFill (field value : string)
| ECopy (dst src : string)
| EGroup (f : string) (args : list string) (body : list event)
| EExt (f : string) (args : list string)          (* callee not in the program: callbacks, warp calls *)
| EIf (cond : string) (t e : list event)
| ELoop (head : string) (body : list event)
| EAssign (name expr : string)
| ERaise (t : string)
| EOther (t : string).

Fixpoint lookup_fn (p : prog) (f : string) : option fn :=
  match p with
  | nil => None
  | x :: r => if String.eqb (fname x) f then Some x else lookup_fn r f
  end.

Definition env := list (string * string).
Fixpoint env_get (e : env) (k : string) : option string :=
  match e with nil => None | (a, b) :: r => if String.eqb a k then Some b else env_get r k end.
Definition subst (e : env) (s : string) : string :=
  match env_get e s with Some v => v | None => s end.

(* bind parameters: positional args, then kwargs, then defaults *)
Fixpoint bind (ps : list (string * string)) (args : list string) (kw : env) : env :=
  match ps with
  | nil => nil
  | (p, dflt) :: ps' =>
      match args with
      | a :: args' => (p, a) :: bind ps' args' kw
      | nil => (p, match env_get kw p with Some v => v | None => dflt end) :: bind ps' nil kw
      end
  end.

(* A partial valuation decides some Python conditions; a condition that is literally a
   boolean parameter bound to "True"/"False" (e.g. factorize) is decided by the binding. *)
Definition pval := string -> option bool.
Definition cond_value (val : pval) (e : env) (c : string) : option bool :=
  match env_get e c with
  | Some "True" => Some true
  | Some "False" => Some false
  | _ => val c
  end.

Definition kwtxt (kw : env) : list string := map (fun q => fst q ++ "=" ++ snd q) kw.

Fixpoint has_stop (s : stmt) : bool :=
  let any := (fix any (l : list stmt) : bool := match l with nil => false | x :: r => has_stop x || any r end) in
  match s with
  | Return _ | Raise _ => true
  | If _ t e => any t || any e
  | _ => false
  end.
Definition any_stop (l : list stmt) : bool := existsb has_stop l.

Section Flatten.
  Variable p : prog.
  Variable opaque : string -> bool.     (* callees kept as one EGroup *)
  Variable val : pval.

  (* Flatten the tail [b] of a function body under environment [e].  A `return` drops the
     rest of the CURRENT function only.  An undecided `if` whose branches contain a
     return/raise receives the rest of the block inside both branches; otherwise the rest
     follows the EIf node (no duplication).  Fuel-indexed; exhaustion is marked. *)
  Fixpoint flat (fuel : nat) (e : env) (b : list stmt) {struct fuel} : list event :=
    match fuel with
    | O => [EOther "out-of-fuel"]
    | S n =>
      match b with
      | nil => nil
      | s :: r =>
        match s with
        | If c t el =>
            match cond_value val e c with
            | Some true => flat n e (app t r)
            | Some false => flat n e (app el r)
            | None =>
                if any_stop t || any_stop el
                then [EIf c (flat n e (app t r)) (flat n e (app el r))]
                else EIf c (flat n e t) (flat n e el) :: flat n e r
            end
        | Return _ => nil
        | Raise t => [ERaise t]
        | Launch k fa i o => ELaunch k (map (subst e) fa) (map (subst e) i) (map (subst e) o) :: flat n e r
        | Call f args kw =>
            let args' := map (subst e) args in
            let kw' := map (fun q => (fst q, subst e (snd q))) kw in
            match lookup_fn p f with
            | Some g =>
                let evs := flat n (bind (params g) args' kw') (body g) in
                if opaque f then EGroup f (app args' (kwtxt kw')) evs :: flat n e r
                else app evs (flat n e r)
            | None => EExt f (app args' (kwtxt kw')) :: flat n e r
            end
        | Zero f => EZero (subst e f) :: flat n e r
        | Fill f v => EFill (subst e f) v :: flat n e r
        | Copy d s0 => ECopy (subst e d) (subst e s0) :: flat n e r
        | Assign nm x => EAssign nm x :: flat n e r
        | Loop h bd => ELoop h (flat n e bd) :: flat n e r
        | Other t => EOther t :: flat n e r
        end
      end
    end.

  Definition flatten (fuel : nat) (f : string) (args : list string) (kw : env) : list event :=
    match lookup_fn p f with
    | Some g => flat fuel (bind (params g) args kw) (body g)
    | None => [EOther ("missing " ++ f)]
    end.
End Flatten.

(* no fuel exhaustion / missing function marker anywhere in a flattened tree *)
Fixpoint ev_ok (e : event) : bool :=
  let all := (fix all (l : list event) : bool := match l with nil => true | x :: r => ev_ok x && all r end) in
  match e with
  | EOther t => negb (String.eqb t "out-of-fuel") && negb (String.prefix "missing " t)
  | EGroup _ _ b => all b
  | EIf _ t el => all t && all el
  | ELoop _ b => all b
  | _ => true
  end.
Definition evs_ok (l : list event) : bool := forallb ev_ok l.

(* ---- event equality (decidable, used by vm_compute facts) --------------------- *)
Fixpoint list_eqb {A} (eqb : A -> A -> bool) (a b : list A) : bool :=
  match a, b with
  | nil, nil => true
  | x :: a', y :: b' => eqb x y && list_eqb eqb a' b'
  | _, _ => false
  end.
Definition strs_eqb := list_eqb String.eqb.

Fixpoint event_eqb (a b : event) {struct a} : bool :=
  let leq := (fix leq (x y : list event) {struct x} : bool :=
         match x, y with
         | nil, nil => true
         | u :: x', v :: y' => event_eqb u v && leq x' y'
         | _, _ => false
         end) in
  match a, b with
  | ELaunch k fa i o, ELaunch k' fa' i' o' => String.eqb k k' && strs_eqb fa fa' && strs_eqb i i' && strs_eqb o o'
  | EZero f, EZero f' => String.eqb f f'
  | EFill f v, EFill f' v' => String.eqb f f' && String.eqb v v'
  | ECopy d s, ECopy d' s' => String.eqb d d' && String.eqb s s'
  | EGroup f a0 b0, EGroup f' a' b' => String.eqb f f' && strs_eqb a0 a' && leq b0 b'
  | EExt f a0, EExt f' a' => String.eqb f f' && strs_eqb a0 a'
  | EIf c t e, EIf c' t' e' => String.eqb c c' && leq t t' && leq e e'
  | ELoop h b0, ELoop h' b' => String.eqb h h' && leq b0 b'
  | EAssign n x, EAssign n' x' => String.eqb n n' && String.eqb x x'
  | ERaise t, ERaise t' => String.eqb t t'
  | EOther t, EOther t' => String.eqb t t'
  | _, _ => false
  end.
Definition events_eqb := list_eqb event_eqb.

(* ---- footprints ---------------------------------------------------------------- *)
Definition mem (x : string) (l : list string) : bool := existsb (String.eqb x) l.
Definition inter_nil (a b : list string) : bool := negb (existsb (fun x => mem x b) a).

(* reads / writes of an event.  A launch may read everything it is passed (inputs AND
   outputs: partial writes keep old values) and may write only its outputs.  An unknown
   external call may touch anything it is passed. *)
Fixpoint ev_reads (e : event) : list string :=
  match e with
  | ELaunch _ _ i o => app i o
  | EZero _ => nil
  | EFill _ _ => nil
  | ECopy d s => [s; d]
  | EGroup _ _ b => flat_map ev_reads b
  | EExt _ a => a
  | EIf _ t el => app (flat_map ev_reads t) (flat_map ev_reads el)
  | ELoop _ b => flat_map ev_reads b
  | _ => nil
  end.
Fixpoint ev_writes (e : event) : list string :=
  match e with
  | ELaunch _ _ _ o => o
  | EZero f => [f]
  | EFill f _ => [f]
  | ECopy d _ => [d]
  | EGroup _ _ b => flat_map ev_writes b
  | EExt _ a => a
  | EIf _ t el => app (flat_map ev_writes t) (flat_map ev_writes el)
  | ELoop _ b => flat_map ev_writes b
  | _ => nil
  end.

(* two events are independent when neither writes what the other touches *)
Definition independent (a b : event) : bool :=
  inter_nil (ev_writes a) (app (ev_reads b) (ev_writes b)) && inter_nil (ev_writes b) (ev_reads a).

(* ---- abstract semantics ------------------------------------------------------------ *)
Section Sem.
  Variable V : Type.
  Definition store := string -> V.
  (* interpretation of the NON-structural events (launch, zero, fill, copy, ext, loop,
     assign, raise, other); EIf and EGroup get their meaning structurally *)
  Variable I : event -> store -> store.
  Variable v : string -> bool.          (* total valuation of the Python conditions *)

  Fixpoint sem (e : event) (s : store) {struct e} : store :=
    let run := (fix run (l : list event) (s : store) {struct l} : store :=
                  match l with nil => s | x :: r => run r (sem x s) end) in
    match e with
    | EIf c t el => if v c then run t s else run el s
    | EGroup _ _ b => run b s
    | _ => I e s
    end.
  Fixpoint run (l : list event) (s : store) : store :=
    match l with nil => s | x :: r => run r (sem x s) end.

  Definition store_eq (a b : store) : Prop := forall f, a f = b f.

  (* the interpretation respects the declared footprints on every non-structural event *)
  Definition structural (e : event) : bool :=
    match e with EIf _ _ _ | EGroup _ _ _ => true | _ => false end.
  Definition respects : Prop :=
    forall e s s', structural e = false ->
      (forall f, In f (ev_reads e) -> s f = s' f) ->
      (forall f, In f (ev_writes e) -> I e s f = I e s' f) /\
      (forall f, ~ In f (ev_writes e) -> I e s f = s f).
End Sem.

(* ---- normaliser used by C37: split factor_solve_i and float factor_m to the left ------ *)
Definition is_group (name : string) (e : event) : bool :=
  match e with EGroup f _ _ => String.eqb f name | _ => false end.

(* move x leftwards over the reversed prefix while independent *)
Fixpoint bubble_left (x : event) (rev_prefix : list event) : list event :=
  match rev_prefix with
  | nil => [x]
  | y :: r => if independent y x then y :: bubble_left x r else x :: y :: r
  end.

Definition float_left (name : string) (evs : list event) : list event :=
  rev (fold_left (fun acc e => if is_group name e then bubble_left e acc else e :: acc) evs nil).

(* ---- def-before-use analysis used by C12 ------------------------------------------------ *)
(* fields an event sequence may READ before it has FULLY overwritten them.  [full e] lists
   the fields event e is known to define completely (Zero/Fill/Copy destinations, plus the
   per-kernel table of full writers); every other write is read-modify-write. *)
Section Live.
  Variable full : event -> list string.
  Fixpoint live_in (evs : list event) (defined : list string) : list string :=
    match evs with
    | nil => nil
    | e :: r =>
        let rd := filter (fun f => negb (mem f defined)) (ev_reads e) in
        app rd (live_in r (app (full e) defined))
    end.
End Live.
Definition full_basic (e : event) : list string :=
  match e with EZero f => [f] | EFill f _ => [f] | ECopy d _ => [d] | _ => nil end.
