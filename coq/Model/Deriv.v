(* Model/Deriv.v -- hand-written executable models for C27 (velocity derivatives).
   Definitions only.  Everything else C27 reasons about is MACHINE-TRANSLATED
   (Gen/T_util_misc.v, Gen/T_derivative.v, Gen/T_passive.v, Gen/kforward.v); the two kernels
   below are modelled by hand because the translator rejects them:

   * derivative._qderiv_actuator_passive_vel  (calls util_misc.dcmotor_slots, which assigns
     elements of an integer vector) -> [qderiv_vel_model]: the value ONE task (world, actuator)
     stores into vel_out[worldid, actid].  Every branch is copied, DC-motor ones included.
     Arrays are passed as the row of the task's world / actuator (the kernel's own
     `worldid % shape[0]` row selection is done by the caller); act_in / act_dot_in are the
     world's rows (lists, read with vget; indices are assumed in range, which the kernel needs
     too).  `next_act` is the machine-translated support.next_act (Gen/support_act.v),
     `muscle_gain_vel` the machine-translated util_misc.muscle_gain_vel (Gen/T_util_misc.v).
     Since /repo 62f359e the kernel clamps ctrl to ctrlrange like _actuator_force, since ccf2e7d the
     MUSCLE gain contributes muscle_gain_vel; both are copied here.

   * forward._actuator_force, restricted to
        dyntype  in {NONE 0, INTEGRATOR 1, FILTER 2, FILTEREXACT 3, MUSCLE 4, USER 7}   -- not DCMOTOR 5
        gaintype in {FIXED 0, AFFINE 1, MUSCLE 2, USER 6 (gain stays 0)}                -- not DCMOTOR 3
        biastype in {NONE 0, AFFINE 1, MUSCLE 2, USER 5 (bias stays 0)}                 -- not DCMOTOR 3
     (muscle_gain / muscle_bias / muscle_dynamics are the machine-translated util_misc functions)
     -> [actuator_force_model]: (act_dot, force) of one task.  It is the function whose
     velocity derivative the first kernel is supposed to compute.

   Both are tied to /repo on every run by bin/props/C27.py: the REAL kernels are launched on
   random inputs and compared inside Coq with these definitions at binary64 (tv3). *)
From Coq Require Import ZArith List Bool.
From VF Require Import Base.Scalar Base.Vec Gen.support_act.
From VF Require Gen.T_util_misc.
Import ListNotations.
Local Open Scope Z_scope.

Section Deriv.
Context {S : Type} `{Scalar S}.

(* types.MJ_MINVAL = mujoco.mjMINVAL = 1e-15 *)
Definition MINVAL : S := slit 1 1000000000000000.

(* util_misc.dcmotor_slots(dynprm, gainprm)[2]: the temperature slot offset, or -1.
     num_slots = 0
     if dynprm[7] > 0: s[0] = num_slots; num_slots += 1
     if gainprm[5] > 0: s[1] = num_slots; num_slots += 1
     if dynprm[2] > 0: s[2] = num_slots; ...                                             *)
Definition dc_slot_Ta (dynprm gainprm : list S) : Z :=
  let n := 0 in
  let n := if sgtb (vget dynprm 7) (sofZ 0) then n + 1 else n in
  let n := if sgtb (vget gainprm 5) (sofZ 0) then n + 1 else n in
  if sgtb (vget dynprm 2) (sofZ 0) then n else (-1).

(* derivative._qderiv_actuator_passive_vel, one task *)
Definition qderiv_vel_model
    (h : S) (dyntype gaintype biastype actadr actnum : Z)
    (dynprm gainprm biasprm : list S) (actlimited : bool) (actrange : list S)
    (actearly forcelimited : bool) (forcerange : list S) (ctrllimited : bool) (ctrlrange : list S)
    (acc0 : S) (lengthrange : list S)
    (act_in : list S) (ctrl_in : S) (act_dot_in : list S) (length velocity force : S) (dsbl_clampctrl : Z) : S :=
  let bias := sofZ 0 in
  (* gain block *)
  let '(gain, bias) :=
    if Z.eqb gaintype 1 then (vget gainprm 2, bias)
    else if Z.eqb gaintype 2 then
      (VF.Gen.T_util_misc.muscle_gain_vel length velocity lengthrange acc0 gainprm, bias)
    else if Z.eqb gaintype 3 then
      let te := vget dynprm 0 in
      let input_mode := strunc (vget gainprm 8) in
      let dVdw := if Z.eqb input_mode 1 then sneg (vget gainprm 6)
                  else if Z.eqb input_mode 2 then sneg (vget gainprm 4) else sofZ 0 in
      let bias :=
        if sgtb te (sofZ 0) then
          let R := smax MINVAL (vget gainprm 0) in
          let K := vget gainprm 1 in
          let s := ssub (sofZ 1) (sexp (sdiv (sneg h) te)) in
          sadd bias (sdiv (smul (smul K (ssub dVdw K)) s) R)
        else if sneb dVdw (sofZ 0) then
          let R := smax MINVAL (vget gainprm 0) in
          let K := vget gainprm 1 in
          sadd bias (sdiv (smul K dVdw) R)
        else bias in
      let sigma1 := vget dynprm 6 in
      let bias := if sgtb sigma1 (sofZ 0) then ssub bias sigma1 else bias in
      (sofZ 0, bias)
    else (sofZ 0, bias) in
  (* bias block *)
  let bias :=
    if Z.eqb biastype 1 then sadd bias (vget biasprm 2)
    else if Z.eqb biastype 3 then
      let te := vget dynprm 0 in
      if sleb te (sofZ 0) then
        let R := vget gainprm 0 in
        let K := vget gainprm 1 in
        let slot_Ta := dc_slot_Ta dynprm gainprm in
        let R :=
          if Z.geb slot_Ta 0 then
            let T := vget act_in (actadr + slot_Ta) in
            let alpha := vget gainprm 2 in
            let T0 := vget gainprm 3 in
            let Ta := vget dynprm 4 in
            smul R (sadd (sofZ 1) (smul alpha (ssub (sadd T Ta) T0)))
          else R in
        sadd bias (sdiv (smul (sneg K) K) (smax MINVAL R))
      else bias
    else bias in
  if seqb bias (sofZ 0) && seqb gain (sofZ 0) then sofZ 0
  else if forcelimited && (sleb force (vget forcerange 0) || sgeb force (vget forcerange 1)) then sofZ 0
  else
    let vel := bias in
    if negb (Z.eqb dyntype 0) then
      if sneb gain (sofZ 0) then
        let act_adr := actadr + actnum - 1 in
        let act :=
          if actearly then
            next_act h dyntype dynprm actrange (vget act_in act_adr) (vget act_dot_in act_adr) (sofZ 1) actlimited
          else vget act_in act_adr in
        sadd vel (smul gain act)
      else vel
    else
      if sneb gain (sofZ 0) then
        let ctrl := if ctrllimited && Z.eqb dsbl_clampctrl 0
                    then sclamp ctrl_in (vget ctrlrange 0) (vget ctrlrange 1) else ctrl_in in
        sadd vel (smul gain ctrl)
      else vel.

(* forward._actuator_force, one task, restricted as described in the header.
   Returns (act_dot stored at act_last, force stored into actuator_force_out). *)
Definition actuator_force_model
    (na : Z) (h : S) (dyntype gaintype biastype actadr actnum : Z)
    (dynprm gainprm biasprm : list S) (actlimited : bool) (actrange : list S)
    (actearly forcelimited : bool) (forcerange : list S) (ctrllimited : bool) (ctrlrange : list S)
    (acc0 : S) (lengthrange : list S)
    (act_in : list S) (ctrl_in length velocity : S) (dsbl_clampctrl : Z) : S * S :=
  let ctrl := if ctrllimited && Z.eqb dsbl_clampctrl 0
              then sclamp ctrl_in (vget ctrlrange 0) (vget ctrlrange 1) else ctrl_in in
  let '(act_dot, ctrl_act) :=
    if negb (Z.eqb na 0) && Z.geb actadr 0 then
      let act_last := actadr + actnum - 1 in
      let act_dot :=
        if Z.eqb dyntype 1 then ctrl
        else if Z.eqb dyntype 2 || Z.eqb dyntype 3 then
          sdiv (ssub ctrl (vget act_in act_last)) (smax (vget dynprm 0) MINVAL)
        else if Z.eqb dyntype 4 then VF.Gen.T_util_misc.muscle_dynamics ctrl (vget act_in act_last) dynprm
        else sofZ 0 in
      let ctrl_act :=
        if actearly then
          next_act h dyntype dynprm actrange (vget act_in act_last) act_dot (sofZ 1) actlimited
        else vget act_in act_last in
      (act_dot, ctrl_act)
    else (sofZ 0, ctrl) in
  let gain :=
    if Z.eqb gaintype 0 then vget gainprm 0
    else if Z.eqb gaintype 1 then
      sadd (sadd (vget gainprm 0) (smul (vget gainprm 1) length)) (smul (vget gainprm 2) velocity)
    else if Z.eqb gaintype 2 then VF.Gen.T_util_misc.muscle_gain length velocity lengthrange acc0 gainprm
    else sofZ 0 in
  let bias :=
    if Z.eqb biastype 1 then
      sadd (sadd (vget biasprm 0) (smul (vget biasprm 1) length)) (smul (vget biasprm 2) velocity)
    else if Z.eqb biastype 2 then VF.Gen.T_util_misc.muscle_bias length lengthrange acc0 biasprm
    else sofZ 0 in
  let force := sadd (smul gain ctrl_act) bias in
  let force := if forcelimited then sclamp force (vget forcerange 0) (vget forcerange 1) else force in
  (act_dot, force).

(* passive._fluid_force, INERTIA-BOX branch (body_fluid_ellipsoid false), one task (world, body > 0):
   the translator rejects the kernel (wp.pow).  [box_dims] and [box_fluid_local] are the local-frame
   computation, [fluid_force_box_model] the whole task: the spatial vector stored into
   fluid_applied_out = (force_global ; torque_global).  rot is ximat (row-major 3x3). *)
Definition box_dims (mass : S) (inertia : list S) : list S :=
  let scl := sdiv (sofZ 6) mass in
  [ ssqrt (smul (smax MINVAL (ssub (sadd (vget inertia 1) (vget inertia 2)) (vget inertia 0))) scl);
    ssqrt (smul (smax MINVAL (ssub (sadd (vget inertia 0) (vget inertia 2)) (vget inertia 1))) scl);
    ssqrt (smul (smax MINVAL (ssub (sadd (vget inertia 0) (vget inertia 1)) (vget inertia 2))) scl) ].

(* returns [torque0; torque1; torque2; force0; force1; force2] in the body's inertial frame *)
Definition box_fluid_local (mass : S) (inertia l_ang l_lin : list S) (density viscosity : S) : list S :=
  let has_viscosity := sgtb viscosity (sofZ 0) in
  let has_density := sgtb density (sofZ 0) in
  let box := box_dims mass inertia in
  let box0 := vget box 0 in let box1 := vget box 1 in let box2 := vget box 2 in
  let '(tq, fr) :=
    if has_viscosity then
      let diam := sdiv (sadd (sadd box0 box1) box2) (sofZ 3) in
      (vscaler (vscaler (vscaler (vneg l_ang) (spow diam (sofZ 3))) spi) viscosity,
       vscaler (vscaler (vscaler (vscale (sneg (sofZ 3)) l_lin) diam) spi) viscosity)
    else ([sofZ 0; sofZ 0; sofZ 0], [sofZ 0; sofZ 0; sofZ 0]) in
  let '(tq, fr) :=
    if has_density then
      let half := slit 1 2 in
      let fr := vsub fr
        [ smul (smul (smul (smul (smul half density) box1) box2) (sabs (vget l_lin 0))) (vget l_lin 0);
          smul (smul (smul (smul (smul half density) box0) box2) (sabs (vget l_lin 1))) (vget l_lin 1);
          smul (smul (smul (smul (smul half density) box0) box1) (sabs (vget l_lin 2))) (vget l_lin 2) ] in
      let scl := sdiv density (sofZ 64) in
      let p0 := spow box0 (sofZ 4) in let p1 := spow box1 (sofZ 4) in let p2 := spow box2 (sofZ 4) in
      let tq := vsub tq
        [ smul (smul (smul (smul box0 (sadd p1 p2)) (sabs (vget l_ang 0))) (vget l_ang 0)) scl;
          smul (smul (smul (smul box1 (sadd p0 p2)) (sabs (vget l_ang 1))) (vget l_ang 1)) scl;
          smul (smul (smul (smul box2 (sadd p0 p1)) (sabs (vget l_ang 2))) (vget l_ang 2)) scl ] in
      (tq, fr)
    else (tq, fr) in
  tq ++ fr.

Definition fluid_force_box_model (mass : S) (inertia rot xipos subtree_root cvel wind : list S)
    (density viscosity : S) : list S :=
  if sltb mass MINVAL then [sofZ 0; sofZ 0; sofZ 0; sofZ 0; sofZ 0; sofZ 0]
  else
    let rotT := mtranspose 3 3 rot in
    let ang_global := [vget cvel 0; vget cvel 1; vget cvel 2] in
    let lin_global := [vget cvel 3; vget cvel 4; vget cvel 5] in
    let lin_com := vsub lin_global (vcross (vsub xipos subtree_root) ang_global) in
    let l_ang := mat_vec 3 3 rotT ang_global in
    let l_lin := mat_vec 3 3 rotT lin_com in
    let l_lin := if sneb (vget wind 0) (sofZ 0) || sneb (vget wind 1) (sofZ 0) || sneb (vget wind 2) (sofZ 0)
                 then vsub l_lin (mat_vec 3 3 rotT wind) else l_lin in
    let l := box_fluid_local mass inertia l_ang l_lin density viscosity in
    let tq := [vget l 0; vget l 1; vget l 2] in
    let fr := [vget l 3; vget l 4; vget l 5] in
    mat_vec 3 3 rot fr ++ mat_vec 3 3 rot tq.

End Deriv.

(* MuJoCo's lower-triangular CSR layout of the inertia matrix (mjModel.M_rownnz / M_rowadr /
   M_colind): row i lists the ancestors' columns in increasing order and ENDS with the diagonal. *)
Definition csr_lower_inv (nv : Z) (rownnz rowadr colind : Z -> Z) : Prop :=
  rowadr 0 = 0 /\
  forall i, 0 <= i < nv ->
    1 <= rownnz i /\
    rowadr (i + 1) = rowadr i + rownnz i /\
    colind (rowadr i + rownnz i - 1) = i /\
    forall k, 0 <= k < rownnz i - 1 -> 0 <= colind (rowadr i + k) < i.

(* address [adr] holds the entry (row, col) of the CSR matrix *)
Definition csr_entry (rownnz rowadr colind : Z -> Z) (row col adr : Z) : Prop :=
  rowadr row <= adr < rowadr row + rownnz row /\ colind adr = col.
