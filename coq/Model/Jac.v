(* Model/Jac.v -- C22 "Jacobians are consistent with positions and velocities".

   Executable definitions only (proofs in Proof/Jac.v), polymorphic over the Scalar
   class: theorems over R, correspondence checks at binary64 (bin/props/C22.py).

   What is copied from /repo/mujoco_warp/_src:
     forward.py _actuator_velocity / _tendon_velocity   the CSR row-times-qvel loop     -> [csr_dot]
          (the kernels themselves are machine-translated: Gen/kforward.v)
     constraint.py _friction_tendon/_limit_tendon/_equality_tendon, dense branch:
          the merge loop that expands a CSR tendon row into a dense efc row            -> [merge_dense]
     io.py put_model: the host loop computing body_isdofancestor                        -> [isdofancestor_row]
     smooth.py _comvel_branch: per-body update of cvel along an ancestor chain          -> [comvel_task]
     constraint.py _equality_joint / _friction_dof / _limit_slide_hinge
          (is_sparse = False / True): the J row and the velocity passed to _efc_row,
          which stores it unchanged in efc.vel (`vel_out[worldid, efcid] = vel`)        -> [eq_joint_*] [friction_dof_*] [limit_sh_*]
          (these kernels call the side-effecting @wp.func _efc_row as a statement and are
           outside the translated subset, hence hand model + correspondence)
   and the notions used to state the theorems: the dense row a CSR row denotes
   ([scatter]), the CSR row of a dense row ([compress]), dense dot product ([dense_dot]). *)
From Coq Require Import ZArith List Bool.
From VF Require Import Base.Scalar Base.Vec Base.Loop.
Import ListNotations.
Local Open Scope Z_scope.

(* ------------------------------------------------------------------ arrays as lists *)
Definition zg (l : list Z) (i : Z) : Z := nth (Z.to_nat i) l 0.
Fixpoint aset_nat {A : Type} (l : list A) (k : nat) (x : A) : list A :=
  match l, k with
  | [], _ => []
  | _ :: r, O => x :: r
  | a :: r, Datatypes.S k' => a :: aset_nat r k' x
  end.
(* store at a non-negative in-range index (the loops below never produce another one) *)
Definition aset {A : Type} (l : list A) (i : Z) (x : A) : list A :=
  if i <? 0 then l else aset_nat l (Z.to_nat i) x.
Definition zseq (n : nat) : list Z := map Z.of_nat (seq 0 n).

(* ================================================================== CSR and dense rows *)
Section Csr.
  Context {S : Type} `{Scalar S}.

  (* forward.py _actuator_velocity:
       vel = float(0.0)
       for i in range(rownnz):
         sparseid = rowadr + i; colind = moment_colind_in[worldid, sparseid]
         vel += actuator_moment_in[worldid, sparseid] * qvel_in[worldid, colind]          *)
  Definition csr_dot (rowadr rownnz : Z) (colind : Z -> Z) (vals qvel : Z -> S) : S :=
    for_range 0 rownnz (sofZ 0) (fun i acc =>
      sadd acc (smul (vals (rowadr + i)) (qvel (colind (rowadr + i))))).

  (* the (column, value) entries of a CSR row, in storage order *)
  Definition csr_entries (rowadr rownnz : Z) (colind : Z -> Z) (vals : Z -> S) : list (Z * S) :=
    map (fun k => (colind (rowadr + Z.of_nat k), vals (rowadr + Z.of_nat k))) (seq 0 (Z.to_nat rownnz)).

  Definition entries_dot (es : list (Z * S)) (qvel : Z -> S) : S :=
    fold_left (fun acc e => sadd acc (smul (snd e) (qvel (fst e)))) es (sofZ 0).

  (* dense row . qvel, columns numbered from [off] *)
  Fixpoint ddot (off : Z) (row : list S) (qvel : Z -> S) : S :=
    match row with
    | [] => sofZ 0
    | x :: r => sadd (smul x (qvel off)) (ddot (off + 1) r qvel)
    end.
  Definition dense_dot (row : list S) (qvel : Z -> S) : S := ddot 0 row qvel.

  (* the dense row a list of CSR entries denotes: entry (c, v) adds v to column c
     (duplicated columns accumulate, as they do in csr_dot) *)
  Definition scatter_add (row : list S) (e : Z * S) : list S :=
    aset row (fst e) (sadd (nth (Z.to_nat (fst e)) row (sofZ 0)) (snd e)).
  Definition scatter (nv : nat) (es : list (Z * S)) : list S :=
    fold_left scatter_add es (repeat (sofZ 0) nv).

  (* the CSR entries of a dense row: its non-zero columns in increasing order *)
  Definition compress (row : list S) : list (Z * S) :=
    filter (fun e => sneb (snd e) (sofZ 0)) (combine (zseq (length row)) row).

  (* constraint.py _friction_tendon (also _limit_tendon, _equality_tendon), dense branch:
       nnz = int(0); colind = ten_J_colind[rowadr_tenJ]
       for i in range(nv):
         if nnz < rownnz_tenJ and i == colind:
           J = ten_J_in[worldid, rowadr_tenJ + nnz]
           efc_J_out[worldid, efcid, i] = J
           Jqvel += J * qvel_in[worldid, i]
           nnz += 1
           if nnz < rownnz_tenJ: colind = ten_J_colind[rowadr_tenJ + nnz]
         else:
           efc_J_out[worldid, efcid, i] = 0.0
     state = (nnz, colind, row written so far (column order), Jqvel)                        *)
  Definition merge_step (rowadr rownnz : Z) (colind : Z -> Z) (vals qvel : Z -> S)
             (i : Z) (st : Z * Z * list S * S) : Z * Z * list S * S :=
    let '(nnz, col, row, jq) := st in
    if (nnz <? rownnz) && (i =? col) then
      let J := vals (rowadr + nnz) in
      let jq := sadd jq (smul J (qvel i)) in
      let nnz := nnz + 1 in
      let col := if nnz <? rownnz then colind (rowadr + nnz) else col in
      (nnz, col, row ++ [J], jq)
    else (nnz, col, row ++ [sofZ 0], jq).
  Definition merge_dense (nv rowadr rownnz : Z) (colind : Z -> Z) (vals qvel : Z -> S) : list S * S :=
    let '(_, _, row, jq) :=
      for_range 0 nv (0, colind rowadr, [], sofZ 0) (merge_step rowadr rownnz colind vals qvel) in
    (row, jq).
End Csr.

(* ================================================================== io.py body_isdofancestor
     body_isdofancestor = np.zeros((mjm.nbody, m.nv_pad), dtype=np.int32)
     for bodyid in range(mjm.nbody):
       b = bodyid
       while b > 0 and mjm.body_dofnum[b] == 0:
         b = mjm.body_parentid[b]
       if mjm.body_dofnum[b] == 0:
         continue
       dofid = mjm.body_dofadr[b] + mjm.body_dofnum[b] - 1
       while dofid >= 0:
         body_isdofancestor[bodyid, dofid] = 1
         dofid = mjm.dof_parentid[dofid]
   The two `while` loops carry explicit fuel (nbody, nv + 1): on a well-formed model they
   stop before the fuel runs out (Proof/Jac.v U_fuel / C_fuel / start_is_U_fuel). *)
Section IsDofAncestor.
  Variables (parentid dofnum dofadr dof_parentid : list Z).

  Fixpoint climb (fuel : nat) (b : Z) : Z :=
    match fuel with
    | O => b
    | Datatypes.S f => if (b >? 0) && (zg dofnum b =? 0) then climb f (zg parentid b) else b
    end.

  (* the dofs visited by the second loop, in visiting order *)
  Fixpoint dof_chain (fuel : nat) (dofid : Z) : list Z :=
    match fuel with
    | O => []
    | Datatypes.S f => if dofid >=? 0 then dofid :: dof_chain f (zg dof_parentid dofid) else []
    end.

  Fixpoint mark (fuel : nat) (row : list Z) (dofid : Z) : list Z :=
    match fuel with
    | O => row
    | Datatypes.S f => if dofid >=? 0 then mark f (aset row dofid 1) (zg dof_parentid dofid) else row
    end.

  (* dof at which marking starts for a body, -1 if none (the `continue` case) *)
  Definition start_dof (bodyid : Z) : Z :=
    let b := climb (length parentid) bodyid in
    if zg dofnum b =? 0 then -1 else zg dofadr b + zg dofnum b - 1.

  Definition isdofancestor_row (nv_pad : nat) (bodyid : Z) : list Z :=
    let b := climb (length parentid) bodyid in
    if zg dofnum b =? 0 then repeat 0 nv_pad
    else mark (Datatypes.S (length dof_parentid)) (repeat 0 nv_pad) (zg dofadr b + zg dofnum b - 1).

  Definition body_isdofancestor (nv_pad : nat) : list (list Z) :=
    map (isdofancestor_row nv_pad) (zseq (length parentid)).

  (* ---- well-formedness of the kinematic tree (what MuJoCo's compiler produces); decidable,
     evaluated on every model of the correspondence check ------------------------------- *)
  Definition nbody : Z := Z.of_nat (length parentid).
  Definition nv : Z := Z.of_nat (length dof_parentid).

  (* last dof of the nearest ancestor-or-self body that has dofs, -1 if there is none *)
  Fixpoint last_dof_up (fuel : nat) (b : Z) : Z :=
    match fuel with
    | O => if 0 <? zg dofnum b then zg dofadr b + zg dofnum b - 1 else -1
    | Datatypes.S f =>
        if 0 <? zg dofnum b then zg dofadr b + zg dofnum b - 1
        else if b <=? 0 then -1 else last_dof_up f (zg parentid b)
    end.
End IsDofAncestor.

(* ================================================================== smooth.py _comvel_branch
     for i in range(start, end):            # one branch = ancestor chain of a leaf, root first
       bodyid = body_branches[i]; pid = body_parentid[bodyid]
       cvel = cvel_out[worldid, pid]
       dofid = body_dofadr[bodyid]; jntid = body_jntadr[bodyid]; jntnum = body_jntnum[bodyid]
       if jntnum == 0: cvel_out[worldid, bodyid] = cvel; continue
       for j in range(jntid, jntid + jntnum):
         FREE: cvel += cdof[dofid+k] * qvel[dofid+k], k = 0..5 ; dofid += 6
         BALL: k = 0..2 ; dofid += 3
         else: cvel += cdof[dofid] * qvel[dofid] ; dofid += 1
       cvel_out[worldid, bodyid] = cvel
   (the cdof_dot writes of the same loop are not part of C22) *)
Section ComVel.
  Context {S : Type} `{Scalar S}.
  Variables (parentid jntnum jntadr dofadr jnt_type : list Z).
  Variables (cdof : Z -> list S) (qvel : Z -> S).

  Definition jnt_ndof (t : Z) : nat := if t =? 0 then 6%nat else if t =? 1 then 3%nat else 1%nat.
  (* number of dofs the joint loop of one body walks over: joints j0 .. j0+m-1 *)
  Fixpoint joints_ndof (m : nat) (j0 : Z) : nat :=
    match m with
    | O => O
    | Datatypes.S m' => (jnt_ndof (zg jnt_type j0) + joints_ndof m' (j0 + 1))%nat
    end.
  Definition body_ndof (bodyid : Z) : nat := joints_ndof (Z.to_nat (zg jntnum bodyid)) (zg jntadr bodyid).

  (* cvel += cdof[dofid+k] * qvel[dofid+k] for k = 0 .. n-1 *)
  Fixpoint add_dofs (n : nat) (dofid : Z) (cvel : list S) : list S :=
    match n with
    | O => cvel
    | Datatypes.S n' => add_dofs n' (dofid + 1) (vadd cvel (vscaler (cdof dofid) (qvel dofid)))
    end.

  Definition comvel_joint (j : Z) (st : list S * Z) : list S * Z :=
    let '(cvel, dofid) := st in
    let n := jnt_ndof (zg jnt_type j) in
    (add_dofs n dofid cvel, dofid + Z.of_nat n).

  Definition comvel_body (bodyid : Z) (cvel_parent : list S) : list S :=
    let jn := zg jntnum bodyid in
    if jn =? 0 then cvel_parent
    else fst (for_range (zg jntadr bodyid) (zg jntadr bodyid + jn) (cvel_parent, zg dofadr bodyid)
                        comvel_joint).

  (* the store is cvel_out[worldid, .] as a function of the body id *)
  Definition cv_upd (st : Z -> list S) (b : Z) (v : list S) : Z -> list S :=
    fun x => if x =? b then v else st x.
  Definition comvel_task (st : Z -> list S) (chain : list Z) : Z -> list S :=
    fold_left (fun st b => cv_upd st b (comvel_body b (st (zg parentid b)))) chain st.
  (* _comvel_root: cvel_out[worldid, 0] = 0 *)
  Definition comvel_init : Z -> list S := fun _ => vconst 6 (sofZ 0).
End ComVel.

(* ---- decidable well-formedness of the model arrays (Proof/Jac.v wf_tree / wf_joints);
   evaluated by the correspondence check on every MjModel it generates --------------------- *)
Section WfCheck.
  Variables (ps dn da dp db jntnum jntadr jnt_type : list Z).
  Definition wf_treeb : bool :=
    let nb := Z.of_nat (length ps) in
    let nv := Z.of_nat (length dp) in
    forallb (fun b => (b =? 0) || ((0 <=? zg ps b) && (zg ps b <? b))) (zseq (length ps))
    && (zg dn 0 =? 0)
    && forallb (fun b => 0 <=? zg dn b) (zseq (length ps))
    && forallb (fun d => let b := zg db d in
                         (0 <=? b) && (b <? nb) && (zg da b <=? d) && (d <? zg da b + zg dn b)) (zseq (length dp))
    && forallb (fun b => forallb (fun j => let d := zg da b + j in
                                           (0 <=? d) && (d <? nv) && (zg db d =? b))
                                 (zseq (Z.to_nat (zg dn b)))) (zseq (length ps))
    && forallb (fun d => (-1 <=? zg dp d) && (zg dp d <? d)) (zseq (length dp))
    && forallb (fun d => zg dp d =? (if zg da (zg db d) <? d then d - 1
                                     else last_dof_up ps dn da (length ps) (zg ps (zg db d)))) (zseq (length dp)).
  Definition wf_jointsb : bool :=
    forallb (fun b => (0 <=? zg jntnum b) && (Z.of_nat (body_ndof jntnum jntadr jnt_type b) =? zg dn b))
            (zseq (length ps)).
End WfCheck.

(* ================================================================== constraint.py +-1 rows *)
Section EfcRows.
  Context {S : Type} `{Scalar S}.

  Definition zero_row (nv : Z) : list S := repeat (sofZ 0) (Z.to_nat nv).

  (* _equality_joint: Horner derivative of the polynomial coupling *)
  Definition eqj_deriv2 (data : list S) (dif : S) : S :=
    sadd (vget data 1) (smul dif (sadd (smul (slit 2 1) (vget data 2))
      (smul dif (sadd (smul (slit 3 1) (vget data 3)) (smul (smul dif (slit 4 1)) (vget data 4)))))).

  (* what a task that reaches the row-writing code (active, efcid < njmax[, row fits in
     njmax_nnz]) stores: dense J row of length nv / CSR (colind, values) + Jqvel *)
  Definition eq_joint_dense (nv : Z) (dofadr1 dofadr2 jntid_2 qposadr2 : Z) (data : list S)
             (qpos qpos0 qvel : Z -> S) : list S * S :=
    let row := aset (zero_row nv) dofadr1 (slit 1 1) in
    if jntid_2 >? -1 then
      let dif := ssub (qpos qposadr2) (qpos0 qposadr2) in
      let deriv_2 := eqj_deriv2 data dif in
      (aset row dofadr2 (sneg deriv_2), ssub (qvel dofadr1) (smul (qvel dofadr2) deriv_2))
    else (row, qvel dofadr1).

  Definition eq_joint_sparse (dofadr1 dofadr2 jntid_2 qposadr2 : Z) (data : list S)
             (qpos qpos0 qvel : Z -> S) : list (Z * S) * S :=
    if jntid_2 >? -1 then
      let dif := ssub (qpos qposadr2) (qpos0 qposadr2) in
      let deriv_2 := eqj_deriv2 data dif in
      ([(dofadr1, slit 1 1); (dofadr2, sneg deriv_2)], ssub (qvel dofadr1) (smul (qvel dofadr2) deriv_2))
    else ([(dofadr1, slit 1 1)], qvel dofadr1).

  Definition friction_dof_dense (nv dofid : Z) (qvel : Z -> S) : list S * S :=
    (aset (zero_row nv) dofid (slit 1 1), qvel dofid).
  Definition friction_dof_sparse (dofid : Z) (qvel : Z -> S) : list (Z * S) * S :=
    ([(dofid, slit 1 1)], qvel dofid).

  (* _limit_slide_hinge:  dist_min, dist_max = qpos - range[0], range[1] - qpos
       pos = min(dist_min, dist_max) - margin ; active = pos < 0
       J = float(dist_min < dist_max) * 2.0 - 1.0 ; Jqvel = J * qvel[dofadr]       *)
  Definition limit_sh_active (q lo hi margin : S) : bool :=
    sltb (ssub (smin (ssub q lo) (ssub hi q)) margin) (sofZ 0).
  Definition limit_sh_J (q lo hi : S) : S :=
    ssub (smul (if sltb (ssub q lo) (ssub hi q) then sofZ 1 else sofZ 0) (slit 2 1)) (slit 1 1).
  Definition limit_sh_dense (nv dofadr : Z) (q lo hi : S) (qvel : Z -> S) : list S * S :=
    let J := limit_sh_J q lo hi in (aset (zero_row nv) dofadr J, smul J (qvel dofadr)).
  Definition limit_sh_sparse (dofadr : Z) (q lo hi : S) (qvel : Z -> S) : list (Z * S) * S :=
    let J := limit_sh_J q lo hi in ([(dofadr, J)], smul J (qvel dofadr)).
End EfcRows.
