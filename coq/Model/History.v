(* Model/History.v -- executable model of the delay/interval history buffers of
   /repo/mujoco_warp/_src/history.py (property C30).  Definitions only.

   Flat layout of one buffer inside Data.history[worldid, :] starting at buf_offset
   (history.py: `times_offset = buf_offset + 2`, `values_offset = buf_offset + 2 + n`):

       +0          user slot (sensors: time of the last interval computation)
       +1          cursor, stored as a float, read back with int(.)  (physical index of the newest sample)
       +2 .. +2+n  n sample times, PHYSICAL order
       +2+n ..     n*dim sample values, physical slot p occupies [p*dim, (p+1)*dim)

   Logical sample l (0 = oldest, n-1 = newest) lives in physical slot
   `_history_physical_index cursor n l = (cursor + 1 + l) % n`; that function is the one
   REGENERATED from history.py in Gen/history.v (C remainder, Z.rem).

   The model keeps the four parts in a record (cursor in Z, one row of dim values per slot);
   [decode]/[encode] are the layout above and are exercised on the real flat arrays by the
   correspondence check on every run.  Everything is polymorphic in the Scalar class: it is RUN at
   binary64 against the float32 kernels and REASONED about over R (Proof/History.v).

   Outside the well-formed range (cursor not in [0,n), n <= 0) the physical index may be negative,
   where Warp wraps the array index; [znth]/[zupd] clamp to slot 0 instead.  All theorems assume
   well-formedness and the correspondence only generates well-formed buffers. *)
From Coq Require Import ZArith List Bool.
From VF Require Import Base.Scalar Base.Loop Gen.history.
Import ListNotations.
Local Open Scope Z_scope.

Definition znth {A : Type} (l : list A) (i : Z) (d : A) : A := nth (Z.to_nat i) l d.

Fixpoint upd_nat {A : Type} (l : list A) (k : nat) (x : A) : list A :=
  match l, k with
  | [], _ => []
  | _ :: r, O => x :: r
  | y :: r, Datatypes.S k' => y :: upd_nat r k' x
  end.
Definition zupd {A : Type} (l : list A) (i : Z) (x : A) : list A := upd_nat l (Z.to_nat i) x.

(* [0; 1; ...; n-1] *)
Definition zseq (n : Z) : list Z := map Z.of_nat (seq 0 (Z.to_nat n)).

Section Hist.
Context {S : Type} `{Scalar S}.

Record buf : Type := mkBuf { user : S; cursor : Z; times : list S; rows : list (list S) }.

(* the float literal 1e-6 of history.py *)
Definition eps : S := slit 1 1000000.
(* wp.abs(a - b) < 1e-6 *)
Definition near (a b : S) : bool := sltb (sabs (ssub a b)) eps.

Definition phys (c n l : Z) : Z := _history_physical_index c n l.

(* time / value row of LOGICAL sample l *)
Definition ltime (n : Z) (b : buf) (l : Z) : S := znth (times b) (phys (cursor b) n l) s0.
Definition lrow (n : Z) (b : buf) (l : Z) : list S := znth (rows b) (phys (cursor b) n l) [].

Definition set_user (b : buf) (u : S) : buf := mkBuf u (cursor b) (times b) (rows b).
Definition set_cursor (b : buf) (c : Z) : buf := mkBuf (user b) c (times b) (rows b).
Definition set_time (b : buf) (p : Z) (t : S) : buf := mkBuf (user b) (cursor b) (zupd (times b) p t) (rows b).
Definition set_row (b : buf) (p : Z) (v : list S) : buf := mkBuf (user b) (cursor b) (times b) (zupd (rows b) p v).

(* ---- _history_find_index ------------------------------------------------------------------ *)
(* `while hi - lo > 1: mid = (lo + hi) >> 1; if times[phys(mid)] < t: lo = mid else: hi = mid` *)
Fixpoint bsearch (fuel : nat) (tm : Z -> S) (t : S) (lo hi : Z) : Z :=
  match fuel with
  | O => hi
  | Datatypes.S f =>
      if hi - lo >? 1 then
        let mid := Z.shiftr (lo + hi) 1 in
        if sltb (tm mid) t then bsearch f tm t mid hi else bsearch f tm t lo mid
      else hi
  end.

Definition find_index (n : Z) (b : buf) (t : S) : Z :=
  if sleb t (ltime n b 0) then 0
  else if sgtb t (ltime n b (n - 1)) then n
  else bsearch (Z.to_nat n) (ltime n b) t 0 (n - 1).

(* ---- _history_insert_scalar / _history_insert_vector ---------------------------------------- *)
(* `for j in range(k): slot phys(j) := slot phys(j+1)` (times and values), sequentially in place *)
Definition shift_left (n : Z) (b : buf) (k : Z) : buf :=
  for_range 0 k b (fun j b =>
    let src := phys (cursor b) n (j + 1) in
    let dst := phys (cursor b) n j in
    set_row (set_time b dst (znth (times b) src s0)) dst (znth (rows b) src [])).

(* v = the dim values to store (dim = 1 for _history_insert_scalar) *)
Definition insert (n : Z) (b : buf) (t : S) (v : list S) : buf :=
  let c := cursor b in
  let i := find_index n b t in
  if (i <? n) && near t (ltime n b i) then
    set_row b (phys c n i) v                                  (* exact match: overwrite the value *)
  else if i =? 0 then
    let p := phys c n 0 in set_row (set_time b p t) p v        (* older than oldest: replace oldest *)
  else if i =? n then
    let c' := Z.rem (c + 1) n in                              (* newer than newest: advance cursor *)
    set_row (set_time (set_cursor b c') c' t) c' v
  else
    let p := phys c n (i - 1) in                              (* out of order: shift [1,i-1] left *)
    set_row (set_time (shift_left n b (i - 1)) p t) p v.

(* ---- _history_read_scalar / _history_read_vector --------------------------------------------- *)
Definition comp (r : list S) (d : nat) : S := nth d r s0.

Definition lin (alpha : S) (rlo rhi : list S) (dim : Z) : list S :=
  map (fun d => sadd (comp rlo d) (smul alpha (ssub (comp rhi d) (comp rlo d)))) (seq 0 (Z.to_nat dim)).

Definition cubic (n : Z) (b : buf) (i : Z) (dt alpha : S) (dim : Z) : list S :=
  let alpha2 := smul alpha alpha in
  let alpha3 := smul alpha2 alpha in
  let h00 := sadd (ssub (smul (sofZ 2) alpha3) (smul (sofZ 3) alpha2)) (sofZ 1) in
  let h10 := sadd (ssub alpha3 (smul (sofZ 2) alpha2)) alpha in
  let h01 := sadd (smul (sofZ (-2)) alpha3) (smul (sofZ 3) alpha2) in
  let h11 := ssub alpha3 alpha2 in
  let rlo := lrow n b (i - 1) in
  let rhi := lrow n b i in
  map (fun d =>
    let v_lo := comp rlo d in
    let v_hi := comp rhi d in
    let m_lo := if i >? 1 then
                  sdiv (ssub v_hi (comp (lrow n b (i - 2)) d)) (ssub (ltime n b i) (ltime n b (i - 2)))
                else s0 in
    let m_hi := if i <? n - 1 then
                  sdiv (ssub (comp (lrow n b (i + 1)) d) v_lo) (ssub (ltime n b (i + 1)) (ltime n b (i - 1)))
                else s0 in
    sadd (sadd (sadd (smul h00 v_lo) (smul (smul h10 dt) m_lo)) (smul h01 v_hi)) (smul (smul h11 dt) m_hi))
    (seq 0 (Z.to_nat dim)).

(* interp: 0 zero-order hold, 1 linear, otherwise cubic; result = the dim values written *)
Definition read (n dim : Z) (b : buf) (t : S) (interp : Z) : list S :=
  if sleb t (sadd (ltime n b 0) eps) then lrow n b 0                    (* before oldest *)
  else if sgeb t (ssub (ltime n b (n - 1)) eps) then lrow n b (n - 1)    (* after newest *)
  else
    let i := find_index n b t in
    if near t (ltime n b i) then lrow n b i                              (* exact match *)
    else if interp =? 0 then lrow n b (i - 1)                            (* zero-order hold *)
    else
      let dt := ssub (ltime n b i) (ltime n b (i - 1)) in
      let alpha := sdiv (ssub t (ltime n b (i - 1))) dt in
      if interp =? 1 then lin alpha (lrow n b (i - 1)) (lrow n b i) dim
      else cubic n b i dt alpha dim.

(* ---- kernels --------------------------------------------------------------------------------- *)
(* _read_ctrl_delayed_kernel (forward.fwd_actuation): the ctrl used for one actuator *)
Definition read_ctrl_delayed (nsample interp : Z) (delay time ctrl : S) (b : buf) : S :=
  if (nsample =? 0) || seqb delay s0 then ctrl
  else comp (read nsample 1 b (ssub time delay) interp) 0.

(* _read_ctrl_kernel (public read_ctrl): interp < 0 means the model default [hinterp] *)
Definition read_ctrl (nsample hinterp interp : Z) (delay time ctrl : S) (b : buf) : S :=
  if nsample =? 0 then ctrl
  else comp (read nsample 1 b (ssub time delay) (if interp <? 0 then hinterp else interp)) 0.

(* _insert_ctrl_history_kernel (forward._advance) *)
Definition insert_ctrl (nsample : Z) (time ctrl : S) (b : buf) : buf :=
  if nsample =? 0 then b else insert nsample b time [ctrl].

(* _apply_sensor_delay_kernel: sensordata of one sensor after the delayed read; fresh = computed value *)
Definition sensor_apply (nsample dim interp : Z) (delay period time : S) (b : buf) (fresh : list S) : list S :=
  if nsample <=? 0 then fresh
  else if sgtb delay s0 then read nsample dim b (ssub time delay) interp
  else if sgtb period s0 then
    (if sgtb (sadd (user b) period) time then read nsample dim b time interp else fresh)
  else fresh.

(* _insert_sensor_history_stage *)
Definition sensor_insert (nsample : Z) (period time : S) (b : buf) (fresh : list S) : buf :=
  if nsample =? 0 then b
  else if sgtb period s0 then
    (if sleb (sadd (user b) period) time
     then insert nsample (set_user b (sadd (user b) period)) time fresh
     else b)
  else insert nsample b time fresh.

(* ---- initial buffers ---------------------------------------------------------------------------- *)
(* what mujoco.MjData / mj_resetData and hence put_data start from: cursor n-1, times -n*h .. -h,
   values 0 (h = timestep for actuators and non-interval sensors, the period for interval sensors);
   user slot u *)
Definition mj_init (n dim : Z) (h u : S) : buf :=
  mkBuf u (n - 1)
        (map (fun k => sneg (smul (sofZ (n - k)) h)) (zseq n))
        (map (fun _ => map (fun _ => s0) (zseq dim)) (zseq n)).

(* what mjw.make_data creates and mjw.reset_data restores (io.py: Data.history := tile(mujoco.MjData(mjm).history),
   reset_nworld: history_out[worldid, i] = history0[i]): MuJoCo's initial buffer.  Compared with the real
   make_data / reset_data output for every buffer of the oracle models on each run. *)
Definition make_data_buf (n dim : Z) (h u : S) : buf := mj_init n dim h u.

(* the explicit all-zero buffer value (cursor 0, times 0, values 0): a legal sorted buffer, but NOT the
   initial buffer -- this is what make_data created before the repair (finding F5, fixed) *)
Definition zero_buf (n dim : Z) : buf :=
  mkBuf s0 0 (map (fun _ => s0) (zseq n)) (map (fun _ => map (fun _ => s0) (zseq dim)) (zseq n)).

(* ---- abstract view: the time-ordered list of samples ------------------------------------------- *)
Definition sample : Type := (S * list S)%type.
Definition lsample (n : Z) (b : buf) (l : Z) : sample := (ltime n b l, lrow n b l).
Definition abs (n : Z) (b : buf) : list sample := map (lsample n b) (zseq n).

(* number of leading samples strictly older than t (linear scan) *)
Fixpoint count_lt (l : list sample) (t : S) : Z :=
  match l with
  | [] => 0
  | x :: r => if sltb (fst x) t then 1 + count_lt r t else 0
  end.

Definition dflt : sample := (s0, []).
Definition stime (l : list sample) (i : Z) : S := fst (znth l i dflt).
Definition srow (l : list sample) (i : Z) : list S := snd (znth l i dflt).

(* the specification of insert on the ordered list (length preserved):
   overwrite on a time match; a sample older than the oldest REPLACES the oldest;
   otherwise insert in time order and drop the oldest *)
Definition spec_insert (l : list sample) (t : S) (v : list S) : list sample :=
  let i := count_lt l t in
  if (i <? Z.of_nat (length l)) && near t (stime l i) then zupd l i (stime l i, v)
  else if i =? 0 then zupd l 0 (t, v)
  else tl (firstn (Z.to_nat i) l ++ (t, v) :: skipn (Z.to_nat i) l).

Definition spec_cubic (l : list sample) (i : Z) (dt alpha : S) (dim : Z) : list S :=
  let n := Z.of_nat (length l) in
  let alpha2 := smul alpha alpha in
  let alpha3 := smul alpha2 alpha in
  let h00 := sadd (ssub (smul (sofZ 2) alpha3) (smul (sofZ 3) alpha2)) (sofZ 1) in
  let h10 := sadd (ssub alpha3 (smul (sofZ 2) alpha2)) alpha in
  let h01 := sadd (smul (sofZ (-2)) alpha3) (smul (sofZ 3) alpha2) in
  let h11 := ssub alpha3 alpha2 in
  map (fun d =>
    let v_lo := comp (srow l (i - 1)) d in
    let v_hi := comp (srow l i) d in
    let m_lo := if i >? 1 then
                  sdiv (ssub v_hi (comp (srow l (i - 2)) d)) (ssub (stime l i) (stime l (i - 2)))
                else s0 in
    let m_hi := if i <? n - 1 then
                  sdiv (ssub (comp (srow l (i + 1)) d) v_lo) (ssub (stime l (i + 1)) (stime l (i - 1)))
                else s0 in
    sadd (sadd (sadd (smul h00 v_lo) (smul (smul h10 dt) m_lo)) (smul h01 v_hi)) (smul (smul h11 dt) m_hi))
    (seq 0 (Z.to_nat dim)).

(* the specification of read on the ordered list *)
Definition spec_read (dim : Z) (l : list sample) (t : S) (interp : Z) : list S :=
  let n := Z.of_nat (length l) in
  if sleb t (sadd (stime l 0) eps) then srow l 0
  else if sgeb t (ssub (stime l (n - 1)) eps) then srow l (n - 1)
  else
    let i := count_lt l t in
    if near t (stime l i) then srow l i
    else if interp =? 0 then srow l (i - 1)
    else
      let dt := ssub (stime l i) (stime l (i - 1)) in
      let alpha := sdiv (ssub t (stime l (i - 1))) dt in
      if interp =? 1 then lin alpha (srow l (i - 1)) (srow l i) dim
      else spec_cubic l i dt alpha dim.

(* ---- flat layout -------------------------------------------------------------------------------- *)
Fixpoint chunks (dim k : nat) (l : list S) : list (list S) :=
  match k with
  | O => []
  | Datatypes.S k' => firstn dim l :: chunks dim k' (skipn dim l)
  end.

Definition decode (n dim : Z) (flat : list S) : buf :=
  mkBuf (znth flat 0 s0) (strunc (znth flat 1 s0))
        (firstn (Z.to_nat n) (skipn 2 flat))
        (chunks (Z.to_nat dim) (Z.to_nat n) (skipn (2 + Z.to_nat n) flat)).

Definition encode (b : buf) : list S := user b :: sofZ (cursor b) :: times b ++ concat (rows b).

Definition buf_len (n dim : Z) : Z := 2 + n + n * dim.

(* the buffer at offset off of one world's history row *)
Definition get_buf (arr : list S) (off n dim : Z) : buf :=
  decode n dim (firstn (Z.to_nat (buf_len n dim)) (skipn (Z.to_nat off) arr)).
Definition put_buf (arr : list S) (off n dim : Z) (b : buf) : list S :=
  firstn (Z.to_nat off) arr ++ encode b ++ skipn (Z.to_nat off + Z.to_nat (buf_len n dim)) arr.

(* ---- operation sequences (correspondence driver) ------------------------------------------------ *)
Inductive hop : Type :=
| OpInsert (t : S) (v : list S)                 (* _history_insert_scalar (dim 1) / _vector *)
| OpRead (t : S) (interp : Z)                   (* _history_read_scalar (dim 1) / _vector *)
| OpFind (t : S)                                (* _history_find_index *)
| OpCtrlRead (delay time ctrl : S) (interp : Z) (* _read_ctrl_delayed_kernel, dim 1 *)
| OpSensor (interp : Z) (delay period time : S) (fresh : list S).  (* apply_sensor_delay: read then insert *)

(* returns (history row after all ops, every array state after a writing op, every value read) *)
Fixpoint run_ops (arr : list S) (off n dim : Z) (ops : list hop) : list S * list S * list S :=
  match ops with
  | [] => (arr, [], [])
  | o :: r =>
      let b := get_buf arr off n dim in
      match o with
      | OpInsert t v =>
          let arr' := put_buf arr off n dim (insert n b t v) in
          let '(a, st, rd) := run_ops arr' off n dim r in (a, arr' ++ st, rd)
      | OpRead t interp =>
          let '(a, st, rd) := run_ops arr off n dim r in (a, st, read n dim b t interp ++ rd)
      | OpFind t =>
          let '(a, st, rd) := run_ops arr off n dim r in (a, st, sofZ (find_index n b t) :: rd)
      | OpCtrlRead delay time ctrl interp =>
          let '(a, st, rd) := run_ops arr off n dim r in
          (a, st, read_ctrl_delayed n interp delay time ctrl b :: rd)
      | OpSensor interp delay period time fresh =>
          let out := sensor_apply n dim interp delay period time b fresh in
          let arr' := put_buf arr off n dim (sensor_insert n period time b fresh) in
          let '(a, st, rd) := run_ops arr' off n dim r in (a, arr' ++ st, out ++ rd)
      end
  end.

End Hist.

Arguments buf S : clear implicits.
Arguments sample S : clear implicits.
Arguments hop S : clear implicits.
