(* Model/Batch.v -- batch-indexing discipline (C09 / C10).
   (1) the data type of the access table that bin/extract_access.py regenerates from
       /repo (Gen/Skel_access.v) and the boolean discipline checker;
   (2) a small operational model of a kernel task as a sequence of array reads and
       writes whose LEADING index is given by its abstract class, over a heap of
       arrays with roles.  Proof/Batch.v shows: discipline => world non-interference. *)
From Coq Require Import String List Bool Arith.
Import ListNotations.
Local Open Scope string_scope.

Inductive role := RWorld | RBatch | RFlat | RShared | RCounter | RRowView | RUnknown | RMixed.
Inductive idx :=
| IW                         (* the world id of the task *)
| IMod (p : string) (w : bool)   (* <x> % p.shape[0]; w = x is the world id *)
| ITid (k : nat)             (* k-th launch coordinate, not a world id *)
| IConst | IParam (s : string) | IOther | IWhole.
Inductive akind := ARead | AWrite | AAtomic.

Record access := mkA { a_kernel : string; a_param : string; a_role : role; a_idx : idx; a_kind : akind }.

Definition role_eqb (a b : role) : bool :=
  match a, b with
  | RWorld, RWorld | RBatch, RBatch | RFlat, RFlat | RShared, RShared | RCounter, RCounter
  | RRowView, RRowView | RUnknown, RUnknown | RMixed, RMixed => true
  | _, _ => false
  end.
Definition idx_eqb (a b : idx) : bool :=
  match a, b with
  | IW, IW | IConst, IConst | IOther, IOther | IWhole, IWhole => true
  | IMod p w, IMod q v => String.eqb p q && Bool.eqb w v
  | ITid k, ITid j => Nat.eqb k j
  | IParam s, IParam t => String.eqb s t
  | _, _ => false
  end.
Definition akind_eqb (a b : akind) : bool :=
  match a, b with ARead, ARead | AWrite, AWrite | AAtomic, AAtomic => true | _, _ => false end.
Definition access_eqb (a b : access) : bool :=
  String.eqb (a_kernel a) (a_kernel b) && String.eqb (a_param a) (a_param b) &&
  role_eqb (a_role a) (a_role b) && idx_eqb (a_idx a) (a_idx b) && akind_eqb (a_kind a) (a_kind b).

(* the discipline:
   - a per-world Data array is only ever indexed, in its leading dimension, by the world id;
   - a batched Model field p is only ever indexed by  world_id % p.shape[0]  (its OWN size),
     and is never written by the simulation pipeline;
   - shared Model fields are never written. *)
Definition access_ok (a : access) : bool :=
  match a_role a with
  | RWorld => match a_idx a with IW => true | _ => false end
  | RBatch => match a_idx a, a_kind a with
              | IMod p true, ARead => String.eqb p (a_param a)
              | _, _ => false
              end
  | RShared => match a_kind a with ARead => true | _ => false end
  | RMixed => false
  | _ => true
  end.

Definition in_baseline (base : list access) (a : access) : bool := existsb (access_eqb a) base.
Definition discipline_ok (base table : list access) : bool :=
  forallb (fun a => access_ok a || in_baseline base a) table.
Definition exceptions (base table : list access) : list access :=
  filter (fun a => negb (access_ok a || in_baseline base a)) table.

(* ---- operational model -------------------------------------------------------- *)
Section Op.
  Variable V : Type.
  Variable dflt : V.

  (* an array: role + leading size + contents [lead][rest] *)
  Definition heap := string -> nat -> nat -> V.
  Definition upd (h : heap) (a : string) (i j : nat) (x : V) : heap :=
    fun a' i' j' => if String.eqb a a' && Nat.eqb i i' && Nat.eqb j j' then x else h a' i' j'.

  (* one operation of a task; offsets and written values may depend on values read so far *)
  Inductive op :=
  | ORead (a : string) (r : role) (lead : idx) (rest : list V -> nat)
  | OWrite (a : string) (r : role) (lead : idx) (rest : list V -> nat) (val : list V -> V).

  Variable size : string -> nat.      (* leading dimension of each array *)

  (* the concrete leading index of a disciplined access in world w; undisciplined classes
     get an arbitrary (data-dependent) index supplied by [wild] *)
  Definition lead_of (w : nat) (wild : list V -> nat) (i : idx) (seen : list V) : nat :=
    match i with
    | IW => w
    | IMod p true => Nat.modulo w (size p)
    | _ => wild seen
    end.

  Variable wild : list V -> nat.

  Fixpoint exec (w : nat) (ops : list op) (seen : list V) (h : heap) : heap :=
    match ops with
    | nil => h
    | ORead a _ i rest :: r => exec w r (seen ++ [h a (lead_of w wild i seen) (rest seen)])%list h
    | OWrite a _ i rest val :: r => exec w r seen (upd h a (lead_of w wild i seen) (rest seen) (val seen))
    end.

  Definition op_ok (o : op) : bool :=
    match o with
    | ORead a r i _ => access_ok (mkA "" a r i ARead)
    | OWrite a r i _ _ => access_ok (mkA "" a r i AWrite) &&
                          match r with RWorld => true | _ => false end
    end.

  (* role assignment is consistent: an array name has one role *)
  Variable role_of : string -> role.
  Definition op_role_ok (o : op) : bool :=
    match o with
    | ORead a r _ _ => role_eqb r (role_of a)
    | OWrite a r _ _ _ => role_eqb r (role_of a)
    end.

  (* two heaps agree on everything a disciplined task of world w may read *)
  Definition agree_for (w : nat) (h h' : heap) : Prop :=
    forall a i j, (role_of a = RWorld -> i = w) -> h a i j = h' a i j.

  (* a launch: tasks are (world, ops); a schedule is any order of the task list *)
  Definition task := (nat * list op)%type.
  Definition launch (ts : list task) (h : heap) : heap :=
    fold_left (fun st t => exec (fst t) (snd t) nil st) ts h.
End Op.
