(* Model/Dyn.v -- executable models for C02 "Smooth dynamics agree with MuJoCo C".
   Definitions only; proofs in Proof/Dyn.v.

   1. Leaf-to-root accumulation over the body forest, launched level by level
      (/repo/mujoco_warp/_src/smooth.py):
        com_pos             for i in reversed(range(len(m.body_tree))): launch _subtree_com_acc
        crb                 ... launch _crb_accumulate
        _rne_cfrc_backward  for body_tree in reversed(m.body_tree): launch _cfrc_backward
      One task per body of the level; the task does
        bodyid = body_tree_[nodeid]; pid = body_parentid[bodyid]
        if <guard>: atomic_add(out[pid], in[bodyid])        (in and out are the SAME array)
      with guard `bodyid != 0` (_subtree_com_acc, _cfrc_backward) or `pid == 0: return`
      (_crb_accumulate: nothing is ever added into the world body).
      m.body_tree is built on the host by io.py put_model (lines "body ids grouped by tree
      level"); [body_depth]/[body_tree] are the Gallina copy.

      One world is modelled (every access is indexed by worldid; world independence is
      C09/C10).  A launch is a fold of the task function over the list of body ids in
      execution order: CPU Warp runs them in ascending tid order, a GPU in any order, so
      a schedule of a level is any Permutation of the level (atomic_add makes each task's
      read-modify-write of out[pid] indivisible; the read of in[bodyid] cannot race because
      no task of the same level writes a body of that level - proved, not assumed).

      The value type V with its addition is a parameter: Z for the correspondence run
      (integer-valued float arrays are exact in float32), R / vectors of R for theorems.

   2. The `_qfrc_smooth` kernel of forward.py (hand transcription, polymorphic in Scalar).

   (The `_M` kernel entry cdof_j . inert_vec(crb[body i], cdof_i) is defined in Proof/Dyn.v from
   the translated Gen.math.inert_vec, so that this file depends on Base only.) *)
From Coq Require Import ZArith List Bool.
From VF Require Import Base.Scalar Base.Vec.
Import ListNotations.
Local Open Scope Z_scope.

(* ---------- arrays: lists indexed by Z --------------------------------------------- *)
(* every index the modelled code uses is a body id / parent id in [0, nbody) for a
   well-formed forest (wf_forest below), so plain nth is exact; Warp's wrap of negative
   indices never comes into play *)
Definition aget {A} (d : A) (l : list A) (i : Z) : A := nth (Z.to_nat i) l d.
Fixpoint aset_nat {A} (l : list A) (k : nat) (x : A) : list A :=
  match l, k with
  | [], _ => []
  | _ :: r, O => x :: r
  | a :: r, S k' => a :: aset_nat r k' x
  end.
Definition aset {A} (l : list A) (i : Z) (x : A) : list A :=
  if i <? 0 then l else aset_nat l (Z.to_nat i) x.
(* [0; 1; ...; n-1] : `for i in range(n)` *)
Definition zseq (n : nat) : list Z := map Z.of_nat (seq 0 n).

(* ---------- io.py put_model: body ids grouped by tree level -------------------------- *)
(*   bodies, body_depth = {}, np.zeros(mjm.nbody, dtype=int) - 1
     for i in range(mjm.nbody):
       body_depth[i] = body_depth[mjm.body_parentid[i]] + 1
       bodies.setdefault(body_depth[i], []).append(i)
     m.body_tree = tuple(wp.array(bodies[i], dtype=int) for i in sorted(bodies))          *)
Definition body_depth (parent : list Z) : list Z :=
  fold_left (fun dep i => aset dep i (aget (-1) dep (aget 0 parent i) + 1))
            (zseq (length parent)) (repeat (-1) (length parent)).

(* sorted(bodies): the distinct depth values in ascending order *)
Fixpoint ins_uniq (x : Z) (l : list Z) : list Z :=
  match l with
  | [] => [x]
  | y :: r => if x <? y then x :: l else if x =? y then l else y :: ins_uniq x r
  end.
Definition sort_uniq (l : list Z) : list Z := fold_right ins_uniq [] l.

(* bodies[k]: bodies are appended in ascending id, i.e. the sub-list of range(nbody)
   whose depth is k *)
Definition level_of (parent : list Z) (k : Z) : list Z :=
  filter (fun i => aget (-1) (body_depth parent) i =? k) (zseq (length parent)).
Definition body_tree (parent : list Z) : list (list Z) :=
  map (level_of parent) (sort_uniq (body_depth parent)).

(* ---------- the accumulation kernels ------------------------------------------------- *)
Inductive acc_guard :=
| SkipBody0     (* _subtree_com_acc, _cfrc_backward:  if bodyid != 0: atomic_add(...) *)
| SkipParent0.  (* _crb_accumulate:                   if pid == 0: return             *)

Definition acc_skips (g : acc_guard) (parent : list Z) (bodyid : Z) : bool :=
  match g with
  | SkipBody0 => bodyid =? 0
  | SkipParent0 => aget 0 parent bodyid =? 0
  end.

Section Acc.
  Context {V : Type}.
  Variable vplus : V -> V -> V.
  Variable vdef : V.              (* default of out-of-range reads; never reached if wf *)
  Variable g : acc_guard.
  Variable parent : list Z.

  (* one task: wp.atomic_add(out, pid, in[bodyid]) : out[pid] = out[pid] + in[bodyid] *)
  Definition acc_task (st : list V) (bodyid : Z) : list V :=
    let pid := aget 0 parent bodyid in
    if acc_skips g parent bodyid then st
    else aset st pid (vplus (aget vdef st pid) (aget vdef st bodyid)).

  (* one launch: the tasks of a level in execution order *)
  Definition acc_launch (st : list V) (sched : list Z) : list V := fold_left acc_task sched st.
  (* the host loop, with an explicit execution order for every level (deepest first) *)
  Definition tree_accumulate_sched (scheds : list (list Z)) (init : list V) : list V :=
    fold_left acc_launch scheds init.
  (* CPU Warp: ascending tid inside each level, levels reversed *)
  Definition tree_accumulate (init : list V) : list V :=
    tree_accumulate_sched (rev (body_tree parent)) init.

  (* ----- specification: the recursive subtree sum ------------------------------------ *)
  (* c is a child of b whose value is passed on to b *)
  Definition acc_child (b c : Z) : bool := (aget 0 parent c =? b) && negb (acc_skips g parent c).
  Definition acc_children (b : Z) : list Z := filter (acc_child b) (zseq (length parent)).
  (* sub(b) = init(b) + sum over children c of sub(c); fuel = nbody suffices because a
     child has a larger id than its parent (fuel independence is proved) *)
  Fixpoint subtree_sum_f (fuel : nat) (init : list V) (b : Z) : V :=
    match fuel with
    | O => aget vdef init b
    | S f => fold_left vplus (map (subtree_sum_f f init) (acc_children b)) (aget vdef init b)
    end.
  Definition subtree_sum (init : list V) (b : Z) : V := subtree_sum_f (length parent) init b.

  (* MuJoCo C's reference algorithm (engine_core_smooth.c mj_crb / mj_comPos / mj_rne):
     one sequential backward loop  for i = nbody-1 .. 1: x[parent[i]] += x[i]  *)
  Definition serial_accumulate (init : list V) : list V :=
    acc_launch init (rev (zseq (length parent))).
End Acc.

(* the subtree of b as a list of bodies: b followed by the subtrees of its contributing
   children (preorder); independent of the value type *)
Fixpoint subtree_nodes_f (g : acc_guard) (parent : list Z) (fuel : nat) (b : Z) : list Z :=
  match fuel with
  | O => [b]
  | S f => b :: concat (map (subtree_nodes_f g parent f) (acc_children g parent b))
  end.
Definition subtree_nodes (g : acc_guard) (parent : list Z) (b : Z) : list Z :=
  subtree_nodes_f g parent (length parent) b.

(* a body forest as MuJoCo compiles it: body 0 is the world and its own parent, every
   other body has a smaller-numbered parent *)
Definition wf_forest (parent : list Z) : Prop :=
  (0 < length parent)%nat /\ aget 0 parent 0 = 0 /\
  forall i, 0 < i < Z.of_nat (length parent) -> 0 <= aget 0 parent i < i.

(* integer instance run by the correspondence check *)
Definition tree_accumulate_Z (g : acc_guard) (parent init : list Z) : list Z :=
  tree_accumulate Z.add 0 g parent init.
Definition subtree_sums_Z (g : acc_guard) (parent init : list Z) : list Z :=
  map (subtree_sum Z.add 0 g parent init) (zseq (length parent)).

(* ---------- forward.py _qfrc_smooth(enable_sleep) ------------------------------------- *)
(*  if wp.static(enable_sleep):
      bodyid = dof_bodyid[dofid]; tree = body_treeid[bodyid]
      if tree >= 0 and tree_awake_in[worldid, tree] == 0:
        qfrc_smooth_out[worldid, dofid] = 0.0; return
    qfrc_smooth_out[worldid, dofid] = passive - bias + actuator + applied                  *)
Section Smooth.
  Context {S : Type} `{Scalar S}.

  Definition tree_sleeping (body_treeid dof_bodyid tree_awake : list Z) (dofid : Z) : bool :=
    let bodyid := aget 0 dof_bodyid dofid in
    let tree := aget 0 body_treeid bodyid in
    (0 <=? tree) && (aget 0 tree_awake tree =? 0).

  Definition qfrc_smooth_task (enable_sleep : bool) (body_treeid dof_bodyid tree_awake : list Z)
             (applied bias passive actuator : list S) (dofid : Z) : S :=
    if enable_sleep && tree_sleeping body_treeid dof_bodyid tree_awake dofid then sofZ 0
    else sadd (sadd (ssub (aget s0 passive dofid) (aget s0 bias dofid)) (aget s0 actuator dofid))
              (aget s0 applied dofid).

  Definition qfrc_smooth_kernel (enable_sleep : bool) (body_treeid dof_bodyid tree_awake : list Z)
             (applied bias passive actuator : list S) : list S :=
    map (qfrc_smooth_task enable_sleep body_treeid dof_bodyid tree_awake applied bias passive actuator)
        (zseq (length passive)).

End Smooth.
