(* C31 host/device conversion: executable model of io.py (definitions only).

   Part 1: record types of the regenerated skeleton Gen/Skel_io.v (bin/extract_io.py) and the three
           table-driven feature checks of put_model.
   Part 2: numpy helpers (slice [:n], index wrap, fancy index, full-slice assignment).
   Part 3: get_data_into, transcribed: world filter on the flat contact buffer, the efc re-indexing
           (fixed = what /repo does since commit 0698005, old = the explicit definition before that repair, F10), row gather.
   Part 4: put_data, transcribed: tiling of contacts / efc rows over nworld, contact.efc_address rows.
   Part 5: abstract per-field copy (fields as abstract values) driven by the skeleton's lists.  *)
From Coq Require Import ZArith String List Bool.
Import ListNotations.
Local Open Scope Z_scope.

(* ------------------------------------------------------------------ 1. skeleton types *)
Inductive rkind := RArray | RScalar | RFlags.
Record reject_row := mkRR { rr_kind : rkind; rr_field : string; rr_mjw : string; rr_mj : string }.
Record reject_site := mkRS { rs_exc : string; rs_where : string; rs_guards : list string; rs_msg : string;
                             rs_enums : list string; rs_fields : list string }.
Record enum_pair := mkEP { ep_mjw : string; ep_mj : string; ep_flag : bool;
                           ep_mjw_vals : list (string * Z); ep_mj_vals : list (string * Z) }.
Inductive mfield_kind := MCopied | MDerived | MAbsent.
Record mfield := mkMF { mf_name : string; mf_kind : mfield_kind; mf_src : string }.
Inductive fill_kind := FHost | FExplicit | FConst | FZeros | FEmpty | FNone.
Record dfield := mkDF { df_name : string; df_kind : fill_kind; df_src : string }.
Inductive gather_kind := GWorld | GFilter | GEfcIdx | GScalar | GOther.
Record gread := mkGR { gr_target : string; gr_reads : list string; gr_gather : gather_kind;
                       gr_guards : list string; gr_src : string }.

Definition zmem (v : Z) (l : list Z) : bool := existsb (Z.eqb v) l.

(* `missing = ~np.isin(field, field_type); if missing.any(): raise` *)
Definition array_rejects (supported field : list Z) : bool := existsb (fun v => negb (zmem v supported)) field.
(* `if field not in set(field_type): raise` *)
Definition scalar_rejects (supported : list Z) (v : Z) : bool := negb (zmem v supported).
(* `unsupported = field & ~np.bitwise_or.reduce(field_type); if unsupported: raise` *)
Definition flags_mask (supported : list Z) : Z := fold_left Z.lor supported 0.
Definition flags_rejects (supported : list Z) (v : Z) : bool := negb (Z.land v (Z.lnot (flags_mask supported)) =? 0).

(* does table row `r` (with MJWarp values `sup`) reject a model whose field holds the single value v *)
Definition row_rejects (k : rkind) (sup : list Z) (v : Z) : bool :=
  match k with RArray => array_rejects sup [v] | RScalar => scalar_rejects sup v | RFlags => flags_rejects sup v end.

Definition is_sentinel (n : string) : bool := String.prefix "mjN" n.

Definition exempt_has (ex : list (string * string * string)) (e n : string) : bool :=
  existsb (fun t => String.eqb (fst (fst t)) e && String.eqb (snd (fst t)) n) ex.

(* value (n,v) of the mujoco enum of pair p: defined by MJWarp, or rejected by a row naming this pair, or exempt *)
Definition value_covered (rows : list reject_row) (ex : list (string * string * string)) (p : enum_pair) (nv : string * Z) : bool :=
  let sup := map snd (ep_mjw_vals p) in
  zmem (snd nv) sup
  || existsb (fun r => String.eqb (rr_mj r) (ep_mj p) && String.eqb (rr_mjw r) (ep_mjw p) && row_rejects (rr_kind r) sup (snd nv)) rows
  || exempt_has ex (ep_mj p) (fst nv).

Definition coverage_ok (pairs : list enum_pair) (rows : list reject_row) (ex : list (string * string * string)) : bool :=
  forallb (fun p => forallb (value_covered rows ex p) (ep_mj_vals p)) pairs.

(* an exempt entry is a count sentinel or belongs to an enum no table row checks *)
Definition exempt_ok (rows : list reject_row) (ex : list (string * string * string)) : bool :=
  forallb (fun t => is_sentinel (snd (fst t)) || negb (existsb (fun r => String.eqb (rr_mj r) (fst (fst t))) rows)) ex.

(* MJWarp never defines a value the mujoco enum lacks, except its own extensions (listed by name) *)
Definition mjw_subset (own : list (string * string)) (p : enum_pair) : bool :=
  forallb (fun nv => zmem (snd nv) (map snd (ep_mj_vals p)) || existsb (fun o => String.eqb (fst o) (ep_mjw p) && String.eqb (snd o) (fst nv)) own) (ep_mjw_vals p).

(* ------------------------------------------------------------------ 2. numpy helpers *)
Definition zlen {A} (l : list A) : Z := Z.of_nat (List.length l).
Fixpoint zrange_from (a : Z) (n : nat) : list Z := match n with O => [] | S k => a :: zrange_from (a + 1) k end.
Definition zrange (n : Z) : list Z := zrange_from 0 (Z.to_nat n).      (* np.arange(n) *)

(* l[:n] *)
Definition np_take {A} (n : Z) (l : list A) : list A :=
  if n <? 0 then firstn (Z.to_nat (zlen l + n)) l else firstn (Z.to_nat n) l.

(* integer index i on an axis of length n: valid iff -n <= i < n, negative wraps *)
Definition np_wrap (n i : Z) : option Z :=
  if (0 <=? i) && (i <? n) then Some i else if (- n <=? i) && (i <? 0) then Some (i + n) else None.

Definition np_index {A} (a : list A) (i : Z) : option A :=
  match np_wrap (zlen a) i with Some k => nth_error a (Z.to_nat k) | None => None end.

(* a[idx] with an integer index array; None = IndexError *)
Fixpoint np_gather {A} (a : list A) (idx : list Z) : option (list A) :=
  match idx with
  | [] => Some []
  | i :: r => match np_index a i, np_gather a r with Some x, Some xs => Some (x :: xs) | _, _ => None end
  end.

(* result.X[:] = v  on an array of length n: shapes must agree or v has length 1 (broadcast); None = ValueError *)
Definition np_assign_full {A} (n : Z) (v : list A) : option (list A) :=
  if zlen v =? n then Some v else match v with [x] => Some (repeat x (Z.to_nat n)) | _ => None end.

(* ------------------------------------------------------------------ 3. get_data_into *)
(* one slot of the flat contact buffer: worldid, dim, efc_address row (width nmaxpyramid), and a tag that
   stands for all the other per-contact fields (dist, pos, frame, ...: they are gathered by the same filter) *)
Record contact := mkC { c_world : Z; c_dim : Z; c_adr : list Z; c_tag : Z }.

(* ncon_filter[:nacon] = worldid[:nacon] == world_id ; X[ncon_filter] ; nacon = min(d.nacon[0], naconmax) *)
Definition filter_world (nacon_dev naconmax w : Z) (buf : list contact) : list contact :=
  filter (fun c => c_world c =? w) (np_take (Z.min nacon_dev naconmax) buf).

Definition ndim_of (pyramidal : bool) (dim : Z) : Z := if pyramidal then Z.max 1 (2 * (dim - 1)) else dim.

(* efc_idx_c[i] = contact_efc_address[i, :ndim] *)
Definition block_old (pyr : bool) (c : contact) : list Z := np_take (ndim_of pyr (c_dim c)) (c_adr c).
(* repaired: adr = contact_efc_address[i, :ndim]; adr = adr[adr >= 0] *)
Definition block_fixed (pyr : bool) (c : contact) : list Z := filter (fun a => 0 <=? a) (block_old pyr c).

(* efc_idx = concatenate(arange(ne+nf+nl), *blocks) if ncon > 0 else arange(nefc); efc_idx = efc_idx[:nefc] *)
Definition efc_idx_of (blocks : list (list Z)) (efl nefc : Z) (ncon0 : bool) : list Z :=
  np_take nefc (if ncon0 then zrange nefc else zrange efl ++ concat blocks).

Definition efc_idx_old (pyr : bool) (efl nefc : Z) (cs : list contact) : list Z :=
  efc_idx_of (map (block_old pyr) cs) efl nefc (match cs with [] => true | _ => false end).
Definition efc_idx_fixed (pyr : bool) (efl nefc : Z) (cs : list contact) : list Z :=
  efc_idx_of (map (block_fixed pyr) cs) efl nefc (match cs with [] => true | _ => false end).

(* contact_efc_address_ordered: [efl, efl+ndim_0, efl+ndim_0+ndim_1, ...] (one entry per listed contact) *)
Fixpoint adr_old (pyr : bool) (start : Z) (cs : list contact) : list Z :=
  match cs with [] => [] | c :: r => start :: adr_old pyr (start + ndim_of pyr (c_dim c)) r end.
(* repaired: -1 for a contact without rows, else the running count of emitted rows *)
Fixpoint adr_fixed (pyr : bool) (start : Z) (cs : list contact) : list Z :=
  match cs with
  | [] => []
  | c :: r => let b := block_fixed pyr c in
              (match b with [] => -1 | _ => start end) :: adr_fixed pyr (start + zlen b) r
  end.

(* result.efc_X[:] = d.efc.X.numpy()[world_id, efc_idx]   (result.efc_X has length nefc after the realloc) *)
Definition get_rows {A} (nefc : Z) (idx : list Z) (dev_row : list A) : option (list A) :=
  match np_gather dev_row idx with Some v => np_assign_full nefc v | None => None end.

(* efc_J (dense result, nv >= 2): efc_J = d.efc.J.numpy()[world_id, :nefc, :nv]; result.efc_J[:nefc*nv] = efc_J[efc_idx].flatten()
   -- gathered BEFORE the other efc arrays, from an array that has only nefc rows (so an index >= nefc is an IndexError and a
   negative one wraps relative to nefc), and without the length-1 broadcast; skipped when nefc = 0 *)
Definition get_J_rows {A} (nefc : Z) (idx : list Z) (dev_row : list A) : option (list A) :=
  if 0 <? nefc then
    match np_gather (np_take nefc dev_row) idx with
    | Some v => if zlen v =? nefc then Some v else None
    | None => None
    end
  else Some [].

(* everything get_data_into derives from the contact / efc buffers of world w.
   dev: flat contact buffer (length naconmax), nacon_dev = d.nacon[0], nefc_dev = d.nefc[w], row = one efc array of world w *)
Record efc_view := mkV { v_contacts : list contact; v_idx : list Z; v_adr : list Z; v_nefc : Z }.

Definition view_old (pyr : bool) (naconmax njmax nacon_dev nefc_dev ne nf nl w : Z) (buf : list contact) : efc_view :=
  let cs := filter_world nacon_dev naconmax w buf in
  let nefc := Z.min nefc_dev njmax in
  mkV cs (efc_idx_old pyr (ne + nf + nl) nefc cs) (adr_old pyr (ne + nf + nl) cs) nefc.
Definition view_fixed (pyr : bool) (naconmax njmax nacon_dev nefc_dev ne nf nl w : Z) (buf : list contact) : efc_view :=
  let cs := filter_world nacon_dev naconmax w buf in
  let nefc := Z.min nefc_dev njmax in
  mkV cs (efc_idx_fixed pyr (ne + nf + nl) nefc cs) (adr_fixed pyr (ne + nf + nl) cs) nefc.

(* ------------------------------------------------------------------ 4. put_data *)
(* host (MuJoCo) contact: dim, efc_address (-1 = no rows), tag *)
Record hcontact := mkH { h_dim : Z; h_adr : Z; h_tag : Z }.

(* contact.efc_address = full(-1); if efc_address != -1: row[:ndim] = efc_address + arange(ndim) *)
Definition put_adr_row (pyr : bool) (width : nat) (h : hcontact) : list Z :=
  if h_adr h =? -1 then repeat (-1) width
  else let nd := Z.to_nat (ndim_of pyr (h_dim h)) in
       firstn width (zrange_from (h_adr h) nd ++ repeat (-1) (width - nd)).

Definition put_contact (pyr : bool) (width : nat) (w : nat) (h : hcontact) : contact :=
  mkC (Z.of_nat w) (h_dim h) (put_adr_row pyr width h) (h_tag h).

Definition pad_contact (width : nat) : contact := mkC 0 0 (repeat (-1) width) 0.

(* np.tile over nworld, worldid = repeat(arange(nworld), ncon), np.pad to naconmax *)
Definition put_contacts (pyr : bool) (width nworld naconmax : nat) (hs : list hcontact) : list contact :=
  concat (map (fun w => map (put_contact pyr width w) hs) (seq 0 nworld))
  ++ repeat (pad_contact width) (naconmax - nworld * List.length hs).

(* val = zeros(njmax); val[:nefc] = efc_X   (one world's row; every world gets the same) *)
Definition put_row {A} (zero : A) (njmax : nat) (rows : list A) : list A := rows ++ repeat zero (njmax - List.length rows).

(* MuJoCo's layout of the contact rows: contact i owns rows [adr_i, adr_i + ndim_i) directly after the previous
   active contact, starting at ne+nf+nl; adr = -1 for a contact without rows *)
Fixpoint mj_layout (pyr : bool) (start : Z) (hs : list hcontact) : Prop :=
  match hs with
  | [] => True
  | h :: r => (h_adr h = -1 /\ mj_layout pyr start r)
              \/ (h_adr h = start /\ 1 <= ndim_of pyr (h_dim h) /\ mj_layout pyr (start + ndim_of pyr (h_dim h)) r)
  end.
Fixpoint mj_nrows (pyr : bool) (hs : list hcontact) : Z :=
  match hs with [] => 0 | h :: r => (if h_adr h =? -1 then 0 else ndim_of pyr (h_dim h)) + mj_nrows pyr r end.

(* ------------------------------------------------------------------ 5. abstract field copy *)
Section Abstract.
  Variable V : Type.
  Definition host := string -> V.                 (* MjData: field -> value *)
  Definition device := string -> nat -> V.         (* Data: field -> world -> value *)

  (* put_data: a field that is filled from the same-named MjData field holds that value in every world;
     any other field holds whatever `junk` says (zeros / uninitialised / derived: unconstrained here) *)
  Definition put_fields (filled : string -> bool) (junk : device) (d : host) : device :=
    fun f w => if filled f then d f else junk f w.

  (* get_data_into for the plain per-world copies: result.<t> = d.<src>[world_id] *)
  Fixpoint assoc (k : string) (l : list (string * string)) : option string :=
    match l with [] => None | (a, b) :: r => if String.eqb a k then Some b else assoc k r end.
  Definition get_fields (reads : list (string * string)) (dev : device) (w : nat) (old : host) : host :=
    fun f => match assoc f reads with Some s => dev s w | None => old f end.
End Abstract.

(* the skeleton's plain per-world copies: target t read from the single device field s with gather GWorld *)
Definition plain_reads (gs : list gread) : list (string * string) :=
  flat_map (fun g => match gr_gather g, gr_reads g with GWorld, [s] => [(gr_target g, s)] | _, _ => [] end) gs.
Definition kind_of (ds : list dfield) (f : string) : option fill_kind :=
  option_map df_kind (find (fun d => String.eqb (df_name d) f) ds).
Definition filled_from_host (ds : list dfield) (f : string) : bool :=
  match kind_of ds f with Some FHost => true | _ => false end.
(* device fields get_data_into reads (any gather kind) *)
Definition all_reads (gs : list gread) : list string := flat_map gr_reads gs.
(* ... that put_data leaves as zeros / uninitialised / None although get_data_into returns them *)
Definition unfilled_reads (ds : list dfield) (gs : list gread) : list string :=
  filter (fun f => match kind_of ds f with Some FHost | Some FExplicit | Some FConst => false | _ => true end) (nodup string_dec (all_reads gs)).
