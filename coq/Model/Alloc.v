(* Model/Alloc.v -- executable model of mujoco_warp's capacity-limited allocators
   (C16 "capacity overflow is never silent"; also used by C17/C11/C05/C09).

   What is modelled (definitions only; lemmas are in Proof/Alloc.v):

   * a [builder] = the allocation skeleton of one kernel, as EXTRACTED from the source by
     bin/extract_alloc.py into Gen/Skel_alloc.v (constraint.py row builders,
     collision_core.write_contact, collision_driver._add_geom_pair, island._compact_dofs);
   * [alloc_effect] = what ONE execution of the allocating path does, given the old values
     returned by wp.atomic_add (read-modify-write returning the old value):
       - the row counter (and ne/nf/nl) is bumped by the block size BEFORE the guard;
       - block guard  `if efcid CMP njmax + off: return`  (connect: >= njmax-3, weld: >= njmax-6,
         one-row builders: >= njmax), or the per-row guard of _efc_contact_init (rows with
         efcid >= njmax get address -1, the kernel does NOT return);
       - sparse: nnz counter bumped by rows*pernnz, `if rowadr + amount CMP njmax_nnz + off:
         return`, row metadata efc_J_rowadr/efc_J_rownnz stored before or after that guard
         exactly where the source stores them; _equality_tendon stores the ACTUAL number of
         non-zeros, not the requested amount ([b_rnz_exact] = false);
       - rows of deferred builders (contacts) are produced by later kernels from
         contact.efc_address, hence exist (with garbage Jacobian) even when the nnz guard fired;
   * a kernel launch = a fold over a task list (Warp CPU: ascending tid); a GPU schedule is any
     permutation of the list (tasks are atomic at the granularity that matters here because
     every decision of a task depends only on the values its own atomic_adds returned);
     a task of a builder that allocates in a loop (_equality_flexstrain) is a list of
     requests executed until the first early return;
   * [ov_nefc]/[ov_nnz] = forward._next_time: `nefc > njmax`, else (sparse, nefc > 0) the probe
     of the LAST row's STORED rowadr + rownnz against njmax_nnz; the counters of write_contact /
     _add_geom_pair / _compact_dofs are probed with `counter > cap`.

   Not modelled: efc_jtdaj_nblock (Newton block list), CCD / height-field / flex-collision /
   contact-sensor buffers (they flag at the allocation site), the values written into rows. *)
From Coq Require Import ZArith List Bool String.
Import ListNotations.
Local Open Scope Z_scope.

Inductive cmp := CGe | CGt.
Definition cmpb (c : cmp) (a b : Z) : bool :=
  match c with CGe => a >=? b | CGt => a >? b end.

(* skeleton of one allocating kernel; "dropped iff old CMP cap + off" *)
Record builder := mkB {
  b_name : string;
  b_counter : string;      (* nefc_out / nacon_out / ncollision_out / count *)
  b_cap : string;          (* njmax / naconmax / nvmax *)
  b_tcounter : Z;          (* typed counter bumped with it: 0 ne, 1 nf, 2 nl, 3 none *)
  b_rows : Z;              (* constant block size; 0 = given by the request (contact ndim) *)
  b_perrow : bool;         (* each row tested on its own and the kernel does not return *)
  b_cmp : cmp; b_off : Z;
  b_loop : bool;           (* allocation inside a loop of the task *)
  b_deferred : bool;       (* rows written by later kernels through contact.efc_address *)
  b_has_nnz : bool;        (* allocates Jacobian non-zeros when the model is sparse *)
  b_ncmp : cmp; b_noff : Z;
  b_adr_before : bool;     (* efc_J_rowadr stored before the nnz guard *)
  b_rnz_before : bool;     (* efc_J_rownnz stored before the nnz guard *)
  b_rnz_exact : bool       (* stored rownnz = requested per-row amount *)
}.

Inductive probe_kind := PCounter | PLastRow.
Record probe := mkP {
  p_kind : probe_kind; p_counter : string; p_cap : string;
  p_cmp : cmp; p_off : Z; p_bit : string; p_where : string }.

(* the probes the hand-written overflow model below copies; Props/C16 and the run-time
   verdict file compare the regenerated [overflow_probes] with this constant *)
Definition expected_probes : list probe := [
  mkP PCounter "nefc" "njmax" CGt 0 "NEFC" "_next_time";
  mkP PLastRow "last_row_meta" "njmax_nnz" CGt 0 "NJMAX_NNZ" "_next_time";
  mkP PCounter "ncollision" "naconmax" CGt 0 "BROADPHASE" "_next_time";
  mkP PCounter "nacon" "naconmax" CGt 0 "NARROWPHASE" "_next_time";
  mkP PCounter "count" "nvmax" CGt 0 "NVMAX" "_compact_dofs" ]%string.

Definition cmp_eqb (a b : cmp) : bool :=
  match a, b with CGe, CGe | CGt, CGt => true | _, _ => false end.
Definition probe_eqb (a b : probe) : bool :=
  match p_kind a, p_kind b with PCounter, PCounter | PLastRow, PLastRow => true | _, _ => false end
  && String.eqb (p_counter a) (p_counter b) && String.eqb (p_cap a) (p_cap b)
  && cmp_eqb (p_cmp a) (p_cmp b) && (p_off a =? p_off b)
  && String.eqb (p_bit a) (p_bit b) && String.eqb (p_where a) (p_where b).
Fixpoint probes_eqb (a b : list probe) : bool :=
  match a, b with
  | [], [] => true
  | x :: a', y :: b' => probe_eqb x y && probes_eqb a' b'
  | _, _ => false
  end.

(* one request of a task: the rows it wants (type, id), how many (dynamic builders), the
   per-row number of non-zeros requested and the number actually stored afterwards *)
Record req := mkQ { q_type : Z; q_id : Z; q_rows : Z; q_pernnz : Z; q_actnnz : Z }.
Record task := mkT { t_b : builder; t_reqs : list req }.

Record wrow := mkW { w_efcid : Z; w_type : Z; w_id : Z; w_complete : bool }.

Definition nrows (b : builder) (q : req) : Z := if b_rows b =? 0 then q_rows q else b_rows b.
Definition zrange (k : Z) : list Z := map Z.of_nat (seq 0 (Z.to_nat k)).

(* effect of one execution of the allocating path; e, r = old row / nnz counter values *)
Record effect := mkE {
  e_rows : Z; e_nnz : Z;              (* counter bumps *)
  e_w : list wrow;                    (* rows that come to exist *)
  e_adr : list (Z * Z); e_rnz : list (Z * Z);   (* metadata stores (index, value) in order *)
  e_slots : list (Z * Z);             (* nnz range (start, length) handed out and used *)
  e_rdrop : Z;                        (* rows lost to the row guard *)
  e_zdrop : bool;                     (* request lost to the nnz guard *)
  e_cont : bool                       (* false = the kernel returned early *)
}.

Definition alloc_effect (cap capz : Z) (sparse : bool) (b : builder) (q : req) (e r : Z) : effect :=
  let k := nrows b q in
  let dropped i := cmpb (b_cmp b) (if b_perrow b then e + i else e) (cap + b_off b) in
  if negb (b_perrow b) && dropped 0 then mkE k 0 [] [] [] [] k false false
  else
    let kept := if b_perrow b then filter (fun i => negb (dropped i)) (zrange k) else zrange k in
    let lost := k - Z.of_nat (List.length kept) in
    let p := q_pernnz q in
    let stored := if b_rnz_exact b then p else q_actnnz q in
    let adrs := map (fun i => (e + i, r + i * p)) kept in
    let rnzs := map (fun i => (e + i, stored)) kept in
    let w c := map (fun i => mkW (e + i) (q_type q) (q_id q) c) kept in
    if sparse && b_has_nnz b then
      if cmpb (b_ncmp b) (r + k * p) (capz + b_noff b)
      then mkE k (k * p) (if b_deferred b then w false else [])
               (if b_adr_before b then adrs else []) (if b_rnz_before b then rnzs else [])
               [] lost true false
      else mkE k (k * p) (w true) adrs rnzs [(r, k * p)] lost false true
    else mkE k 0 (w true) [] [] [] lost false true.

(* arrays of one world; a store outside the array changes nothing (never happens: alloc_in_bounds) *)
Fixpoint upd (l : list Z) (i v : Z) : list Z :=
  match l with [] => [] | x :: t => if i =? 0 then v :: t else x :: upd t (i - 1) v end.
Fixpoint get (l : list Z) (i : Z) : Z :=
  match l with [] => 0 | x :: t => if i =? 0 then x else get t (i - 1) end.
Definition apply_stores (l : list Z) (sts : list (Z * Z)) : list Z :=
  fold_left (fun l iv => upd l (fst iv) (snd iv)) sts l.

Record st := mkS {
  s_n : Z;                       (* nefc (or nacon / ncollision / count) *)
  s_ne : Z; s_nf : Z; s_nl : Z;
  s_z : Z;                       (* efc_nnz counter *)
  s_adr : list Z; s_rnz : list Z;   (* efc_J_rowadr / efc_J_rownnz; initial content = stale data *)
  s_rows : list wrow;
  s_slots : list (Z * Z);
  s_midx : list Z;               (* indices used by metadata stores *)
  s_rdrop : list (req * Z);      (* requests that lost rows to the row guard (and how many) *)
  s_zdrop : list req;            (* requests dropped by the nnz guard *)
  s_skip : list req              (* loop iterations never reached because the task returned *)
}.

Definition init_st (adr0 rnz0 : list Z) : st := mkS 0 0 0 0 0 adr0 rnz0 [] [] [] [] [] [].

Definition apply_effect (b : builder) (q : req) (ef : effect) (s : st) : st :=
  mkS (s_n s + e_rows ef)
      (if b_tcounter b =? 0 then s_ne s + e_rows ef else s_ne s)
      (if b_tcounter b =? 1 then s_nf s + e_rows ef else s_nf s)
      (if b_tcounter b =? 2 then s_nl s + e_rows ef else s_nl s)
      (s_z s + e_nnz ef)
      (apply_stores (s_adr s) (e_adr ef)) (apply_stores (s_rnz s) (e_rnz ef))
      (s_rows s ++ e_w ef) (s_slots s ++ e_slots ef)
      (s_midx s ++ map fst (e_adr ef) ++ map fst (e_rnz ef))
      (if 0 <? e_rdrop ef then s_rdrop s ++ [(q, e_rdrop ef)] else s_rdrop s)
      (if e_zdrop ef then s_zdrop s ++ [q] else s_zdrop s)
      (s_skip s).

Definition skip_all (qs : list req) (s : st) : st :=
  mkS (s_n s) (s_ne s) (s_nf s) (s_nl s) (s_z s) (s_adr s) (s_rnz s) (s_rows s) (s_slots s)
      (s_midx s) (s_rdrop s) (s_zdrop s) (s_skip s ++ qs).

Fixpoint run_reqs (cap capz : Z) (sparse : bool) (b : builder) (qs : list req) (s : st) : st :=
  match qs with
  | [] => s
  | q :: qs' =>
      let ef := alloc_effect cap capz sparse b q (s_n s) (s_z s) in
      let s' := apply_effect b q ef s in
      if e_cont ef then run_reqs cap capz sparse b qs' s' else skip_all qs' s'
  end.

Definition run_task (cap capz : Z) (sparse : bool) (s : st) (t : task) : st :=
  run_reqs cap capz sparse (t_b t) (t_reqs t) s.

(* one or several launches in sequence = one fold *)
Definition run_tasks (cap capz : Z) (sparse : bool) (ts : list task) (s : st) : st :=
  fold_left (run_task cap capz sparse) ts s.

(* ---- forward._next_time ---- *)
Definition ov_nefc (cap : Z) (s : st) : bool := s_n s >? cap.
Definition ov_nnz (cap capz : Z) (sparse : bool) (s : st) : bool :=
  if s_n s >? cap then false
  else if (s_n s >? 0) && sparse then
    let last := Z.min (s_n s) cap - 1 in
    get (s_adr s) last + get (s_rnz s) last >? capz
  else false.
Definition dropped_any (s : st) : bool :=
  negb (match s_rdrop s with [] => true | _ => false end
        && match s_zdrop s with [] => true | _ => false end
        && match s_skip s with [] => true | _ => false end).

(* ---- repairs of the njmax_nnz class in make_constraint (all absent = the original code) ----
   f_prezero: efc_J_rownnz / efc_J_rowadr are zeroed before the builders run;
   f_flag   : after the builders, NJMAX_NNZ is ORed into the overflow word when the nnz counter
              exceeds njmax_nnz (a second, direct source of the bit; _next_time's probe stays);
   f_clamp  : the same kernel sets rownnz := 0 for every row below min(nefc, njmax) whose
              rowadr + rownnz exceeds njmax_nnz (only when the counter overflowed). *)
Record nnzfix := mkFix { f_flag : bool; f_prezero : bool; f_clamp : bool }.
Definition nofix : nnzfix := mkFix false false false.
Definition prezero (fx : nnzfix) (l : list Z) : list Z := if f_prezero fx then map (fun _ => 0) l else l.
Definition clamp_rnz (cap capz n : Z) (adr rnz : list Z) : list Z :=
  map (fun i => if (i <? Z.min n cap) && (get adr i + get rnz i >? capz) then 0 else get rnz i)
      (zrange (Z.of_nat (List.length rnz))).
Definition set_rnz (s : st) (l : list Z) : st :=
  mkS (s_n s) (s_ne s) (s_nf s) (s_nl s) (s_z s) (s_adr s) l (s_rows s) (s_slots s) (s_midx s)
      (s_rdrop s) (s_zdrop s) (s_skip s).
Definition finish (fx : nnzfix) (cap capz : Z) (sparse : bool) (s : st) : st :=
  if f_clamp fx && sparse && (s_z s >? capz)
  then set_rnz s (clamp_rnz cap capz (s_n s) (s_adr s) (s_rnz s)) else s.
Definition nnz_flag_bit (fx : nnzfix) (capz : Z) (sparse : bool) (s : st) : bool :=
  f_flag fx && sparse && (s_z s >? capz).
Definition ov_nnz_fx (fx : nnzfix) (cap capz : Z) (sparse : bool) (s : st) : bool :=
  nnz_flag_bit fx capz sparse s || ov_nnz cap capz sparse (finish fx cap capz sparse s).
(* the clamp may hide what the probe reads, so it must come with the flag *)
Definition fx_ok (fx : nnzfix) : bool := negb (f_clamp fx) || f_flag fx.

(* ---- well-formedness of a skeleton ---- *)
(* the row guard drops iff the block does not fit: old + rows > cap *)
Definition wf_fit (b : builder) : bool :=
  if b_perrow b then
    (b_rows b =? 0) && negb (b_loop b) &&
    match b_cmp b with CGe => b_off b =? 0 | CGt => b_off b =? -1 end
  else
    (0 <? b_rows b) &&
    match b_cmp b with CGe => b_off b =? 1 - b_rows b | CGt => b_off b =? - b_rows b end.
(* the nnz guard drops iff old + amount > njmax_nnz, and what _next_time probes (the stored
   rowadr + rownnz of the last row) is the nnz counter whether or not the guard fired *)
Definition wf_nnz (b : builder) : bool :=
  b_has_nnz b && b_adr_before b && b_rnz_before b && b_rnz_exact b &&
  match b_ncmp b with CGt => b_noff b =? 0 | CGe => b_noff b =? 1 end.
Definition wf_builder (sparse : bool) (b : builder) : bool :=
  wf_fit b && (negb sparse || wf_nnz b).
Definition wf_builders (sparse : bool) (bs : list builder) : bool := forallb (wf_builder sparse) bs.
(* with the direct flag the stored metadata no longer matter: an exact nnz guard is enough *)
Definition nnz_exact (b : builder) : bool :=
  b_has_nnz b && match b_ncmp b with CGt => b_noff b =? 0 | CGe => b_noff b =? 1 end.
Definition wf_builder_fx (fx : nnzfix) (sparse : bool) (b : builder) : bool :=
  wf_fit b && (negb sparse || wf_nnz b || (f_flag fx && nnz_exact b)).
Definition wf_builders_fx (fx : nnzfix) (sparse : bool) (bs : list builder) : bool :=
  forallb (wf_builder_fx fx sparse) bs.

(* weaker: the guards are at least as strict as "does not fit" (enough for in-bounds) *)
Definition safe_builder (b : builder) : bool :=
  (if b_perrow b then
     (b_rows b =? 0) && match b_cmp b with CGe => b_off b <=? 0 | CGt => b_off b <=? -1 end
   else
     (0 <? b_rows b) &&
     match b_cmp b with CGe => b_off b <=? 1 - b_rows b | CGt => b_off b <=? - b_rows b end)
  && match b_ncmp b with CGt => b_noff b <=? 0 | CGe => b_noff b <=? 1 end.
Definition safe_builders (bs : list builder) : bool := forallb safe_builder bs.

Definition wf_req (b : builder) (q : req) : Prop := 0 < nrows b q /\ 0 <= q_pernnz q.
Definition wf_task (t : task) : Prop := Forall (wf_req (t_b t)) (t_reqs t).
Definition wf_reqb (b : builder) (q : req) : bool := (0 <? nrows b q) && (0 <=? q_pernnz q).
Definition wf_taskb (t : task) : bool := forallb (wf_reqb (t_b t)) (t_reqs t).

(* ---- the whole step: four independent allocators and the overflow word ---- *)
Record caps := mkCaps { njmax : Z; njmax_nnz : Z; naconmax : Z; nvmax : Z }.
Record requests := mkReqs {
  r_efc : list task;       (* make_constraint launches, in launch order *)
  r_bp : list task;        (* _add_geom_pair calls of the broadphase *)
  r_np : list task;        (* write_contact calls of the narrowphase *)
  r_dof : list task        (* _compact_dofs iterations *)
}.
Record result := mkR {
  x_efc : st; x_bp : st; x_np : st; x_dof : st;
  x_nefc : bool; x_nnz : bool; x_broad : bool; x_narrow : bool; x_nvmax : bool;
  x_word : Z }.

Definition bitz (b : bool) (v : Z) : Z := if b then v else 0.

(* collision_driver.collision: `if d.naconmax == 0 or ...: d.nacon.zero_(); return` -- with
   [zskip] (extracted: Gen/Skel_alloc.collision_zero_cap_skip) and a zero capacity nothing is
   launched: no counter is bumped and every request is lost *)
Definition run_collision (zskip : bool) (cap : Z) (ts : list task) : st :=
  if zskip && (cap =? 0) then skip_all (flat_map t_reqs ts) (init_st [] [])
  else run_tasks cap 0 false ts (init_st [] []).

(* requests are given in the order in which the schedule executes them *)
Definition run_builders (fx : nnzfix) (zskip : bool) (c : caps) (sparse : bool) (adr0 rnz0 : list Z) (ov0 : Z) (rq : requests) : result :=
  let se := run_tasks (njmax c) (njmax_nnz c) sparse (r_efc rq) (init_st (prezero fx adr0) (prezero fx rnz0)) in
  let sb := run_collision zskip (naconmax c) (r_bp rq) in
  let sn := run_collision zskip (naconmax c) (r_np rq) in
  let sd := run_tasks (nvmax c) 0 false (r_dof rq) (init_st [] []) in
  let o1 := ov_nefc (njmax c) se in
  let o2 := ov_nnz_fx fx (njmax c) (njmax_nnz c) sparse se in
  let o3 := ov_nefc (naconmax c) sb in
  let o4 := ov_nefc (naconmax c) sn in
  let o5 := ov_nefc (nvmax c) sd in
  mkR (finish fx (njmax c) (njmax_nnz c) sparse se) sb sn sd o1 o2 o3 o4 o5
      (Z.lor ov0 (bitz o1 1 + bitz o2 2 + bitz o3 4 + bitz o4 8 + bitz o5 128)).

Definition dropped (r : result) : bool :=
  dropped_any (x_efc r) || dropped_any (x_bp r) || dropped_any (x_np r) || dropped_any (x_dof r).
Definition overflow_any (r : result) : bool :=
  x_nefc r || x_nnz r || x_broad r || x_narrow r || x_nvmax r.

(* what the requests ask for *)
Definition req_rows (b : builder) (q : req) : list (Z * Z) :=
  map (fun _ => (q_type q, q_id q)) (zrange (nrows b q)).
Definition task_rows (t : task) : list (Z * Z) := flat_map (req_rows (t_b t)) (t_reqs t).
Definition expected_rows (ts : list task) : list (Z * Z) := flat_map task_rows ts.
Definition content (w : wrow) : Z * Z := (w_type w, w_id w).
Definition zsum (l : list Z) : Z := fold_right Z.add 0 l.
Definition task_nrows (t : task) : Z := zsum (map (nrows (t_b t)) (t_reqs t)).
Definition task_nnz (t : task) : Z := zsum (map (fun q => nrows (t_b t) q * q_pernnz q) (t_reqs t)).
Definition total_rows (ts : list task) : Z := zsum (map task_nrows ts).
Definition total_nnz (ts : list task) : Z := zsum (map task_nnz ts).
Definition tcount (c : Z) (ts : list task) : Z :=
  zsum (map (fun t => if b_tcounter (t_b t) =? c then task_nrows t else 0) ts).

(* flat view of the outputs used by the correspondence cases *)
Definition row_types (cap : Z) (sentinel : Z) (s : st) : list Z :=
  map (fun i => match find (fun w => w_efcid w =? i) (rev (s_rows s)) with
                | Some w => w_type w | None => sentinel end) (zrange cap).
Definition row_ids (cap : Z) (sentinel : Z) (s : st) : list Z :=
  map (fun i => match find (fun w => w_efcid w =? i) (rev (s_rows s)) with
                | Some w => w_id w | None => sentinel end) (zrange cap).
Definition b2z (b : bool) : Z := if b then 1 else 0.
Definition efc_view (cap capz : Z) (sparse : bool) (sentinel : Z) (s : st) : list Z :=
  [s_n s; s_ne s; s_nf s; s_nl s; b2z (ov_nefc cap s); b2z (ov_nnz cap capz sparse s)]
  ++ row_types cap sentinel s ++ row_ids cap sentinel s
  ++ (if sparse then s_adr s ++ s_rnz s else []).
(* what one world of make_constraint + _next_time leaves, for the repairs [fx] *)
Definition efc_run (fx : nnzfix) (cap capz : Z) (sparse : bool) (ts : list task) (adr0 rnz0 : list Z) : st :=
  run_tasks cap capz sparse ts (init_st (prezero fx adr0) (prezero fx rnz0)).
Definition efc_view_fx (fx : nnzfix) (cap capz : Z) (sparse : bool) (sentinel : Z) (s : st) : list Z :=
  let s' := finish fx cap capz sparse s in
  [s_n s; s_ne s; s_nf s; s_nl s; b2z (ov_nefc cap s); b2z (ov_nnz_fx fx cap capz sparse s)]
  ++ row_types cap sentinel s' ++ row_ids cap sentinel s'
  ++ (if sparse then s_adr s' ++ s_rnz s' else []).
Definition slot_view (cap : Z) (s : st) : list Z :=
  [s_n s; b2z (ov_nefc cap s); Z.of_nat (List.length (s_rows s))] ++ map w_efcid (s_rows s).

Definition find_builder (name : string) (bs : list builder) : builder :=
  match find (fun b => String.eqb name (b_name b)) bs with
  | Some b => b
  | None => mkB "?" "?" "?" 3 1 false CGe 0 false false false CGt 0 false false false
  end.
