(* Model/Term.v -- executable transcription of the termination bookkeeping of the
   constraint solver in /repo/mujoco_warp/_src/solver.py (property C25).

   Transcribed
     _solve_init_efc (solver_niter, ctx.done)            -> init_world
     _solve_done(warn_overflow).kernel                   -> solve_done_task
     _solve_cg_finalize(warn_overflow).kernel, part 2    -> cg_finalize_task
     one launch of either kernel over dim=d.nworld       -> round
     _solve: nsolving = wp.full((1,), d.nworld);
             wp.capture_while(nsolving, _solver_iteration) -> while_loop
             for _ in range(m.opt.iterations)              -> for_loop
             the `if m.opt.iterations != 0 and m.opt.graph_conditional` choice -> solve

   What is abstracted: everything `_solver_iteration` does besides the termination
   kernel (linesearch, constraint update, gradient) enters only through the boolean
       done = (improvement < tolerance) or (gradient < tolerance) [or (model_improvement < tolerance)]
   computed by the termination kernel for a world that is not yet done.  It is an arbitrary
   oracle  tol : round -> world -> bool  here; the theorems hold for every oracle.  The S-tie
   (bin/props/C25.py) checks on the source that every kernel of `_solver_iteration` that writes
   per-world result state returns at once for a world whose ctx.done flag is set, which is what
   makes "the oracle value of a done world is never looked at" the right abstraction.

   Conventions: worlds are list positions (nat), rounds are nat, counters are Z.
   CPU launches run the tasks in ascending worldid order; wp.atomic_add(nsolving, 0, -1) is an
   indivisible read-modify-write, so the launch is a left-to-right fold that threads nsolving. *)
From Coq Require Import ZArith List Bool.
Import ListNotations.
Local Open Scope Z_scope.

(* types.OverflowType.ITERATIONS = 1 << 9 (checked against the real enum by bin/props/C25.py) *)
Definition ITER_BIT : Z := 9.
Definition ITERATIONS : Z := 512.

(* per-world termination state: d.solver_niter[w], ctx.done[w], d.overflow[w] *)
Record wstate := mkWS { niter : Z; done : bool; ovf : Z }.

(* _solve_init_efc: solver_niter_out[worldid] = 0; ctx_done_out[worldid] = False.
   d.overflow is NOT touched (sticky word, only reset_data clears it). *)
Definition init_world (s : wstate) : wstate := mkWS 0 false (ovf s).

(* _solve_done kernel, one world.  [L] = opt_iterations, [b] = the kernel's local `done`.
   Returns the new state and the amount added to nsolving_out[0].

     if ctx_done_in[worldid]: return
     solver_niter_out[worldid] += 1
     done = ...
     if done or solver_niter_out[worldid] == opt_iterations:
       if not done and solver_niter_out[worldid] == opt_iterations:
         overflow_out[worldid] = overflow_out[worldid] | OverflowType.ITERATIONS
       ctx_done_out[worldid] = True
       wp.atomic_add(nsolving_out, 0, -1)                                              *)
Definition solve_done_task (L : Z) (b : bool) (s : wstate) : wstate * Z :=
  if done s then (s, 0)
  else
    let n := niter s + 1 in
    if b || (n =? L) then
      let o := if negb b && (n =? L) then Z.lor (ovf s) ITERATIONS else ovf s in
      (mkWS n true o, -1)
    else (mkWS n false (ovf s), 0).

(* _solve_cg_finalize kernel, part "2. solve_done": the same statements in the same order
   (part 1 writes ctx.beta only, which is not termination state). *)
Definition cg_finalize_task (L : Z) (b : bool) (s : wstate) : wstate * Z :=
  if done s then (s, 0)
  else
    let n := niter s + 1 in
    if b || (n =? L) then
      let o := if negb b && (n =? L) then Z.lor (ovf s) ITERATIONS else ovf s in
      (mkWS n true o, -1)
    else (mkWS n false (ovf s), 0).

Definition task_of (cg : bool) := if cg then cg_finalize_task else solve_done_task.

(* one launch over dim = nworld: worlds i, i+1, ... in order; [tolk i] is world i's boolean *)
Fixpoint round_from (cg : bool) (L : Z) (tolk : nat -> bool) (i : nat) (ws : list wstate) (ns : Z)
  : list wstate * Z :=
  match ws with
  | [] => ([], ns)
  | s :: r =>
      let '(s', d) := task_of cg L (tolk i) s in
      let '(r', ns') := round_from cg L tolk (S i) r (ns + d) in
      (s' :: r', ns')
  end.
Definition round (cg : bool) (L : Z) (tolk : nat -> bool) (st : list wstate * Z) : list wstate * Z :=
  round_from cg L tolk 0%nat (fst st) (snd st).

(* loop state: worlds, nsolving, number of rounds (calls of _solver_iteration) executed *)
Definition lstate := (list wstate * Z * nat)%type.

(* for _ in range(m.opt.iterations): _solver_iteration(...)   -- n = len(range(L)) rounds *)
Fixpoint for_loop (cg : bool) (L : Z) (tol : nat -> nat -> bool) (n : nat) (k : nat) (st : list wstate * Z)
  : lstate :=
  match n with
  | O => (st, k)
  | S n' => for_loop cg L tol n' (S k) (round cg L (tol k) st)
  end.

(* wp.capture_while(nsolving, while_body=_solver_iteration) outside graph capture:
     while True: if nsolving[0] != 0: body() else: break
   fuel-bounded; Proof/Term.v shows fuel >= L is never exhausted when L >= 1. *)
Fixpoint while_loop (cg : bool) (L : Z) (tol : nat -> nat -> bool) (fuel : nat) (k : nat) (st : list wstate * Z)
  : lstate :=
  match fuel with
  | O => (st, k)
  | S f => if snd st =? 0 then (st, k) else while_loop cg L tol f (S k) (round cg L (tol k) st)
  end.

(* _solve, termination part.  ws0 = state on entry (solver_niter/done are overwritten by
   init_context, overflow is kept). *)
Definition solve (cg gc : bool) (L : Z) (fuel : nat) (tol : nat -> nat -> bool) (ws0 : list wstate) : lstate :=
  let ws := map init_world ws0 in
  let ns := Z.of_nat (length ws) in
  if negb (L =? 0) && gc then while_loop cg L tol fuel 0%nat (ws, ns)
  else for_loop cg L tol (Z.to_nat L) 0%nat (ws, ns).

(* one world alone (the reference run of the batch-independence theorem): n rounds starting at round k *)
Fixpoint wrun (cg : bool) (L : Z) (b : nat -> bool) (n : nat) (k : nat) (s : wstate) : wstate :=
  match n with
  | O => s
  | S n' => wrun cg L b n' (S k) (fst (task_of cg L (b k) s))
  end.

(* observables used by the correspondence check: [niter; ITER bit; done] per world, then nsolving, rounds *)
Definition obs_world (s : wstate) : list Z :=
  [niter s; if Z.testbit (ovf s) ITER_BIT then 1 else 0; if done s then 1 else 0; ovf s].
Definition obs (r : lstate) : list Z :=
  flat_map obs_world (fst (fst r)) ++ [snd (fst r); Z.of_nat (snd r)].

(* oracle given as a table: rows = rounds, columns = worlds; missing entries read false *)
Definition tol_of_table (t : list (list bool)) (k i : nat) : bool := nth i (nth k t []) false.
(* the same without nsolving (not observable from outside _solve when no round is executed) *)
Definition obs_nons (r : lstate) : list Z :=
  flat_map obs_world (fst (fst r)) ++ [Z.of_nat (snd r)].

(* ---- the rest of the per-world solver state under the done guard ------------------------------
   X = the protected (non-scratch) per-world fields (d.qacc, d.efc.Ma, d.efc.force, d.efc.state,
   d.qfrc_constraint, ctx.grad, ctx.h, ctx.search, ...).  The S-fact checked on the source is that
   every kernel of _solver_iteration stores into X only under `not ctx.done[worldid]`; such a kernel
   is [guarded k] for some k (k may depend on anything else: scratch fields, other arrays).
   One iteration of one world = its guarded kernels (which read the done flag as it was at the
   start of the iteration), then the termination kernel. *)
Definition guarded {X : Type} (k : X -> X) : bool -> X -> X := fun dn x => if dn then x else k x.
Definition run_kernels {X : Type} (ks : list (bool -> X -> X)) (dn : bool) (x : X) : X :=
  fold_left (fun x k => k dn x) ks x.
Definition full_round {X : Type} (cg : bool) (L : Z) (ks : list (X -> X)) (b : bool) (st : X * wstate) : X * wstate :=
  (run_kernels (map guarded ks) (done (snd st)) (fst st), fst (task_of cg L b (snd st))).
Definition full_rounds {X : Type} (cg : bool) (L : Z) (rs : list (list (X -> X) * bool)) (st : X * wstate) : X * wstate :=
  fold_left (fun st r => full_round cg L (fst r) (snd r) st) rs st.
