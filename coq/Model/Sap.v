(* Model/Sap.v -- executable model of the integer logic of the broadphases of
     /repo/mujoco_warp/_src/collision_driver.py  (sap_broadphase, nxn_broadphase, _sap_broadphase,
       _nxn_broadphase, _add_geom_pair, _broadphase_filter)
     /repo/mujoco_warp/_src/collision_core.py    (sap_binary_search, sap_range)
   Definitions only.  Hand-written (the translator has no `while` / kernels), tied to the
   source by the correspondence runs of bin/props/C18.py (real kernels vs these definitions,
   evaluated by vm_compute) and by a pinned AST hash of the modelled functions.

   Warp semantics copied: kernel `//` `%` truncate (Z.quot / Z.rem), `>>` is arithmetic,
   CPU launches run thread ids in ascending order, atomic_add returns the old value.
   The sort primitives (wp.tile_sort / wp.utils.segmented_sort_pairs) are NOT modelled: the
   sorted keys and the permutation they produce are inputs (assumed to sort; checked on
   every captured run).  Keys are abstract (type K with a comparison): executed on integer
   ranks of the float32 keys (order-isomorphic), reasoned about over R. *)
From Coq Require Import ZArith List Bool.
From VF Require Import Base.Scalar Base.Vec Base.Loop Gen.math Gen.broadphase Model.PairTable.
Import ListNotations.
Local Open Scope Z_scope.

(* ---------------------------------------------------------------- sap_binary_search *)
(* while lower < upper: mid = (lower+upper) >> 1; if values[mid] > value: upper = mid else lower = mid+1
   return upper.   [gt mid] stands for `values[mid] > value`.  Out of fuel returns -1
   (never happens with the fuel used below: proved). *)
Fixpoint bsearch (fuel : nat) (gt : Z -> bool) (lower upper : Z) : Z :=
  match fuel with
  | O => -1
  | S f =>
      if lower <? upper then
        let mid := Z.shiftr (lower + upper) 1 in
        if gt mid then bsearch f gt lower mid else bsearch f gt (mid + 1) upper
      else upper
  end.
Definition sap_binary_search (gt : Z -> bool) (lower upper : Z) : Z :=
  bsearch (S (Z.to_nat (upper - lower))) gt lower upper.

(* ---------------------------------------------------------------- sap_range *)
Section Keys.
  Variable K : Type.
  Variable gtb : K -> K -> bool.       (* a > b on keys *)
  Variable kd : K.
  Definition knth (l : list K) (i : Z) : K := nth (Z.to_nat i) l kd.

  (* one thread of kernel sap_range, one world.  lower = SORTED projection_lower row,
     upper = projection_upper row indexed by geom id, sort_index = geom id per sorted slot *)
  Definition sap_range1 (n : Z) (lower upper : list K) (sort_index : list Z) (sortedid : Z) : Z :=
    let idx := znth sort_index sortedid in
    let up := knth upper idx in
    let limit := sap_binary_search (fun mid => gtb (knth lower mid) up) (sortedid + 1) n in
    let limit := Z.min (n - 1) limit in
    limit - sortedid.

  Definition sap_range_world (n : Z) (lower upper : list K) (sort_index : list Z) : list Z :=
    map (sap_range1 n lower upper sort_index) (zseq 0 (Z.to_nat n)).
End Keys.

(* wp.utils.array_scan(range, cumulative_sum, inclusive=True) *)
Fixpoint scan_incl (acc : Z) (l : list Z) : list Z :=
  match l with
  | [] => []
  | x :: r => (acc + x) :: scan_incl (acc + x) r
  end.
Definition cumsum (l : list Z) : list Z := scan_incl 0 l.

(* ---------------------------------------------------------------- work packages of _sap_broadphase *)
(* i = sap_binary_search(cumulative_sum, k, 0, nworldgeom); j = i + k + 1; if i > 0: j -= cumulative_sum[i-1]
   worldid = i // ngeom; i = i % ngeom; j = j % ngeom *)
Definition decode (ngeom nworldgeom : Z) (cs : list Z) (k : Z) : Z * Z * Z :=
  let i := sap_binary_search (fun mid => znth cs mid >? k) 0 nworldgeom in
  let j := i + k + 1 in
  let j := if i >? 0 then j - znth cs (i - 1) else j in
  (Z.quot i ngeom, Z.rem i ngeom, Z.rem j ngeom).

(* thread tid:  k = tid; while k < nworkpackages: ...; k += nsweep *)
Fixpoint thread_ks (fuel : nat) (nsweep total k : Z) : list Z :=
  match fuel with
  | O => []
  | S f => if k <? total then k :: thread_ks f nsweep total (k + nsweep) else []
  end.
(* all work packages in CPU execution order (thread ids ascending, launch dim = nsweep) *)
Definition work_order (nsweep total : Z) : list Z :=
  flat_map (fun tid => thread_ks (S (Z.to_nat total)) nsweep total tid) (zseq 0 (Z.to_nat nsweep)).

(* nworkpackages = cumulative_sum_in[nworldgeom - 1] *)
Definition nworkpackages (nworldgeom : Z) (cs : list Z) : Z := znth cs (nworldgeom - 1).

(* ---------------------------------------------------------------- candidate emission *)
(* _add_geom_pair: the pair is ordered by geom TYPE only *)
Definition order_by_type (geom_type : list Z) (g1 g2 : Z) : Z * Z :=
  if znth geom_type g1 >? znth geom_type g2 then (g2, g1) else (g1, g2).

(* body of the while loop of _sap_broadphase after decoding, sleeping disabled.
   pid0 / pid1 : the two columns of m.nxn_pairid;  flt w g1 g2 : value of _broadphase_filter.
   Result: Some (world, pair as stored in collision_pair) or None (pair skipped). *)
Definition sap_emit (ngeom : Z) (sort_index : list (list Z)) (pid0 pid1 geom_type : list Z)
           (flt : Z -> Z -> Z -> bool) (wij : Z * Z * Z) : option (Z * (Z * Z)) :=
  let '(w, i, j) := wij in
  let row := nth (Z.to_nat w) sort_index [] in
  let g1 := znth row i in
  let g2 := znth row j in
  (* if geom2 < geom1: swap -- the pair is ordered by geom id before the lookup, the filter and
     _add_geom_pair (repair of the recorded finding C18:sap:same-type-pair-emitted-in-sort-order) *)
  let geom1 := if g2 <? g1 then g2 else g1 in
  let geom2 := if g2 <? g1 then g1 else g2 in
  let idx := upper_tri_index ngeom geom1 geom2 in
  if (znth pid0 idx <? -1) && (znth pid1 idx <? 0) then None
  (* filter(...) or pairid[0] >= 0 (explicit <pair>: never rejected by the filter) or pairid[1] >= 0 *)
  else if flt w geom1 geom2 || (znth pid0 idx >=? 0) || (znth pid1 idx >=? 0)
  then Some (w, order_by_type geom_type geom1 geom2)
  else None.

Fixpoint somes {A : Type} (l : list (option A)) : list A :=
  match l with
  | [] => []
  | Some x :: r => x :: somes r
  | None :: r => somes r
  end.

(* everything the SAP sweep kernel emits, in CPU order, before the naconmax cut *)
Definition sap_candidates (ngeom nworld nsweep : Z) (sort_index : list (list Z)) (cs : list Z)
           (pid0 pid1 geom_type : list Z) (flt : Z -> Z -> Z -> bool) : list (Z * (Z * Z)) :=
  let nwg := nworld * ngeom in
  somes (map (fun k => sap_emit ngeom sort_index pid0 pid1 geom_type flt (decode ngeom nwg cs k))
             (work_order nsweep (nworkpackages nwg cs))).

(* _nxn_broadphase, sleeping disabled: launch dim (nworld, len(nxn_geom_pair_filtered));
   gpf / pidf0 / pidf1 : nxn_geom_pair_filtered and the two columns of nxn_pairid_filtered *)
Definition nxn_emit (gpf : list (Z * Z)) (pidf0 pidf1 geom_type : list Z) (flt : Z -> Z -> Z -> bool)
           (w e : Z) : option (Z * (Z * Z)) :=
  let '(geom1, geom2) := nth (Z.to_nat e) gpf (0, 0) in
  (* filter(...) or nxn_pairid[e][0] >= 0 (explicit <pair>) or nxn_pairid[e][1] >= 0 *)
  if flt w geom1 geom2 || (znth pidf0 e >=? 0) || (znth pidf1 e >=? 0)
  then Some (w, order_by_type geom_type geom1 geom2) else None.

Definition nxn_candidates (nworld : Z) (gpf : list (Z * Z)) (pidf0 pidf1 geom_type : list Z)
           (flt : Z -> Z -> Z -> bool) : list (Z * (Z * Z)) :=
  somes (flat_map (fun w => map (nxn_emit gpf pidf0 pidf1 geom_type flt w) (zseq 0 (length gpf)))
                  (zseq 0 (Z.to_nat nworld))).

(* ncollision counts every emitted candidate; only the first naconmax are stored *)
Definition stored {A : Type} (naconmax : Z) (l : list A) : list A := firstn (Z.to_nat naconmax) l.

(* flat integer outputs for the correspondence check *)
Definition flat_cands (l : list (Z * (Z * Z))) : list Z :=
  flat_map (fun c => [fst c; fst (snd c); snd (snd c)]) l.
Definition flat_decode (l : list (Z * Z * Z)) : list Z :=
  flat_map (fun c => [fst (fst c); snd (fst c); snd c]) l.

(* ---------------------------------------------------------------- _broadphase_filter (float part) *)
Section Filter.
  Context {S : Type} `{Scalar S}.

  (* the closure `func` of _broadphase_filter for filter mask [mask]; `_plane_filter`,
     `_sphere_filter`, `_aabb_filter` are the REGENERATED translations (Gen/broadphase.v);
     `_obb_filter` is not translatable: its value is the argument [obb] (only looked at when
     bit 3 of the mask is set). *)
  Definition bp_filter (mask : Z) (obb : bool)
             (center1 center2 size1 size2 : list S) (rbound1 rbound2 margin1 margin2 gap1 gap2 : S)
             (xpos1 xpos2 xmat1 xmat2 : list S) : bool :=
    let effective_margin1 := sadd margin1 gap1 in
    let effective_margin2 := sadd margin2 gap2 in
    if seqb rbound1 (sofZ 0) || seqb rbound2 (sofZ 0) then
      if Z.testbit mask 0
      then _plane_filter rbound1 rbound2 effective_margin1 effective_margin2 xpos1 xpos2 xmat1 xmat2
      else true
    else
      if Z.testbit mask 1 && negb (_sphere_filter rbound1 rbound2 effective_margin1 effective_margin2 xpos1 xpos2)
      then false
      else if Z.testbit mask 2 && negb (_aabb_filter center1 center2 size1 size2 effective_margin1 effective_margin2 xpos1 xpos2 xmat1 xmat2)
      then false
      else if Z.testbit mask 3 && negb obb
      then false
      else true.

  (* sap_project, one geom: (lower, upper) = (center - radius, center + radius),
     rbound == 0 (plane) -> MJ_MAXVAL;  NaN centers are mapped to MJ_MAXVAL by the kernel
     (not representable over R; covered by the correspondence run only) *)
  Definition MJ_MAXVAL : S := sofZ 10000000000.
  Definition sap_project1 (direction xpos : list S) (rbound margin gap : S) : S * S :=
    let rbound := if seqb rbound (sofZ 0) then MJ_MAXVAL else rbound in
    let radius := sadd (sadd rbound margin) gap in
    let center := vdot direction xpos in
    (ssub center radius, sadd center radius).
End Filter.
