(* Model/Compact.v -- executable transcription of the active-DOF compaction of
   /repo/mujoco_warp/_src/island.py and solver.py (property C38), one world
   (every kernel indexes its arrays with [worldid, ...] only).

   Transcribed
     island._reset_compact_maps + island._compact_dofs (update_active_dofs)  -> compact_dofs
     solver._init_compact_inertia                                           -> init_inertia
     solver._gather_M_sparse                                                -> gather_M
     d.cJ.zero_() + solver._gather_J_dense                                  -> gather_J_dense
     d.cJ.zero_() + solver._gather_J_sparse                                 -> gather_J_sparse
     solver._gather_dof_vecs_compact / _gather_rhs_compact (one vector)     -> gather_vec
     solver._scatter_dof_vecs / _scatter_solution (one vector)              -> scatter_vec
     io._nvmax_pad                                                          -> nvmax_pad
     solver._compact_tolerance + the host scale float(m.nv) / float(nvp)    -> compact_tolerance
       (solve_compact rescales the CURRENT m.opt.tolerance, per world; ls_tolerance is passed through)
     the linesearch gradient tolerance of _linesearch_iterative_kernel      -> ls_gtol
     solver._solve_init_dof(warmstart, sparse) with the flag _solve passes  -> solve_init_dof, init_dof_sparse_flag

   Conventions
   * `for x in range(n)` is a fold_left over [zseq n] = [0; 1; ...; n-1]; a launch over a grid is
     a fold over the task ids in ascending order (the CPU schedule; the kernels modelled here write
     disjoint locations per task or the same value, see gather_M).
   * Arrays are lists; [cget]/[cset] read/write at a Z index.  The model is claimed for in-range
     indices only (well-formed tree tables, dof ids in [0,nv)): a write outside the list is a
     no-op here, Warp's negative-index wrap-around is never exercised by in-range inputs.
   * Array element values are an abstract type T with [zero] and [one] (copied, never computed
     with): instantiated with Z for the correspondence runs and with R for the theorems. *)
From Coq Require Import ZArith List Bool.
From VF Require Import Base.Scalar.
Import ListNotations.
Local Open Scope Z_scope.

(* types.OverflowType.NVMAX = 1 << 7 *)
Definition NVMAX_BIT : Z := 7.
Definition NVMAX : Z := 128.

Definition zseq (n : Z) : list Z := map Z.of_nat (seq 0 (Z.to_nat n)).

Section Arr.
  Context {T : Type}.
  Definition cgetd (d : T) (l : list T) (i : Z) : T := nth (Z.to_nat i) l d.
  Fixpoint updn (k : nat) (v : T) (l : list T) {struct l} : list T :=
    match l with
    | [] => []
    | x :: t => match k with O => v :: t | S k' => x :: updn k' v t end
    end.
  Definition cset (l : list T) (i : Z) (v : T) : list T := if i <? 0 then l else updn (Z.to_nat i) v l.
End Arr.
Definition cget (l : list Z) (i : Z) : Z := cgetd 0 l i.

(* io._nvmax_pad: t = TILE_SIZE_JTDAJ_DENSE = 16; ((max(nvmax, 1) + t) // t) * t  (host Python: floor division) *)
Definition nvmax_pad (nvmax : Z) : Z := ((Z.max nvmax 1 + 16) / 16) * 16.

(* ---------------- compaction maps ---------------- *)
Record cstate := mkC { count : Z; dc : list Z; cd : list Z }.   (* count, dof_cdof row, cdof_dof row *)

(*  if count < nvmax_in: dof_cdof_out[worldid, dof] = count; cdof_dof_out[worldid, count] = dof
    count += 1 *)
Definition dof_step (nvmax : Z) (s : cstate) (dof : Z) : cstate :=
  if count s <? nvmax
  then mkC (count s + 1) (cset (dc s) dof (count s)) (cset (cd s) (count s) dof)
  else mkC (count s + 1) (dc s) (cd s).

(*  for t in range(ntree): if tree_awake_in[worldid, t] == 1:
        adr = tree_dofadr[t]; num = tree_dofnum[t]; for j in range(num): dof = adr + j; ...  *)
Definition tree_step (nvmax : Z) (tree_dofadr tree_dofnum tree_awake : list Z) (s : cstate) (t : Z) : cstate :=
  if cget tree_awake t =? 1
  then fold_left (fun s j => dof_step nvmax s (cget tree_dofadr t + j)) (zseq (cget tree_dofnum t)) s
  else s.

Record cresult := mkR { ncdof : Z; dof_cdof : list Z; cdof_dof : list Z; overflow : Z; needed : Z }.

(* update_active_dofs for one world.  _reset_compact_maps: dof_cdof[0..nv) = -1 and
   cdof_dof[0..nvmax_pad) = -1; then _compact_dofs.  [needed] = the kernel's final `count`. *)
Definition compact_dofs (ntree : Z) (tree_dofadr tree_dofnum tree_awake : list Z) (nvmax nv nvp ovf : Z) : cresult :=
  let s0 := mkC 0 (repeat (-1) (Z.to_nat nv)) (repeat (-1) (Z.to_nat nvp)) in
  let s := fold_left (tree_step nvmax tree_dofadr tree_dofnum tree_awake) (zseq ntree) s0 in
  if count s >? nvmax
  then mkR nvmax (dc s) (cd s) (Z.lor ovf NVMAX) (count s)
  else mkR (count s) (dc s) (cd s) ovf (count s).

(* ---- the same with the previous content of the maps made explicit (the maps live on Data and are
   reused from step to step).  _reset_compact_maps over dim (nworld, dim), task idx:
     if idx < nv: dof_cdof_out[worldid, idx] = -1
     if idx < nvmax_pad_in: cdof_dof_out[worldid, idx] = -1
   update_active_dofs launches it with dim = max(m.nv, d.nvmax_pad): dof_cdof is nv wide, cdof_dof
   nvmax_pad wide, and nv may exceed nvmax_pad when a capacity nvmax < nv was requested. *)
Definition reset_maps (dim nv nvp : Z) (dc0 cd0 : list Z) : list Z * list Z :=
  fold_left (fun s idx => (if idx <? nv then cset (fst s) idx (-1) else fst s,
                           if idx <? nvp then cset (snd s) idx (-1) else snd s)) (zseq dim) (dc0, cd0).
Definition reset_dim (nv nvp : Z) : Z := Z.max nv nvp.

Definition compact_dofs_from (ntree : Z) (tree_dofadr tree_dofnum tree_awake : list Z) (nvmax ovf : Z) (dc0 cd0 : list Z) : cresult :=
  let s := fold_left (tree_step nvmax tree_dofadr tree_dofnum tree_awake) (zseq ntree) (mkC 0 dc0 cd0) in
  if count s >? nvmax
  then mkR nvmax (dc s) (cd s) (Z.lor ovf NVMAX) (count s)
  else mkR (count s) (dc s) (cd s) ovf (count s).

(* island.update_active_dofs on maps holding dc0 / cd0 from the previous call, reset launched over [dim] *)
Definition update_active_dofs (dim ntree : Z) (tree_dofadr tree_dofnum tree_awake : list Z) (nvmax nv nvp ovf : Z) (dc0 cd0 : list Z) : cresult :=
  let r := reset_maps dim nv nvp dc0 cd0 in
  compact_dofs_from ntree tree_dofadr tree_dofnum tree_awake nvmax ovf (fst r) (snd r).

(* the dofs visited by the two loops, in order: the dofs of the awake trees *)
Definition tree_block (tree_dofadr tree_dofnum tree_awake : list Z) (t : Z) : list Z :=
  if cget tree_awake t =? 1 then map (fun j => cget tree_dofadr t + j) (zseq (cget tree_dofnum t)) else [].
Definition awake_dofs (ntree : Z) (tree_dofadr tree_dofnum tree_awake : list Z) : list Z :=
  flat_map (tree_block tree_dofadr tree_dofnum tree_awake) (zseq ntree).

(* ---------------- gathers / scatters ---------------- *)
Section Gather.
  Context {T : Type}.
  Variables (zero one : T).

  Definition mat := list (list T).
  Definition mget (m : mat) (i j : Z) : T := cgetd zero (cgetd [] m i) j.
  Definition mset (m : mat) (i j : Z) (v : T) : mat := cset m i (cset (cgetd [] m i) j v).

  (* _init_compact_inertia over dim (nvmax_pad, nvmax_pad):
       val = 0.0; if i == j and i >= ncdof_in[worldid]: val = 1.0; M_c_out[worldid, i, j] = val *)
  Definition init_inertia (ncdof nvp : Z) : mat :=
    map (fun i => map (fun j => if (i =? j) && (i >=? ncdof) then one else zero) (zseq nvp)) (zseq nvp).

  (* _gather_M_sparse over dim (nv): task i
       ci = dof_cdof_in[worldid, i]; if ci < 0: return
       rowadr = M_rowadr[i]
       for k in range(M_rownnz[i]): adr = rowadr + k; cj = dof_cdof_in[worldid, M_colind[adr]]
         if cj >= 0: val = M_in[worldid, adr]; M_c_out[ci, cj] = val; M_c_out[cj, ci] = val *)
  Definition gather_M_task (M_rownnz M_rowadr M_colind : list Z) (M : list T) (dofc : list Z) (cM : mat) (i : Z) : mat :=
    let ci := cget dofc i in
    if ci <? 0 then cM
    else
      fold_left (fun cM k =>
        let adr := cget M_rowadr i + k in
        let cj := cget dofc (cget M_colind adr) in
        if cj >=? 0 then mset (mset cM ci cj (cgetd zero M adr)) cj ci (cgetd zero M adr) else cM)
      (zseq (cget M_rownnz i)) cM.
  Definition gather_M (nv : Z) (M_rownnz M_rowadr M_colind : list Z) (M : list T) (dofc : list Z) (cM0 : mat) : mat :=
    fold_left (gather_M_task M_rownnz M_rowadr M_colind M dofc) (zseq nv) cM0.

  (* smooth_solve_compact / _compact_gather: init then gather *)
  Definition compact_inertia (nv nvp ncdof : Z) (M_rownnz M_rowadr M_colind : list Z) (M : list T) (dofc : list Z) : mat :=
    gather_M nv M_rownnz M_rowadr M_colind M dofc (init_inertia ncdof nvp).

  Definition zeros (rows cols : Z) : mat := repeat (repeat zero (Z.to_nat cols)) (Z.to_nat rows).

  (* _gather_J_dense over dim (njmax): task efcid
       if efcid >= nefc_in[worldid]: return
       nv = dof_cdof_in.shape[1]
       for j in range(nv): cj = dof_cdof_in[worldid, j]; if cj >= 0: J_c_out[efcid, cj] = J_in[efcid, j] *)
  Definition gather_J_dense_task (nefc nv : Z) (dofc : list Z) (J : mat) (cJ : mat) (efcid : Z) : mat :=
    if efcid >=? nefc then cJ
    else fold_left (fun cJ j => let cj := cget dofc j in
                                if cj >=? 0 then mset cJ efcid cj (mget J efcid j) else cJ) (zseq nv) cJ.
  Definition gather_J_dense (njmax nefc nv nvp : Z) (dofc : list Z) (J : mat) : mat :=
    fold_left (gather_J_dense_task nefc nv dofc J) (zseq njmax) (zeros njmax nvp).

  (* _gather_J_sparse over dim (njmax): task efcid
       if efcid >= nefc_in[worldid]: return
       rowadr = J_rowadr_in[worldid, efcid]
       for k in range(J_rownnz_in[worldid, efcid]): adr = rowadr + k
         cj = dof_cdof_in[worldid, J_colind_in[worldid, 0, adr]]
         if cj >= 0: J_c_out[efcid, cj] = J_in[worldid, 0, adr] *)
  Definition gather_J_sparse_task (nefc : Z) (dofc J_rownnz J_rowadr J_colind : list Z) (J : list T) (cJ : mat) (efcid : Z) : mat :=
    if efcid >=? nefc then cJ
    else fold_left (fun cJ k => let adr := cget J_rowadr efcid + k in
                                let cj := cget dofc (cget J_colind adr) in
                                if cj >=? 0 then mset cJ efcid cj (cgetd zero J adr) else cJ)
                   (zseq (cget J_rownnz efcid)) cJ.
  Definition gather_J_sparse (njmax nefc nvp : Z) (dofc J_rownnz J_rowadr J_colind : list Z) (J : list T) : mat :=
    fold_left (gather_J_sparse_task nefc dofc J_rownnz J_rowadr J_colind J) (zseq njmax) (zeros njmax nvp).

  (* _gather_dof_vecs_compact / _gather_rhs_compact over dim (nvmax_pad): task ci
       dof = cdof_dof_in[worldid, ci]; out[ci] = vec[dof] if dof >= 0 else 0.0 *)
  Definition gather_vec (nvp : Z) (cdofd : list Z) (vec : list T) : list T :=
    map (fun ci => let dof := cget cdofd ci in if dof >=? 0 then cgetd zero vec dof else zero) (zseq nvp).

  (* _scatter_dof_vecs / _scatter_solution over dim (nv): task i
       ci = dof_cdof_in[worldid, i]; out[i] = x[ci] if ci >= 0 else 0.0   (frozen inactive DOF) *)
  Definition scatter_vec (nv : Z) (dofc : list Z) (x : list T) : list T :=
    map (fun i => let ci := cget dofc i in if ci >=? 0 then cgetd zero x ci else zero) (zseq nv).
End Gather.

(* ---------------- solver entry on the compacted problem ---------------- *)
(* _solve: wp.launch(_solve_init_dof(warmstart, m.is_sparse or _sparse_compact(ctx)), ...).
   Under solve_compact m is the dense shadow model (is_sparse = False) and _sparse_compact(ctx) holds
   iff the FULL model is sparse. *)
Definition init_dof_sparse_flag (m_is_sparse full_is_sparse_compact : bool) : bool :=
  m_is_sparse || full_is_sparse_compact.

(* _solve_init_dof kernel over dim (nv), one world:
     qacc_out[dofid] = qacc_warmstart_in[dofid] if WARMSTART else qacc_smooth_in[dofid]
     if SPARSE: if nefc_in[worldid] == 0: qfrc_constraint_out[dofid] = 0.0
   returns (qacc, qfrc_constraint); the arrays have nv entries. *)
Definition solve_init_dof {T : Type} (zero : T) (warmstart sparse : bool) (nefc : Z)
           (qacc_warmstart qacc_smooth qfrc_constraint : list T) : list T * list T :=
  (if warmstart then qacc_warmstart else qacc_smooth,
   if sparse && (nefc =? 0) then map (fun _ => zero) qfrc_constraint else qfrc_constraint).

Section Tol.
  Context {S : Type} `{Scalar S}.
  (* host: scale = float(m.nv) / float(nvp); kernel _compact_tolerance: ctol[i] = opt_tolerance[i] * scale *)
  Definition compact_tolerance (tol : S) (nv nvp : Z) : S := smul tol (sdiv (sofZ nv) (sofZ nvp)).
  (* _linesearch_iterative_kernel: scale = meaninertia * float(nv);
     gtol = wp.max(tolerance * ls_tolerance * snorm * scale, 1e-6) *)
  Definition ls_gtol (nv : Z) (mi tol lstol snorm : S) : S :=
    smax (smul (smul (smul tol lstol) snorm) (smul mi (sofZ nv))) (slit 1 1000000).
End Tol.

(* observables for the correspondence runs *)
Definition obs_compact (r : cresult) : list Z :=
  [ncdof r; overflow r] ++ dof_cdof r ++ cdof_dof r.
Definition flat {T} (m : list (list T)) : list T := concat m.
