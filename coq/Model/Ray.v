(* Model/Ray.v -- executable models (definitions only) of the nearest-hit search of
   /repo/mujoco_warp/_src/ray.py (kernels _ray and _ray_bvh) and of the per-pixel part of
   render.py (_render_megakernel + cast_ray), polymorphic over Base.Scalar so that they are
   proved about over R (Proof/Ray.v) and RUN on binary64 inside Coq against the real kernels
   (bin/props/C34.py, bin/props/C35.py).

   What is copied from the source (ray.py line numbers of the snapshot the files were read at):
   * _ray (l.907-1011): min_dist = MJ_MAXVAL (1e10), min_geomid = -1, min_normal = vec3();
     per geom: dist < 0 is replaced by MJ_MAXVAL; per loop iteration the block's lanes are
     reduced with tile_argmin and the accumulator is replaced iff local_min_dist < min_dist
     (STRICT); epilogue: dist_out = -1 iff min_dist >= MJ_MAXVAL.  The block size is the
     parameter B ([ray_loop_tiled]); on the CPU device wp.block_dim() = 1.  tile_argmin is
     modelled as "first index attaining the minimum".
   * _ray_bvh (l.1087-1169) and render.cast_ray: same initial accumulator, update iff
     dist >= 0 and dist < min_dist, geoms visited in the order the BVH query yields them;
     a yielded primitive index is mapped to a geom with the per-world stride ngeom + nflexgeom,
     flex primitives are skipped ([bvh_geom_of], repaired in /repo ae9ede3).
   * render: orthographic cameras start the ray at the pixel centre of the fovy-high window
     ([ortho_offset_cam], repaired in /repo 2e971a4).
   * the BVH query itself (wp.bvh_query_ray / wp.bvh_query_next, C++ builtins) is NOT in
     /repo; [bvh_trav] is an abstract traversal: a binary tree of boxes, a subtree is skipped
     when [prune box current_best] says so, children visited in either order. *)
From Coq Require Import ZArith List Bool.
From VF Require Import Base.Scalar Base.Vec Base.Loop.
Import ListNotations.

(* abstract bounding-volume hierarchy: leaves carry one geom id *)
Inductive bvh (Box : Type) : Type :=
| BLeaf : Box -> Z -> bvh Box
| BNode : Box -> bvh Box -> bvh Box -> bvh Box.
Arguments BLeaf {Box}.
Arguments BNode {Box}.

Fixpoint bvh_leaves {Box : Type} (t : bvh Box) : list Z :=
  match t with
  | BLeaf _ g => [g]
  | BNode _ l r => bvh_leaves l ++ bvh_leaves r
  end.

Section RayModel.
  Context {S : Type} `{Scalar S}.

  (* types.MJ_MAXVAL = 1e10 *)
  Definition MAXVAL : S := sofZ 10000000000%Z.
  Definition zero3 : list S := vconst 3 s0.     (* wp.vec3() *)
  Definition neg1 : S := sneg (sofZ 1%Z).        (* the literal -1.0 *)

  (* accumulator (min_dist, min_geomid, min_normal) *)
  Definition racc := (S * Z * list S)%type.
  Definition racc0 : racc := (MAXVAL, (-1)%Z, zero3).
  Definition adist (a : racc) : S := fst (fst a).
  Definition ageom (a : racc) : Z := snd (fst a).
  Definition anormal (a : racc) : list S := snd a.

  (* ---------------------------------------------------------------- kernel _ray *)
  (* `if dist < 0: dist = MJ_MAXVAL` *)
  Definition clampd (d : S) : S := if sltb d s0 then MAXVAL else d.

  (* one geom, block of one lane: `if local_min_dist < min_dist: ...` *)
  Definition ray_step (gd : Z -> S * list S) (acc : racc) (g : Z) : racc :=
    let d := clampd (fst (gd g)) in
    if sltb d (adist acc) then (d, g, snd (gd g)) else acc.

  Definition zrange (n : Z) : list Z := map Z.of_nat (seq 0 (Z.to_nat n)).

  (* the loop with block_dim = 1: geoms 0 .. ngeom-1 in ascending order *)
  Definition ray_loop (gd : Z -> S * list S) (ngeom : Z) : racc :=
    fold_left (ray_step gd) (zrange ngeom) racc0.

  (* general block size B: lane k of iteration i evaluates geom i*B + k; lanes beyond ngeom
     contribute (MJ_MAXVAL, vec3()) *)
  Definition lane (gd : Z -> S * list S) (ngeom g : Z) : racc :=
    if Z.ltb g ngeom then (clampd (fst (gd g)), g, snd (gd g)) else (MAXVAL, g, zero3).

  (* tile_argmin: first lane attaining the minimum *)
  Fixpoint argmin_first (l : list racc) (best : racc) : racc :=
    match l with
    | nil => best
    | x :: r => argmin_first r (if sltb (adist x) (adist best) then x else best)
    end.

  Definition tile_iter (gd : Z -> S * list S) (ngeom : Z) (B : nat) (acc : racc) (base : Z) : racc :=
    match map (fun k => lane gd ngeom (base + Z.of_nat k)%Z) (seq 0 B) with
    | nil => acc
    | x :: r => let m := argmin_first r x in if sltb (adist m) (adist acc) then m else acc
    end.

  (* upper = ((ngeom + B - 1) // B) * B ; for geomid in range(tid, upper, B) *)
  Definition ray_niter (ngeom : Z) (B : nat) : nat :=
    Z.to_nat (Z.quot (ngeom + Z.of_nat B - 1) (Z.of_nat B)).

  Definition ray_loop_tiled (gd : Z -> S * list S) (ngeom : Z) (B : nat) : racc :=
    fold_left (tile_iter gd ngeom B)
              (map (fun i => (Z.of_nat i * Z.of_nat B)%Z) (seq 0 (ray_niter ngeom B))) racc0.

  (* epilogue of _ray and _ray_bvh: (dist_out, geomid_out, normal_out) *)
  Definition ray_result (a : racc) : S * Z * list S :=
    ((if sgeb (adist a) MAXVAL then neg1 else adist a), ageom a, anormal a).

  Definition ray_kernel (gd : Z -> S * list S) (ngeom : Z) : S * Z * list S :=
    ray_result (ray_loop gd ngeom).

  (* ---------------------------------------------------------------- kernel _ray_bvh / cast_ray *)
  (* `if dist >= 0.0 and dist < min_dist:` *)
  Definition bvh_step (gd : Z -> S * list S) (acc : racc) (g : Z) : racc :=
    let d := fst (gd g) in
    if sgeb d s0 && sltb d (adist acc) then (d, g, snd (gd g)) else acc.

  (* geoms in the order the query yields them, nothing pruned *)
  Definition bvh_loop (gd : Z -> S * list S) (order : list Z) : racc :=
    fold_left (bvh_step gd) order racc0.

  Definition ray_bvh_kernel (gd : Z -> S * list S) (order : list Z) : S * Z * list S :=
    ray_result (bvh_loop gd order).

  (* [prune b best]: skip the subtree below box b given the current best distance;
     [swap b best]: visit the right child first *)
  Fixpoint bvh_trav {Box : Type} (prune swap : Box -> S -> bool) (gd : Z -> S * list S)
           (t : bvh Box) (acc : racc) : racc :=
    match t with
    | BLeaf b g => if prune b (adist acc) then acc else bvh_step gd acc g
    | BNode b l r =>
        if prune b (adist acc) then acc
        else if swap b (adist acc)
             then bvh_trav prune swap gd l (bvh_trav prune swap gd r acc)
             else bvh_trav prune swap gd r (bvh_trav prune swap gd l acc)
    end.

  (* ---------------------------------------------------------------- mj_ray's rule *)
  (* MuJoCo's (and ray_box / ray_capsule / ray_mesh's inner) running minimum:
     x = -1; `if sol >= 0 and (x < 0 or sol < x): x = sol` *)
  Definition neg_step (gd : Z -> S * list S) (acc : racc) (g : Z) : racc :=
    let d := fst (gd g) in
    if sgeb d s0 && (sltb (adist acc) s0 || sltb d (adist acc)) then (d, g, snd (gd g)) else acc.
  Definition neg_loop (gd : Z -> S * list S) (ngeom : Z) : racc :=
    fold_left (neg_step gd) (zrange ngeom) (neg1, (-1)%Z, zero3).

  (* ---------------------------------------------------------------- render: one pixel *)
  (* cast_ray: `if cull_backfaces and d >= 0.0 and wp.dot(ray_dir_world, n) > 0.0: d = -1.0` *)
  Definition cull_hit (cull : bool) (dir : list S) (dn : S * list S) : S * list S :=
    if cull && sgeb (fst dn) s0 && sgtb (vdot dir (snd dn)) s0 then (neg1, snd dn) else dn.

  (* _render_megakernel after cast_ray: segmentation pair and planar depth.
     geom_id = -1: seg stays (-1,-1) (seg_data.fill_), depth 0;
     else seg = (geom_id, mjOBJ_GEOM = 5), depth = dist * -ray_dir_local_cam[2] *)
  Definition OBJ_GEOM : Z := 5%Z.
  Definition render_out (a : racc) (dir_local : list S) : S * (Z * Z) :=
    if Z.eqb (ageom a) (-1)%Z then (s0, ((-1)%Z, (-1)%Z))
    else (smul (adist a) (sneg (vget dir_local 2%Z)), (ageom a, OBJ_GEOM)).

  (* orthographic cameras (render.py, commit 2e971a4): the ray starts at the pixel centre of the image
     window of height fovy (length units):
       half_h = 0.5 * fovy ; half_w = half_h * float(W) / float(H)
       u = (float(local % W) + 0.5) / float(W) ; v = (float(local // W) + 0.5) / float(H)
       origin += cam_mat @ vec3(half_w * (2u - 1), half_h * (1 - 2v), 0)
     (kernel ints: % and // truncate) ; every other projection starts at cam_xpos *)
  Definition ortho_offset_cam (fovy : S) (W Hh local : Z) : list S :=
    let half_h := smul (slit 1 2) fovy in
    let half_w := sdiv (smul half_h (sofZ W)) (sofZ Hh) in
    let u := sdiv (sadd (sofZ (Z.rem local W)) (slit 1 2)) (sofZ W) in
    let v := sdiv (sadd (sofZ (Z.quot local W)) (slit 1 2)) (sofZ Hh) in
    [smul half_w (ssub (smul (sofZ 2) u) (sofZ 1)); smul half_h (ssub (sofZ 1) (smul (sofZ 2) v)); s0].

  (* ray origin in camera coordinates *)
  Definition render_origin_cam (proj : Z) (fovy : S) (W Hh local : Z) : list S :=
    if Z.eqb proj 1%Z then ortho_offset_cam fovy W Hh local else zero3.

  (* ray origin in world coordinates: `ray_origin_world += cam_mat_world @ offset` only when orthographic *)
  Definition render_origin (proj : Z) (fovy : S) (W Hh local : Z) (cam_xpos cam_xmat : list S) : list S :=
    if Z.eqb proj 1%Z then vadd cam_xpos (mat_vec 3 3 cam_xmat (ortho_offset_cam fovy W Hh local)) else cam_xpos.

  (* whole pixel with local index `local` = px + py*W: ray_dir_world = cam_xmat @ ray_dir_local_cam,
     origin as above, candidates [gd origin dir g] for the geoms of the scene BVH in the order visited *)
  Definition render_pixel (cull : bool) (proj : Z) (fovy : S) (W Hh local : Z) (cam_xpos cam_xmat dir_local : list S)
             (gd : list S -> list S -> Z -> S * list S) (order : list Z) : S * (Z * Z) :=
    let dir_world := mat_vec 3 3 cam_xmat dir_local in
    let origin := render_origin proj fovy W Hh local cam_xpos cam_xmat in
    let cand := fun g => cull_hit cull dir_world (gd origin dir_world g) in
    render_out (bvh_loop cand order) dir_local.

  (* the near-plane point through which compute_ray aims, in camera coordinates *)
  Definition plane_point (left_ right_ top bottom znear : S) (W Hh px py : Z) : list S :=
    let u := sdiv (sadd (sofZ px) (slit 1 2)) (sofZ W) in
    let v := sdiv (sadd (sofZ py) (slit 1 2)) (sofZ Hh) in
    [sadd left_ (smul (ssub right_ left_) u); sadd top (smul (ssub bottom top) v); sneg znear].

  (* the ray the render kernel casts for a pixel, camera frame *)
  Definition render_ray_cam (proj : Z) (fovy : S) (W Hh local : Z) (dir_local : list S) : list S * list S :=
    (render_origin_cam proj fovy W Hh local, dir_local).

  (* ---------------------------------------------------------------- _ray_bvh: BVH primitive -> geom *)
  (* commit ae9ede3: the scene BVH stores, per world, ngeom geoms followed by nflexgeom flex primitives:
       bvh_local = bounds_nr - worldid * (ngeom + nflexgeom)
       if bvh_local >= ngeom: continue          (flex primitive: not a geom)
       geomid = enabled_geom_ids[bvh_local] *)
  Definition bvh_geom_of (ngeom nflexgeom worldid : Z) (enabled : Z -> Z) (bounds_nr : Z) : option Z :=
    let bvh_local := (bounds_nr - worldid * (ngeom + nflexgeom))%Z in
    if Z.geb bvh_local ngeom then None else Some (enabled bvh_local).

  Definition bvh_prim_step (gd : Z -> S * list S) (ngeom nflexgeom worldid : Z) (enabled : Z -> Z)
             (acc : racc) (bounds_nr : Z) : racc :=
    match bvh_geom_of ngeom nflexgeom worldid enabled bounds_nr with
    | None => acc
    | Some g => bvh_step gd acc g
    end.

  (* _ray_bvh over the primitive indices the query yields (nothing pruned) *)
  Definition ray_bvh_kernel_prims (gd : Z -> S * list S) (ngeom nflexgeom worldid : Z) (enabled : Z -> Z)
             (prims : list Z) : S * Z * list S :=
    ray_result (fold_left (bvh_prim_step gd ngeom nflexgeom worldid enabled) prims racc0).
End RayModel.

(* ---------------------------------------------------------------- scene-BVH leaf layout (build / refit) *)
(* bvh._compute_bvh_bounds (not translatable: matrix slice) writes the box of world `worldid`, enabled geom
   `geom_local_id` to   lower_out[worldid * bvh_ngeom + geom_local_id]   where the kernel PARAMETER named
   bvh_ngeom receives the per-world stride from the host (build_scene_bvh / refit_scene_bvh pass
   total_bvh_size = rc.bvh_ngeom + rc.bvh_nflexgeom; checked on the source by bin/props/C35.py). *)
Definition geom_leaf (stride worldid geom_local : Z) : Z := (worldid * stride + geom_local)%Z.
(* bvh._compute_flex_bvh_bounds (translated, Gen/T_bvh.v): out_idx = worldid * total_bvh_size + bvh_ngeom + flexlocalid *)
Definition flex_leaf (total ngeom worldid flexlocal : Z) : Z := (worldid * total + ngeom + flexlocal)%Z.

