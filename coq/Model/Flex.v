(* Model/Flex.v -- definitions used to state the C40 theorems about the TRANSLATED flex kernels
   (Gen/T_flex.v: smooth._flex_nodes / _flex_vertices / _flex_edges).  No hand model of the
   kernels themselves: the theorems are about the regenerated translation.  Definitions only. *)
From Coq Require Import ZArith Reals List Bool String.
From VF Require Import Base.Kernel.
Import ListNotations.
Local Open Scope Z_scope.

(* flex i owns element index id:  adr i <= id < adr i + num i  (the test of the search loops) *)
Definition owns (adr num : Z -> Z) (id i : Z) : bool :=
  (Z.geb (Z.sub id (adr i)) 0) && (Z.ltb (Z.sub id (adr i)) (num i)).

(* one iteration of the search loop on (f, broke):
   edge form    `if P i: f = i; break`          vertex/node form   `f = i; if P i: break` *)
Definition step_e (P : Z -> bool) (i : Z) (acc : Z * bool) : Z * bool :=
  if snd acc then acc else if P i then (i, true) else (fst acc, false).
Definition step_v (P : Z -> bool) (i : Z) (acc : Z * bool) : Z * bool :=
  if snd acc then acc else (i, P i).

Fixpoint zseq (lo : Z) (n : nat) : list Z := match n with O => nil | S n' => lo :: zseq (lo + 1) n' end.

(* sum_{k in [lo, lo+n)} g k, accumulated left to right from acc (the kernel's loop order) *)
Fixpoint zsum_acc (acc : R) (g : Z -> R) (lo : Z) (n : nat) : R :=
  match n with O => acc | S n' => zsum_acc (acc + g lo)%R g (lo + 1) n' end.
Definition zsum (g : Z -> R) (lo : Z) (n : nat) : R := zsum_acc 0%R g lo n.

(* a sparse row = list of (column, value); the dense row it scatters into; their dot products *)
Definition sparse_dot (row : list (Z * R)) (q : Z -> R) : R :=
  fold_right (fun cv acc => (snd cv * q (fst cv) + acc)%R) 0%R row.
Definition dense_of (row : list (Z * R)) (c : Z) : R :=
  fold_right (fun cv acc => ((if Z.eqb (fst cv) c then snd cv else 0) + acc)%R) 0%R row.
Fixpoint dense_dot (n : nat) (lo : Z) (d q : Z -> R) : R :=
  match n with O => 0%R | S n' => (d lo * q lo + dense_dot n' (lo + 1) d q)%R end.

(* last scalar stored at index [i] of array [a] by a write list *)
Fixpoint stored (ws : list (write R)) (a : string) (i : list Z) : option R :=
  match ws with
  | nil => None
  | x :: r =>
      match stored r a i with
      | Some y => Some y
      | None => if String.eqb (w_arr x) a && zs_eqb (w_idx x) i
                then match w_val x with VS y => Some y | _ => None end else None
      end
  end.
