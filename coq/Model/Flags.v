(* Model/Flags.v -- C32 "Disable and enable flags act exactly as in MuJoCo".
   Definitions only (facts are in Proof/Flags.v).

   Inputs, all REGENERATED from /repo on every run:
     Gen/Skel_flags.v    (bin/extract_flags.py) every syntactic use of a DisableBit / EnableBit in host code,
                         kernels, @wp.func and factories; enum tables of types.py and of the MuJoCo binary;
                         the put_model rejection loop; per-kernel tested bits; truth tables of host tests;
     Gen/Skel_pipeline.v (bin/extract_launch.py) the host program in the stage language of Model/Pipeline.v.

   Contents:
     1. the completeness table of the flag enums;
     2. consistency of guards that are meant to be the same predicate (sleep; Euler damping is in C26);
     3. [taint]: an information-flow analysis over flattened event lists: which fields can differ between
        two runs whose flag words differ in ONE bit;
     4. [resolve]: deciding EIf nodes by a partial valuation, relating the flattening with the flag's
        conditions left undecided to the flattenings with the bit set / clear;
     5. the per-flag configuration computed from the regenerated tables, and the committed baseline of
        fields each flag must leave alone. *)
From Coq Require Import String List Bool Arith ZArith Ascii.
From VF Require Import Model.Pipeline Gen.Skel_pipeline Model.PipelineFacts Gen.Skel_flags.
Import ListNotations.
Local Open Scope string_scope.
Local Open Scope list_scope.

Definition sapp : string -> string -> string := String.append.

(* ---- small helpers -------------------------------------------------------------------------- *)
Definition inter (a b : list string) : bool := existsb (fun x => mem x b) a.
Definition subset (a b : list string) : bool := forallb (fun x => mem x b) a.
(* set union that never repeats an element of [a] *)
Definition union (a b : list string) : list string :=
  fold_left (fun acc x => if mem x acc then acc else acc ++ [x]) b a.
Fixpoint lookup {A} (k : string) (l : list (string * A)) : option A :=
  match l with nil => None | (a, b) :: r => if String.eqb a k then Some b else lookup k r end.
Definition lookup_list (k : string) (l : list (string * list string)) : list string :=
  match lookup k l with Some v => v | None => nil end.
Fixpoint index_of (x : string) (l : list string) : option nat :=
  match l with
  | nil => None
  | y :: r => if String.eqb x y then Some O else option_map S (index_of x r)
  end.

(* ====================================================================================== *)
(* 1. flag table                                                                            *)
(* ====================================================================================== *)
Definition enum_of (flag : string) : string :=
  if String.prefix "DisableBit." flag then "DisableBit" else
  if String.prefix "EnableBit." flag then "EnableBit" else "".

Definition all_flags : list string := map fst mjw_bits.

(* a bit is consumed by the simulation pipeline when some function outside io.py mentions it (host test,
   kernel test, kernel / factory argument, local definition), and at model construction when io.put_model
   mentions it (FILTERPARENT, MULTICCD, NATIVECCD are baked into the pair tables there) *)
Definition site_in_pipeline (s : site) : bool := negb (String.eqb (s_mod s) "io").
Definition site_in_put_model (s : site) : bool := String.eqb (s_fn s) "io.put_model".
Definition pipeline_sites (flag : string) : list site :=
  filter (fun s => String.eqb (s_flag s) flag && site_in_pipeline s) sites.
Definition put_model_sites (flag : string) : list site :=
  filter (fun s => String.eqb (s_flag s) flag && site_in_put_model s) sites.
Definition nonempty {A} (l : list A) : bool := match l with nil => false | _ => true end.
Definition used (flag : string) : bool := nonempty (pipeline_sites flag) || nonempty (put_model_sites flag).
Definition untested_flags : list string := filter (fun f => negb (used f)) all_flags.
(* flags whose ONLY uses are at model construction *)
Definition put_model_only_flags : list string :=
  filter (fun f => negb (nonempty (pipeline_sites f)) && used f) all_flags.

(* MuJoCo bits MJWarp does not list, and whether put_model rejects unlisted bits of that enum *)
Definition unlisted_mujoco_bits : list string :=
  filter (fun f => negb (mem f all_flags)) (map fst mujoco_bits).
Definition rejected (flag : string) : bool := mem (enum_of flag) (map fst rejects_unlisted).

(* each MJWarp member is defined as the MuJoCo member of the same name and has its value; the values of
   one enum are distinct single bits *)
Definition zpow2 (z : Z) : bool := Z.ltb 0 z && Z.eqb (Z.land z (z - 1)) 0.
Definition same_enum_value_count (q : string * Z) : nat :=
  length (filter (fun r => String.eqb (enum_of (fst r)) (enum_of (fst q)) && Z.eqb (snd r) (snd q)) mjw_bits).
Definition enum_values_ok : bool :=
  forallb (fun q => match lookup (fst q) mujoco_bits with Some v => Z.eqb v (snd q) | None => false end) mjw_bits &&
  forallb (fun q => String.eqb (fst q) (snd q)) mjw_defined_as &&
  Nat.eqb (length mjw_defined_as) (length mjw_bits) &&
  forallb (fun q => zpow2 (snd q)) mjw_bits &&
  forallb (fun q => Nat.eqb (same_enum_value_count q) 1) mjw_bits.

Definition flag_table_ok : bool :=
  enum_values_ok && forallb used all_flags && forallb rejected unlisted_mujoco_bits.

(* tests whose value cannot depend on a bit they mention (extractor polarity "constant"): (function, text) *)
Definition constant_tests : list (string * string) :=
  map (fun s => (s_fn s, s_expr s)) (filter (fun s => String.eqb (s_pol s) "constant") sites).
(* committed: the one known today, forward-compatible (a repaired /repo makes the list shorter) *)
Definition constant_tests_known : list (string * string) :=
  [("derivative.deriv_smooth_vel", "~(m.opt.disableflags & (DisableBit.ACTUATION | DisableBit.DAMPER))")].
Definition pair_mem (q : string * string) (l : list (string * string)) : bool :=
  existsb (fun r => String.eqb (fst q) (fst r) && String.eqb (snd q) (snd r)) l.

(* ====================================================================================== *)
(* 2. one predicate, several guards: "sleeping is enabled"                                   *)
(* ====================================================================================== *)
(* host sites (outside put_model's rejection tests) that mention EnableBit.SLEEP directly, with the
   set of bits their expression depends on *)
Definition sleep_guard_sites : list (string * list string) :=
  map (fun s => (s_fn s, dedup (map s_flag (filter (fun t => String.eqb (s_fn t) (s_fn s) && Z.eqb (s_line t) (s_line s)) sites))))
      (filter (fun s => String.eqb (s_flag s) "EnableBit.SLEEP" && negb (nonempty (s_via s)) &&
                        negb (String.eqb (s_fn s) "io.put_model")) sites).
Definition sleep_sites_with_island : list string :=
  dedup (map fst (filter (fun q => mem "DisableBit.ISLAND" (snd q)) sleep_guard_sites)).
Definition sleep_sites_without_island : list string :=
  dedup (map fst (filter (fun q => negb (mem "DisableBit.ISLAND" (snd q))) sleep_guard_sites)).
(* committed: the functions that may test SLEEP alone, each harmless when SLEEP is enabled with ISLAND disabled
   (then no function of sleep_must_test_island runs the sleep path, so no tree is ever put to sleep):
   - collision_driver.sap_broadphase / nxn_broadphase specialise the broadphase kernel with a filter that skips a
     pair only if one of its bodies is ASLEEP in d.body_awake; make_data / put_data / reset_data initialise every
     body AWAKE or STATIC and only sleep.sleep (called under `sleep_enabled`, which includes the ISLAND bit)
     writes ASLEEP; the incremental second pass is requested by forward.fwd_position under sleep_enabled only;
   - io.reset_data calls sleep.update_sleep after the reset, which recomputes the awake index lists from
     tree_asleep (all awake) - the values make_data stores anyway.
   Replayed on the real code by bin/props/C32.py (step, reset_data, step with SLEEP enabled and ISLAND disabled
   against MuJoCo, contacts present). *)
Definition sleep_only_harmless : list string :=
  ["collision_driver.sap_broadphase"; "collision_driver.nxn_broadphase"; "io.reset_data"].
(* the functions that choose the sleep code path, allocate for it or consume its arrays: they must all use the
   same predicate SLEEP-and-not-ISLAND (solver.solve did not before /repo 783455b: finding
   C32:solver.solve:sleep-enabled-island-disabled-crash) *)
Definition sleep_must_test_island : list string :=
  ["solver.solve"; "io.make_data"; "io.put_data"; "forward.forward"; "forward.fwd_kinematics";
   "forward.fwd_position"; "forward.fwd_acceleration"; "forward._advance"].
(* every direct test of EnableBit.SLEEP (outside put_model's rejections) also tests ISLAND in the same
   expression or sits in a function of the harmless list; the path-choosing functions test both bits and never
   SLEEP alone; the harmless list has no stale entry *)
Definition sleep_guard_ok : bool :=
  forallb (fun q => mem "DisableBit.ISLAND" (snd q) || mem (fst q) sleep_only_harmless) sleep_guard_sites &&
  forallb (fun f => mem f sleep_sites_with_island && negb (mem f sleep_sites_without_island)) sleep_must_test_island &&
  forallb (fun f => mem f sleep_sites_without_island) sleep_only_harmless.

(* ---- which bits each host guard mentions: committed ---------------------------------------------- *)
(* (function, bits its test depends on) for every host-level flag test of the pipeline, from the regenerated
   truth tables; dropping or adding a bit in any guard changes this set *)
Definition gb_eqb (a b : string * list string) : bool := String.eqb (fst a) (fst b) && strs_eqb (snd a) (snd b).
Definition gb_mem (q : string * list string) (l : list (string * list string)) : bool := existsb (gb_eqb q) l.
Definition guard_bits : list (string * list string) := map (fun c => (c_fn c, c_flags c)) host_conds.
Definition guard_bits_expected : list (string * list string) :=
  [("collision_convex.convex_narrowphase", ["DisableBit.MULTICCD"]);
   ("collision_driver._narrowphase", ["DisableBit.NATIVECCD"]);
   ("collision_driver.collision", ["DisableBit.CONSTRAINT"; "DisableBit.CONTACT"]);
   ("constraint.make_constraint", ["DisableBit.CONSTRAINT"]);
   ("constraint.make_constraint", ["DisableBit.EQUALITY"]);
   ("constraint.make_constraint", ["DisableBit.FRICTIONLOSS"]);
   ("constraint.make_constraint", ["DisableBit.LIMIT"]);
   ("constraint.make_constraint", ["DisableBit.CONTACT"]);
   ("derivative.deriv_smooth_vel", ["DisableBit.ACTUATION"; "DisableBit.DAMPER"]);
   ("derivative.deriv_smooth_vel", ["DisableBit.ACTUATION"]);
   ("derivative.deriv_smooth_vel", ["DisableBit.DAMPER"]);
   ("derivative.deriv_smooth_vel", ["DisableBit.DAMPER"; "DisableBit.SPRING"]);
   ("forward._advance", ["DisableBit.ISLAND"; "EnableBit.SLEEP"]);
   ("forward.euler", ["DisableBit.DAMPER"; "DisableBit.EULERDAMP"]);
   ("forward.implicit", ["DisableBit.ACTUATION"; "DisableBit.DAMPER"; "DisableBit.SPRING"]);
   ("forward.fwd_kinematics", ["DisableBit.ISLAND"; "EnableBit.SLEEP"]);
   ("forward.fwd_position", ["DisableBit.ISLAND"; "EnableBit.SLEEP"]);
   ("forward.fwd_actuation", ["DisableBit.ACTUATION"]);
   ("forward.fwd_acceleration", ["DisableBit.ISLAND"; "EnableBit.SLEEP"]);
   ("forward._energy_pos", ["EnableBit.ENERGY"]);
   ("forward._energy_vel", ["EnableBit.ENERGY"]);
   ("forward.forward", ["DisableBit.ISLAND"; "EnableBit.SLEEP"]);
   ("forward.forward", ["DisableBit.ACTUATION"]);
   ("forward.step1", ["DisableBit.ACTUATION"]);
   ("inverse.discrete_acc", ["DisableBit.EULERDAMP"]);
   ("inverse.inverse", ["EnableBit.INVDISCRETE"]);
   ("passive.passive", ["DisableBit.DAMPER"; "DisableBit.SPRING"]);
   ("passive.passive", ["DisableBit.SPRING"]);
   ("passive.passive", ["DisableBit.GRAVITY"]);
   ("passive.passive", ["DisableBit.DAMPER"]);
   ("passive.passive", ["DisableBit.CONTACT"]);
   ("sensor.sensor_pos", ["DisableBit.SENSOR"]);
   ("sensor.sensor_vel", ["DisableBit.SENSOR"]);
   ("sensor.sensor_acc", ["DisableBit.SENSOR"]);
   ("sensor.energy_pos", ["DisableBit.GRAVITY"]);
   ("sensor.energy_pos", ["DisableBit.SPRING"]);
   ("smooth._rne_cacc_world", ["DisableBit.GRAVITY"]);
   ("solver.solve", ["DisableBit.ISLAND"; "EnableBit.SLEEP"])].
Definition guard_bits_ok : bool :=
  forallb (fun q => gb_mem q guard_bits_expected) guard_bits &&
  forallb (fun q => gb_mem q guard_bits) guard_bits_expected.

(* the guards that decide whether an integrator modifies the acceleration.  forward.implicit (implicitfast
   branch) solves with M - h*qDeriv unless ACTUATION, SPRING and DAMPER are ALL disabled: its test must mention
   every bit a host test of derivative.deriv_smooth_vel mentions (SPRING is there because passive forces,
   fluid forces included, are off only when SPRING and DAMPER are both disabled), and its truth table is
   "not all three set".  forward.euler integrates damping implicitly iff neither EULERDAMP nor DAMPER is set. *)
Definition conds_in (fn : string) : list hcond := filter (fun c => String.eqb (c_fn c) fn) host_conds.
Definition bits_in (fn : string) : list string := dedup (flat_map c_flags (conds_in fn)).
Definition table_is (f : list bool -> bool) (c : hcond) : bool :=
  Nat.eqb (length (c_table c)) (Nat.pow 2 (length (c_flags c))) &&
  forallb (fun r => match snd r with Some v => Bool.eqb v (f (fst r)) | None => false end) (c_table c).
Definition implicit_guard_ok : bool :=
  match conds_in "forward.implicit" with
  | [c] => strs_eqb (c_flags c) ["DisableBit.ACTUATION"; "DisableBit.DAMPER"; "DisableBit.SPRING"] &&
           table_is (fun bits => negb (forallb (fun b => b) bits)) c &&
           subset (bits_in "derivative.deriv_smooth_vel") (c_flags c)
  | _ => false
  end.
Definition euler_guard_ok : bool :=
  match conds_in "forward.euler" with
  | [c] => strs_eqb (c_flags c) ["DisableBit.DAMPER"; "DisableBit.EULERDAMP"] &&
           table_is (fun bits => negb (existsb (fun b => b) bits)) c
  | _ => false
  end.

(* ====================================================================================== *)
(* 3. information flow over event lists                                                      *)
(* ====================================================================================== *)
Section Taint.
  Variable cs : string -> bool.   (* conditions whose truth value may differ between the two runs *)

  (* does an (opaque) loop contain a condition of cs ? *)
  Definition loop_has_cs (e : event) : bool := existsb cs (conds e).

  (* T: fields on which the two stores may disagree.  A primitive event that reads none of them keeps
     the disagreement set; otherwise everything it writes may disagree.  An EIf whose condition may differ
     taints everything either branch writes; otherwise the union over both branches.  A Python assignment
     `n = expr` whose text mentions a tainted name makes the local name n tainted (local aliases such as
     `qvel_in = qvel or d.qvel`): the abstract semantics gives assignments no effect, so this only ENLARGES
     the set and is there to follow the real code more closely. *)
  Fixpoint taint_ev (e : event) (T : list string) {struct e} : list string :=
    let go := (fix go (l : list event) (T : list string) {struct l} : list string :=
                 match l with nil => T | x :: r => go r (taint_ev x T) end) in
    match e with
    | EIf c t el =>
        if cs c then union (union T (flat_map ev_writes t)) (flat_map ev_writes el)
        else union (go t T) (go el T)
    | EGroup _ _ b => go b T
    | EAssign n x => if existsb (fun f => contains f x) T then union T [n] else T
    | _ => if inter (ev_reads e) T || loop_has_cs e then union T (ev_writes e) else T
    end.
  Fixpoint taint (l : list event) (T : list string) : list string :=
    match l with nil => T | x :: r => taint r (taint_ev x T) end.
End Taint.

(* ====================================================================================== *)
(* 4. resolving decided conditions                                                           *)
(* ====================================================================================== *)
(* EIf nodes whose condition the partial valuation decides are replaced by the chosen branch, recursively
   through EIf and EGroup.  ELoop bodies are left alone: a loop is ONE opaque event of the semantics. *)
Fixpoint resolve_ev (pv : pval) (e : event) {struct e} : list event :=
  let go := (fix go (l : list event) {struct l} : list event :=
               match l with nil => nil | x :: r => resolve_ev pv x ++ go r end) in
  match e with
  | EIf c t el =>
      match pv c with
      | Some true => go t
      | Some false => go el
      | None => [EIf c (go t) (go el)]
      end
  | EGroup f a b => [EGroup f a (go b)]
  | _ => [e]
  end.
Fixpoint resolve (pv : pval) (l : list event) : list event :=
  match l with nil => nil | x :: r => resolve_ev pv x ++ resolve pv r end.

Definition consistent (v : string -> bool) (pv : pval) : Prop := forall c b, pv c = Some b -> v c = b.
Definition agree_out (V : Type) (T : list string) (s s' : store V) : Prop :=
  forall f, ~ In f T -> s f = s' f.

(* ====================================================================================== *)
(* 5. refinement of the flag words and the per-flag configuration                            *)
(* ====================================================================================== *)
(* A kernel that is passed the whole word m.opt.disableflags reads only the bits it tests (extractor table
   kernel_bits: own tests plus those of the @wp.func it calls).  The launch event is rewritten to read one
   pseudo field "m.opt.disableflags#DisableBit.X" per tested bit instead of the word; a kernel that is not in
   the table keeps the word.  Factory arguments (the Python values a kernel is specialised with) are read
   too: they are appended to the inputs. *)
Definition word_of (n : string) : option string :=
  if String.eqb n "m.opt.disableflags" then Some "DisableBit" else
  if String.eqb n "m.opt.enableflags" then Some "EnableBit" else None.
Definition refine_name (k n : string) : list string :=
  match word_of n with
  | Some en =>
      match lookup k kernel_bits with
      | Some bits => map (fun b => sapp n (sapp "#" b)) (filter (fun b => String.eqb (enum_of b) en) bits)
      | None => [n]
      end
  | None => [n]
  end.
Fixpoint refine_ev (e : event) {struct e} : event :=
  let go := (fix go (l : list event) {struct l} : list event :=
               match l with nil => nil | x :: r => refine_ev x :: go r end) in
  match e with
  | ELaunch k fa i o => ELaunch k fa (flat_map (refine_name k) i ++ fa) o
  | EGroup f a b => EGroup f a (go b)
  | EIf c t el => EIf c (go t) (go el)
  | ELoop h b => ELoop h (go b)
  | _ => e
  end.
Definition refine (l : list event) : list event := map refine_ev l.

(* names an event list mentions *)
Fixpoint ev_names (e : event) : list string :=
  match e with
  | ELaunch _ fa i o => fa ++ i ++ o
  | EGroup _ a b => a ++ flat_map ev_names b
  | EExt _ a => a
  | EIf _ t el => flat_map ev_names t ++ flat_map ev_names el
  | ELoop _ b => flat_map ev_names b
  | _ => ev_reads e ++ ev_writes e
  end.

(* the local Python names the extractor derived from a flag, and the direct spellings *)
Definition locals_of (flag : string) : list string :=
  map fst (filter (fun q => mem flag (snd q)) flag_locals).
Definition spellings (flag : string) : list string :=
  [flag; sapp "types." flag].
(* a NAME (kernel input, factory argument, call argument) carries the bit when it is the pseudo field of
   the bit, the whole word, a tracked local, or an expression text that spells the bit *)
Definition name_carries_with (flag : string) (loc sps : list string) (n : string) : bool :=
  String.eqb n (sapp "m.opt.disableflags#" flag) || String.eqb n (sapp "m.opt.enableflags#" flag) ||
  match word_of n with Some en => String.eqb en (enum_of flag) | None => false end ||
  mem n loc ||
  existsb (fun sp => contains sp n) sps.
Definition name_carries (flag : string) (n : string) : bool :=
  name_carries_with flag (locals_of flag) (spellings flag) n.
Definition T0 (flag : string) (l : list event) : list string :=
  let loc := locals_of flag in
  let sps := spellings flag in
  dedup (filter (name_carries_with flag loc sps) (flat_map ev_names l)).

(* conditions of the host program that depend on the bit (extractor table) *)
Definition conds_of (flag : string) : list string :=
  dedup (map c_text (filter (fun c => mem flag (c_flags c)) host_conds)).
Definition cs_of (flag : string) : string -> bool := fun c => mem c (conds_of flag).

(* every condition left in an event list that spells a flag bit or mentions a tracked local must be in the
   extractor's table (otherwise cs_of would be incomplete) *)
Definition cond_spells_flag (c : string) : bool :=
  contains "DisableBit." c || contains "EnableBit." c || contains "disableflags" c || contains "enableflags" c ||
  existsb (fun q => contains (fst q) c) flag_locals.
Definition conds_covered (l : list event) : bool :=
  forallb (fun c => negb (cond_spells_flag c) || mem c (map c_text host_conds)) (flat_map conds l).

(* the same text always carries the same table *)
Definition tables_eqb (a b : list (list bool * option bool)) : bool :=
  list_eqb (fun x y => list_eqb Bool.eqb (fst x) (fst y) &&
                       match snd x, snd y with
                       | Some p, Some q => Bool.eqb p q | None, None => true | _, _ => false end) a b.
Definition host_conds_consistent : bool :=
  forallb (fun c => forallb (fun c' => negb (String.eqb (c_text c) (c_text c')) ||
                                       (strs_eqb (c_flags c) (c_flags c') && tables_eqb (c_table c) (c_table c')))
                            host_conds) host_conds.

(* value of a condition once the bit is fixed to b: decided when every row of the table with that bit
   equal to b has the same definite value *)
Definition decided (k : nat) (b : bool) (tbl : list (list bool * option bool)) : option bool :=
  let rows := filter (fun r => Bool.eqb (nth k (fst r) false) b) tbl in
  if forallb (fun r => match snd r with Some true => true | _ => false end) rows then Some true
  else if forallb (fun r => match snd r with Some false => true | _ => false end) rows then Some false
  else None.
Definition decisions (flag : string) (b : bool) : list (string * bool) :=
  flat_map (fun c => match index_of flag (c_flags c) with
                     | Some k => match decided k b (c_table c) with
                                 | Some v => [(c_text c, v)]
                                 | None => nil
                                 end
                     | None => nil
                     end) host_conds.

(* base configuration: sleep disabled, no user callbacks, models without delay / interval history buffers
   (d.history is ONE array shared by delayed controls and delayed sensors, so at field granularity every
   sensor would feed the actuation), RK4 excluded (its forward() calls sit inside a Python loop, which the
   stage language keeps as one opaque event) *)
Definition cfg_flags_base : list (string * bool) := cfg_common ++ history_off ++ [(c_rk4, false)].
Definition pv_flags_base : pval := pv_list cfg_flags_base.
Definition base_events : list event := step_events pv_flags_base.

(* conditions that occur inside opaque loops are never decided by the per-flag valuations *)
Fixpoint loop_conds (e : event) : list string :=
  match e with
  | EGroup _ _ b => flat_map loop_conds b
  | EIf _ t el => flat_map loop_conds t ++ flat_map loop_conds el
  | ELoop _ b => flat_map conds b
  | _ => nil
  end.
Definition base_loop_conds : list string := dedup (flat_map loop_conds base_events).
Definition decisions_outside_loops (flag : string) (b : bool) : list (string * bool) :=
  filter (fun q => negb (mem (fst q) base_loop_conds)) (decisions flag b).
Definition pv_bit (flag : string) (b : bool) : pval :=
  pv_list (cfg_flags_base ++ decisions_outside_loops flag b).

Definition L_of : list event := refine base_events.
Definition tainted (flag : string) : list string :=
  dedup (taint (cs_of flag) L_of (T0 flag L_of)).

(* the flags whose bit is read by the step at host level or inside kernels; sleep (SLEEP, ISLAND) is
   excluded by the base configuration, INVDISCRETE is not read by step(), FILTERPARENT only by put_model *)
Definition step_flags : list string :=
  ["DisableBit.CONSTRAINT"; "DisableBit.EQUALITY"; "DisableBit.FRICTIONLOSS"; "DisableBit.LIMIT";
   "DisableBit.CONTACT"; "DisableBit.SPRING"; "DisableBit.DAMPER"; "DisableBit.GRAVITY";
   "DisableBit.CLAMPCTRL"; "DisableBit.WARMSTART"; "DisableBit.ACTUATION"; "DisableBit.REFSAFE";
   "DisableBit.SENSOR"; "DisableBit.EULERDAMP"; "EnableBit.ENERGY"].
(* NOT covered by the stage-language theorem: NATIVECCD and MULTICCD act on Python-level launch structure
   (the collision_table dictionary, the specialisation of the CCD kernels), which the stage language records
   as assignments / external calls without footprint; FILTERPARENT is consumed by put_model only; SLEEP,
   ISLAND are excluded by the base configuration (C29); INVDISCRETE is not read by step() (C26). *)
Definition flags_outside_theorem : list string :=
  ["DisableBit.NATIVECCD"; "DisableBit.MULTICCD"; "DisableBit.FILTERPARENT"; "DisableBit.ISLAND";
   "EnableBit.SLEEP"; "EnableBit.INVDISCRETE"].

(* ---- committed baseline: watched fields each flag must leave alone ----------------------------- *)
Definition bl_kin : list string :=
  ["d.xpos"; "d.xquat"; "d.xmat"; "d.xipos"; "d.ximat"; "d.xanchor"; "d.xaxis"; "d.geom_xpos"; "d.geom_xmat";
   "d.site_xpos"; "d.site_xmat"; "d.subtree_com"; "d.cinert"; "d.cdof"; "d.crb"; "d.M"; "d.ten_length"; "d.ten_J";
   "d.actuator_length"; "d.actuator_moment"].
Definition bl_vel : list string := ["d.cvel"; "d.cdof_dot"; "d.actuator_velocity"; "d.ten_velocity"].
Definition bl_contact_geom : list string := ["d.nacon"; "d.contact.dist"; "d.contact.pos"; "d.contact.frame"; "d.contact.geom"].
Definition bl_passive : list string := ["d.qfrc_spring"; "d.qfrc_damper"; "d.qfrc_gravcomp"; "d.qfrc_passive"].
Definition bl_smooth : list string := ["d.qfrc_bias"; "d.qfrc_actuator"; "d.actuator_force"; "d.qfrc_smooth"; "d.qacc_smooth"].
Definition bl_constraint : list string := ["d.nefc"; "d.efc.J"; "d.efc.D"; "d.efc.aref"; "d.efc.force"; "d.qfrc_constraint"].
Definition bl_state : list string := ["d.qacc"; "d.qvel"; "d.qpos"; "d.act"; "d.time"; "d.qacc_warmstart"].
Definition watched : list string :=
  bl_kin ++ bl_vel ++ bl_contact_geom ++ bl_passive ++ bl_smooth ++ bl_constraint ++ bl_state ++
  ["d.sensordata"; "d.energy"].

(* the watched fields a bit MAY influence today, at field granularity (everything downstream of its own
   stage).  Notable entries, all confirmed against MuJoCo by the oracle of bin/props/C32.py:
   - every flag reaches d.time: _next_time reads the overflow counters together with d.time;
   - constraint-row flags reach the actuation through d.contact.efc_address / body transmission;
   - SPRING and DAMPER reach d.qfrc_gravcomp: passive() returns early, zeroing gravcomp and fluid forces
     too, when BOTH are disabled (mj_passive does the same);
   - GRAVITY reaches d.qfrc_actuator (joint actuatorgravcomp) and d.qfrc_bias (rne). *)
Definition downstream : list string :=
  ["d.efc.force"; "d.qfrc_constraint"; "d.qacc"; "d.qvel"; "d.qpos"; "d.time"; "d.qacc_warmstart"; "d.sensordata"].
Definition aff_rows : list string :=
  ["d.actuator_moment"; "d.actuator_velocity"; "d.qfrc_actuator"; "d.actuator_force"; "d.qfrc_smooth";
   "d.qacc_smooth"; "d.nefc"; "d.efc.J"; "d.efc.D"; "d.efc.aref"; "d.act"] ++ downstream.
Definition aff_contact : list string :=
  ["d.nacon"; "d.contact.dist"; "d.contact.pos"; "d.contact.frame"; "d.contact.geom"; "d.qfrc_spring";
   "d.qfrc_damper"; "d.qfrc_passive"] ++ aff_rows.
Definition aff_passive : list string :=
  ["d.qfrc_spring"; "d.qfrc_damper"; "d.qfrc_gravcomp"; "d.qfrc_passive"; "d.qfrc_actuator"; "d.qfrc_smooth";
   "d.qacc_smooth"; "d.act"] ++ downstream.
Definition aff_act : list string :=
  ["d.qfrc_actuator"; "d.actuator_force"; "d.qfrc_smooth"; "d.qacc_smooth"; "d.act"] ++ downstream.
Definition affected_watched (flag : string) : list string :=
  if String.eqb flag "DisableBit.SENSOR" then ["d.time"; "d.sensordata"; "d.energy"]
  else if String.eqb flag "EnableBit.ENERGY" then ["d.energy"]
  else if String.eqb flag "DisableBit.EULERDAMP" then ["d.qvel"; "d.qpos"; "d.act"; "d.time"; "d.qacc_warmstart"]
  else if String.eqb flag "DisableBit.WARMSTART" then downstream
  else if String.eqb flag "DisableBit.CLAMPCTRL" || String.eqb flag "DisableBit.ACTUATION" then aff_act
  else if String.eqb flag "DisableBit.GRAVITY" then
    ["d.qfrc_gravcomp"; "d.qfrc_passive"; "d.qfrc_bias"; "d.qfrc_actuator"; "d.qfrc_smooth"; "d.qacc_smooth"; "d.energy"] ++ downstream
  else if String.eqb flag "DisableBit.SPRING" then "d.energy" :: aff_passive
  else if String.eqb flag "DisableBit.DAMPER" then aff_passive
  else if String.eqb flag "DisableBit.CONTACT" || String.eqb flag "DisableBit.CONSTRAINT" then aff_contact
  else (* EQUALITY, FRICTIONLOSS, LIMIT, REFSAFE *) aff_rows.
Definition unaffected (flag : string) : list string :=
  filter (fun f => negb (mem f (affected_watched flag))) watched.

(* the whole per-flag check, one boolean made of five named parts *)
Definition ev_on (flag : string) : list event := refine (step_events (pv_bit flag true)).
Definition ev_off (flag : string) : list event := refine (step_events (pv_bit flag false)).
Definition fc_ok (flag : string) : bool := evs_ok (ev_on flag) && evs_ok (ev_off flag).
Definition fc_on (flag : string) : bool := events_eqb (ev_on flag) (resolve (pv_bit flag true) L_of).
Definition fc_off (flag : string) : bool := events_eqb (ev_off flag) (resolve (pv_bit flag false) L_of).
Definition fc_dec (flag : string) : bool :=
  subset (map fst (decisions_outside_loops flag true ++ decisions_outside_loops flag false)) (conds_of flag).
Definition fc_base (flag : string) : bool := inter_nil (unaffected flag) (tainted flag).
Definition flag_check (flag : string) : bool :=
  fc_ok flag && fc_on flag && fc_off flag && fc_dec flag && fc_base flag.

Definition flags_wellformed : bool :=
  evs_ok base_events && conds_covered base_events && host_conds_consistent &&
  no_cond_mentions ["sleep"; "SLEEP"; "callback"] base_events &&
  forallb (fun f => mem f all_flags) step_flags.
