(* Model/Config.v -- the capacity / world-count argument checks of io.make_data, transcribed
   (host Python) for explicitly given nconmax and njmax (their defaults are model dependent). *)
From Coq Require Import ZArith Bool.
Local Open Scope Z_scope.

Record caps := { nconmax : Z; njmax : Z; nvmax : option Z; nworld : Z;
                 naconmax : option Z; naccdmax : option Z }.

(* _resolve_batch_size(na, n, nworld, default) with n given *)
Definition resolve (na : option Z) (n nworld : Z) : Z := match na with Some a => a | None => n * nworld end.
Definition naconmax_res (c : caps) : Z := resolve (naconmax c) (nconmax c) (nworld c).
(* nccdmax is not passed: naccdmax defaults to the resolved naconmax *)
Definition naccdmax_res (c : caps) : Z := match naccdmax c with Some x => x | None => naconmax_res c end.

(* every failed test raises ValueError, in this order *)
Definition make_data_accepts (nv : Z) (c : caps) : bool :=
  (0 <=? nconmax c) && (0 <=? njmax c) &&
  match nvmax c with None => true | Some x => (0 <=? x) && (x <=? nv) end &&
  (1 <=? nworld c) &&
  (0 <=? naconmax_res c) &&
  (0 <=? naccdmax_res c) && (naccdmax_res c <=? naconmax_res c).
