(* Model/Inverse.v -- C26 "Forward and inverse dynamics are consistent".  Definitions only.

   Tied to /repo by data regenerated on every run:
     Gen/T_inverse.v     (bin/translate.py)  the kernels of inverse.py: _qfrc_inverse, _qfrc_eulerdamp;
     Gen/kforward.v      (bin/translate.py)  forward.py: _qfrc_smooth kernel, _compute_damping_deriv,
                                             _euler_damp_qfrc;
     Gen/Skel_pipeline.v (extract_launch.py) the host functions inverse.inverse, inverse.discrete_acc,
                                             forward.euler, forward.implicit as stage programs;
     Gen/Skel_flags.v    (extract_flags.py)  truth tables of the flag tests of euler() / discrete_acc().

   1. per-dof values the kernels compute (the kernels are shown to compute exactly these);
   2. the two acceleration maps: the one the integrator applies (euler / implicit) and the one
      inverse.discrete_acc applies, over abstract linear-solve operators;
   3. stage structure of inverse() and the guards under which the maps are applied. *)
From Coq Require Import String List Bool ZArith Reals.
From VF Require Import Base.Scalar Base.Vec Base.Kernel Base.KernelRd.
From VF Require Import Model.Pipeline Gen.Skel_pipeline Model.PipelineFacts Gen.Skel_flags.
From VF Require Gen.T_inverse Gen.kforward.
Import ListNotations.
Local Open Scope string_scope.
Local Open Scope list_scope.

(* ====================================================================================== *)
(* 1. per-dof values                                                                         *)
(* ====================================================================================== *)
Section Values.
  Context {S : Type} `{Scalar S}.

  (* inverse._qfrc_inverse: bias, then + Ma, - passive, - constraint, in this order *)
  Definition qfrc_inverse_val (bias passive constraint Ma : S) : S :=
    ssub (ssub (sadd bias Ma) passive) constraint.

  (* forward._qfrc_smooth (sleep disabled): passive - bias + actuator + applied; xfrc_accumulate then ADDS
     the Cartesian forces mapped to joint space (support.xfrc_accumulate, not modelled: term [xfrc]) *)
  Definition qfrc_smooth_val (bias passive actuator applied : S) : S :=
    sadd (sadd (ssub passive bias) actuator) applied.

  (* inverse._qfrc_eulerdamp: qfrc += timestep * damp_deriv * qacc   (qfrc holds (M qacc)_i before) *)
  Definition eulerdamp_val (Mq h dd q : S) : S := sadd Mq (smul (smul h dd) q).

  (* forward._euler_damp_qfrc: M[rowadr + rownnz - 1] += timestep * damp_deriv *)
  Definition euler_diag_val (Mdiag h dd : S) : S := sadd Mdiag (smul h dd).
  Definition euler_diag_adr (rowadr rownnz : Z) : Z := (rowadr + rownnz - 1)%Z.

  (* the damping derivative both sides use: util_misc._poly_force_deriv(damping, dpoly, qvel, 1) *)
  Definition damp_deriv_val (damping : S) (dpoly : list S) (v : S) : S :=
    T_inverse._poly_force_deriv damping dpoly v 1%Z.
End Values.

(* ====================================================================================== *)
(* 2. the acceleration maps                                                                  *)
(* ====================================================================================== *)
(* vectors over the dofs of one world; Mmul = x |-> M x (support.mul_m), Kmul = x |-> K x with K the matrix
   the integrator factorises, solveM / solveK the linear solves (smooth.solve_m / factor_solve_i) *)
Section Maps.
  Context {S : Type} `{Scalar S}.
  Definition dvec := Z -> S.
  Variables (Mmul Kmul solveM solveK : dvec -> dvec).

  (* forward.euler (implicit damping branch) and forward.implicit (implicitfast branch):
       qacc' = factor_solve_i(K, rhs = d.efc.Ma),   d.efc.Ma = M qacc   *)
  Definition integrator_acc (a : dvec) : dvec := solveK (Mmul a).

  (* inverse.discrete_acc: qfrc = K qacc'  (mul_m + _qfrc_eulerdamp, or mul_m with M=qDeriv), then
     qacc = solve_m(qfrc)  (the implicitfast branch solves twice with the same right-hand side: first
     factor_solve_i(d.M, ...) then solve_m; both give solveM qfrc) *)
  Definition discrete_acc_map (a' : dvec) : dvec := solveM (Kmul a').
End Maps.

(* Euler: K x = M x + h * dd .* x, as _qfrc_eulerdamp computes it per dof *)
Definition Kmul_euler {S : Type} `{Scalar S} (Mmul : dvec -> dvec) (h : S) (dd : dvec) : dvec -> dvec :=
  fun x i => eulerdamp_val (Mmul x i) h (dd i) (x i).

(* ====================================================================================== *)
(* 3. stage structure and guards                                                             *)
(* ====================================================================================== *)
Fixpoint stmt_tag (s : stmt) : string :=
  let tags := (fix tags (l : list stmt) : string :=
                 match l with nil => "" | x :: r => String.append (stmt_tag x) (String.append ";" (tags r)) end) in
  match s with
  | Launch k _ _ _ => String.append "launch " k
  | Call f _ _ => String.append "call " f
  | If c t e => String.append "if " (String.append c (String.append " {" (String.append (tags t) (String.append "} else {" (String.append (tags e) "}")))))
  | Zero f => String.append "zero " f
  | Fill f _ => String.append "fill " f
  | Copy d s0 => String.append "copy " (String.append d (String.append " <- " s0))
  | Assign n _ => String.append "assign " n
  | Loop h _ => String.append "loop " h
  | Return _ => "return"
  | Raise _ => "raise"
  | Other _ => "other"
  end.
Definition body_of (f : string) : list stmt :=
  match lookup_fn program f with Some g => body g | None => [Other "missing"] end.
Definition inverse_stages : list string := map stmt_tag (body_of "inverse.inverse").

(* committed: the stage sequence of inverse() *)
Definition inverse_stages_expected : list string :=
  ["call forward.fwd_position"; "call sensor.sensor_pos"; "call forward.fwd_velocity"; "call sensor.sensor_vel";
   "assign invdiscrete";
   "if invdiscrete {assign qacc_discrete;call inverse.discrete_acc;} else {}";
   "call inverse.inv_constraint"; "call smooth.rne"; "call smooth.tendon_bias"; "call sensor.sensor_acc";
   "call support.mul_m"; "launch inverse._qfrc_inverse";
   "if invdiscrete {copy d.qacc <- qacc_discrete;} else {}"].

(* the last two computing statements: mul_m(m, d, d.qfrc_inverse, d.qacc) then the kernel launch with
   Ma := d.qfrc_inverse (in-place) *)
Definition inverse_tail : list stmt :=
  filter (fun s => match s with
                   | Call f _ _ => String.eqb f "support.mul_m"
                   | Launch k _ _ _ => String.eqb k "inverse._qfrc_inverse"
                   | _ => false end) (body_of "inverse.inverse").
Definition inverse_tail_expected : list stmt :=
  [Call "support.mul_m" ["m"; "d"; "d.qfrc_inverse"; "d.qacc"] [];
   Launch "inverse._qfrc_inverse" [] ["d.qfrc_bias"; "d.qfrc_passive"; "d.qfrc_constraint"; "d.qfrc_inverse"] ["d.qfrc_inverse"]].
Fixpoint stmt_eqb (a b : stmt) : bool :=
  match a, b with
  | Launch k fa i o, Launch k' fa' i' o' => String.eqb k k' && strs_eqb fa fa' && strs_eqb i i' && strs_eqb o o'
  | Call f a0 kw, Call f' a' kw' => String.eqb f f' && strs_eqb a0 a' && strs_eqb (kwtxt kw) (kwtxt kw')
  | _, _ => false
  end.

(* flattened inverse(): continuous (INVDISCRETE off) and discrete *)
Definition pv_inv_cont : pval := pv_list (cfg_common ++ [("invdiscrete", false)]).
Definition pv_inv_disc_euler : pval :=
  pv_list (cfg_common ++ [("invdiscrete", true); (c_rk4, false); (c_euler, true)]).
Definition inverse_events (pv : pval) : list event := events_of pv "inverse.inverse".

Definition inverse_wellformed (pv : pval) : bool :=
  let l := inverse_events pv in
  evs_ok l && no_cond_mentions ["sleep"; "SLEEP"; "callback"] l &&
  match flat_map ext_with_d l with nil => true | _ => false end.

(* ---- guards ---------------------------------------------------------------------------------- *)
(* the flag test of forward.euler: first statement of its body *)
Definition euler_guard : string :=
  match body_of "forward.euler" with If c _ _ :: _ => c | _ => "?" end.
(* the flag test of inverse.discrete_acc: the `if` whose then-branch is [wp.copy(qacc, d.qacc); return] *)
Fixpoint find_copy_return (s : stmt) : list string :=
  let go := (fix go (l : list stmt) : list string :=
               match l with nil => nil | x :: r => find_copy_return x ++ go r end) in
  match s with
  | If c t e =>
      (match t with
       | [Copy "qacc" "d.qacc"; Return _] => [c]
       | _ => nil
       end) ++ go t ++ go e
  | Loop _ b => go b
  | _ => nil
  end.
Definition discrete_guards : list string := flat_map find_copy_return (body_of "inverse.discrete_acc").
Definition discrete_guard : string := match discrete_guards with [c] => c | _ => "?" end.
(* the flag test of forward.implicit's implicitfast branch *)
Definition implicit_guard : string :=
  match body_of "forward.implicit" with
  | [If _ _ [If c _ _]] => c
  | _ => "?"
  end.

(* value of a host test under an assignment of flag bits (true = bit SET), from the extractor's table *)
Fixpoint assoc_b (k : string) (l : list (string * bool)) : bool :=
  match l with nil => false | (a, b) :: r => if String.eqb a k then b else assoc_b k r end.
Definition cond_val (fn text : string) (asg : list (string * bool)) : option bool :=
  match find (fun c => String.eqb (c_fn c) fn && String.eqb (c_text c) text) host_conds with
  | Some c =>
      let bits := map (fun f => assoc_b f asg) (c_flags c) in
      match find (fun r => list_eqb Bool.eqb (fst r) bits) (c_table c) with
      | Some r => snd r
      | None => None
      end
  | None => None
  end.
Definition ED := "DisableBit.EULERDAMP".
Definition DA := "DisableBit.DAMPER".
(* euler() integrates damping implicitly (changes the acceleration) iff its test is true *)
Definition euler_modifies (eulerdamp_set damper_set : bool) : option bool :=
  cond_val "forward.euler" euler_guard [(ED, eulerdamp_set); (DA, damper_set)].
(* discrete_acc returns the acceleration unchanged iff its test is true; otherwise it applies the map *)
Definition discrete_inverts (eulerdamp_set damper_set : bool) : option bool :=
  option_map negb (cond_val "inverse.discrete_acc" discrete_guard [(ED, eulerdamp_set); (DA, damper_set)]).
