(* Model/StateCodec.v -- executable model of mujoco_warp get_state / set_state
   (/repo/mujoco_warp/_src/support.py, kernels _get_state / _set_state, and the
   State enum of types.py).  Definitions only; lemmas are in Proof/StateCodec.v.

   What is copied from the source:
   * the Python wrapper raises ValueError iff  sig < 0  or  sig >= (1 << State.NSTATE)
     (the sig < 0 test was added by the fix for finding C15:sig_range:negative-signature-accepted);
   * one kernel task per world; if an `active` array was passed, a world with
     active[worldid] = false returns before touching anything;
   * `adr = 0; for i in range(NSTATE): element = 1 << i; if element & sig: <dispatch>`;
     the dispatch has 13 branches (TIME .. USERDATA); bit 13 (PLUGIN) has no branch,
     so it copies nothing and does not advance adr;
   * every branch is the same index loop as the kernel (scalar arrays use `adr + j`
     then `adr += n`; xfrc_applied / mocap_pos / mocap_quat advance adr inside the loop
     by 6 / 3 / 4);
   * eq_active is a bool array in Data: get writes float(b), set stores bool(x);
   * the output row / the Data arrays are updated IN PLACE: positions that are not
     written keep their old content (a state row wider than the state size keeps its tail).

   Representation: one world's Data is a record of flat lists (a Warp array of
   spatial_vector / vec3 / quat is its contiguous float storage, so element c of
   item j is flat index k*j + c).  The value type V is abstract (b2v = float(bool),
   v2b = bool(float)); the correspondence check instantiates V := Z with float32 bit
   patterns, the theorems hold for every V.  An out-of-range read returns `dflt`, an
   out-of-range write is dropped; neither happens under the well-formedness
   hypotheses of the theorems (memory safety itself is property C17). *)
From Coq Require Import ZArith List Bool.
From VF Require Import Base.Loop.
Import ListNotations.
Local Open Scope Z_scope.

(* types.py: class State (values come from mujoco.mjtState; checked at run time by
   bin/props/C15.py against these constants) *)
Definition NSTATE : Z := 14.
Definition ST_TIME : Z := 1.
Definition ST_QPOS : Z := 2.
Definition ST_QVEL : Z := 4.
Definition ST_ACT : Z := 8.
Definition ST_HISTORY : Z := 16.
Definition ST_WARMSTART : Z := 32.
Definition ST_CTRL : Z := 64.
Definition ST_QFRC_APPLIED : Z := 128.
Definition ST_XFRC_APPLIED : Z := 256.
Definition ST_EQ_ACTIVE : Z := 512.
Definition ST_MOCAP_POS : Z := 1024.
Definition ST_MOCAP_QUAT : Z := 2048.
Definition ST_USERDATA : Z := 4096.
(* 8192 = mjSTATE_PLUGIN: "unsupported" in types.py, no branch in the kernels *)

(* array read / in-place write *)
Definition rd {A : Type} (l : list A) (i : Z) (d : A) : A :=
  if i <? 0 then d else nth (Z.to_nat i) l d.

Fixpoint upd {A : Type} (l : list A) (n : nat) (x : A) : list A :=
  match l, n with
  | [], _ => []
  | _ :: t, O => x :: t
  | h :: t, Datatypes.S n' => h :: upd t n' x
  end.

Definition wr {A : Type} (l : list A) (i : Z) (x : A) : list A :=
  if i <? 0 then l else upd l (Z.to_nat i) x.

Record Sizes := mkSizes {
  nq : Z; nv : Z; nu : Z; na : Z; nbody : Z; neq : Z; nmocap : Z; nuserdata : Z; nhistory : Z
}.

Section Codec.
Variable V : Type.
Variable b2v : bool -> V.   (* float(b) in _get_state *)
Variable v2b : V -> bool.   (* bool(x) in _set_state *)
Variable dflt : V.

(* one world of Data (only the arrays the two kernels touch) *)
Record Data := mkData {
  time : V;
  qpos : list V;
  qvel : list V;
  act : list V;
  history : list V;
  qacc_warmstart : list V;
  ctrl : list V;
  qfrc_applied : list V;
  xfrc_applied : list V;      (* flat, 6 per body *)
  eq_active : list bool;
  mocap_pos : list V;         (* flat, 3 per mocap body *)
  mocap_quat : list V;        (* flat, 4 per mocap body *)
  userdata : list V
}.

Definition set_time d x := mkData x (qpos d) (qvel d) (act d) (history d) (qacc_warmstart d) (ctrl d) (qfrc_applied d) (xfrc_applied d) (eq_active d) (mocap_pos d) (mocap_quat d) (userdata d).
Definition set_qpos d x := mkData (time d) x (qvel d) (act d) (history d) (qacc_warmstart d) (ctrl d) (qfrc_applied d) (xfrc_applied d) (eq_active d) (mocap_pos d) (mocap_quat d) (userdata d).
Definition set_qvel d x := mkData (time d) (qpos d) x (act d) (history d) (qacc_warmstart d) (ctrl d) (qfrc_applied d) (xfrc_applied d) (eq_active d) (mocap_pos d) (mocap_quat d) (userdata d).
Definition set_act d x := mkData (time d) (qpos d) (qvel d) x (history d) (qacc_warmstart d) (ctrl d) (qfrc_applied d) (xfrc_applied d) (eq_active d) (mocap_pos d) (mocap_quat d) (userdata d).
Definition set_history d x := mkData (time d) (qpos d) (qvel d) (act d) x (qacc_warmstart d) (ctrl d) (qfrc_applied d) (xfrc_applied d) (eq_active d) (mocap_pos d) (mocap_quat d) (userdata d).
Definition set_warmstart d x := mkData (time d) (qpos d) (qvel d) (act d) (history d) x (ctrl d) (qfrc_applied d) (xfrc_applied d) (eq_active d) (mocap_pos d) (mocap_quat d) (userdata d).
Definition set_ctrl d x := mkData (time d) (qpos d) (qvel d) (act d) (history d) (qacc_warmstart d) x (qfrc_applied d) (xfrc_applied d) (eq_active d) (mocap_pos d) (mocap_quat d) (userdata d).
Definition set_qfrc d x := mkData (time d) (qpos d) (qvel d) (act d) (history d) (qacc_warmstart d) (ctrl d) x (xfrc_applied d) (eq_active d) (mocap_pos d) (mocap_quat d) (userdata d).
Definition set_xfrc d x := mkData (time d) (qpos d) (qvel d) (act d) (history d) (qacc_warmstart d) (ctrl d) (qfrc_applied d) x (eq_active d) (mocap_pos d) (mocap_quat d) (userdata d).
Definition set_eq d x := mkData (time d) (qpos d) (qvel d) (act d) (history d) (qacc_warmstart d) (ctrl d) (qfrc_applied d) (xfrc_applied d) x (mocap_pos d) (mocap_quat d) (userdata d).
Definition set_mpos d x := mkData (time d) (qpos d) (qvel d) (act d) (history d) (qacc_warmstart d) (ctrl d) (qfrc_applied d) (xfrc_applied d) (eq_active d) x (mocap_quat d) (userdata d).
Definition set_mquat d x := mkData (time d) (qpos d) (qvel d) (act d) (history d) (qacc_warmstart d) (ctrl d) (qfrc_applied d) (xfrc_applied d) (eq_active d) (mocap_pos d) x (userdata d).
Definition set_userdata d x := mkData (time d) (qpos d) (qvel d) (act d) (history d) (qacc_warmstart d) (ctrl d) (qfrc_applied d) (xfrc_applied d) (eq_active d) (mocap_pos d) (mocap_quat d) x.

(* ---- _get_state, one world ------------------------------------------------- *)
(* for j in range(n): state_out[adr + j] = src[j]      (then adr += n) *)
Definition get_copy (n adr : Z) (src out : list V) : list V :=
  for_range 0 n out (fun j o => wr o (adr + j) (rd src j dflt)).

Definition get_step (sz : Sizes) (sig : Z) (d : Data) (i : Z) (st : Z * list V) : Z * list V :=
  let '(adr, out) := st in
  let element := Z.shiftl 1 i in
  if Z.land element sig =? 0 then st
  else if element =? ST_TIME then (adr + 1, wr out adr (time d))
  else if element =? ST_QPOS then (adr + nq sz, get_copy (nq sz) adr (qpos d) out)
  else if element =? ST_QVEL then (adr + nv sz, get_copy (nv sz) adr (qvel d) out)
  else if element =? ST_ACT then (adr + na sz, get_copy (na sz) adr (act d) out)
  else if element =? ST_HISTORY then (adr + nhistory sz, get_copy (nhistory sz) adr (history d) out)
  else if element =? ST_WARMSTART then (adr + nv sz, get_copy (nv sz) adr (qacc_warmstart d) out)
  else if element =? ST_CTRL then (adr + nu sz, get_copy (nu sz) adr (ctrl d) out)
  else if element =? ST_QFRC_APPLIED then (adr + nv sz, get_copy (nv sz) adr (qfrc_applied d) out)
  else if element =? ST_XFRC_APPLIED then
    for_range 0 (nbody sz) (adr, out) (fun j ao =>
      let '(a, o) := ao in
      let x := xfrc_applied d in
      let o := wr o (a + 0) (rd x (6 * j + 0) dflt) in
      let o := wr o (a + 1) (rd x (6 * j + 1) dflt) in
      let o := wr o (a + 2) (rd x (6 * j + 2) dflt) in
      let o := wr o (a + 3) (rd x (6 * j + 3) dflt) in
      let o := wr o (a + 4) (rd x (6 * j + 4) dflt) in
      let o := wr o (a + 5) (rd x (6 * j + 5) dflt) in
      (a + 6, o))
  else if element =? ST_EQ_ACTIVE then
    (adr + neq sz,
     for_range 0 (neq sz) out (fun j o => wr o (adr + j) (b2v (rd (eq_active d) j false))))
  else if element =? ST_MOCAP_POS then
    for_range 0 (nmocap sz) (adr, out) (fun j ao =>
      let '(a, o) := ao in
      let x := mocap_pos d in
      let o := wr o (a + 0) (rd x (3 * j + 0) dflt) in
      let o := wr o (a + 1) (rd x (3 * j + 1) dflt) in
      let o := wr o (a + 2) (rd x (3 * j + 2) dflt) in
      (a + 3, o))
  else if element =? ST_MOCAP_QUAT then
    for_range 0 (nmocap sz) (adr, out) (fun j ao =>
      let '(a, o) := ao in
      let x := mocap_quat d in
      let o := wr o (a + 0) (rd x (4 * j + 0) dflt) in
      let o := wr o (a + 1) (rd x (4 * j + 1) dflt) in
      let o := wr o (a + 2) (rd x (4 * j + 2) dflt) in
      let o := wr o (a + 3) (rd x (4 * j + 3) dflt) in
      (a + 4, o))
  else if element =? ST_USERDATA then (adr + nuserdata sz, get_copy (nuserdata sz) adr (userdata d) out)
  else st.

(* the row of `state` for this world after the kernel task *)
Definition get_row (sz : Sizes) (sig : Z) (d : Data) (row : list V) : list V :=
  snd (for_range 0 NSTATE (0, row) (get_step sz sig d)).

(* ---- _set_state, one world ------------------------------------------------- *)
(* for j in range(n): dst[j] = state_in[adr + j] *)
Definition set_copy (n adr : Z) (row dst : list V) : list V :=
  for_range 0 n dst (fun j o => wr o j (rd row (adr + j) dflt)).

Definition set_step (sz : Sizes) (sig : Z) (row : list V) (i : Z) (st : Z * Data) : Z * Data :=
  let '(adr, d) := st in
  let element := Z.shiftl 1 i in
  if Z.land element sig =? 0 then st
  else if element =? ST_TIME then (adr + 1, set_time d (rd row adr dflt))
  else if element =? ST_QPOS then (adr + nq sz, set_qpos d (set_copy (nq sz) adr row (qpos d)))
  else if element =? ST_QVEL then (adr + nv sz, set_qvel d (set_copy (nv sz) adr row (qvel d)))
  else if element =? ST_ACT then (adr + na sz, set_act d (set_copy (na sz) adr row (act d)))
  else if element =? ST_HISTORY then (adr + nhistory sz, set_history d (set_copy (nhistory sz) adr row (history d)))
  else if element =? ST_WARMSTART then (adr + nv sz, set_warmstart d (set_copy (nv sz) adr row (qacc_warmstart d)))
  else if element =? ST_CTRL then (adr + nu sz, set_ctrl d (set_copy (nu sz) adr row (ctrl d)))
  else if element =? ST_QFRC_APPLIED then (adr + nv sz, set_qfrc d (set_copy (nv sz) adr row (qfrc_applied d)))
  else if element =? ST_XFRC_APPLIED then
    let '(a', x') := for_range 0 (nbody sz) (adr, xfrc_applied d) (fun j ax =>
      let '(a, x) := ax in
      let x := wr x (6 * j + 0) (rd row (a + 0) dflt) in
      let x := wr x (6 * j + 1) (rd row (a + 1) dflt) in
      let x := wr x (6 * j + 2) (rd row (a + 2) dflt) in
      let x := wr x (6 * j + 3) (rd row (a + 3) dflt) in
      let x := wr x (6 * j + 4) (rd row (a + 4) dflt) in
      let x := wr x (6 * j + 5) (rd row (a + 5) dflt) in
      (a + 6, x)) in
    (a', set_xfrc d x')
  else if element =? ST_EQ_ACTIVE then
    (adr + neq sz,
     set_eq d (for_range 0 (neq sz) (eq_active d) (fun j o => wr o j (v2b (rd row (adr + j) dflt)))))
  else if element =? ST_MOCAP_POS then
    let '(a', x') := for_range 0 (nmocap sz) (adr, mocap_pos d) (fun j ax =>
      let '(a, x) := ax in
      let x := wr x (3 * j + 0) (rd row (a + 0) dflt) in
      let x := wr x (3 * j + 1) (rd row (a + 1) dflt) in
      let x := wr x (3 * j + 2) (rd row (a + 2) dflt) in
      (a + 3, x)) in
    (a', set_mpos d x')
  else if element =? ST_MOCAP_QUAT then
    let '(a', x') := for_range 0 (nmocap sz) (adr, mocap_quat d) (fun j ax =>
      let '(a, x) := ax in
      let x := wr x (4 * j + 0) (rd row (a + 0) dflt) in
      let x := wr x (4 * j + 1) (rd row (a + 1) dflt) in
      let x := wr x (4 * j + 2) (rd row (a + 2) dflt) in
      let x := wr x (4 * j + 3) (rd row (a + 3) dflt) in
      (a + 4, x)) in
    (a', set_mquat d x')
  else if element =? ST_USERDATA then (adr + nuserdata sz, set_userdata d (set_copy (nuserdata sz) adr row (userdata d)))
  else st.

Definition set_row (sz : Sizes) (sig : Z) (row : list V) (d : Data) : Data :=
  snd (for_range 0 NSTATE (0, d) (set_step sz sig row)).

(* ---- launch over worlds + Python wrapper ------------------------------------ *)
(* `active` = None: wp.static(active is not None) is false, no mask test is compiled.
   `active` = Some a: task worldid returns immediately when a[worldid] is false. *)
Definition world_active (active : option (list bool)) (w : Z) : bool :=
  match active with None => true | Some a => rd a w false end.

Fixpoint get_worlds (sz : Sizes) (sig : Z) (active : option (list bool)) (w : Z)
    (ds : list Data) (state : list (list V)) : list (list V) :=
  match ds, state with
  | d :: ds', row :: st' =>
      (if world_active active w then get_row sz sig d row else row)
        :: get_worlds sz sig active (w + 1) ds' st'
  | _, _ => state
  end.

Fixpoint set_worlds (sz : Sizes) (sig : Z) (active : option (list bool)) (w : Z)
    (state : list (list V)) (ds : list Data) : list Data :=
  match ds, state with
  | d :: ds', row :: st' =>
      (if world_active active w then set_row sz sig row d else d)
        :: set_worlds sz sig active (w + 1) st' ds'
  | _, _ => ds
  end.

(* None = ValueError raised by the wrapper (nothing launched) *)
Definition get_state (sz : Sizes) (sig : Z) (active : option (list bool))
    (ds : list Data) (state : list (list V)) : option (list (list V)) :=
  if sig <? 0 then None else if sig >=? Z.shiftl 1 NSTATE then None else Some (get_worlds sz sig active 0 ds state).

Definition set_state (sz : Sizes) (sig : Z) (active : option (list bool))
    (state : list (list V)) (ds : list Data) : option (list Data) :=
  if sig <? 0 then None else if sig >=? Z.shiftl 1 NSTATE then None else Some (set_worlds sz sig active 0 state ds).

(* ---- specification vocabulary (used by the theorems) ------------------------- *)
Definition bits : list Z := [0; 1; 2; 3; 4; 5; 6; 7; 8; 9; 10; 11; 12; 13].

(* flattened component selected by bit i, as MuJoCo lays it out *)
Definition comp_get (i : Z) (d : Data) : list V :=
  match i with
  | 0 => [time d] | 1 => qpos d | 2 => qvel d | 3 => act d | 4 => history d
  | 5 => qacc_warmstart d | 6 => ctrl d | 7 => qfrc_applied d | 8 => xfrc_applied d
  | 9 => map b2v (eq_active d) | 10 => mocap_pos d | 11 => mocap_quat d | 12 => userdata d
  | _ => []
  end.

Definition comp_set (i : Z) (v : list V) (d : Data) : Data :=
  match i with
  | 0 => set_time d (nth 0 v dflt) | 1 => set_qpos d v | 2 => set_qvel d v | 3 => set_act d v
  | 4 => set_history d v | 5 => set_warmstart d v | 6 => set_ctrl d v | 7 => set_qfrc d v
  | 8 => set_xfrc d v | 9 => set_eq d (map v2b v) | 10 => set_mpos d v | 11 => set_mquat d v
  | 12 => set_userdata d v
  | _ => d
  end.

Definition comp_size (sz : Sizes) (i : Z) : Z :=
  match i with
  | 0 => 1 | 1 => nq sz | 2 => nv sz | 3 => na sz | 4 => nhistory sz | 5 => nv sz | 6 => nu sz
  | 7 => nv sz | 8 => 6 * nbody sz | 9 => neq sz | 10 => 3 * nmocap sz | 11 => 4 * nmocap sz
  | 12 => nuserdata sz
  | _ => 0
  end.

Definition csize (sz : Sizes) (i : Z) : nat := Z.to_nat (comp_size sz i).

(* concatenation of the selected components, in the order of the bit list bs *)
Fixpoint sel_get (sig : Z) (d : Data) (bs : list Z) : list V :=
  match bs with
  | [] => []
  | i :: r => (if Z.testbit sig i then comp_get i d else []) ++ sel_get sig d r
  end.

Fixpoint sel_size (sz : Sizes) (sig : Z) (bs : list Z) : nat :=
  match bs with
  | [] => O
  | i :: r => ((if Z.testbit sig i then csize sz i else O) + sel_size sz sig r)%nat
  end.

(* consume v left to right, storing each selected component *)
Fixpoint sel_set (sz : Sizes) (sig : Z) (v : list V) (d : Data) (bs : list Z) : Data :=
  match bs with
  | [] => d
  | i :: r =>
      if Z.testbit sig i
      then sel_set sz sig (skipn (csize sz i) v) (comp_set i (firstn (csize sz i) v) d) r
      else sel_set sz sig v d r
  end.

(* the slice of a state vector v that belongs to component t *)
Fixpoint slice_of (t : Z) (sz : Sizes) (sig : Z) (v : list V) (bs : list Z) : list V :=
  match bs with
  | [] => []
  | i :: r =>
      if Z.testbit sig i
      then (if i =? t then firstn (csize sz i) v else slice_of t sz sig (skipn (csize sz i) v) r)
      else slice_of t sz sig v r
  end.

Definition state_size (sz : Sizes) (sig : Z) : nat := sel_size sz sig bits.

(* array shapes agree with the model sizes (what make_data / put_data allocate) *)
Definition zlen {A : Type} (l : list A) : Z := Z.of_nat (length l).
Definition wf (sz : Sizes) (d : Data) : Prop :=
  zlen (qpos d) = nq sz /\ zlen (qvel d) = nv sz /\ zlen (act d) = na sz /\
  zlen (history d) = nhistory sz /\ zlen (qacc_warmstart d) = nv sz /\ zlen (ctrl d) = nu sz /\
  zlen (qfrc_applied d) = nv sz /\ zlen (xfrc_applied d) = 6 * nbody sz /\
  zlen (eq_active d) = neq sz /\ zlen (mocap_pos d) = 3 * nmocap sz /\
  zlen (mocap_quat d) = 4 * nmocap sz /\ zlen (userdata d) = nuserdata sz.

(* x survives bool(.) then float(.) : true of 0.0 and 1.0 only *)
Definition boolean (x : V) : Prop := b2v (v2b x) = x.
Definition boolean_on_eq_active (sz : Sizes) (sig : Z) (v : list V) : Prop :=
  Forall boolean (slice_of 9 sz sig v bits).

(* field i (the array behind bit i) is the same in d and d' -- stronger than equal
   comp_get for eq_active, which is stored as bool *)
Definition field_eq (i : Z) (d d' : Data) : Prop :=
  match i with
  | 0 => time d = time d' | 1 => qpos d = qpos d' | 2 => qvel d = qvel d'
  | 3 => act d = act d' | 4 => history d = history d'
  | 5 => qacc_warmstart d = qacc_warmstart d' | 6 => ctrl d = ctrl d'
  | 7 => qfrc_applied d = qfrc_applied d' | 8 => xfrc_applied d = xfrc_applied d'
  | 9 => eq_active d = eq_active d' | 10 => mocap_pos d = mocap_pos d'
  | 11 => mocap_quat d = mocap_quat d' | 12 => userdata d = userdata d'
  | _ => True
  end.

(* flattened Data, used by the correspondence check to compare with the real arrays *)
Definition data_flat (d : Data) : list V :=
  time d :: qpos d ++ qvel d ++ act d ++ history d ++ qacc_warmstart d ++ ctrl d ++
  qfrc_applied d ++ xfrc_applied d ++ map b2v (eq_active d) ++ mocap_pos d ++ mocap_quat d ++
  userdata d.

End Codec.

Arguments mkData {V}.
Arguments wf {V}.

(* ---- instance used by the correspondence check: float32 bit patterns -------- *)
(* float(True) = 1.0f = 0x3F800000, float(False) = +0.0f; bool(x) is x != 0.0f, false
   exactly for +0.0 (0) and -0.0 (0x80000000), true for NaN *)
Definition b2z (b : bool) : Z := if b then 1065353216 else 0.
Definition z2b (x : Z) : bool := negb ((x =? 0) || (x =? 2147483648)).

Definition flat_rows (r : option (list (list Z))) : list Z :=
  match r with None => [-1] | Some rows => concat rows end.
Definition flat_datas (r : option (list (Data Z))) : list Z :=
  match r with None => [-1] | Some ds => concat (map (data_flat Z b2z) ds) end.

Definition get_stateZ := get_state Z b2z (-7).
Definition set_stateZ := set_state Z z2b (-7).
Definition state_sizeZ (sz : Sizes) (sig : Z) : Z := Z.of_nat (state_size sz sig).
Definition get_rowZ := get_row Z b2z (-7).
Definition set_rowZ := set_row Z z2b (-7).

(* ---- finite companion: one concrete model, every signature 0 .. 2^14 - 1 ------ *)
(* all component sizes non-zero and pairwise distinguishable by content *)
Definition sz0 : Sizes := mkSizes 3 2 2 1 2 2 1 2 3.
Definition d0 : Data Z :=
  mkData 100 [110; 111; 112] [120; 121] [130] [140; 141; 142] [150; 151] [160; 161] [170; 171]
    [180; 181; 182; 183; 184; 185; 186; 187; 188; 189; 190; 191] [true; false]
    [200; 201; 202] [210; 211; 212; 213] [220; 221].
Definition d1 : Data Z :=
  mkData 300 [310; 311; 312] [320; 321] [330] [340; 341; 342] [350; 351] [360; 361] [370; 371]
    [380; 381; 382; 383; 384; 385; 386; 387; 388; 389; 390; 391] [false; true]
    [400; 401; 402] [410; 411; 412; 413] [420; 421].
Definition row0 : list Z := map Z.of_nat (seq 1000 45).

(* expected layout written as a plain table, independently of comp_get / the kernel *)
Definition table0 : list (list Z) :=
  [[100]; [110; 111; 112]; [120; 121]; [130]; [140; 141; 142]; [150; 151]; [160; 161]; [170; 171];
   [180; 181; 182; 183; 184; 185; 186; 187; 188; 189; 190; 191]; [1065353216; 0];
   [200; 201; 202]; [210; 211; 212; 213]; [220; 221]; []].
Definition expect0 (sig : Z) : list Z :=
  concat (map (fun it : Z * list Z => if Z.testbit sig (fst it) then snd it else [])
              (combine bits table0)).

(* field-wise merge: what set_state(sig, get_state(sig, d1)) must leave in d0 *)
Definition merge (sig : Z) (a b : Data Z) : Data Z :=
  let pick {T : Type} (i : Z) (x y : T) := if Z.testbit sig i then x else y in
  mkData (pick 0 (time Z a) (time Z b)) (pick 1 (qpos Z a) (qpos Z b)) (pick 2 (qvel Z a) (qvel Z b))
    (pick 3 (act Z a) (act Z b)) (pick 4 (history Z a) (history Z b))
    (pick 5 (qacc_warmstart Z a) (qacc_warmstart Z b)) (pick 6 (ctrl Z a) (ctrl Z b))
    (pick 7 (qfrc_applied Z a) (qfrc_applied Z b)) (pick 8 (xfrc_applied Z a) (xfrc_applied Z b))
    (pick 9 (eq_active Z a) (eq_active Z b)) (pick 10 (mocap_pos Z a) (mocap_pos Z b))
    (pick 11 (mocap_quat Z a) (mocap_quat Z b)) (pick 12 (userdata Z a) (userdata Z b)).

Fixpoint zleq (a b : list Z) : bool :=
  match a, b with
  | [], [] => true
  | x :: a', y :: b' => (x =? y) && zleq a' b'
  | _, _ => false
  end.

Definition sweep_ok (sig : Z) : bool :=
  let e := expect0 sig in
  zleq (get_rowZ sz0 sig d0 row0) (e ++ skipn (length e) row0)
  && (state_sizeZ sz0 sig =? Z.of_nat (length e))
  && zleq (data_flat Z b2z (set_rowZ sz0 sig (get_rowZ sz0 sig d1 row0) d0))
          (data_flat Z b2z (merge sig d1 d0))
  && (let v := firstn (length e) row0 in   (* raw values are not 0/1: only without EQ_ACTIVE *)
      Z.testbit sig 9 || zleq (get_rowZ sz0 sig (set_rowZ sz0 sig v d0) v) v).
