(* Model/Assembly.v -- C05 "constraint assembly": the row-class layout of make_constraint on top
   of the allocator model (Model/Alloc.v, shared with C16), the address bookkeeping of the contact
   builders, the launch-order facts read off the regenerated host program (Gen/Skel_pipeline.v),
   and the closed forms of MuJoCo's solver-parameter documentation that `_efc_row` is compared
   with.  Definitions only; lemmas are in Proof/Assembly.v.

   What is modelled
   * make_constraint = `_zero_constraint_counts` followed by the row-builder launches; a launch is
     a list of tasks run by Alloc.run_tasks; a launch completes before the next one starts (Warp
     stream semantics), tasks inside one launch run in ANY order (a schedule = a permutation of
     the launch's task list; a task is atomic at the granularity that matters because all its
     decisions depend only on the values its own atomic_adds returned).
   * the class of a builder is the typed counter it bumps (Skel_alloc.b_tcounter, extracted):
     0 = d.ne (equality), 1 = d.nf (friction loss), 2 = d.nl (limit), 3 = none (contact);
     the solver classifies a row BY POSITION ([pos_class]): [0,ne) equality, [ne,ne+nf) friction,
     [ne+nf,ne+nf+nl) limit, the rest contact.
   * contact.efc_address: write_contact sets every slot to -1; `_efc_contact_init[_flex]` stores
     for dim in range(ndim): `-1 if base+dim >= njmax else base+dim` (and efc_id[base+dim] = conid)
     BEFORE its non-zero guard, where base is what atomic_add(nefc, ndim) returned ([addr_of]).
   * a REQUEST is an allocation the kernel actually performs: `_equality_connect` / `_equality_weld`
     return before any counter is bumped when the equality is inactive or (since commit b0f4223) when
     both bodies are welded to the world (body_weldid == 0, empty Jacobian chain, as MuJoCo C); such
     tasks have no request (bin/props/C05.py derives the request lists with exactly these tests).
   * the values stored into a row are not part of the allocator model; `_efc_row` is modelled by its
     machine translation, and what the contact kernels pass to it (e.g. margin = 0 on the friction
     rows of an elliptic cone, commit eb9a4e2) is covered by the differential oracle only.
   Not modelled: the Jacobian / position arithmetic of the builders (oracle only). *)
From Coq Require Import ZArith List Bool String Reals.
From VF Require Import Base.Loop Model.Alloc Model.Pipeline Gen.Skel_alloc Gen.Skel_pipeline Gen.Skel_constraint.
Import ListNotations.
Local Open Scope string_scope.
Local Open Scope list_scope.
Local Open Scope Z_scope.

(* ------------------------------------------------------------------------------------------ *)
(* row classes                                                                                *)
(* ------------------------------------------------------------------------------------------ *)
Definition class_of (b : builder) : Z := b_tcounter b.
Definition task_class (t : task) : Z := class_of (t_b t).

(* types.ConstraintType -> class (EQUALITY 0 | FRICTION_DOF 1, FRICTION_TENDON 2 |
   LIMIT_JOINT 3, LIMIT_TENDON 4 | CONTACT_* 5 6 7); the enum regenerated in
   Gen/Skel_constraint.v is compared with this table by [enum_ok] *)
Definition kind_of_type (t : Z) : Z :=
  if t =? 0 then 0 else if t <=? 2 then 1 else if t <=? 4 then 2 else 3.

(* how the solver / get_data_into classify row i *)
Definition pos_class (ne nf nl i : Z) : Z :=
  if i <? ne then 0 else if i <? ne + nf then 1 else if i <? ne + nf + nl then 2 else 3.

(* every request of a task asks for rows whose type belongs to the class of its builder *)
Definition typed_task (t : task) : Prop :=
  Forall (fun q => kind_of_type (q_type q) = task_class t) (t_reqs t).
Definition typed_taskb (t : task) : bool :=
  forallb (fun q => kind_of_type (q_type q) =? task_class t) (t_reqs t).
Definition nonneg_task (t : task) : Prop :=
  Forall (fun q => 0 <= nrows (t_b t) q /\ 0 <= q_pernnz q) (t_reqs t).

(* the four groups of launches; inside a group the order is free *)
Record stages := mkStages { st_e : list task; st_f : list task; st_l : list task; st_c : list task }.
Definition stage_tasks (g : stages) : list task := st_e g ++ st_f g ++ st_l g ++ st_c g.
Definition stages_ok (g : stages) : Prop :=
  Forall (fun t => task_class t = 0) (st_e g) /\ Forall (fun t => task_class t = 1) (st_f g) /\
  Forall (fun t => task_class t = 2) (st_l g) /\ Forall (fun t => task_class t = 3) (st_c g).
Definition stages_typed (g : stages) : Prop :=
  Forall (fun t => typed_task t /\ nonneg_task t) (stage_tasks g).
Definition run_stages (cap capz : Z) (sparse : bool) (g : stages) (adr0 rnz0 : list Z) : st :=
  run_tasks cap capz sparse (stage_tasks g) (init_st adr0 rnz0).

Definition row_sorted (s : st) (w : wrow) : Prop :=
  pos_class (s_ne s) (s_nf s) (s_nl s) (w_efcid w) = kind_of_type (w_type w).

(* the row stored at index i (the last store wins) *)
Definition row_at (s : st) (i : Z) : option wrow := find (fun w => w_efcid w =? i) (rev (s_rows s)).

(* ------------------------------------------------------------------------------------------ *)
(* contact.efc_address                                                                        *)
(* ------------------------------------------------------------------------------------------ *)
(* one store `contact_efc_address_out[conid, dim] = value`, with the block [base, base+ndim)
   that the task's atomic_add reserved *)
Record astore := mkA { a_con : Z; a_dim : Z; a_val : Z; a_base : Z; a_ndim : Z }.

Definition addr_of (cap : Z) (b : builder) (q : req) (e : Z) : list astore :=
  if b_deferred b then
    map (fun i => mkA (q_id q) i
                  (if cmpb (b_cmp b) (if b_perrow b then e + i else e) (cap + b_off b) then -1 else e + i)
                  e (nrows b q))
        (zrange (nrows b q))
  else [].

(* the stores of a request list / task list, threaded through the allocator state exactly as
   Alloc.run_reqs / run_tasks thread it (the stores precede the non-zero guard of the kernel) *)
Fixpoint reqs_addr (cap capz : Z) (sparse : bool) (b : builder) (qs : list req) (s : st) : list astore :=
  match qs with
  | [] => []
  | q :: qs' =>
      let ef := alloc_effect cap capz sparse b q (s_n s) (s_z s) in
      addr_of cap b q (s_n s) ++
      (if e_cont ef then reqs_addr cap capz sparse b qs' (apply_effect b q ef s) else [])
  end.
Fixpoint tasks_addr (cap capz : Z) (sparse : bool) (ts : list task) (s : st) : list astore :=
  match ts with
  | [] => []
  | t :: ts' => reqs_addr cap capz sparse (t_b t) (t_reqs t) s ++
                tasks_addr cap capz sparse ts' (run_task cap capz sparse s t)
  end.

(* final content of contact.efc_address[c, k]: -1 from write_contact unless stored *)
Definition addr_get (l : list astore) (c k : Z) : Z :=
  match find (fun a => (a_con a =? c) && (a_dim a =? k)) (rev l) with
  | Some a => a_val a
  | None => -1
  end.

(* flat views used by the correspondence cases *)
Definition addr_view (l : list astore) (cons : list Z) (nmax : Z) : list Z :=
  flat_map (fun c => map (addr_get l c) (zrange nmax)) cons.
Definition layout_view (cap : Z) (sentinel : Z) (s : st) : list Z :=
  [s_n s; s_ne s; s_nf s; s_nl s] ++ row_types cap sentinel s ++ row_ids cap sentinel s.

(* ------------------------------------------------------------------------------------------ *)
(* launch order of make_constraint, read off the regenerated host program                     *)
(* ------------------------------------------------------------------------------------------ *)
(* launches of a statement list in program order (then-branch before else-branch).  Every run of
   the function executes a SUBSEQUENCE of this list as long as there is no loop / call that
   launches (both are reported by a marker that [launch_order_ok] rejects). *)
Fixpoint stmt_launches (s : stmt) : list (string * (list string * list string)) :=
  let all := (fix all (l : list stmt) : list (string * (list string * list string)) :=
                match l with nil => nil | x :: r => stmt_launches x ++ all r end) in
  match s with
  | Launch k _ i o => [(k, (i, o))]
  | If _ t e => all t ++ all e
  | Loop _ b => ("<loop>"%string, ([], [])) :: all b
  | Call f _ _ => [(("<call>" ++ f)%string, ([], []))]
  | _ => []
  end.

Definition mc_name : string := "constraint.make_constraint".
Definition mc_launches : list (string * (list string * list string)) :=
  match lookup_fn program mc_name with
  | Some g => flat_map stmt_launches (body g)
  | None => [("<missing>"%string, ([], []))]
  end.

Definition qual (n : string) : string := ("constraint." ++ n)%string.
Definition builder_of_launch (k : string) : option builder :=
  find (fun b => String.eqb (qual (b_name b)) k) row_builders.
Definition is_marker (k : string) : bool := String.prefix "<" k.

(* classes of the allocating launches, in program order *)
Definition launch_classes : list Z :=
  flat_map (fun l => match builder_of_launch (fst l) with Some b => [class_of b] | None => [] end) mc_launches.
Fixpoint nondecreasing (l : list Z) : bool :=
  match l with
  | a :: ((b :: _) as r) => (a <=? b) && nondecreasing r
  | _ => true
  end.

Definition counter_field (c : Z) : string :=
  if c =? 0 then "d.ne" else if c =? 1 then "d.nf" else if c =? 2 then "d.nl" else "".
Definition typed_counters : list string := ["d.ne"; "d.nf"; "d.nl"]%string.

(* a launch that declares d.nefc / d.ne / d.nf / d.nl as OUTPUT is a row builder, bumps exactly
   the typed counter of its class, and is launched with d.nefc as output *)
Definition counters_ok (l : string * (list string * list string)) : bool :=
  let outs := snd (snd l) in
  match builder_of_launch (fst l) with
  | Some b =>
      mem "d.nefc" outs &&
      forallb (fun f => Bool.eqb (mem f outs) (String.eqb f (counter_field (class_of b)))) typed_counters
  | None => negb (mem "d.nefc" outs) && forallb (fun f => negb (mem f outs)) typed_counters
  end.

Definition count_launch (k : string) : nat :=
  List.length (filter (fun l => String.eqb (fst l) k) mc_launches).

(* the kernels that declare contact.efc_address as output are the extracted writers, of class 3 *)
Definition addr_ok (l : string * (list string * list string)) : bool :=
  let outs := snd (snd l) in
  if mem "d.contact.efc_address" outs then
    existsb (fun w => String.eqb (qual w) (fst l)) efc_address_writers &&
    match builder_of_launch (fst l) with Some b => (class_of b =? 3) && b_deferred b | None => false end
  else true.

(* the ConstraintType constants a builder passes to _efc_row belong to its class; the contact rows
   are typed by _efc_contact_update[_flex], all of whose constants are contact types *)
Definition types_of (n : string) : list Z :=
  match find (fun p => String.eqb (fst p) n) efc_row_types with Some p => snd p | None => [] end.
Definition builder_types_ok (b : builder) : bool :=
  if class_of b =? 3 then true
  else negb (match types_of (b_name b) with [] => true | _ => false end) &&
       forallb (fun t => kind_of_type t =? class_of b) (types_of (b_name b)).
Definition contact_types_ok : bool :=
  forallb (fun p => if String.prefix "_efc_contact_update" (fst p)
                    then forallb (fun t => kind_of_type t =? 3) (snd p) else true) efc_row_types
  && existsb (fun p => String.prefix "_efc_contact_update" (fst p)) efc_row_types.
Definition enum_ok : bool :=
  forallb (fun p => kind_of_type (snd p) =?
             (if String.prefix "EQUALITY" (fst p) then 0 else if String.prefix "FRICTION" (fst p) then 1
              else if String.prefix "LIMIT" (fst p) then 2 else 3)) constraint_type_enum
  && forallb (fun p => (0 <=? snd p) && (snd p <=? 7)) constraint_type_enum.

Definition first_is_zero_counts : bool :=
  match mc_launches with
  | (k, (i, _)) :: _ => String.eqb k (qual "_zero_constraint_counts") &&
                        forallb (fun f => mem f i) ["d.ne"; "d.nf"; "d.nl"; "d.nefc"; "efc_nnz"]%string
  | [] => false
  end.

Definition launch_order_ok : bool :=
  negb (existsb (fun l => is_marker (fst l)) mc_launches) &&
  first_is_zero_counts &&
  nondecreasing launch_classes &&
  forallb counters_ok (tl mc_launches) &&
  forallb (fun b => Nat.eqb (count_launch (qual (b_name b))) 1) row_builders &&
  forallb addr_ok mc_launches &&
  forallb builder_types_ok row_builders && contact_types_ok && enum_ok.

(* ------------------------------------------------------------------------------------------ *)
(* closed forms of MuJoCo's solver-parameter documentation (modeling.html#solver-parameters)   *)
(* that the translated _efc_row (Gen/constraint_funcs.v) is compared with, over the reals       *)
(* ------------------------------------------------------------------------------------------ *)
Local Open Scope R_scope.
Definition MINIMP : R := 1 / 10000.
Definition MAXIMP : R := 9999 / 10000.
Definition MINVAL : R := 1 / 1000000000000000.

Definition refsafe_on (flags : Z) : bool := negb (Zneb (Z.land flags 4096) 0).
Definition tc_eff (flags : Z) (tc h : R) : R := if refsafe_on flags then Rmax tc (2 * h) else tc.
Definition imp_y_doc (mid p x : R) : R :=
  if Rlt_dec x mid then Rpower x p / Rpower mid (p - 1)
  else 1 - Rpower (1 - x) p / Rpower (1 - mid) (p - 1).
Definition imp_doc (dmin dmax width mid p r : R) : R :=
  dmin + imp_y_doc mid p (Rabs r / width) * (dmax - dmin).
Definition k_standard (dmax tc dr : R) : R := 1 / (dmax * dmax * tc * tc * dr * dr).
Definition b_standard (dmax tc : R) : R := 2 / (dmax * tc).
Definition k_direct (dmax s0 : R) : R := - s0 / (dmax * dmax).
Definition b_direct (dmax s1 : R) : R := - s1 / dmax.
Definition row_doc (k b imp invweight pos_aref margin vel fl : R) (type id : Z) : R * R * R * R * R * R * Z * Z :=
  (1 / Rmax (invweight * (1 - imp) / imp) MINVAL, vel, - k * imp * pos_aref - b * vel,
   pos_aref + margin, margin, fl, type, id).
Definition clampR (x lo hi : R) : R := Rmin (Rmax x lo) hi.

(* mixed solref format: one entry positive, the other not; MuJoCo C (getsolparam) and, since commit
   56e7974, the code replace such a pair by the default (0.02, 1) *)
Definition mixed_solref (s0 s1 : R) : Prop := (0 < s0 /\ s1 <= 0) \/ (s0 <= 0 /\ 0 < s1).
Definition eff_ref0 (s0 s1 : R) : R :=
  if Rlt_dec 0 s0 then (if Rle_dec s1 0 then 1 / 50 else s0) else (if Rlt_dec 0 s1 then 1 / 50 else s0).
Definition eff_ref1 (s0 s1 : R) : R :=
  if Rlt_dec 0 s0 then (if Rle_dec s1 0 then 1 else s1) else (if Rlt_dec 0 s1 then 1 else s1).

(* what the CURRENT code computes, piecewise ([width] is the raw solimp[2]) *)
Definition k_code (flags : Z) (h s0 s1 dmax : R) : R :=
  let r0 := eff_ref0 s0 s1 in let r1 := eff_ref1 s0 s1 in
  if Rle_dec r0 0 then - r0 / (dmax * dmax)
  else 1 / (dmax * dmax * tc_eff flags r0 h * tc_eff flags r0 h * r1 * r1).
Definition b_code (flags : Z) (h s0 s1 dmax : R) : R :=
  let r0 := eff_ref0 s0 s1 in let r1 := eff_ref1 s0 s1 in
  if Rle_dec r1 0 then - r1 / dmax else 2 / (dmax * tc_eff flags r0 h).
Definition imp_code (dmin dmax width mid p r : R) : R :=
  if Rle_dec width MINVAL then 1 / 2 * (dmin + dmax)
  else
    let w := Rmax MINVAL width in
    if Rlt_dec 1 (Rabs r / w) then dmax
    else clampR (imp_doc dmin dmax w mid p r) (Rmin dmin dmax) (Rmax dmin dmax).

(* DOCUMENTATION ONLY: what `_efc_row` computed before commit 56e7974 (no mixed-solref default, width
   floored at MJ_MINVAL without the flat-function rule, wp.clamp(imp, dmin, dmax)); the three
   deviations from MuJoCo C found by this check are stated about these definitions in
   Proof/Assembly.v ([pre_fix_*]) and their witnesses are regression cases of bin/props/C05.py *)
Definition k_code_old (flags : Z) (h s0 s1 dmax : R) : R :=
  if Rle_dec s0 0 then - s0 / (dmax * dmax) else 1 / (dmax * dmax * tc_eff flags s0 h * tc_eff flags s0 h * s1 * s1).
Definition b_code_old (flags : Z) (h s0 s1 dmax : R) : R :=
  if Rle_dec s1 0 then - s1 / dmax else 2 / (dmax * tc_eff flags s0 h).
Definition imp_code_old (dmin dmax width mid p r : R) : R :=
  let x := Rabs r / width in
  if Rlt_dec 1 x then dmax else clampR (imp_doc dmin dmax width mid p r) dmin dmax.
