(* Model/Sleep.v -- executable model of the integer logic of
   /repo/mujoco_warp/_src/sleep.py (one world; worlds are independent because every
   kernel indexes its arrays by worldid).  Definitions only; proofs in Proof/Sleep.v.

   tree_asleep encoding (Data.tree_asleep[worldid, :], here a `list Z` of length ntree):
     ta[t] <  0 : tree t is awake, the value is a countdown (K_AWAKE = -(1+mjMINAWAKE)
                  = fully awake, -1 = may fall asleep at the next sleep() call);
     ta[t] >= 0 : tree t is asleep, the value is the next tree of its sleep cycle.

   A kernel launch is a fold of the per-task function over the task list; CPU Warp
   runs tasks in ascending tid order, a GPU in any order: a schedule is a
   Permutation of the task list.  (Interleavings *inside* a task are not modelled.)

   Floating point tests (_tree_can_sleep, _tendon_limit_active) enter as abstract
   booleans; the correspondence check computes them in float32 and runs the real
   functions on the same arrays.

   Array reads: every index into tree_asleep / tree_awake is guarded (>= 0) by the
   code, so [getZ] (plain nth) is exact there.  Reads of Model index arrays that the
   code does not guard use [getW], which copies Warp's wrap of indices in [-n, 0). *)
From Coq Require Import ZArith List Bool.
Import ListNotations.
Local Open Scope Z_scope.

(* ---------- arrays -------------------------------------------------------------- *)
Definition zlen {A} (l : list A) : Z := Z.of_nat (length l).
Definition getZ (l : list Z) (i : Z) : Z := nth (Z.to_nat i) l 0.
Fixpoint set_nth (l : list Z) (k : nat) (v : Z) : list Z :=
  match l, k with
  | [], _ => []
  | _ :: r, O => v :: r
  | x :: r, S k' => x :: set_nth r k' v
  end.
Definition setZ (l : list Z) (i v : Z) : list Z := set_nth l (Z.to_nat i) v.
Definition getW (l : list Z) (i : Z) : Z := if i <? 0 then getZ l (i + zlen l) else getZ l i.
Definition getB (l : list bool) (i : Z) : bool := nth (Z.to_nat i) l false.
(* [0; 1; ...; n-1] : `for t in range(n)` *)
Definition zrange (n : Z) : list Z := map Z.of_nat (seq 0 (Z.to_nat n)).
Definition zrange_from (a n : Z) : list Z := map (fun k => a + k) (zrange n).

(* K_AWAKE_VAL = -(1 + types.MJ_MINAWAKE); the check asserts sleep.K_AWAKE_VAL == -11 *)
Definition K_AWAKE : Z := -11.

(* enums copied from types.py; the check compares them with the live enums *)
Definition S_STATIC : Z := -1.
Definition S_ASLEEP : Z := 0.
Definition S_AWAKE : Z := 1.
Definition WRAP_JOINT : Z := 1.
Definition WRAP_SITE : Z := 3.
Definition WRAP_SPHERE : Z := 4.
Definition WRAP_CYLINDER : Z := 5.
Definition EQ_CONNECT : Z := 0.
Definition EQ_WELD : Z := 1.
Definition EQ_JOINT : Z := 2.
Definition EQ_TENDON : Z := 3.
Definition OBJ_BODY : Z := 1.
Definition POLICY_AUTO_NEVER : Z := 1.

(* ---------- _sleep_cycle -------------------------------------------------------- *)
(* the `for step in range(ntree + 1)` loop with its two exits *)
Fixpoint sleep_cycle_loop (fuel : nat) (ta : list Z) (n treeid smallest current : Z) : Z :=
  match fuel with
  | O => smallest
  | S f =>
      let next := getZ ta current in
      if (next <? 0) || (next >=? n) then -1
      else
        let smallest' := if next <? smallest then next else smallest in
        if next =? treeid then smallest'
        else sleep_cycle_loop f ta n treeid smallest' next
  end.

Definition sleep_cycle (ta : list Z) (treeid : Z) : Z :=
  let n := zlen ta in
  if (treeid <? 0) || (treeid >=? n) then -1
  else sleep_cycle_loop (S (Z.to_nat n)) ta n treeid treeid treeid.

(* ---------- _wake_tree ---------------------------------------------------------- *)
Fixpoint wake_loop (fuel : nat) (ta : list Z) (n treeid w current : Z) : list Z :=
  match fuel with
  | O => ta
  | S f =>
      let next := getZ ta current in
      if (next <? 0) || (next >=? n) then ta
      else
        let ta' := setZ ta current w in
        if next =? treeid then ta' else wake_loop f ta' n treeid w next
  end.

(* same loop, also returning nwoke *)
Fixpoint wake_loop_full (fuel : nat) (ta : list Z) (n treeid w current nwoke : Z) : list Z * Z :=
  match fuel with
  | O => (ta, nwoke)
  | S f =>
      let next := getZ ta current in
      if (next <? 0) || (next >=? n) then (ta, nwoke)
      else
        let ta' := setZ ta current w in
        if next =? treeid then (ta', nwoke + 1)
        else wake_loop_full f ta' n treeid w next (nwoke + 1)
  end.

Definition wake_tree (ta : list Z) (treeid w : Z) : list Z :=
  let n := zlen ta in
  if (treeid <? 0) || (treeid >=? n) then ta
  else
    let a := getZ ta treeid in
    if a <? 0 then (if w <? a then setZ ta treeid w else ta)
    else wake_loop (S (Z.to_nat n)) ta n treeid w treeid.

(* (tree_asleep_out afterwards, returned nwoke) *)
Definition wake_tree_full (ta : list Z) (treeid w : Z) : list Z * Z :=
  let n := zlen ta in
  if (treeid <? 0) || (treeid >=? n) then (ta, 0)
  else
    let a := getZ ta treeid in
    if a <? 0 then ((if w <? a then setZ ta treeid w else ta), 0)
    else wake_loop_full (S (Z.to_nat n)) ta n treeid w treeid 0.

(* ---------- _tree_can_sleep (float tests abstracted) ------------------------------ *)
(* policy: tree_sleep_policy[treeid]; xfrc_nz: some xfrc_applied component of a body of
   the tree is != 0; qfrc_nz: some qfrc_applied of the tree's dofs is != 0;
   vel_ok: every dof passes the velocity test for the given tolerance *)
Definition tree_can_sleep (policy : Z) (xfrc_nz qfrc_nz vel_ok : bool) : bool :=
  if policy =? POLICY_AUTO_NEVER then false
  else if xfrc_nz then false
  else if qfrc_nz then false
  else vel_ok.

(* ---------- _wake_kernel (task = treeid) ----------------------------------------- *)
(* can0[t] = _tree_can_sleep(t, tolerance 0.0) *)
Definition wake_task (tree_awake : list Z) (can0 : list bool) (t : Z) (ta : list Z) : list Z :=
  if getZ ta t >=? 0 then
    if (getZ tree_awake t =? 1) || negb (getB can0 t) then wake_tree ta t K_AWAKE else ta
  else ta.

Definition wake_launch (tree_awake : list Z) (can0 : list bool) (tasks : list Z) (ta : list Z) : list Z :=
  fold_left (fun ta t => wake_task tree_awake can0 t ta) tasks ta.

(* ---------- _wake_collision_kernel (task = one active contact of this world) ------ *)
(* tree level: both geoms already mapped to their trees *)
Definition wake_collision_trees (tree_awake : list Z) (t1 t2 : Z) (ta : list Z) : list Z :=
  if (t1 <? 0) || (t2 <? 0) then ta
  else
    let a1 := getZ tree_awake t1 in
    let a2 := getZ tree_awake t2 in
    if (a1 =? 1) && (a2 =? 1) then ta
    else if (a1 =? 0) && (a2 =? 0) then ta
    else
      let sleeping := if a1 =? 1 then t2 else t1 in
      let w := if a1 =? 1 then getZ ta t1 else getZ ta t2 in
      wake_tree ta sleeping w.

Definition wake_collision_task (body_treeid geom_bodyid tree_awake : list Z)
    (con : Z * Z) (ta : list Z) : list Z :=
  let '(g1, g2) := con in
  if (g1 <? 0) || (g2 <? 0) then ta
  else wake_collision_trees tree_awake
         (getW body_treeid (getW geom_bodyid g1)) (getW body_treeid (getW geom_bodyid g2)) ta.

(* contacts: geom pairs of the contacts conid < nacon with contact.worldid = this world *)
Definition wake_collision_launch (body_treeid geom_bodyid tree_awake : list Z)
    (contacts : list (Z * Z)) (ta : list Z) : list Z :=
  fold_left (fun ta c => wake_collision_task body_treeid geom_bodyid tree_awake c ta) contacts ta.

Definition wake_collision_trees_launch (tree_awake : list Z) (pairs : list (Z * Z)) (ta : list Z) : list Z :=
  fold_left (fun ta c => wake_collision_trees tree_awake (fst c) (snd c) ta) pairs ta.

(* ---------- tendon wrap objects -> trees ------------------------------------------ *)
Record WrapModel := {
  body_treeid : list Z; jnt_bodyid : list Z; geom_bodyid : list Z; site_bodyid : list Z;
  tendon_adr : list Z; tendon_num : list Z; wrap_type : list Z; wrap_objid : list Z }.

Definition wrap_tree (M : WrapModel) (idx : Z) : Z :=
  let ty := getW (wrap_type M) idx in
  let o := getW (wrap_objid M) idx in
  if ty =? WRAP_JOINT then getW (body_treeid M) (getW (jnt_bodyid M) o)
  else if ty =? WRAP_SITE then getW (body_treeid M) (getW (site_bodyid M) o)
  else if (ty =? WRAP_SPHERE) || (ty =? WRAP_CYLINDER) then getW (body_treeid M) (getW (geom_bodyid M) o)
  else -1.

(* the `t` values met by `for i in range(num)` of tendon tenid, in order *)
Definition tendon_trees (M : WrapModel) (tenid : Z) : list Z :=
  map (wrap_tree M) (zrange_from (getW (tendon_adr M) tenid) (getW (tendon_num M) tenid)).

(* ---------- _tendon_limit_active (float tests abstracted) -------------------------- *)
Definition tendon_limit_active (limited : Z) (low_lt high_lt : bool) : bool :=
  if limited =? 0 then false else if low_lt then true else if high_lt then true else false.

(* ---------- _wake_tendon_kernel (task = tenid) ------------------------------------- *)
(* pass 1: (any_awake, wakeval) over the tendon's trees *)
Definition tendon_pass1 (tree_awake ta : list Z) (trees : list Z) : bool * Z :=
  fold_left (fun (s : bool * Z) t =>
               if t >=? 0 then
                 if getZ tree_awake t =? 1 then
                   (true, let v := getZ ta t in if v <? snd s then v else snd s)
                 else s
               else s) trees (false, K_AWAKE).

(* pass 2 / _wake_tendon_trees: wake every tree of the tendon that tree_awake_in says is asleep *)
Definition wake_tendon_trees (tree_awake : list Z) (trees : list Z) (w : Z) (ta : list Z) : list Z :=
  fold_left (fun ta t =>
               if t >=? 0 then (if getZ tree_awake t =? 0 then wake_tree ta t w else ta) else ta)
            trees ta.

Definition wake_tendon_trees_task (tree_awake : list Z) (trees : list Z) (active : bool) (ta : list Z) : list Z :=
  let p := tendon_pass1 tree_awake ta trees in
  if fst p then (if active then wake_tendon_trees tree_awake trees (snd p) ta else ta) else ta.

(* active[tenid] = _tendon_limit_active(tenid) *)
Definition wake_tendon_task (M : WrapModel) (tree_awake : list Z) (active : list bool)
    (tenid : Z) (ta : list Z) : list Z :=
  wake_tendon_trees_task tree_awake (tendon_trees M tenid) (getB active tenid) ta.

Definition wake_tendon_launch (M : WrapModel) (tree_awake : list Z) (active : list bool)
    (tasks : list Z) (ta : list Z) : list Z :=
  fold_left (fun ta t => wake_tendon_task M tree_awake active t ta) tasks ta.

(* ---------- _wake_equality_kernel (task = eqid) ------------------------------------ *)
(* _tendon_wake_val on the tendon's trees (0 when none is awake) *)
Definition tendon_wake_val (tree_awake ta : list Z) (trees : list Z) : Z :=
  fold_left (fun w t =>
               if t >=? 0 then
                 if getZ tree_awake t =? 1 then
                   (let v := getZ ta t in if (w =? 0) || (v <? w) then v else w)
                 else w
               else w) trees 0.

(* CONNECT / WELD / JOINT branch after the two trees have been looked up *)
Definition wake_eq_pair (tree_awake : list Z) (t1 t2 : Z) (ta : list Z) : list Z :=
  let s1 := if t1 >=? 0 then getZ tree_awake t1 else S_STATIC in
  let s2 := if t2 >=? 0 then getZ tree_awake t2 else S_STATIC in
  if negb (s1 =? S_ASLEEP) && negb (s2 =? S_ASLEEP) then ta
  else if (s1 =? S_STATIC) || (s2 =? S_STATIC) then ta
  else if t1 =? t2 then ta
  else if (s1 =? S_ASLEEP) && (s2 =? S_ASLEEP) then
    (if sleep_cycle ta t1 =? sleep_cycle ta t2 then ta
     else wake_tree (wake_tree ta t1 K_AWAKE) t2 K_AWAKE)
  else wake_tree ta (if s1 =? S_ASLEEP then t1 else t2) K_AWAKE.

(* TENDON branch: trees1/trees2 = trees of the two tendons ([] for tenid < 0) *)
Definition wake_eq_tendon (tree_awake : list Z) (trees1 trees2 : list Z) (ta : list Z) : list Z :=
  let w1 := tendon_wake_val tree_awake ta trees1 in
  let w2 := tendon_wake_val tree_awake ta trees2 in
  if (w1 <? 0) || (w2 <? 0) then
    let w := K_AWAKE in
    let w := if (w1 <? 0) && (w1 <? w) then w1 else w in
    let w := if (w2 <? 0) && (w2 <? w) then w2 else w in
    wake_tendon_trees tree_awake trees2 w (wake_tendon_trees tree_awake trees1 w ta)
  else ta.

Record EqModel := {
  eq_type : list Z; eq_obj1id : list Z; eq_obj2id : list Z; eq_objtype : list Z }.

(* the two trees of a CONNECT / WELD / JOINT equality *)
Definition eq_pair_trees (M : WrapModel) (E : EqModel) (eqid : Z) : Z * Z :=
  let ty := getZ (eq_type E) eqid in
  let id1 := getZ (eq_obj1id E) eqid in
  let id2 := getZ (eq_obj2id E) eqid in
  if (ty =? EQ_CONNECT) || (ty =? EQ_WELD) then
    (if getZ (eq_objtype E) eqid =? OBJ_BODY
     then (getW (body_treeid M) id1, getW (body_treeid M) id2)
     else (getW (body_treeid M) (getW (site_bodyid M) id1),
           getW (body_treeid M) (getW (site_bodyid M) id2)))
  else
    ((if id1 >=? 0 then getW (body_treeid M) (getW (jnt_bodyid M) id1) else -1),
     (if id2 >=? 0 then getW (body_treeid M) (getW (jnt_bodyid M) id2) else -1)).

Definition wake_equality_task (M : WrapModel) (E : EqModel) (eq_active : list bool)
    (tree_awake : list Z) (eqid : Z) (ta : list Z) : list Z :=
  if negb (getB eq_active eqid) then ta
  else
    let ty := getZ (eq_type E) eqid in
    let id1 := getZ (eq_obj1id E) eqid in
    let id2 := getZ (eq_obj2id E) eqid in
    if (ty =? EQ_CONNECT) || (ty =? EQ_WELD) || (ty =? EQ_JOINT) then
      wake_eq_pair tree_awake (fst (eq_pair_trees M E eqid)) (snd (eq_pair_trees M E eqid)) ta
    else if ty =? EQ_TENDON then
      wake_eq_tendon tree_awake
        (if id1 <? 0 then [] else tendon_trees M id1)
        (if id2 <? 0 then [] else tendon_trees M id2) ta
    else ta.

Definition wake_equality_launch (M : WrapModel) (E : EqModel) (eq_active : list bool)
    (tree_awake : list Z) (tasks : list Z) (ta : list Z) : list Z :=
  fold_left (fun ta e => wake_equality_task M E eq_active tree_awake e ta) tasks ta.

(* ---------- sleep(): _sweep_awake_trees, _check_island_can_sleep, _build_cycles ---- *)
(* can[t] = _tree_can_sleep(t, opt.sleep_tolerance) *)
Definition sweep_task (can : list bool) (t : Z) (ta : list Z) : list Z :=
  let a := getZ ta t in
  if a >=? 0 then ta
  else if getB can t then (if a <? -1 then setZ ta t (a + 1) else ta)
  else setZ ta t K_AWAKE.

Definition sweep_launch (can : list bool) (tasks : list Z) (ta : list Z) : list Z :=
  fold_left (fun ta t => sweep_task can t ta) tasks ta.

(* island_can_sleep starts as wp.ones((nworld, ntree)); atomic_min(.., 0) for every tree of the island
   whose value is not exactly -1 (not ready yet, or already asleep) *)
Definition check_island_task (nisland : Z) (tree_island ta : list Z) (t : Z) (ics : list Z) : list Z :=
  let i := getZ tree_island t in
  if (i >=? 0) && (i <? nisland) then
    (if negb (getZ ta t =? -1) then setZ ics i (Z.min (getZ ics i) 0) else ics)
  else ics.

Definition check_island_launch (nisland : Z) (tree_island ta : list Z) (tasks : list Z) (ics : list Z) : list Z :=
  fold_left (fun ics t => check_island_task nisland tree_island ta t ics) tasks ics.

Definition ones (n : Z) : list Z := map (fun _ => 1) (zrange n).

(* inner `for t in range(ntree)` of _build_cycles for one island: state (first, prev, ta) *)
Definition build_island_step (tree_island : list Z) (island_id : Z)
    (s : Z * Z * list Z) (t : Z) : Z * Z * list Z :=
  let '(first, prev, ta) := s in
  if getZ tree_island t =? island_id then
    ((if first =? -1 then t else first), t, (if negb (prev =? -1) then setZ ta prev t else ta))
  else s.

Definition build_island (n : Z) (tree_island : list Z) (island_id : Z) (ta : list Z) : list Z :=
  let '(first, prev, ta') :=
    fold_left (build_island_step tree_island island_id) (zrange n) (-1, -1, ta) in
  if negb (first =? -1) then setZ ta' prev first else ta'.

Definition build_unconstrained_step (nisland : Z) (tree_island : list Z) (ta : list Z) (t : Z) : list Z :=
  let i := getZ tree_island t in
  if (i <? 0) || (i >=? nisland) then (if getZ ta t =? -1 then setZ ta t t else ta) else ta.

(* _build_cycles (one task per world: sequential) *)
Definition build_cycles (nisland : Z) (tree_island ics : list Z) (ta : list Z) : list Z :=
  let n := zlen ta in
  let ta1 := fold_left (fun ta i => if getZ ics i =? 1 then build_island n tree_island i ta else ta)
                       (zrange nisland) ta in
  fold_left (build_unconstrained_step nisland tree_island) (zrange n) ta1.

(* trees whose dofs get qvel = qacc = 0 written by _build_cycles, given its OUTPUT ta' *)
Definition build_cycles_zeroed (nisland : Z) (tree_island ics : list Z) (ta' : list Z) : list Z :=
  filter (fun t =>
            let i := getZ tree_island t in
            if (i <? 0) || (i >=? nisland) then getZ ta' t >=? 0
            else getZ ics i =? 1) (zrange (zlen ta')).

(* sleep(m, d) on tree_asleep: the three launches in order *)
Definition sleep_step (can : list bool) (nisland : Z) (tree_island : list Z) (ta : list Z) : list Z :=
  let n := zlen ta in
  let ta1 := sweep_launch can (zrange n) ta in
  let ics := check_island_launch nisland tree_island ta1 (zrange n) (ones n) in
  build_cycles nisland tree_island ics ta1.

(* ---------- update_sleep ---------------------------------------------------------- *)
(* _update_sleep_trees: (ntree_awake, tree_awake) *)
Definition update_trees_task (ta : list Z) (t : Z) (s : Z * list Z) : Z * list Z :=
  let a := if getZ ta t <? 0 then 1 else 0 in
  ((if a =? 1 then fst s + 1 else fst s), setZ (snd s) t a).

Definition update_trees_launch (ta : list Z) (tasks : list Z) (s : Z * list Z) : Z * list Z :=
  fold_left (fun s t => update_trees_task ta t s) tasks s.

(* _update_sleep_bodies: (nbody_awake, body_awake, body_awake_ind) *)
Definition body_state (body_rootid body_mocapid body_treeid tree_awake : list Z) (flg_staticawake : Z) (b : Z) : Z :=
  let tree := getZ body_treeid b in
  if tree <? 0 then
    (if getW body_mocapid (getW body_rootid b) >=? 0 then S_AWAKE
     else if negb (flg_staticawake =? 0) then S_AWAKE else S_STATIC)
  else if getZ tree_awake tree =? 1 then S_AWAKE else S_ASLEEP.

Definition update_bodies_task (body_rootid body_mocapid body_treeid tree_awake : list Z) (flg : Z)
    (b : Z) (s : Z * list Z * list Z) : Z * list Z * list Z :=
  let '(cnt, body_awake, ind) := s in
  let st := body_state body_rootid body_mocapid body_treeid tree_awake flg b in
  if negb (st =? S_ASLEEP) then (cnt + 1, setZ body_awake b st, setZ ind cnt b)
  else (cnt, setZ body_awake b st, ind).

Definition update_bodies_launch (body_rootid body_mocapid body_treeid tree_awake : list Z) (flg : Z)
    (tasks : list Z) (s : Z * list Z * list Z) : Z * list Z * list Z :=
  fold_left (fun s b => update_bodies_task body_rootid body_mocapid body_treeid tree_awake flg b s) tasks s.

(* _update_sleep_dofs: (nv_awake, dof_awake_ind) *)
Definition update_dofs_task (body_treeid dof_bodyid body_awake : list Z) (dof : Z) (s : Z * list Z) : Z * list Z :=
  let b := getZ dof_bodyid dof in
  if (getZ body_treeid b >=? 0) && (getZ body_awake b =? S_AWAKE)
  then (fst s + 1, setZ (snd s) (fst s) dof) else s.

Definition update_dofs_launch (body_treeid dof_bodyid body_awake : list Z) (tasks : list Z) (s : Z * list Z) : Z * list Z :=
  fold_left (fun s d => update_dofs_task body_treeid dof_bodyid body_awake d s) tasks s.

(* flatten results for the correspondence check *)
Definition flat2 (s : Z * list Z) : list Z := fst s :: snd s.
Definition flat3 (s : Z * list Z * list Z) : list Z := let '(c, a, i) := s in c :: a ++ i.
Definition b2z (b : bool) : Z := if b then 1 else 0.
