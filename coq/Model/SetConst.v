(* Model/SetConst.v -- definitions for C33 "set_const recomputes derived model fields correctly".
   Definitions only; proofs in Proof/SetConst.v.

   The 22 kernels of /repo/mujoco_warp/_src/set_const.py are NOT hand-modelled: the theorems
   are about Gen/T_set_const.v (regenerated from the source on every run).  What is written
   by hand here is only
   1. the launch-site glue of set_const_fixed (which Model field each kernel parameter is
      bound to, the launch grids, Base/Kernel.v's sequential launch over a heap of reals);
   2. the vocabulary of the batched-output statements (leading index of the writes of a task,
      row-in-bounds test); the launch dimensions themselves are compared with the rows the
      kernels write by the S-check of bin/props/C33.py on the extracted launch list;
   3. an abstract interpreter over the flattened host stage sequence (Model/Pipeline.v events)
      that tracks which field currently holds the INITIAL value of which field, used for the
      restore-state frame lemma. *)
From Coq Require Import ZArith Reals List Bool String.
From VF Require Import Base.Scalar Base.ScalarR Base.Vec Base.Loop Base.Kernel.
From VF Require Import Gen.T_set_const Gen.Skel_pipeline Model.Dyn Model.Pipeline.
Import ListNotations.
Local Open Scope Z_scope.

(* ================= 1. set_const_fixed over Base/Kernel.v's launch semantics ============== *)
Definition heapR := @heap R.
Definition hgetR (h : heapR) (a : string) (idx : list Z) : R :=
  match hget h (a, idx) with Some (VS x) => x | _ => 0%R end.
Definition launchR := @launch_seq R Rplus Rmin Rmax.

Definition SUBTREEMASS : string := "m.body_subtreemass".
(* wp.launch(_init_subtreemass, inputs=[m.body_mass], outputs=[m.body_subtreemass])
   wp.launch(_accumulate_subtreemass, inputs=[m.body_parentid, m.body_subtreemass, body_tree]) *)
Definition rn_fixed (s : string) : string :=
  if String.eqb s "body_subtreemass_out" then SUBTREEMASS
  else if String.eqb s "body_subtreemass_io" then SUBTREEMASS
  else s.

Definition fn_of_list (l : list Z) : Z -> Z := fun i => aget 0 l i.

Definition task := heapR -> (nat -> Z) -> list (write R).
(* one task (worldid, bodyid) of the _init_subtreemass launch; body_mass has Nm rows *)
Definition init_task (mass : Z -> Z -> R) (Nm Ns : Z) (t : Z * Z) : task :=
  fun h orc => k__init_subtreemass (fst t) (snd t) mass
                 (fun w b => hgetR h SUBTREEMASS [w; b]) orc Nm Ns.
(* one task (worldid, nodeid) of an _accumulate_subtreemass launch over the level [level] *)
Definition acc_ktask (parent level : list Z) (Ns : Z) (t : Z * Z) : task :=
  fun h orc => k__accumulate_subtreemass (fst t) (snd t) (fn_of_list parent)
                 (fun w b => hgetR h SUBTREEMASS [w; b]) (fn_of_list level) orc Ns.

(* launch grid dim=(n0, n1) *)
Definition grid (n0 n1 : nat) : list (Z * Z) := list_prod (zseq n0) (zseq n1).

(* set_const_fixed with an explicit execution order for every launch:
     nworld_subtreemass = m.body_subtreemass.shape[0]
     wp.launch(_init_subtreemass, dim=(nworld_subtreemass, m.nbody), ...)
     for i in reversed(range(len(m.body_tree))):
       wp.launch(_accumulate_subtreemass, dim=(nworld_subtreemass, body_tree.size), ...)      *)
Definition acc_launches (fuel : nat) (parent : list Z) (Ns : Z)
           (lv_scheds : list (list Z * list (Z * Z))) (h : heapR) : heapR :=
  fold_left (fun h ls => launchR rn_fixed fuel (map (acc_ktask parent (fst ls) Ns) (snd ls)) h)
            lv_scheds h.
Definition set_const_fixed_sched (fuel : nat) (mass : Z -> Z -> R) (parent : list Z) (Nm Ns : Z)
           (s_init : list (Z * Z)) (s_levels : list (list (Z * Z))) (h : heapR) : heapR :=
  let h1 := launchR rn_fixed fuel (map (init_task mass Nm Ns) s_init) h in
  acc_launches fuel parent Ns (combine (rev (body_tree parent)) s_levels) h1.

(* ================= 2. batched-output rows ================================================= *)
(* every write of a task goes to leading index [row] *)
Definition rows_are {S} (row : Z) (ws : list (write S)) : Prop :=
  Forall (fun w => nth 0 (w_idx w) (-1) = row) ws.
(* ... and, finer, per output array *)
Definition rows_of {S} (a : string) (row : Z) (ws : list (write S)) : Prop :=
  Forall (fun w => w_arr w = a -> nth 0 (w_idx w) (-1) = row) ws.

(* Launch-site discipline (C10 for set_const): with launch dimension dim0 in the world
   coordinate, the row a kernel writes must lie inside its output: for a kernel that writes
   row  tid0 rem shape0  this needs only shape0 > 0; for a kernel that writes row tid0 it
   needs dim0 <= shape0. *)
Definition row_in_bounds (row shape0 : Z) : bool := (0 <=? row) && (row <? shape0).

(* 3x3 row-major matrix with orthonormal rows (a body frame xmat) *)
Definition orth3 (m : list R) : Prop :=
  match m with
  | [b0; b1; b2; b3; b4; b5; b6; b7; b8] =>
      (b0*b0 + b1*b1 + b2*b2 = 1 /\ b3*b3 + b4*b4 + b5*b5 = 1 /\ b6*b6 + b7*b7 + b8*b8 = 1 /\
       b0*b3 + b1*b4 + b2*b5 = 0 /\ b0*b6 + b1*b7 + b2*b8 = 0 /\ b3*b6 + b4*b7 + b5*b8 = 0)%R
  | _ => False
  end.

(* ================= 3. restore-state frame: abstract interpreter over events ============== *)
Local Open Scope string_scope.

(* "wp.clone(X)" -> Some X *)
Definition clone_src (x : string) : option string :=
  if String.prefix "wp.clone(" x
  then Some (substring 9 (String.length x - 10) x)
  else None.

(* which argument positions (in inputs ++ outputs) of a launch may be written, beyond the
   outputs: in-place kernels listed by name with the positions of the written inputs *)
Definition inplace_tab := list (string * list nat).
Fixpoint tab_get (t : inplace_tab) (k : string) : list nat :=
  match t with
  | nil => nil
  | (k', ps) :: r => if String.eqb k k' then ps else tab_get r k
  end.

Section Writes.
  Variable tab : inplace_tab.
  (* fields an event may write.  EAssign binds a (new) host name: that name is written. *)
  Fixpoint lw (e : event) : list string :=
    match e with
    | ELaunch k _ i o => app o (map (fun p => nth p i "") (tab_get tab k))
    | EZero f => [f]
    | EFill f _ => [f]
    | ECopy d _ => [d]
    | EGroup _ _ b => flat_map lw b
    | EExt _ a => a
    | EIf _ t el => app (flat_map lw t) (flat_map lw el)
    | ELoop _ b => flat_map lw b
    | EAssign n _ => [n]
    | ERaise _ => nil
    | EOther _ => nil
    end.
  Definition lws (l : list event) : list string := flat_map lw l.

  (* abstract state: [alias] f |-> g means "f holds the initial value of g"; a field not in
     [alias] holds its own initial value unless it is in [clob] (value unknown) *)
  Record astate := mkAS { alias : list (string * string); clob : list string }.
  Definition a0 : astate := mkAS nil nil.
  Definition aval (st : astate) (f : string) : option string :=
    match env_get (alias st) f with
    | Some g => Some g
    | None => if mem f (clob st) then None else Some f
    end.
  Definition drop_key (f : string) (al : list (string * string)) : list (string * string) :=
    filter (fun q => negb (String.eqb (fst q) f)) al.
  Definition uadd (f : string) (l : list string) : list string := if mem f l then l else f :: l.
  Definition uapp (a b : list string) : list string := fold_right uadd b a.
  Definition akill (st : astate) (f : string) : astate :=
    mkAS (drop_key f (alias st)) (uadd f (clob st)).
  Definition akills (st : astate) (fs : list string) : astate := fold_left akill fs st.
  Definition acopy (st : astate) (d s : string) : astate :=
    match aval st s with
    | Some g => mkAS ((d, g) :: drop_key d (alias st)) (clob st)
    | None => akill st d
    end.
  Definition opt_eqb (a b : option string) : bool :=
    match a, b with
    | Some x, Some y => String.eqb x y
    | None, None => true
    | _, _ => false
    end.
  (* join of the two branches of an undecided `if`: an alias entry survives when it is what
     BOTH branches say about that field *)
  Definition both_say (s1 s2 : astate) (q : string * string) : bool :=
    opt_eqb (aval s1 (fst q)) (Some (snd q)) && opt_eqb (aval s2 (fst q)) (Some (snd q)).
  Definition ajoin (s1 s2 : astate) : astate :=
    let a1 := filter (both_say s1 s2) (alias s1) in
    mkAS (app a1 (filter (fun q => both_say s1 s2 q && negb (mem (fst q) (map fst a1))) (alias s2)))
         (uapp (clob s1) (uapp (clob s2) (uapp (map fst (alias s1)) (map fst (alias s2))))).

  Fixpoint aev (e : event) (st : astate) {struct e} : astate :=
    let arun := (fix arun (l : list event) (st : astate) {struct l} : astate :=
                   match l with nil => st | x :: r => arun r (aev x st) end) in
    match e with
    | EIf _ t el => ajoin (arun t st) (arun el st)
    | EGroup _ _ b => arun b st
    | ECopy d s => acopy st d s
    | EAssign n x => match clone_src x with Some s => acopy st n s | None => akill st n end
    | ELoop _ _ => akills st (lw e)       (* zero or more iterations: everything the body may write is unknown *)
    | _ => akills st (lw e)
    end.
  Fixpoint arun (l : list event) (st : astate) : astate :=
    match l with nil => st | x :: r => arun r (aev x st) end.

  (* concrete semantics: any interpretation I of the primitive events; clone / copy are
     copies; `if` follows the valuation v *)
  Section Conc.
    Variable V : Type.
    Variable I : event -> store V -> store V.
    Variable v : string -> bool.
    Definition supd (s : store V) (f : string) (x : V) : store V :=
      fun g => if String.eqb g f then x else s g.
    Fixpoint cev (e : event) (s : store V) {struct e} : store V :=
      let crun := (fix crun (l : list event) (s : store V) {struct l} : store V :=
                     match l with nil => s | x :: r => crun r (cev x s) end) in
      match e with
      | EIf c t el => if v c then crun t s else crun el s
      | EGroup _ _ b => crun b s
      | ECopy d src => supd s d (s src)
      | EAssign n x => match clone_src x with Some src => supd s n (s src) | None => I e s end
      | _ => I e s
      end.
    Fixpoint crun (l : list event) (s : store V) : store V :=
      match l with nil => s | x :: r => crun r (cev x s) end.
    (* the only thing assumed of the primitive events: they leave alone what they are not
       allowed to write (launch: outputs + listed in-place inputs; loops: what the body writes) *)
    Definition frame_ok : Prop := forall e s f, ~ In f (lw e) -> I e s f = s f.
  End Conc.
End Writes.

(* ---- the concrete configuration: set_const as extracted from /repo --------------------- *)
Definition no_opaque (f : string) : bool := false.
Definition no_val : pval := fun _ => None.
Definition sc_fuel : nat := 4000.
(* set_const(m, d) with the default restore=True, and with restore=False *)
Definition sc_events : list event := flatten program no_opaque no_val sc_fuel "set_const.set_const" ["m"; "d"] [].
Definition sc_events_norestore : list event :=
  flatten program no_opaque no_val sc_fuel "set_const.set_const" ["m"; "d"] [("restore", "False")].
Definition sc0_events : list event := flatten program no_opaque no_val sc_fuel "set_const.set_const_0" ["m"; "d"] [].
Definition scspring_events : list event := flatten program no_opaque no_val sc_fuel "set_const.set_const_spring" ["m"; "d"] [].
Definition scfixed_events : list event := flatten program no_opaque no_val sc_fuel "set_const.set_const_fixed" ["m"; "d"] [].
(* the nine position-dependent stages set_const re-runs when restore is requested *)
Definition restore_stage_names : list string :=
  ["smooth.kinematics"; "smooth.com_pos"; "smooth.camlight"; "smooth.flex"; "smooth.tendon"; "smooth.crb";
   "smooth.tendon_armature"; "smooth.factor_m"; "smooth.transmission"].
Definition restore_events : list event :=
  flat_map (fun f => flatten program no_opaque no_val sc_fuel f ["m"; "d"] []) restore_stage_names.

(* kernels launched by set_const that write one of their `inputs=` arguments (position in
   inputs ++ outputs).  Checked against the kernel sources by bin/props/C33.py on every run
   (S: ast scan of stores / atomics per kernel parameter). *)
Definition sc_inplace : inplace_tab :=
  [("set_const._accumulate_subtreemass", [1%nat]);
   ("smooth._transmission", [29%nat])].   (* moment_nnz: a scratch counter passed as input *)

(* integration state (types.py State.INTEGRATION) as Data field names *)
Definition sc_state_fields : list string :=
  ["d.time"; "d.qpos"; "d.qvel"; "d.act"; "d.history"; "d.qacc_warmstart"; "d.ctrl";
   "d.qfrc_applied"; "d.xfrc_applied"; "d.eq_active"; "d.mocap_pos"; "d.mocap_quat"; "d.userdata"].

Definition restored (tab : inplace_tab) (evs : list event) (fields : list string) : bool :=
  let st := arun tab evs a0 in forallb (fun f => opt_eqb (aval st f) (Some f)) fields.

(* substring test *)
Fixpoint contains (sub s : string) : bool :=
  String.prefix sub s ||
  match s with
  | EmptyString => false
  | String _ r => contains sub r
  end.
(* no host-side aliasing (`x = d.qpos`) of a tracked field: every EAssign whose right-hand
   side mentions a tracked field is a wp.clone *)
Fixpoint assigns (e : event) : list (string * string) :=
  match e with
  | EAssign n x => [(n, x)]
  | EGroup _ _ b => flat_map assigns b
  | EIf _ t el => app (flat_map assigns t) (flat_map assigns el)
  | ELoop _ b => flat_map assigns b
  | _ => nil
  end.
Definition no_alias_of (fields : list string) (evs : list event) : bool :=
  forallb (fun q => match clone_src (snd q) with
                    | Some _ => true
                    | None => forallb (fun f => negb (contains f (snd q))) fields
                    end) (flat_map assigns evs).

(* Data fields ("d." prefix) *)
Definition is_data (f : string) : bool := String.prefix "d." f.
Fixpoint dedup (l : list string) : list string :=
  match l with nil => nil | x :: r => if mem x r then dedup r else x :: dedup r end.
(* Data fields the qpos0 / qpos_spring part of set_const leaves dirty (written while d.qpos
   held qpos0 or qpos_spring) that the final restore stages do NOT write again *)
Definition dirty_not_recomputed (tab : inplace_tab) : list string :=
  filter (fun f => is_data f && negb (String.eqb f "d.qpos") && negb (mem f (lws tab restore_events)))
         (dedup (lws tab sc_events_norestore)).
