(* Model/PipelineFacts.v -- concrete configurations over the REGENERATED host program
   (Gen/Skel_pipeline.v): the partial valuations of the Python conditions used by C37 and
   C12, the opaque-callee list, the split of the fused factor+solve group, the normaliser,
   the integration-state field list and the committed read-before-write baseline of C12.
   Definitions only; the facts about them are in Proof/Pipeline.v. *)
From Coq Require Import String List Bool Arith Ascii.
From VF Require Import Model.Pipeline Gen.Skel_pipeline.
Import ListNotations.
Local Open Scope string_scope.
Local Open Scope list_scope.

(* ---- State.INTEGRATION (types.py:State), as Data field names ------------------------ *)
Definition state_fields : list string :=
  ["d.time"; "d.qpos"; "d.qvel"; "d.act"; "d.history"; "d.qacc_warmstart"; "d.ctrl";
   "d.qfrc_applied"; "d.xfrc_applied"; "d.eq_active"; "d.mocap_pos"; "d.mocap_quat";
   "d.userdata"].

(* ---- partial valuations ---------------------------------------------------------------- *)
Definition pv_list (l : list (string * bool)) : pval :=
  fun c => match find (fun q => String.eqb (fst q) c) l with
           | Some q => Some (snd q)
           | None => None
           end.

(* sleep disabled: every host condition whose text mentions sleep *)
Definition sleep_off : list (string * bool) :=
  [("sleep_enabled", false); ("enable_sleep", false);
   ("sleep_enabled and m.ntendon > 0", false);
   ("m.opt.enableflags & types.EnableBit.SLEEP", false);
   ("m.opt.enableflags & types.EnableBit.SLEEP and (not m.opt.disableflags & types.DisableBit.ISLAND)", false)].

(* no user callbacks installed (arbitrary user Python has no footprint) *)
Definition callbacks_off : list (string * bool) :=
  [("m.callback.contactfilter", false); ("m.callback.sensor", false);
   ("m.callback.passive", false); ("m.callback.control", false);
   ("m.callback.act_dyn", false); ("m.callback.act_gain", false);
   ("m.callback.act_bias", false)].

Definition c_euler := "m.opt.integrator == IntegratorType.EULER".
Definition c_rk4 := "m.opt.integrator == IntegratorType.RK4".
Definition c_impl := "m.opt.integrator in (IntegratorType.IMPLICITFAST, IntegratorType.IMPLICIT)".

Definition cfg_common := sleep_off ++ callbacks_off.
Definition pv_common : pval := pv_list cfg_common.
Definition pv_euler : pval := pv_list (cfg_common ++ [(c_euler, true); (c_rk4, false); (c_impl, false)]).
Definition pv_implicit : pval := pv_list (cfg_common ++ [(c_euler, false); (c_rk4, false); (c_impl, true)]).
Definition pv_rk4 : pval := pv_list (cfg_common ++ [(c_euler, false); (c_rk4, true); (c_impl, false)]).

(* models without delay/interval history buffers (m.nhistory == 0) *)
Definition history_off : list (string * bool) :=
  [("m.nhistory == 0 or sensorid.shape[0] == 0", true); ("m.nhistory == 0 or m.nu == 0", true);
   ("m.nhistory == 0", true); ("m.nhistory > 0", false)].
Definition pv_common_nohist : pval := pv_list (cfg_common ++ history_off).

(* ---- flattening ---------------------------------------------------------------------- *)
Definition opaque_fs (f : string) : bool :=
  mem f ["smooth.factor_m"; "smooth.solve_m"; "smooth.factor_solve_i"].
Definition no_opaque (f : string) : bool := false.
Definition fuel : nat := 3000.

Definition events_of (pv : pval) (f : string) : list event :=
  flatten program opaque_fs pv fuel f ["m"; "d"] [].
Definition step_events (pv : pval) := events_of pv "forward.step".
Definition step1_events (pv : pval) := events_of pv "forward.step1".
Definition step2_events (pv : pval) := events_of pv "forward.step2".
Definition forward_events (pv : pval) := events_of pv "forward.forward".

(* ---- the fused factor+solve call of fwd_acceleration(factorize=True) and its split ------- *)
Definition fs_args : list string :=
  ["m"; "d"; "d.M"; "d.qLD"; "d.qLDiagInv"; "d.qacc_smooth"; "d.qfrc_smooth"].
Definition fm_args : list string := ["m"; "d"].
Definition sm_args : list string := ["m"; "d"; "d.qacc_smooth"; "d.qfrc_smooth"].
Definition group_of (pv : pval) (f : string) (args : list string) : event :=
  EGroup f args (flatten program opaque_fs pv fuel f args []).
Definition fs_event (pv : pval) : event := group_of pv "smooth.factor_solve_i" fs_args.
Definition fm_event (pv : pval) : event := group_of pv "smooth.factor_m" fm_args.
Definition sm_event (pv : pval) : event := group_of pv "smooth.solve_m" sm_args.
Definition fs_split (pv : pval) : list event := [fm_event pv; sm_event pv].

Definition expand_fs (pv : pval) (e : event) : list event :=
  if event_eqb e (fs_event pv) then fs_split pv else [e].

(* ---- normaliser --------------------------------------------------------------------- *)
Definition is_assign (e : event) : bool := match e with EAssign _ _ => true | _ => false end.
Definition drop_assign (l : list event) : list event := filter (fun e => negb (is_assign e)) l.
Definition norm (pv : pval) (l : list event) : list event :=
  float_left "smooth.factor_m" (flat_map (expand_fs pv) (drop_assign l)).

(* ---- guards computed on the regenerated program ----------------------------------------- *)
Fixpoint contains (sub s : string) : bool :=
  String.prefix sub s ||
  match s with
  | EmptyString => false
  | String _ r => contains sub r
  end.

(* all undecided conditions left in a flattened tree *)
Fixpoint conds (e : event) : list string :=
  match e with
  | EGroup _ _ b => flat_map conds b
  | EIf c t el => c :: flat_map conds t ++ flat_map conds el
  | ELoop _ b => flat_map conds b
  | _ => nil
  end.
Definition no_cond_mentions (subs : list string) (l : list event) : bool :=
  forallb (fun c => forallb (fun sub => negb (contains sub c)) subs) (flat_map conds l).

(* events strictly between the first group [a] and the first later group [b] *)
Fixpoint after_group (a : string) (l : list event) : list event :=
  match l with
  | nil => nil
  | e :: r => if is_group a e then r else after_group a r
  end.
Fixpoint before_group (b : string) (l : list event) : list event :=
  match l with
  | nil => nil
  | e :: r => if is_group b e then nil else e :: before_group b r
  end.
Definition crossed (l : list event) : list event :=
  before_group "smooth.solve_m" (after_group "smooth.factor_m" l).

(* Aliasing guard for the events the factorisation is moved across.  Field names are
   TEXT: a slice "d.qLD[:, k:]" or a local name bound to the factor would not be seen as
   overlapping "d.qLD" by [independent].  The guard demands that no crossed event mentions
   (outside the constant Model, "m.") any name containing "qLD", the whole structs "d"/"m",
   or the local names the factor is known under, and that none writes d.M. *)
Definition alias_safe_name (n : string) : bool :=
  String.prefix "m." n ||
  (negb (contains "qLD" n) && negb (mem n ["d"; "m"; "L"; "L_ldl"; "D"])).
Definition alias_safe (e : event) : bool :=
  forallb alias_safe_name (ev_reads e ++ ev_writes e) &&
  forallb (fun n => negb (String.eqb n "d.M") && negb (String.prefix "d.M[" n)) (ev_writes e).

(* launches whose output list the extractor could not resolve *)
Fixpoint unresolved (e : event) : list string :=
  match e with
  | ELaunch k _ i o => if mem "'?unresolved'" (i ++ o) then [k] else nil
  | EGroup _ _ b => flat_map unresolved b
  | EIf _ t el => flat_map unresolved t ++ flat_map unresolved el
  | ELoop _ b => flat_map unresolved b
  | _ => nil
  end.

(* external (non-program) callees that receive the whole Data struct *)
Fixpoint ext_with_d (e : event) : list string :=
  match e with
  | EExt f a => if mem "d" a then [f] else nil
  | EGroup _ _ b => flat_map ext_with_d b
  | EIf _ t el => flat_map ext_with_d t ++ flat_map ext_with_d el
  | ELoop _ b => flat_map ext_with_d b
  | _ => nil
  end.

(* kernels that have a given field among their outputs *)
Fixpoint writers (f : string) (e : event) : list string :=
  match e with
  | ELaunch k _ _ o => if mem f o then [k] else nil
  | EZero g => if String.eqb f g then ["zero_"] else nil
  | EFill g _ => if String.eqb f g then ["fill_"] else nil
  | ECopy g _ => if String.eqb f g then ["copy"] else nil
  | EExt g a => if mem f a then [g] else nil
  | EGroup _ _ b => flat_map (writers f) b
  | EIf _ t el => flat_map (writers f) t ++ flat_map (writers f) el
  | ELoop _ b => flat_map (writers f) b
  | _ => nil
  end.

Definition dedup (l : list string) : list string :=
  fold_left (fun acc x => if mem x acc then acc else acc ++ [x]) l nil.

Definition state_written (l : list event) : list string :=
  dedup (filter (fun f => mem f state_fields) (flat_map ev_writes l)).

(* ---- producer-before-consumer ordering inside a stage list ------------------------------
   [war l]: the Data fields that some event of l only READS (not among its own writes) and
   that a LATER event of the same list writes, computed for the list itself and,
   recursively, for every nested list (EIf branches, EGroup / ELoop bodies).  A field is
   absent from [war l] exactly when ALL its writers precede every pure reader.  The lists
   below are today's values; e.g. d.M is absent from war(step1): every launch that writes
   or accumulates into d.M (smooth._M of crb AND smooth._tendon_armature) precedes
   factor_m's read, so d.qLD left by step1 factorises the finished d.M. *)
Fixpoint war_list (l : list event) : list string :=
  match l with
  | nil => nil
  | e :: r =>
      let wr := flat_map ev_writes r in
      let pure := filter (fun f => negb (mem f (ev_writes e))) (ev_reads e) in
      filter (fun f => String.prefix "d." f && mem f wr) pure ++ war_list r
  end.
Fixpoint war_ev (e : event) : list string :=
  let go := (fix go (l : list event) : list string :=
               match l with nil => nil | x :: r => war_ev x ++ go r end) in
  match e with
  | EGroup _ _ b => war_list b ++ go b
  | EIf _ t el => war_list t ++ go t ++ war_list el ++ go el
  | ELoop _ b => war_list b ++ go b
  | _ => nil
  end.
Definition war (l : list event) : list string := dedup (war_list l ++ flat_map war_ev l).

(* fields legitimately rewritten after being read inside one call, per entry point:
   constraint counters and efc bookkeeping re-zeroed/re-counted by later kernels, d.cvel /
   d.cdof_dot (com_vel before make_constraint when neq > 0, again in fwd_velocity),
   sensordata/history (delayed sensors), and in step2 the integrator's state update *)
Definition war_step1 : list string :=
  ["d.ne"; "d.nf"; "d.nl"; "d.nefc"; "d.efc.jtdaj_nblock"; "d.cvel"; "d.cdof_dot";
   "d.subtree_linvel"; "d.naconmax"; "d.efc.id"; "d.sensordata"; "d.history"].
Definition war_step2 : list string :=
  ["d.time"; "d.history"; "d.act"; "d.qacc_warmstart"; "d.qvel"; "d.actuator_force"; "d.qacc";
   "d.efc.force"; "d.qfrc_constraint"; "d.efc.Ma"; "d.efc.state"; "d.sensordata"].
Definition war_forward : list string :=
  war_step1 ++ ["d.qacc"; "d.cacc"; "d.cfrc_ext"; "d.cfrc_int"; "d.actuator_force";
                "d.efc.force"; "d.qfrc_constraint"; "d.efc.Ma"; "d.efc.state"].
Definition war_unexplained (baseline : list string) (l : list event) : list string :=
  filter (fun f => negb (mem f baseline)) (war l).

(* ---- C12: def-before-use ------------------------------------------------------------------ *)
(* full writers visible at field granularity: zero_/fill_ destinations and the destination
   of a copy from a DIFFERENT array (Pipeline.full_basic without the self-copy case, for
   which "new value independent of the old one" would be false) *)
Definition full_nsc (e : event) : list string :=
  match e with
  | ECopy d s => if String.eqb d s then nil else [d]
  | _ => full_basic e
  end.

Definition data_live_in (pv : pval) : list string :=
  dedup (filter (String.prefix "d.") (live_in full_nsc (step_events pv) nil)).

(* The semantic hypothesis of C37 about the fused kernel family: under the interpretation
   I, the fused group factor_solve_i(m, d, d.M, d.qLD, d.qLDiagInv, d.qacc_smooth,
   d.qfrc_smooth) leaves the same store as factor_m(m, d) followed by
   solve_m(m, d, d.qacc_smooth, d.qfrc_smooth).  This is a NUMERICAL fact about the
   kernels (property C21); it is not provable in the stage language and is validated
   dynamically on the real code by bin/props/C37.py (factor_m; solve_m versus factor_solve_i
   on the same inputs). *)
Definition fused_eq_split (V : Type) (I : event -> store V -> store V) (v : string -> bool)
  (pv : pval) : Prop :=
  forall s, store_eq V (sem V I v (fs_event pv) s) (run V I v (fs_split pv) s).

(* the destination of a copy from a different array does not depend on its old contents *)
Definition copy_ok (V : Type) (I : event -> store V -> store V) : Prop :=
  forall d s0 s s', d <> s0 -> s s0 = s' s0 -> I (ECopy d s0) s d = I (ECopy d s0) s' d.

(* ---- C12 committed baseline ---------------------------------------------------------------
   Data fields that today's step() READS BEFORE IT HAS FULLY OVERWRITTEN THEM at FIELD
   granularity (live_in full_nsc over the flattened step, sleep disabled, no callbacks,
   Euler / implicit / RK4), other than the integration state.  At field granularity every
   kernel output counts as a read (a launch may write only part of an array and so keep old
   entries), so almost every work array is listed; the claim that none of them carries
   information from one step to the next is NOT proved here -- it is the region discipline
   described per class below, validated on the real code by bin/props/C12.py (every one of
   these arrays is overwritten with garbage / NaN before a step and the results compared
   bit-for-bit with a fresh Data).  What the static fact buys: a change of /repo that makes
   step() read a Data field outside this list before writing it breaks the obligation. *)

(* (a) allocation-size constants: host integers fixed by make_data, never written *)
Definition bl_alloc : list string :=
  ["d.nworld"; "d.naconmax"; "d.njmax"; "d.njmax_nnz"; "d.naccdmax"].

(* (b) sleep bookkeeping that kernels read even when sleep is disabled; make_data
   initialises it to "awake" and nothing writes it while sleep is disabled *)
Definition bl_sleep : list string := ["d.body_awake"; "d.tree_awake"].

(* (c) counters: re-zeroed by a kernel launch at the start of the stage that owns them
   (collision: nacon, ncollision; constraint._zero_constraint_counts: ne, nf, nl, nefc) *)
Definition bl_counters : list string :=
  ["d.nacon"; "d.ncollision"; "d.ne"; "d.nf"; "d.nl"; "d.nefc"].

(* (d) sticky diagnostic: OR-accumulated overflow bits, cleared only by reset_data; never
   read to take a decision *)
Definition bl_sticky : list string := ["d.overflow"].

(* (e) contact arrays: rows [0, nacon) rewritten by the narrowphase after nacon is zeroed *)
Definition bl_contact : list string :=
  ["d.contact.dist"; "d.contact.pos"; "d.contact.frame"; "d.contact.includemargin";
   "d.contact.friction"; "d.contact.solref"; "d.contact.solreffriction"; "d.contact.solimp";
   "d.contact.dim"; "d.contact.geom"; "d.contact.flex"; "d.contact.elem"; "d.contact.vert";
   "d.contact.efc_address"; "d.contact.worldid"; "d.contact.type";
   "d.contact.geomcollisionid"; "d.contact.adhesion"].

(* (f) constraint rows: rows [0, nefc) rewritten by constraint.make_constraint after the
   counters are zeroed; solver outputs per row *)
Definition bl_efc : list string :=
  ["d.efc.jtdaj_adr"; "d.efc.jtdaj_nrow"; "d.efc.jtdaj_nblock"; "d.efc.J_rownnz";
   "d.efc.J_rowadr"; "d.efc.J_colind"; "d.efc.J"; "d.efc.Jqvel"; "d.efc.type"; "d.efc.id";
   "d.efc.pos"; "d.efc.margin"; "d.efc.D"; "d.efc.vel"; "d.efc.aref"; "d.efc.frictionloss";
   "d.efc.force"; "d.efc.state"; "d.efc.Ma"].

(* (g) per-element outputs of the position / velocity / actuation / acceleration / solver
   stages: every element is recomputed each step from the state, but the writing kernel's
   output is a read at field granularity.  d.cvel / d.cdof_dot stay listed after the repair
   of finding C12:constraint:stale-cvel:connect-weld (fwd_position now calls smooth.com_vel
   before constraint.make_constraint when m.neq > 0): the writer is a kernel launch under
   an undecided condition, which this analysis cannot see as a full definition; the
   regression is held by the directed scenes of bin/props/C12.py and C37.py *)
Definition bl_stage_outputs : list string :=
  ["d.xpos"; "d.xquat"; "d.xmat"; "d.xipos"; "d.ximat"; "d.xanchor"; "d.xaxis";
   "d.geom_xpos"; "d.geom_xmat"; "d.site_xpos"; "d.site_xmat"; "d.cam_xpos"; "d.cam_xmat";
   "d.light_xpos"; "d.light_xdir"; "d.subtree_com"; "d.cinert"; "d.crb"; "d.cdof";
   "d.cdof_dot"; "d.cvel"; "d.cacc"; "d.cfrc_int"; "d.cfrc_ext";
   "d.flexvert_xpos"; "d.flexnode_xpos"; "d.flexedge_J"; "d.flexedge_length";
   "d.flexedge_velocity"; "d.flex_aabb_min"; "d.flex_aabb_max"; "d.face_xpos"; "d.face_quat";
   "d.ten_J"; "d.ten_length"; "d.ten_velocity"; "d.ten_wrapadr"; "d.ten_wrapnum";
   "d.wrap_obj"; "d.wrap_xpos";
   "d.actuator_length"; "d.actuator_moment"; "d.actuator_velocity"; "d.actuator_force";
   "d.moment_rownnz"; "d.moment_rowadr"; "d.moment_colind"; "d.act_dot";
   "d.qfrc_spring"; "d.qfrc_damper"; "d.qfrc_gravcomp"; "d.qfrc_fluid"; "d.qfrc_adhesion";
   "d.qfrc_passive"; "d.qfrc_bias"; "d.qfrc_actuator"; "d.qfrc_smooth"; "d.qfrc_constraint";
   "d.qacc_smooth"; "d.qacc"; "d.qLD"; "d.qLDiagInv"; "d.qLU";
   "d.subtree_linvel"; "d.subtree_angmom"; "d.energy"; "d.solver_niter"].

Definition assumed_region_defined : list string :=
  bl_alloc ++ bl_sleep ++ bl_counters ++ bl_sticky ++ bl_contact ++ bl_efc ++ bl_stage_outputs.

(* live-in Data fields that are neither integration state nor in the baseline *)
Definition unexplained_of (evs : list event) : list string :=
  filter (fun f => String.prefix "d." f && negb (mem f state_fields) &&
                   negb (mem f assumed_region_defined))
         (live_in full_nsc evs nil).

(* Data fields written by the step that are neither live-in nor fully defined (none today) *)
Definition uncovered_writes (pv : pval) : list string :=
  let evs := step_events pv in
  let li := dedup (filter (String.prefix "d.") (live_in full_nsc evs nil)) in
  let fu := dedup (flat_map full_nsc evs) in
  let wr := dedup (filter (String.prefix "d.") (flat_map ev_writes evs)) in
  filter (fun f => negb (mem f li) && negb (mem f fu)) wr.
