(* Base/KernelRd.v -- typed read-through helpers used by translated kernels. *)
From Coq Require Import ZArith String List Bool.
From VF Require Import Base.Scalar Base.Kernel.
Import ListNotations.

Section Rd.
  Context {S : Type} `{Scalar S}.
  Definition rdv := @rd_val S sadd smin smax.
  Definition rdS (ws : list (write S)) (a : string) (idx : list Z) (x : S) : S :=
    match rdv ws a idx (VS x) with VS y => y | _ => x end.
  Definition rdZ (ws : list (write S)) (a : string) (idx : list Z) (x : Z) : Z :=
    match rdv ws a idx (VZ x) with VZ y => y | VB b => if b then 1%Z else 0%Z | _ => x end.
  Definition rdB (ws : list (write S)) (a : string) (idx : list Z) (x : bool) : bool :=
    match rdv ws a idx (VB x) with VB y => y | VZ z => negb (Z.eqb z 0) | _ => x end.
  Definition rdV (ws : list (write S)) (a : string) (idx : list Z) (x : list S) : list S :=
    match rdv ws a idx (VV x) with VV y => y | _ => x end.
  Definition rdZs (ws : list (write S)) (a : string) (idx : list Z) (x : list Z) : list Z :=
    match rdv ws a idx (VZs x) with VZs y => y | _ => x end.
  (* writes of a called procedure, named by ITS parameters, rebased onto the caller's arrays:
     parameter p bound to (a view of) array r at index prefix pre *)
  Definition rebase (m : list (string * (string * list Z))) (ws : list (write S)) : list (write S) :=
    map (fun w => match find (fun p => String.eqb (fst p) (w_arr w)) m with
                  | Some (_, (r, pre)) => mkW r (pre ++ w_idx w)%list (w_kind w) (w_val w)
                  | None => w
                  end) ws.
End Rd.
