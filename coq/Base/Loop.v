(* Base/Loop.v -- `for i in range(lo, hi)` as a structural fold. *)
From Coq Require Import ZArith List Bool.
Local Open Scope Z_scope.

Fixpoint for_nat {A : Type} (n : nat) (i : Z) (acc : A) (f : Z -> A -> A) : A :=
  match n with
  | O => acc
  | Datatypes.S n' => for_nat n' (i + 1) (f i acc) f
  end.

Definition for_range {A : Type} (lo hi : Z) (acc : A) (f : Z -> A -> A) : A :=
  for_nat (Z.to_nat (hi - lo)) lo acc f.

Definition Zneb (a b : Z) : bool := negb (Z.eqb a b).

Definition zget (v : list Z) (i : Z) : Z := nth (Z.to_nat i) v 0.

(* `while c: body` with explicit fuel; exhausting the fuel returns the current state *)
Fixpoint while_fuel {A : Type} (fuel : nat) (c : A -> bool) (f : A -> A) (x : A) : A :=
  match fuel with
  | O => x
  | Datatypes.S n => if c x then while_fuel n c f (f x) else x
  end.
Definition WHILE_FUEL : nat := N.to_nat 100000.
