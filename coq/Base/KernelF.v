(* Base/KernelF.v -- running translated kernels at binary64 and comparing the resulting heap
   with the heap the real launch produced (verdicts as in CorrF.v). *)
From Coq Require Import ZArith String List Bool PrimFloat.
From VF Require Import Base.Scalar Base.ScalarF Base.CorrF Base.Kernel.
Import ListNotations.
Local Open Scope float_scope.

Definition fmin (a b : float) : float := if b <? a then b else a.
Definition fmax (a b : float) : float := if a <? b then b else a.

Definition heapF := @heap float.
Definition hgetS (h : heapF) (a : string) (idx : list Z) : float :=
  match hget h (a, idx) with Some (VS x) => x | Some (VZ z) => f_ofZ z | _ => 0 end.
Definition hgetZ (h : heapF) (a : string) (idx : list Z) : Z :=
  match hget h (a, idx) with Some (VZ z) => z | Some (VB b) => if b then 1%Z else 0%Z | _ => 0%Z end.
Definition hgetB (h : heapF) (a : string) (idx : list Z) : bool :=
  match hget h (a, idx) with Some (VB b) => b | Some (VZ z) => negb (Z.eqb z 0) | _ => false end.
Definition hgetV (h : heapF) (a : string) (idx : list Z) : list float :=
  match hget h (a, idx) with Some (VV v) => v | _ => nil end.
Definition hgetZs (h : heapF) (a : string) (idx : list Z) : list Z :=
  match hget h (a, idx) with Some (VZs v) => v | _ => nil end.

Definition lk {T} (l : list T) (d : T) (i : Z) : T := if (i <? 0)%Z then d else nth (Z.to_nat i) l d.

Definition wval_close (tol : float) (a b : wval float) : bool :=
  match a, b with
  | VS x, VS y => f_close tol x y
  | VZ x, VZ y => Z.eqb x y
  | VB x, VB y => Bool.eqb x y
  | VZ x, VB y => Z.eqb x (if y then 1 else 0)
  | VB x, VZ y => Z.eqb (if x then 1 else 0) y
  | VV x, VV y => fl_close tol x y
  | VZs x, VZs y => zl_eqb x y
  | _, _ => false
  end.
Definition wval_finite (a : wval float) : bool :=
  match a with VS x => f_finite x | VV v => forallb f_finite v | _ => true end.

(* every location of [expected] must be matched by [got] *)
Definition heap_close (tol : float) (got expected : heapF) : bool :=
  forallb (fun p => match hget got (fst p) with Some v => wval_close tol v (snd p) | None => false end) expected.
Definition heap_finite (h : heapF) : bool := forallb (fun p => wval_finite (snd p)) h.

(* verdict for one launch: f Sc = final heap of the model launch under scalar instance Sc *)
Definition kv3 (tol : float) (f : Scalar float -> heapF) (expected : heapF) : nat :=
  let h0 := f ScalarF0 in
  let hl := f ScalarFlo in
  let hh := f ScalarFhi in
  if negb (heap_finite expected && heap_finite h0) then 1%nat
  else if negb (heap_close tol hl hh && heap_close tol h0 hl) then 1%nat
  else if heap_close tol h0 expected then 0%nat else 2%nat.

Definition launchF (rename : string -> string) (fuel : nat)
           (tasks : list (heapF -> (nat -> Z) -> list (write float))) (h : heapF) : heapF :=
  launch_seq add fmin fmax rename fuel tasks h.
