(* Base/Vec.v -- Warp vector / quaternion / matrix values as flat lists over a
   Scalar.  A vecN is a list of N scalars; a matRC is a row-major list of R*C
   scalars.  MJWarp stores MuJoCo's (w,x,y,z) quaternion in the four slots of a
   wp.quat; [qnormalize] copies Warp's behaviour on the zero quaternion
   (slots (0,0,0,1)), [vnormalize] Warp's behaviour on the zero vector (zero). *)
From Coq Require Import ZArith List Bool.
From VF Require Import Base.Scalar.
Import ListNotations.

Section Vec.
  Context {S : Type} `{Scalar S}.
  Local Open Scope scalar_scope.

  Definition vec := list S.

  Definition vget (v : vec) (i : Z) : S := nth (Z.to_nat i) v s0.
  Fixpoint vset_nat (v : vec) (i : nat) (x : S) : vec :=
    match v, i with
    | nil, _ => nil
    | _ :: r, O => x :: r
    | a :: r, Datatypes.S i' => a :: vset_nat r i' x
    end.
  Definition vset (v : vec) (i : Z) (x : S) : vec := vset_nat v (Z.to_nat i) x.
  Definition vconst (n : nat) (x : S) : vec := repeat x n.

  Fixpoint vmap2 (f : S -> S -> S) (a b : vec) : vec :=
    match a, b with
    | x :: a', y :: b' => f x y :: vmap2 f a' b'
    | _, _ => nil
    end.
  Definition vadd := vmap2 sadd.
  Definition vsub := vmap2 ssub.
  Definition vmulc := vmap2 smul.      (* wp.cw_mul *)
  Definition vdivc := vmap2 sdiv.      (* wp.cw_div *)
  Definition vscale (s : S) (v : vec) : vec := map (fun x => s * x) v.   (* s * v *)
  Definition vscaler (v : vec) (s : S) : vec := map (fun x => x * s) v.  (* v * s *)
  Definition vdivs (v : vec) (s : S) : vec := map (fun x => x / s) v.    (* v / s *)
  Definition vneg (v : vec) : vec := map sneg v.
  Fixpoint vsum (v : vec) : S := match v with nil => s0 | [x] => x | x :: r => x + vsum r end.
  (* Warp dot: a0*b0 + a1*b1 + ... accumulated left to right *)
  Fixpoint vdot_acc (acc : S) (a b : vec) : S :=
    match a, b with x :: a', y :: b' => vdot_acc (acc + x * y) a' b' | _, _ => acc end.
  Definition vdot (a b : vec) : S :=
    match a, b with x :: a', y :: b' => vdot_acc (x * y) a' b' | _, _ => s0 end.
  Definition vlen_sq (v : vec) : S := vdot v v.
  Definition vlen (v : vec) : S := ssqrt (vlen_sq v).
  Definition vcross (a b : vec) : vec :=
    [ vget a 1 * vget b 2 - vget a 2 * vget b 1;
      vget a 2 * vget b 0 - vget a 0 * vget b 2;
      vget a 0 * vget b 1 - vget a 1 * vget b 0 ].
  (* wp.normalize on vectors: l > 0 ? a / l : 0 *)
  Definition vnormalize (v : vec) : vec :=
    let l := vlen v in if s0 <? l then vdivs v l else map (fun _ => s0) v.
  (* wp.normalize on quat: l > 0 ? q * (1/l) : slots (0,0,0,1) *)
  Definition qnormalize (q : vec) : vec :=
    let l := vlen q in
    if s0 <? l then (let inv := s1 / l in vscaler q inv) else [s0; s0; s0; s1].

  (* matrices: row-major flat lists, dimensions passed explicitly *)
  Definition mget (ncols : Z) (m : vec) (r c : Z) : S := vget m (r * ncols + c).
  Definition mset (ncols : Z) (m : vec) (r c : Z) (x : S) : vec := vset m (r * ncols + c) x.
  Definition mrow (ncols : nat) (m : vec) (r : nat) : vec := firstn ncols (skipn (r * ncols) m).
  Definition mcol (nrows ncols : nat) (m : vec) (c : nat) : vec :=
    map (fun r => nth (r * ncols + c) m s0) (seq 0 nrows).
  Definition mat_vec (nrows ncols : nat) (m v : vec) : vec :=
    map (fun r => vdot (mrow ncols m r) v) (seq 0 nrows).
  Definition vec_mat (nrows ncols : nat) (v m : vec) : vec :=
    map (fun c => vdot v (mcol nrows ncols m c)) (seq 0 ncols).
  Definition mtranspose (nrows ncols : nat) (m : vec) : vec :=
    flat_map (fun c => mcol nrows ncols m c) (seq 0 ncols).
  Definition mat_mat (n k p : nat) (a b : vec) : vec :=
    flat_map (fun r => map (fun c => vdot (mrow k a r) (mcol k p b c)) (seq 0 p)) (seq 0 n).
  Definition vouter (a b : vec) : vec := flat_map (fun x => map (fun y => x * y) b) a.
  Definition midentity (n : nat) : vec :=
    flat_map (fun r => map (fun c => if Nat.eqb r c then s1 else s0) (seq 0 n)) (seq 0 n).
  Definition mdiag (v : vec) : vec :=
    let n := length v in
    flat_map (fun r => map (fun c => if Nat.eqb r c then nth r v s0 else s0) (seq 0 n)) (seq 0 n).
  Definition mtrace (n : nat) (m : vec) : S := vsum (map (fun i => nth (i * n + i) m s0) (seq 0 n)).
  Definition mdet3 (m : vec) : S :=
    let g := fun i => nth i m s0 in
      g 0%nat * (g 4%nat * g 8%nat - g 5%nat * g 7%nat)
    - g 1%nat * (g 3%nat * g 8%nat - g 5%nat * g 6%nat)
    + g 2%nat * (g 3%nat * g 7%nat - g 4%nat * g 6%nat).
End Vec.
