(* Base/ScalarR.v -- the real-number instance: theorems are proved here. *)
From Coq Require Import ZArith Reals List Bool Lra.
From VF Require Import Base.Scalar.
Local Open Scope R_scope.

Definition Rltb (a b : R) : bool := if Rlt_dec a b then true else false.
Definition Rleb (a b : R) : bool := if Rle_dec a b then true else false.
Definition Reqb (a b : R) : bool := if Req_EM_T a b then true else false.

(* atan2 over R (only its algebraic law sin/cos of it is ever used) *)
Definition Ratan2 (y x : R) : R :=
  if Rlt_dec 0 x then atan (y / x)
  else if Rlt_dec x 0 then (if Rle_dec 0 y then atan (y / x) + PI else atan (y / x) - PI)
  else if Rlt_dec 0 y then PI / 2 else if Rlt_dec y 0 then - PI / 2 else 0.

Definition Rtrunc (x : R) : Z := if Rle_dec 0 x then Int_part x else (- Int_part (- x))%Z.
Definition Rfloor (x : R) : R := IZR (Int_part x).

#[export] Instance ScalarR : Scalar R := {|
  sadd := Rplus; ssub := Rminus; smul := Rmult; sdiv := Rdiv; sneg := Ropp;
  sabs := Rabs; ssqrt := sqrt; ssin := sin; scos := cos; sexp := exp; slog := ln;
  satan2 := Ratan2; sacos := acos; sasin := asin; stan := tan; stanh := tanh;
  spow := Rpower;
  sltb := Rltb; sleb := Rleb; seqb := Reqb;
  sofZ := IZR; strunc := Rtrunc; sfloor := Rfloor; spi := PI;
|}.

Lemma Rltb_true a b : Rltb a b = true <-> a < b.
Proof. unfold Rltb; destruct (Rlt_dec a b); split; intros; try easy. Qed.
Lemma Rltb_false a b : Rltb a b = false <-> b <= a.
Proof. unfold Rltb; destruct (Rlt_dec a b); split; intros; try easy; lra. Qed.
Lemma Rleb_true a b : Rleb a b = true <-> a <= b.
Proof. unfold Rleb; destruct (Rle_dec a b); split; intros; try easy. Qed.
Lemma Rleb_false a b : Rleb a b = false <-> b < a.
Proof. unfold Rleb; destruct (Rle_dec a b); split; intros; try easy; lra. Qed.
Lemma Reqb_true a b : Reqb a b = true <-> a = b.
Proof. unfold Reqb; destruct (Req_EM_T a b); split; intros; try easy. Qed.
Lemma Reqb_false a b : Reqb a b = false <-> a <> b.
Proof. unfold Reqb; destruct (Req_EM_T a b); split; intros; try easy. Qed.

(* tactic: expose the R operations under the class projections *)
Ltac sR := cbv [sadd ssub smul sdiv sneg sabs ssqrt ssin scos sexp slog satan2 sltb sleb seqb sofZ
                slit s0 s1 smin smax sclamp ssign sgtb sgeb sneb spi ScalarR] in *.
