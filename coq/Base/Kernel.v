(* Base/Kernel.v -- the result type of a translated Warp KERNEL: the list of array writes one
   task performs, in program order.  A launch is a fold of tasks over a heap (see the models). *)
From Coq Require Import ZArith String List Bool.
Import ListNotations.

Inductive wval (S : Type) :=
| VS (s : S) | VZ (z : Z) | VB (b : bool) | VV (v : list S) | VZs (zs : list Z).
Arguments VS {S}. Arguments VZ {S}. Arguments VB {S}. Arguments VV {S}. Arguments VZs {S}.

(* plain store, or an atomic read-modify-write; [KAtomRet k] = the k-th atomic of the task whose
   returned old value the kernel uses (supplied to the translated kernel as [atomic_old k]) *)
Inductive wkind := KSet | KAdd | KSub | KMin | KMax | KOr | KAnd | KAtomRet (op : wkind) (k : nat).

Record write (S : Type) := mkW { w_arr : string; w_idx : list Z; w_kind : wkind; w_val : wval S }.
Arguments mkW {S}.
Arguments w_arr {S}. Arguments w_idx {S}. Arguments w_kind {S}. Arguments w_val {S}.

(* ---- sequential launch semantics over a finite heap -------------------------------------
   Used to RUN translated kernels (correspondence checks) and by models that need the
   meaning of a launch: tasks run one after the other (a schedule = an order of the task
   list); an atomic returning its old value reads the heap at the moment it executes. *)
Section Launch.
  Context {S : Type}.
  Variable add_s : S -> S -> S.
  Variable min_s max_s : S -> S -> S.

  Definition loc := (string * list Z)%type.
  Definition heap := list (loc * wval S).

  Fixpoint zs_eqb (a b : list Z) : bool :=
    match a, b with
    | nil, nil => true
    | x :: a', y :: b' => Z.eqb x y && zs_eqb a' b'
    | _, _ => false
    end.
  Definition loc_eqb (a b : loc) : bool := String.eqb (fst a) (fst b) && zs_eqb (snd a) (snd b).

  Fixpoint hget (h : heap) (l : loc) : option (wval S) :=
    match h with
    | nil => None
    | (l', v) :: r => if loc_eqb l l' then Some v else hget r l
    end.
  Fixpoint hset (h : heap) (l : loc) (v : wval S) : heap :=
    match h with
    | nil => [(l, v)]
    | (l', v') :: r => if loc_eqb l l' then (l, v) :: r else (l', v') :: hset r l v
    end.

  Fixpoint base_kind (k : wkind) : wkind := match k with KAtomRet op _ => base_kind op | x => x end.

  Definition combine_val (k : wkind) (old new : wval S) : wval S :=
    match base_kind k, old, new with
    | KSet, _, n => n
    | KAdd, VS a, VS b => VS (add_s a b)
    | KAdd, VZ a, VZ b => VZ (a + b)
    | KSub, VZ a, VZ b => VZ (a - b)
    | KMin, VZ a, VZ b => VZ (Z.min a b)
    | KMax, VZ a, VZ b => VZ (Z.max a b)
    | KMin, VS a, VS b => VS (min_s a b)
    | KMax, VS a, VS b => VS (max_s a b)
    | KOr, VZ a, VZ b => VZ (Z.lor a b)
    | KAnd, VZ a, VZ b => VZ (Z.land a b)
    | KAdd, VV a, VV b => VV ((fix go (x y : list S) := match x, y with u :: x', v :: y' => add_s u v :: go x' y' | _, _ => nil end) a b)
    | _, _, n => n
    end.

  Definition apply_write (h : heap) (w : write S) : heap :=
    let l := (w_arr w, w_idx w) in
    match hget h l with
    | Some old => hset h l (combine_val (w_kind w) old (w_val w))
    | None => hset h l (w_val w)          (* location outside the tracked heap: recorded *)
    end.

  (* resolve the old values returned by atomics: the k-th atomic-with-result of the task sees
     the heap after the writes that precede it *)
  Fixpoint old_values (ws : list (write S)) (h : heap) : list (nat * Z) :=
    match ws with
    | nil => nil
    | w :: r =>
        let rest := old_values r (apply_write h w) in
        match w_kind w with
        | KAtomRet _ k =>
            match hget h (w_arr w, w_idx w) with
            | Some (VZ z) => (k, z) :: rest
            | _ => (k, 0%Z) :: rest
            end
        | _ => rest
        end
    end.
  Definition oracle_of (l : list (nat * Z)) : nat -> Z :=
    fun k => match find (fun p => Nat.eqb (fst p) k) l with Some p => snd p | None => 0%Z end.

  (* a task is a function from the atomic oracle to its writes; iterate until the oracle is
     consistent with the heap (one more evaluation per atomic-with-result) *)
  (* [rename] maps a kernel parameter name to the buffer it is bound to at the launch site
     (several parameters may alias one buffer, e.g. qpos_in / qpos_out = d.qpos) *)
  Variable rename : string -> string.
  Definition rn (w : write S) : write S := mkW (rename (w_arr w)) (w_idx w) (w_kind w) (w_val w).

  Fixpoint run_task (fuel : nat) (task : heap -> (nat -> Z) -> list (write S)) (orc : nat -> Z) (h : heap) : heap :=
    let ws := map rn (task h orc) in
    match fuel with
    | O => fold_left apply_write ws h
    | Datatypes.S n => run_task n task (oracle_of (old_values ws h)) h
    end.

  Definition launch_seq (fuel : nat) (tasks : list (heap -> (nat -> Z) -> list (write S))) (h : heap) : heap :=
    fold_left (fun st t => run_task fuel t (fun _ => 0%Z) st) tasks h.
End Launch.

(* ---- read-through: a task reading an array it has itself written earlier --------------- *)
Section ReadThrough.
  Context {S : Type}.
  Variable add_s : S -> S -> S.
  Variable min_s max_s : S -> S -> S.
  Definition rd_val (ws : list (write S)) (a : string) (idx : list Z) (base : wval S) : wval S :=
    fold_left (fun v w => if String.eqb (w_arr w) a && zs_eqb (w_idx w) idx
                          then combine_val add_s min_s max_s (w_kind w) v (w_val w) else v) ws base.
End ReadThrough.
