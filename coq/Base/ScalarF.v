(* Base/ScalarF.v -- binary64 instance used to RUN translated functions and
   hand-written models inside Coq (vm_compute).  No theorem is stated about it.
   Transcendental functions are computed by range reduction + Taylor series to
   ~1e-15, ample for comparison with float32 implementation output.
   The instance is parametrised by a comparison bias [eps] to implement the
   branch-margin rule (DESIGN 4.2): ScalarF0 is exact; ScalarFlo/ScalarFhi bias
   every scalar comparison by -eps/+eps so that cases whose control flow depends
   on a near-tie can be discarded instead of compared. *)
From Coq Require Import ZArith Uint63 PrimFloat List Bool.
From VF Require Import Base.Scalar.
Local Open Scope float_scope.

Definition f_ofZ (z : Z) : float :=
  match z with
  | Z0 => 0
  | Zpos _ => of_uint63 (Uint63.of_Z z)
  | Zneg p => - of_uint63 (Uint63.of_Z (Zpos p))
  end.

(* truncation toward zero for |x| < 2^62 *)
Definition f_trunc (x : float) : Z :=
  let a := abs x in
  if a <? 1 then 0%Z else
  let '(m, e) := frshiftexp a in            (* a = m * 2^(e - shift), m in [0.5,1) *)
  let mi := Uint63.to_Z (normfr_mantissa m) in   (* m * 2^53 *)
  let ex := (Uint63.to_Z e - 2101 - 53)%Z in     (* shift = 2101 *)
  let v := if (0 <=? ex)%Z then Z.shiftl mi ex else Z.shiftr mi (- ex) in
  if x <? 0 then (- v)%Z else v.

Definition f_floor (x : float) : float :=
  let t := f_ofZ (f_trunc x) in
  if t <=? x then t else t - 1.

Definition f_pi : float := 0x1.921fb54442d18p+1.
Definition f_ln2 : float := 0x1.62e42fefa39efp-1.

Fixpoint f_horner (cs : list float) (x : float) : float :=
  match cs with nil => 0 | c :: r => c + x * f_horner r x end.

(* sin/cos: reduce to [-pi/4, pi/4] by quadrant, Taylor to degree 17/16 *)
Definition sin_coefs : list float :=
  (1 :: -0x1.5555555555555p-3 :: 0x1.1111111111111p-7 :: -0x1.a01a01a01a01ap-13 ::
   0x1.71de3a556c734p-19 :: -0x1.ae64567f544e4p-26 :: 0x1.6124613a86d09p-33 ::
   -0x1.ae7f3e733b81fp-41 :: 0x1.952c77030ad4ap-49 :: nil).
Definition cos_coefs : list float :=
  (1 :: -0x1p-1 :: 0x1.5555555555555p-5 :: -0x1.6c16c16c16c17p-10 :: 0x1.a01a01a01a01ap-16 ::
   -0x1.27e4fb7789f5cp-22 :: 0x1.1eed8eff8d898p-29 :: -0x1.93974a8c07c9dp-37 ::
   0x1.ae7f3e733b81fp-45 :: nil).
Definition ksin (x : float) : float := x * f_horner sin_coefs (x * x).
Definition kcos (x : float) : float := f_horner cos_coefs (x * x).

Definition f_sincos (x : float) : float * float :=
  let q := f_floor (x / (f_pi / 2) + 0x1p-1) in
  let r := x - q * (f_pi / 2) in
  let qi := Z.modulo (f_trunc q) 4 in
  let s := ksin r in let c := kcos r in
  if (qi =? 0)%Z then (s, c)
  else if (qi =? 1)%Z then (c, - s)
  else if (qi =? 2)%Z then (- s, - c)
  else (- c, s).
Definition f_sin x := fst (f_sincos x).
Definition f_cos x := snd (f_sincos x).
Definition f_tan x := let '(s, c) := f_sincos x in s / c.

(* exp: x = k ln2 + r, |r| <= ln2/2, Taylor 14 terms, scale by 2^k *)
Fixpoint f_exp_taylor (n : nat) (k : float) (r : float) : float :=
  match n with O => 1 | S n' => 1 + r / k * f_exp_taylor n' (k + 1) r end.
Definition f_pow2 (k : Z) : float := ldshiftexp 1 (Uint63.of_Z (k + 2101))%uint63.
Definition f_exp (x : float) : float :=
  if x <? -700 then 0 else if 700 <? x then infinity else
  let k := f_floor (x / f_ln2 + 0x1p-1) in
  let r := x - k * f_ln2 in
  f_exp_taylor 18 1 r * f_pow2 (f_trunc k).

(* ln: x = m 2^e, m in [sqrt(1/2), sqrt 2); ln m = 2 atanh((m-1)/(m+1)) *)
Fixpoint f_atanh_series (n : nat) (k : float) (z2 : float) : float :=
  match n with O => 0 | S n' => 1 / k + z2 * f_atanh_series n' (k + 2) z2 end.
Definition f_ln (x : float) : float :=
  if x <=? 0 then (if x =? 0 then neg_infinity else nan) else
  let '(m, e) := frshiftexp x in
  let ez := (Uint63.to_Z e - 2101)%Z in
  let '(m, ez) := if m <? 0x1.6a09e667f3bcdp-1 then (m * 2, (ez - 1)%Z) else (m, ez) in
  let z := (m - 1) / (m + 1) in
  2 * z * f_atanh_series 20 1 (z * z) + f_ofZ ez * f_ln2.

(* atan: three argument halvings then Taylor *)
Definition f_atan_half (x : float) : float := x / (1 + sqrt (1 + x * x)).
Fixpoint f_atan_series (n : nat) (k : float) (x2 : float) : float :=
  match n with O => 0 | S n' => 1 / k - x2 * f_atan_series n' (k + 2) x2 end.
Definition f_atan_small (x : float) : float :=   (* |x| <= 1 *)
  let y := f_atan_half (f_atan_half (f_atan_half x)) in
  8 * y * f_atan_series 14 1 (y * y).
Definition f_atan (x : float) : float :=
  if abs x <=? 1 then f_atan_small x
  else if 0 <? x then f_pi / 2 - f_atan_small (1 / x)
  else - f_pi / 2 - f_atan_small (1 / x).
Definition f_atan2 (y x : float) : float :=
  if 0 <? x then f_atan (y / x)
  else if x <? 0 then (if 0 <=? y then f_atan (y / x) + f_pi else f_atan (y / x) - f_pi)
  else if 0 <? y then f_pi / 2 else if y <? 0 then - f_pi / 2 else 0.
Definition f_asin (x : float) : float := f_atan2 x (sqrt ((1 - x) * (1 + x))).
Definition f_acos (x : float) : float := f_atan2 (sqrt ((1 - x) * (1 + x))) x.
Definition f_tanh (x : float) : float :=
  if 20 <? x then 1 else if x <? -20 then -1 else
  let e := f_exp (2 * x) in (e - 1) / (e + 1).
Definition f_pow (x y : float) : float :=
  if y =? 0 then 1 else if x =? 0 then 0 else f_exp (y * f_ln x).

Definition f_scale (a b : float) : float := 1 + abs a + abs b.

Definition mkScalarF (eps : float) : Scalar float := {|
  sadd := add; ssub := sub; smul := mul; sdiv := div; sneg := opp;
  sabs := abs; ssqrt := sqrt; ssin := f_sin; scos := f_cos; sexp := f_exp; slog := f_ln;
  satan2 := f_atan2; sacos := f_acos; sasin := f_asin; stan := f_tan; stanh := f_tanh;
  spow := f_pow;
  sltb := fun a b => a + eps * f_scale a b <? b;
  sleb := fun a b => a + eps * f_scale a b <=? b;
  seqb := fun a b => if 0 <? eps then abs (a - b) <? eps * f_scale a b else a =? b;
  sofZ := f_ofZ; strunc := f_trunc; sfloor := f_floor; spi := f_pi;
|}.

Definition ScalarF0 : Scalar float := mkScalarF 0.
Definition ScalarFlo : Scalar float := mkScalarF 0x1p-17.      (* ~7.6e-6 *)
Definition ScalarFhi : Scalar float := mkScalarF (-0x1p-17).

(* comparison helpers used by the generated case files *)
Definition f_close (tol a b : float) : bool :=
  (abs (a - b) <=? tol * (1 + abs a + abs b)) || ((a =? b)).
Fixpoint fl_close (tol : float) (a b : list float) : bool :=
  match a, b with
  | nil, nil => true
  | x :: a', y :: b' => f_close tol x y && fl_close tol a' b'
  | _, _ => false
  end.
Definition f_finite (a : float) : bool := abs a <? infinity.
