(* Base/CorrF.v -- verdict functions evaluated by the generated case files of the
   correspondence checks.  A verdict is 0 (model and implementation agree),
   1 (case discarded: the model's control flow depends on a near-tie comparison or
   a non-finite value appears) or 2 (disagreement). *)
From Coq Require Import ZArith List Bool PrimFloat.
From VF Require Import Base.Scalar Base.ScalarF.
Import ListNotations.
Local Open Scope float_scope.

Definition all_finite (l : list float) : bool := forallb f_finite l.

(* [f Sc] = flattened model output under scalar instance Sc; [exp] = implementation *)
Definition tv3 (tol : float) (f : Scalar float -> list float) (exp : list float) : nat :=
  let r0 := f ScalarF0 in
  let rl := f ScalarFlo in
  let rh := f ScalarFhi in
  if negb (all_finite exp && all_finite r0 && all_finite rl && all_finite rh) then 1%nat
  else if negb (fl_close tol rl rh && fl_close tol r0 rl) then 1%nat
  else if fl_close tol r0 exp then 0%nat else 2%nat.

(* integer / exact comparison *)
Definition zl_eqb (a b : list Z) : bool :=
  (Nat.eqb (length a) (length b)) && forallb (fun p => Z.eqb (fst p) (snd p)) (combine a b).
Definition tvz (model exp : list Z) : nat := if zl_eqb model exp then 0%nat else 2%nat.

Definition fb (b : bool) : float := if b then 1 else 0.
