(* Base/Scalar.v -- the scalar interface the translated Warp functions are
   polymorphic in.  Two instances are provided elsewhere:
     ScalarR  (Base/ScalarR.v)  Coq reals: theorems are proved here;
     ScalarF  (Base/ScalarF.v)  PrimFloat binary64: models are *run* here
                                (vm_compute) for the correspondence checks. *)
From Coq Require Import ZArith List Bool.
Import ListNotations.

Class Scalar (S : Type) := {
  sadd : S -> S -> S;
  ssub : S -> S -> S;
  smul : S -> S -> S;
  sdiv : S -> S -> S;
  sneg : S -> S;
  sabs : S -> S;
  ssqrt : S -> S;
  ssin : S -> S;
  scos : S -> S;
  sexp : S -> S;
  slog : S -> S;
  satan2 : S -> S -> S;   (* atan2 y x *)
  sacos : S -> S;
  sasin : S -> S;
  stan : S -> S;
  stanh : S -> S;
  spow : S -> S -> S;
  sltb : S -> S -> bool;
  sleb : S -> S -> bool;
  seqb : S -> S -> bool;
  sofZ : Z -> S;
  strunc : S -> Z;        (* C cast float -> int: truncation toward zero *)
  sfloor : S -> S;
  spi : S;
}.

Declare Scope scalar_scope.
Delimit Scope scalar_scope with S.

Section Derived.
  Context {S : Type} `{Scalar S}.

  (* decimal literal  n / d  (d > 0): float literals of the source are emitted
     as exact rationals *)
  Definition slit (n d : Z) : S := sdiv (sofZ n) (sofZ d).
  Definition s0 : S := sofZ 0.
  Definition s1 : S := sofZ 1.

  (* Warp: min / max / clamp / sign / where *)
  Definition smin (a b : S) : S := if sltb b a then b else a.
  Definition smax (a b : S) : S := if sltb a b then b else a.
  (* wp.clamp(x, lo, hi) = min(max(x, lo), hi) *)
  Definition sclamp (x lo hi : S) : S := smin (smax x lo) hi.
  (* wp.sign(x): -1 if x < 0 else 1 *)
  Definition ssign (x : S) : S := if sltb x s0 then sneg s1 else s1.
  Definition sgtb (a b : S) : bool := sltb b a.
  Definition sgeb (a b : S) : bool := sleb b a.
  Definition sneb (a b : S) : bool := negb (seqb a b).
End Derived.

Infix "+" := sadd : scalar_scope.
Infix "-" := ssub : scalar_scope.
Infix "*" := smul : scalar_scope.
Infix "/" := sdiv : scalar_scope.
Notation "- x" := (sneg x) : scalar_scope.
Infix "<?" := sltb : scalar_scope.
Infix "<=?" := sleb : scalar_scope.
Infix "=?" := seqb : scalar_scope.
