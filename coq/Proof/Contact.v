(* Proof/Contact.v -- C20 "Contacts are geometrically valid": geometry of the closed-form
   contact primitives over the reals.  Every lemma is about the REGENERATED definitions of
   Gen/math.v (make_frame, orthogonals, closest_segment_point, normalize_with_norm) and
   Gen/primitive_core.v (plane_sphere, sphere_sphere, sphere_capsule, plane_capsule), i.e. it is
   re-checked against what /repo's math.py / collision_primitive_core.py say now.
   Vectors are 3-lists v3 x y z; nsq is the squared norm, dot3 the dot product. *)
From Coq Require Import ZArith Reals List Bool Lra Lia Psatz.
From VF Require Import Base.Scalar Base.ScalarR Base.Vec Base.Loop Gen.math Gen.primitive_core.
Import ListNotations.
Local Open Scope R_scope.

(* ------------------------------------------------------------------ *)

Ltac vsimp :=
  cbv [vget vset vconst vadd vsub vscale vscaler vdivs vneg vdot vdot_acc vlen_sq vcross vmap2 map
       mat_vec mat_mat mtranspose mrow mcol mdet3 midentity flat_map seq firstn skipn app
       List.nth Z.to_nat Pos.to_nat Pos.iter_op Nat.add Nat.mul Nat.eqb
       Z.add Z.mul Pos.add Pos.mul Pos.succ] in *;
  sR.

Definition v3 (x y z : R) : list R := [x; y; z].
Definition nsq (x y z : R) : R := x*x + y*y + z*z.

Lemma vlen_v3 x y z : vlen (v3 x y z) = sqrt (nsq x y z).
Proof. unfold vlen, v3, nsq. vsimp. reflexivity. Qed.

Lemma nsq_pos x y z : v3 x y z <> v3 0 0 0 -> 0 < nsq x y z.
Proof.
  intros Hn. unfold nsq.
  destruct (Req_dec x 0) as [-> | Hx]; [ | nra ].
  destruct (Req_dec y 0) as [-> | Hy]; [ | nra ].
  destruct (Req_dec z 0) as [-> | Hz]; [ | nra ].
  exfalso. apply Hn. reflexivity.
Qed.

(* wp.normalize on a non-zero vec3: divide by the (positive) length *)
Lemma vnormalize_v3 x y z :
  0 < nsq x y z ->
  vnormalize (v3 x y z) = v3 (x / sqrt (nsq x y z)) (y / sqrt (nsq x y z)) (z / sqrt (nsq x y z)).
Proof.
  intros Hq. unfold vnormalize. rewrite vlen_v3.
  change (@sltb R ScalarR s0 (sqrt (nsq x y z))) with (Rltb 0 (sqrt (nsq x y z))).
  assert (Hs : 0 < sqrt (nsq x y z)) by (apply sqrt_lt_R0; exact Hq).
  apply Rltb_true in Hs. rewrite Hs. unfold v3. vsimp. reflexivity.
Qed.

Lemma vnormalize_zero : vnormalize (v3 0 0 0) = v3 0 0 0.
Proof.
  unfold vnormalize. rewrite vlen_v3.
  change (@sltb R ScalarR s0 (sqrt (nsq 0 0 0))) with (Rltb 0 (sqrt (nsq 0 0 0))).
  replace (nsq 0 0 0) with 0 by (unfold nsq; ring). rewrite sqrt_0.
  assert (E : Rltb 0 0 = false) by (apply Rltb_false; lra). rewrite E.
  unfold v3. vsimp. reflexivity.
Qed.

(* ------------------------------------------------------------------ *)

Definition dot3 (a0 a1 a2 b0 b1 b2 : R) : R := a0*b0 + a1*b1 + a2*b2.

Lemma vdot_v3 a0 a1 a2 b0 b1 b2 : vdot (v3 a0 a1 a2) (v3 b0 b1 b2) = dot3 a0 a1 a2 b0 b1 b2.
Proof. unfold v3, dot3. vsimp. reflexivity. Qed.

(* the reference axis orthogonals() starts from: y unless |a_y| >= 1/2, then z *)
Definition pick_e (u1 : R) : list R :=
  if Rltb (- (1/2)) u1 && Rltb u1 (1/2) then v3 0 1 0 else v3 0 0 1.
(* one Gram-Schmidt step followed by wp.normalize, exactly as orthogonals() computes it *)
Definition gs (u e : list R) : list R := vnormalize (vsub e (vscaler u (vdot u e))).

Lemma orthogonals_unit_eq u0 u1 u2 :
  nsq u0 u1 u2 = 1 ->
  orthogonals (v3 u0 u1 u2)
  = (gs (v3 u0 u1 u2) (pick_e u1), vcross (v3 u0 u1 u2) (gs (v3 u0 u1 u2) (pick_e u1))).
Proof.
  intros Hu. unfold orthogonals. cbv zeta.
  rewrite vlen_v3, Hu, sqrt_1.
  change (@seqb R ScalarR 1 (sofZ 0)) with (Reqb 1 0).
  assert (E : Reqb 1 0 = false) by (apply Reqb_false; lra). rewrite E.
  change (@sltb R ScalarR (sneg (slit 1 2)) (vget (v3 u0 u1 u2) 1)) with (Rltb (- (1/2)) u1).
  change (@sltb R ScalarR (vget (v3 u0 u1 u2) 1) (slit 1 2)) with (Rltb u1 (1/2)).
  unfold gs, pick_e.
  destruct (Rltb (- (1 / 2)) u1 && Rltb u1 (1 / 2)); reflexivity.
Qed.

(* Gram-Schmidt step against a unit vector u from a unit vector e that is not (anti)parallel to u:
   the norm of the projected vector is sqrt(1 - (u.e)^2) > 0, so wp.normalize divides, and the
   result is a unit vector orthogonal to u *)
Lemma gs_unit u0 u1 u2 e0 e1 e2 :
  nsq u0 u1 u2 = 1 -> nsq e0 e1 e2 = 1 ->
  dot3 u0 u1 u2 e0 e1 e2 * dot3 u0 u1 u2 e0 e1 e2 < 1 ->
  exists b0 b1 b2, gs (v3 u0 u1 u2) (v3 e0 e1 e2) = v3 b0 b1 b2
                   /\ nsq b0 b1 b2 = 1 /\ dot3 u0 u1 u2 b0 b1 b2 = 0.
Proof.
  intros Hu He Hd. unfold gs. rewrite vdot_v3.
  set (d := dot3 u0 u1 u2 e0 e1 e2) in *.
  replace (vsub (v3 e0 e1 e2) (vscaler (v3 u0 u1 u2) d))
    with (v3 (e0 - u0*d) (e1 - u1*d) (e2 - u2*d)) by (unfold v3; vsimp; reflexivity).
  assert (Hq : nsq (e0 - u0*d) (e1 - u1*d) (e2 - u2*d) = 1 - d*d).
  { replace (nsq (e0 - u0*d) (e1 - u1*d) (e2 - u2*d))
      with (nsq e0 e1 e2 - 2*d*dot3 u0 u1 u2 e0 e1 e2 + d*d*nsq u0 u1 u2) by (unfold nsq, dot3; ring).
    fold d. rewrite Hu, He. ring. }
  assert (Hpos : 0 < nsq (e0 - u0*d) (e1 - u1*d) (e2 - u2*d)) by (rewrite Hq; lra).
  rewrite (vnormalize_v3 _ _ _ Hpos).
  set (l := sqrt (nsq (e0 - u0*d) (e1 - u1*d) (e2 - u2*d))).
  assert (Hl : l * l = 1 - d*d) by (unfold l; rewrite sqrt_sqrt; [exact Hq | lra]).
  assert (Hl0 : l <> 0) by (intro Z; rewrite Z in Hl; lra).
  do 3 eexists. split; [reflexivity|]. split.
  - replace (nsq ((e0 - u0*d)/l) ((e1 - u1*d)/l) ((e2 - u2*d)/l))
      with (nsq (e0 - u0*d) (e1 - u1*d) (e2 - u2*d) / (l*l)) by (unfold nsq; field; exact Hl0).
    rewrite Hq, Hl. field. lra.
  - replace (dot3 u0 u1 u2 ((e0 - u0*d)/l) ((e1 - u1*d)/l) ((e2 - u2*d)/l))
      with ((dot3 u0 u1 u2 e0 e1 e2 - d * nsq u0 u1 u2) / l) by (unfold nsq, dot3; field; exact Hl0).
    fold d. rewrite Hu. field. exact Hl0.
Qed.

Lemma pick_e_ok u0 u1 u2 :
  nsq u0 u1 u2 = 1 ->
  exists e0 e1 e2, pick_e u1 = v3 e0 e1 e2 /\ nsq e0 e1 e2 = 1
     /\ dot3 u0 u1 u2 e0 e1 e2 * dot3 u0 u1 u2 e0 e1 e2 < 1.
Proof.
  intros Hu. unfold pick_e.
  destruct (Rltb (- (1 / 2)) u1 && Rltb u1 (1 / 2)) eqn:C.
  - apply andb_prop in C. destruct C as [C1 C2].
    apply Rltb_true in C1. apply Rltb_true in C2.
    exists 0, 1, 0. split; [reflexivity|]. unfold nsq, dot3. split; [ring | nra].
  - apply andb_false_iff in C.
    assert (Hy : 1/4 <= u1*u1).
    { destruct C as [C|C]; apply Rltb_false in C; nra. }
    exists 0, 0, 1. split; [reflexivity|]. unfold nsq, dot3 in *. split; [ring | nra].
Qed.

Lemma orthogonals_unit u0 u1 u2 :
  nsq u0 u1 u2 = 1 ->
  exists b0 b1 b2,
    orthogonals (v3 u0 u1 u2) = (v3 b0 b1 b2, vcross (v3 u0 u1 u2) (v3 b0 b1 b2))
    /\ v3 b0 b1 b2 = gs (v3 u0 u1 u2) (pick_e u1)
    /\ nsq b0 b1 b2 = 1 /\ dot3 u0 u1 u2 b0 b1 b2 = 0.
Proof.
  intros Hu. rewrite (orthogonals_unit_eq _ _ _ Hu).
  destruct (pick_e_ok _ _ _ Hu) as (e0 & e1 & e2 & Ee & He & Hd). rewrite Ee.
  destruct (gs_unit _ _ _ _ _ _ Hu He Hd) as (b0 & b1 & b2 & Eb & Hb & Hub).
  exists b0, b1, b2. rewrite Eb. auto.
Qed.

(* ------------------------------------------------------------------ *)

Definition I3 : list R := [1;0;0; 0;1;0; 0;0;1].

(* a 3x3 row-major matrix with rows u, b, u x b where u, b are orthonormal is a rotation *)
Lemma frame_rows_orthonormal u0 u1 u2 b0 b1 b2 :
  nsq u0 u1 u2 = 1 -> nsq b0 b1 b2 = 1 -> dot3 u0 u1 u2 b0 b1 b2 = 0 ->
  let c := vcross (v3 u0 u1 u2) (v3 b0 b1 b2) in
  let F := [u0; u1; u2; b0; b1; b2; vget c 0; vget c 1; vget c 2] in
  mat_mat 3 3 3 F (mtranspose 3 3 F) = I3 /\ mdet3 F = 1.
Proof.
  intros Hu Hb Hub. cbv zeta. unfold v3, I3.
  set (c0 := u1*b2 - u2*b1). set (c1 := u2*b0 - u0*b2). set (c2 := u0*b1 - u1*b0).
  assert (Hcc : nsq c0 c1 c2 = 1).
  { replace (nsq c0 c1 c2) with (nsq u0 u1 u2 * nsq b0 b1 b2 - dot3 u0 u1 u2 b0 b1 b2 * dot3 u0 u1 u2 b0 b1 b2)
      by (unfold c0, c1, c2, nsq, dot3; ring).
    rewrite Hu, Hb, Hub. ring. }
  assert (Huc : dot3 u0 u1 u2 c0 c1 c2 = 0) by (unfold c0, c1, c2, dot3; ring).
  assert (Hbc : dot3 b0 b1 b2 c0 c1 c2 = 0) by (unfold c0, c1, c2, dot3; ring).
  unfold nsq, dot3 in *. split.
  - vsimp. fold c0 c1 c2.
    repeat (f_equal; try lra).
  - vsimp. fold c0 c1 c2. rewrite <- Hcc. unfold c0, c1, c2. ring.
Qed.

Theorem make_frame_orthonormal x y z :
  v3 x y z <> v3 0 0 0 ->
  let F := make_frame (v3 x y z) in
  mrow 3 F 0 = vdivs (v3 x y z) (vlen (v3 x y z))
  /\ mrow 3 F 1 = gs (mrow 3 F 0) (pick_e (y / vlen (v3 x y z)))
  /\ mrow 3 F 2 = vcross (mrow 3 F 0) (mrow 3 F 1)
  /\ mat_mat 3 3 3 F (mtranspose 3 3 F) = I3
  /\ mdet3 F = 1.
Proof.
  intros Hn. apply nsq_pos in Hn. cbv zeta. unfold make_frame. cbv zeta.
  rewrite (vnormalize_v3 _ _ _ Hn). rewrite vlen_v3.
  set (l := sqrt (nsq x y z)).
  assert (Hl : l * l = nsq x y z) by (unfold l; apply sqrt_sqrt; lra).
  assert (Hl0 : l <> 0) by (intro Z; rewrite Z in Hl; lra).
  assert (Hu : nsq (x/l) (y/l) (z/l) = 1).
  { replace (nsq (x/l) (y/l) (z/l)) with (nsq x y z / (l*l)) by (unfold nsq; field; exact Hl0).
    rewrite Hl. field. lra. }
  destruct (orthogonals_unit _ _ _ Hu) as (b0 & b1 & b2 & Eo & Eb & Hb & Hub).
  rewrite Eo.
  destruct (frame_rows_orthonormal _ _ _ _ _ _ Hu Hb Hub) as [HO HD]. cbv zeta in HO, HD.
  change (vget (v3 (x / l) (y / l) (z / l)) 0) with (x/l).
  change (vget (v3 (x / l) (y / l) (z / l)) 1) with (y/l).
  change (vget (v3 (x / l) (y / l) (z / l)) 2) with (z/l).
  change (vget (v3 b0 b1 b2) 0) with b0.
  change (vget (v3 b0 b1 b2) 1) with b1.
  change (vget (v3 b0 b1 b2) 2) with b2.
  split; [reflexivity|]. split; [exact Eb|]. split; [reflexivity|]. split; [exact HO | exact HD].
Qed.

(* ------------------------------------------------------------------ *)

(* the zero vector: wp.normalize(0) = 0, orthogonals' explicit `length(a) == 0` branch gives b = 0 *)
Theorem make_frame_zero : make_frame (v3 0 0 0) = [0;0;0; 0;0;0; 0;0;0].
Proof.
  unfold make_frame. cbv zeta. rewrite vnormalize_zero.
  unfold orthogonals. cbv zeta. rewrite vlen_v3.
  replace (nsq 0 0 0) with 0 by (unfold nsq; ring). rewrite sqrt_0.
  change (@seqb R ScalarR 0 (sofZ 0)) with (Reqb 0 0).
  assert (E : Reqb 0 0 = true) by (apply Reqb_true; reflexivity). rewrite E.
  unfold v3. vsimp. repeat (f_equal; try ring).
Qed.

(* ---- plane_sphere ------------------------------------------------------ *)
Definition mid (a b : list R) : list R := vscale (1/2) (vadd a b).

Theorem plane_sphere_contact n0 n1 n2 q0 q1 q2 c0 c1 c2 r :
  nsq n0 n1 n2 = 1 ->
  let n := v3 n0 n1 n2 in let q := v3 q0 q1 q2 in let c := v3 c0 c1 c2 in
  let h := vdot (vsub c q) n in                  (* height of the centre above the plane *)
  let s1 := vsub c (vscale h n) in               (* foot of the centre on the plane *)
  let s2 := vsub c (vscale r n) in               (* lowest point of the sphere *)
  let '(dist, pos) := plane_sphere n q c r in
  dist = h - r
  /\ vdot (vsub s1 q) n = 0                      (* s1 is on the plane *)
  /\ vlen_sq (vsub s2 c) = r * r                 (* s2 is on the sphere *)
  /\ vsub s2 s1 = vscale dist n                  (* the two surface points are dist apart along n *)
  /\ pos = mid s1 s2.
Proof.
  intros Hn. cbv zeta. unfold plane_sphere, mid, v3, nsq in *. cbv zeta. vsimp.
  split; [reflexivity|]. split.
  { match goal with |- ?L = 0 =>
      replace L with (((c0 - q0) * n0 + (c1 - q1) * n1 + (c2 - q2) * n2) * (1 - (n0*n0+n1*n1+n2*n2))) by ring end.
    rewrite Hn. ring. }
  split.
  { replace (r*r) with (r*r*(n0*n0+n1*n1+n2*n2)) by (rewrite Hn; ring). ring. }
  split.
  { repeat (f_equal; try ring). }
  repeat (f_equal; try field).
Qed.

(* ------------------------------------------------------------------ *)

Lemma vsub_v3 a0 a1 a2 b0 b1 b2 : vsub (v3 a0 a1 a2) (v3 b0 b1 b2) = v3 (a0-b0) (a1-b1) (a2-b2).
Proof. reflexivity. Qed.

Lemma v3_neq_nsq a0 a1 a2 b0 b1 b2 :
  v3 a0 a1 a2 <> v3 b0 b1 b2 -> 0 < nsq (b0-a0) (b1-a1) (b2-a2).
Proof.
  intros Hn. apply nsq_pos. intro E. apply Hn. unfold v3 in *.
  injection E as E0 E1 E2. repeat f_equal; lra.
Qed.

(* value of sphere_sphere when the centres differ, in closed form *)
Lemma sphere_sphere_eq x1 y1 z1 r1 x2 y2 z2 r2 :
  0 < nsq (x2-x1) (y2-y1) (z2-z1) ->
  let d := sqrt (nsq (x2-x1) (y2-y1) (z2-z1)) in
  let n := v3 ((x2-x1)/d) ((y2-y1)/d) ((z2-z1)/d) in
  sphere_sphere (v3 x1 y1 z1) r1 (v3 x2 y2 z2) r2
  = (d - (r1 + r2), vadd (v3 x1 y1 z1) (vscaler n (r1 + 1/2 * (d - (r1 + r2)))), n).
Proof.
  intros Hq. cbv zeta. unfold sphere_sphere. cbv zeta.
  rewrite vsub_v3, vlen_v3.
  set (d := sqrt (nsq (x2-x1) (y2-y1) (z2-z1))).
  assert (Hd : 0 < d) by (apply sqrt_lt_R0; exact Hq).
  change (@seqb R ScalarR d (sofZ 0)) with (Reqb d 0).
  assert (E : Reqb d 0 = false) by (apply Reqb_false; lra). rewrite E.
  reflexivity.
Qed.

Theorem sphere_sphere_contact x1 y1 z1 r1 x2 y2 z2 r2 :
  v3 x1 y1 z1 <> v3 x2 y2 z2 ->
  let p1 := v3 x1 y1 z1 in let p2 := v3 x2 y2 z2 in
  let d := vlen (vsub p2 p1) in
  let '(dist, pos, n) := sphere_sphere p1 r1 p2 r2 in
  let s1 := vadd p1 (vscale r1 n) in        (* point of sphere 1 furthest along n *)
  let s2 := vsub p2 (vscale r2 n) in        (* point of sphere 2 furthest along -n *)
  0 < d
  /\ n = vdivs (vsub p2 p1) d               (* normal = (p2 - p1)/|p2 - p1| *)
  /\ vlen_sq n = 1
  /\ vdot (vsub p2 p1) n = d                (* points from geom 1 to geom 2 *)
  /\ dist = d - r1 - r2
  /\ vsub s2 s1 = vscale dist n             (* signed separation of the surfaces along n *)
  /\ pos = mid s1 s2.
Proof.
  intros Hn. apply v3_neq_nsq in Hn. cbv zeta.
  rewrite (sphere_sphere_eq _ _ _ r1 _ _ _ r2 Hn). cbv zeta.
  rewrite vsub_v3, vlen_v3.
  set (d := sqrt (nsq (x2-x1) (y2-y1) (z2-z1))).
  assert (Hd : 0 < d) by (apply sqrt_lt_R0; exact Hn).
  assert (Hdd : d * d = nsq (x2-x1) (y2-y1) (z2-z1)) by (unfold d; apply sqrt_sqrt; lra).
  assert (Hd0 : d <> 0) by lra.
  split; [exact Hd|]. split; [reflexivity|].
  unfold mid, v3, nsq in *. vsimp.
  split.
  { transitivity (((x2-x1)*(x2-x1) + (y2-y1)*(y2-y1) + (z2-z1)*(z2-z1)) / (d*d)); [field; exact Hd0|].
    rewrite <- Hdd. field. exact Hd0. }
  split.
  { transitivity (((x2-x1)*(x2-x1) + (y2-y1)*(y2-y1) + (z2-z1)*(z2-z1)) / d); [field; exact Hd0|].
    rewrite <- Hdd. field. exact Hd0. }
  split; [ring|].
  split. { repeat (f_equal; try (field; exact Hd0)). }
  repeat (f_equal; try (field; exact Hd0)).
Qed.

(* coincident centres: the code picks the fixed normal (1,0,0) *)
Theorem sphere_sphere_coincident x y z r1 r2 :
  sphere_sphere (v3 x y z) r1 (v3 x y z) r2
  = (- (r1 + r2), v3 (x + (r1 - r2) / 2) y z, v3 1 0 0).
Proof.
  unfold sphere_sphere. cbv zeta. rewrite vsub_v3, vlen_v3.
  replace (nsq (x-x) (y-y) (z-z)) with 0 by (unfold nsq; ring). rewrite sqrt_0.
  change (@seqb R ScalarR 0 (sofZ 0)) with (Reqb 0 0).
  assert (E : Reqb 0 0 = true) by (apply Reqb_true; reflexivity). rewrite E.
  unfold v3. vsimp. repeat (f_equal; try field).
Qed.

(* ------------------------------------------------------------------ *)

(* wp.clamp(t, 0, 1) over R *)
Definition clamp01 (t : R) : R := @sclamp R ScalarR t 0 1.

Lemma clamp01_spec t :
  (t <= 0 /\ clamp01 t = 0) \/ (0 <= t <= 1 /\ clamp01 t = t) \/ (1 <= t /\ clamp01 t = 1).
Proof.
  unfold clamp01, sclamp, smin, smax. sR.
  destruct (Rltb t 0) eqn:A.
  - apply Rltb_true in A. left. split; [lra|].
    assert (E : Rltb 1 0 = false) by (apply Rltb_false; lra). rewrite E. reflexivity.
  - apply Rltb_false in A. destruct (Rltb 1 t) eqn:B.
    + apply Rltb_true in B. right. right. split; [lra | reflexivity].
    + apply Rltb_false in B. right. left. split; [lra | reflexivity].
Qed.

Definition eps : R := 1 / 1000000.     (* the literal 1e-6 in closest_segment_point *)

(* point a + s (b - a) of the segment *)
Definition seg_point (a b : list R) (s : R) : list R := vadd a (vscale s (vsub b a)).
(* exact minimiser of |p - (a + s (b-a))| over s in [0,1] (a <> b) *)
Definition true_t (a b p : list R) : R := vdot (vsub p a) (vsub b a) / vlen_sq (vsub b a).
Definition true_closest (a b p : list R) : list R := seg_point a b (clamp01 (true_t a b p)).
(* what the code computes *)
Definition code_t (a b p : list R) : R := vdot (vsub p a) (vsub b a) / (vlen_sq (vsub b a) + eps).

Theorem closest_segment_point_exact a b p :
  closest_segment_point a b p = seg_point a b (clamp01 (code_t a b p)).
Proof. reflexivity. Qed.

Lemma vlen_sq_v3 x y z : vlen_sq (v3 x y z) = nsq x y z.
Proof. unfold v3, nsq. vsimp. reflexivity. Qed.

(* the code's parameter is the exact one shrunk by D/(D+eps) *)
Theorem code_t_relation a0 a1 a2 b0 b1 b2 p0 p1 p2 :
  v3 a0 a1 a2 <> v3 b0 b1 b2 ->
  let a := v3 a0 a1 a2 in let b := v3 b0 b1 b2 in let p := v3 p0 p1 p2 in
  let D := vlen_sq (vsub b a) in
  0 < D /\ code_t a b p = true_t a b p * (D / (D + eps)).
Proof.
  intros Hn. apply v3_neq_nsq in Hn. cbv zeta. unfold code_t, true_t.
  rewrite !vsub_v3, vlen_sq_v3, vdot_v3. split; [exact Hn|].
  unfold eps. field. lra.
Qed.

(* degenerate segment: the regulariser makes the function total, it returns a *)
Theorem closest_segment_point_degenerate a0 a1 a2 p0 p1 p2 :
  closest_segment_point (v3 a0 a1 a2) (v3 a0 a1 a2) (v3 p0 p1 p2) = v3 a0 a1 a2.
Proof.
  rewrite closest_segment_point_exact. unfold code_t.
  rewrite !vsub_v3, vlen_sq_v3, vdot_v3.
  replace (dot3 (p0-a0) (p1-a1) (p2-a2) (a0-a0) (a1-a1) (a2-a2)) with 0 by (unfold dot3; ring).
  replace (nsq (a0-a0) (a1-a1) (a2-a2)) with 0 by (unfold nsq; ring).
  replace (0 / (0 + eps)) with 0 by (unfold eps; field).
  destruct (clamp01_spec 0) as [[_ E]|[[_ E]|[H _]]]; [| |lra]; rewrite E;
    unfold seg_point, v3; vsimp; repeat (f_equal; try ring).
Qed.

(* the exact point really is the closest point of the segment *)
Theorem true_closest_is_min a0 a1 a2 b0 b1 b2 p0 p1 p2 s :
  v3 a0 a1 a2 <> v3 b0 b1 b2 -> 0 <= s <= 1 ->
  let a := v3 a0 a1 a2 in let b := v3 b0 b1 b2 in let p := v3 p0 p1 p2 in
  vlen_sq (vsub p (true_closest a b p)) <= vlen_sq (vsub p (seg_point a b s)).
Proof.
  intros Hn Hs. apply v3_neq_nsq in Hn. cbv zeta. unfold true_closest, true_t.
  rewrite !vsub_v3, vlen_sq_v3, vdot_v3.
  set (D := nsq (b0-a0) (b1-a1) (b2-a2)) in *.
  set (N := dot3 (p0-a0) (p1-a1) (p2-a2) (b0-a0) (b1-a1) (b2-a2)).
  set (c := clamp01 (N / D)).
  assert (Hseg : forall k, vlen_sq (vsub (v3 p0 p1 p2) (seg_point (v3 a0 a1 a2) (v3 b0 b1 b2) k))
                 = nsq (p0-a0) (p1-a1) (p2-a2) - 2 * k * N + k * k * D).
  { intros k. unfold seg_point, v3, N, D, nsq, dot3. vsimp. ring. }
  rewrite !Hseg.
  assert (HN : N = (N / D) * D) by (field; lra).
  set (t := N / D) in *.
  assert (Hc : (t <= 0 /\ c = 0) \/ (0 <= t <= 1 /\ c = t) \/ (1 <= t /\ c = 1)) by apply clamp01_spec.
  rewrite HN. clearbody t c D. clear HN Hseg.
  set (P := nsq (p0 - a0) (p1 - a1) (p2 - a2)). clearbody P.
  assert (K : 0 <= D * ((s - c) * (s + c - 2 * t))).
  { apply Rmult_le_pos; [lra|].
    destruct Hs as [Hs0 Hs1].
    destruct Hc as [[H1 E]|[[[H1 H2] E]|[H1 E]]]; rewrite E.
    - apply Rmult_le_pos; lra.
    - replace ((s - t) * (s + t - 2 * t)) with ((s - t) * (s - t)) by ring.
      pose proof (Rle_0_sqr (s - t)) as Q. unfold Rsqr in Q. exact Q.
    - replace ((s - 1) * (s + 1 - 2 * t)) with ((1 - s) * (2 * t - 1 - s)) by ring.
      apply Rmult_le_pos; lra. }
  nra.
Qed.

(* ------------------------------------------------------------------ *)

Lemma nsq_nonneg x y z : 0 <= nsq x y z.
Proof. unfold nsq. nra. Qed.

Lemma vlen_scale k x y z : vlen (v3 (k*x) (k*y) (k*z)) = Rabs k * sqrt (nsq x y z).
Proof.
  rewrite vlen_v3.
  replace (nsq (k*x) (k*y) (k*z)) with (Rsqr k * nsq x y z) by (unfold nsq, Rsqr; ring).
  rewrite sqrt_mult; [| apply Rle_0_sqr | apply nsq_nonneg].
  rewrite sqrt_Rsqr_abs. reflexivity.
Qed.

Lemma clamp_shrink t k :
  0 < k < 1 -> 0 <= clamp01 t - clamp01 (t * k) <= (1 - k) * clamp01 t.
Proof.
  intros [K0 K1].
  destruct (clamp01_spec t) as [[H1 E]|[[[H1 H2] E]|[H1 E]]]; rewrite E;
  destruct (clamp01_spec (t*k)) as [[G1 F]|[[[G1 G2] F]|[G1 F]]]; rewrite F; nra.
Qed.

Theorem closest_segment_point_error a0 a1 a2 b0 b1 b2 p0 p1 p2 :
  v3 a0 a1 a2 <> v3 b0 b1 b2 ->
  let a := v3 a0 a1 a2 in let b := v3 b0 b1 b2 in let p := v3 p0 p1 p2 in
  let D := vlen_sq (vsub b a) in
  vlen (vsub (closest_segment_point a b p) (true_closest a b p))
  <= eps / (D + eps) * vlen (vsub (true_closest a b p) a).
Proof.
  intros Hn. cbv zeta.
  destruct (code_t_relation a0 a1 a2 b0 b1 b2 p0 p1 p2 Hn) as [HD Hrel]. cbv zeta in HD, Hrel.
  rewrite closest_segment_point_exact, Hrel. unfold true_closest.
  set (D := vlen_sq (vsub (v3 b0 b1 b2) (v3 a0 a1 a2))) in *.
  set (t := true_t (v3 a0 a1 a2) (v3 b0 b1 b2) (v3 p0 p1 p2)).
  set (k := D / (D + eps)).
  assert (He : 0 < eps) by (unfold eps; lra).
  assert (Hk : 0 < k < 1).
  { unfold k. split.
    - apply Rdiv_lt_0_compat; lra.
    - apply Rmult_lt_reg_r with (D + eps); [lra|]. field_simplify; lra. }
  assert (Hd : eps / (D + eps) = 1 - k) by (unfold k; field; lra).
  rewrite Hd.
  pose proof (clamp_shrink t k Hk) as [S0 S1].
  set (s := clamp01 (t * k)) in *. set (c := clamp01 t) in *.
  assert (Hc0 : 0 <= c).
  { unfold c. destruct (clamp01_spec t) as [[H1 E]|[[[H1 H2] E]|[H1 E]]]; rewrite E; lra. }
  replace (vsub (seg_point (v3 a0 a1 a2) (v3 b0 b1 b2) s) (seg_point (v3 a0 a1 a2) (v3 b0 b1 b2) c))
    with (v3 ((s-c)*(b0-a0)) ((s-c)*(b1-a1)) ((s-c)*(b2-a2)))
    by (unfold seg_point, v3; vsimp; repeat (f_equal; try ring)).
  replace (vsub (seg_point (v3 a0 a1 a2) (v3 b0 b1 b2) c) (v3 a0 a1 a2))
    with (v3 (c*(b0-a0)) (c*(b1-a1)) (c*(b2-a2)))
    by (unfold seg_point, v3; vsimp; repeat (f_equal; try ring)).
  rewrite !vlen_scale.
  rewrite (Rabs_left1 (s - c)) by lra. rewrite (Rabs_right c) by lra.
  rewrite <- Rmult_assoc. apply Rmult_le_compat_r; [apply sqrt_pos | lra].
Qed.

(* so the function is NOT the exact closest-point map: half-length 1 mm segment, query above its end *)
Theorem closest_segment_point_is_closest_refuted :
  exists a b p, a <> b /\ closest_segment_point a b p <> true_closest a b p.
Proof.
  exists (v3 (-1/1000) 0 0), (v3 (1/1000) 0 0), (v3 (1/1000) 0 1).
  split. { unfold v3. intro E. injection E as E. lra. }
  rewrite closest_segment_point_exact. unfold true_closest, code_t, true_t.
  rewrite !vsub_v3, vlen_sq_v3, vdot_v3. unfold dot3, nsq, eps.
  replace (((1/1000 - -1/1000) * (1/1000 - -1/1000) + (0-0)*(0-0) + (1-0)*(0-0)) /
           ((1/1000 - -1/1000) * (1/1000 - -1/1000) + (0-0)*(0-0) + (0-0)*(0-0) + 1/1000000)) with (4/5) by field.
  replace (((1/1000 - -1/1000) * (1/1000 - -1/1000) + (0-0)*(0-0) + (1-0)*(0-0)) /
           ((1/1000 - -1/1000) * (1/1000 - -1/1000) + (0-0)*(0-0) + (0-0)*(0-0))) with 1 by field.
  destruct (clamp01_spec (4/5)) as [[H1 E]|[[[H1 H2] E]|[H1 E]]]; try lra. rewrite E.
  destruct (clamp01_spec 1) as [[G1 F]|[[[G1 G2] F]|[G1 F]]]; try lra; rewrite F;
    unfold seg_point, v3; vsimp; intro Q; injection Q as Q; lra.
Qed.

(* ------------------------------------------------------------------ *)

Lemma cauchy3 u0 u1 u2 w0 w1 w2 :
  dot3 u0 u1 u2 w0 w1 w2 <= sqrt (nsq u0 u1 u2) * sqrt (nsq w0 w1 w2).
Proof.
  rewrite <- sqrt_mult by apply nsq_nonneg.
  apply Rle_trans with (Rabs (dot3 u0 u1 u2 w0 w1 w2)); [apply Rle_abs|].
  rewrite <- sqrt_Rsqr_abs. apply sqrt_le_1; [apply Rle_0_sqr | |].
  - apply Rmult_le_pos; apply nsq_nonneg.
  - assert (L : nsq u0 u1 u2 * nsq w0 w1 w2 - Rsqr (dot3 u0 u1 u2 w0 w1 w2)
               = nsq (u1*w2 - u2*w1) (u2*w0 - u0*w2) (u0*w1 - u1*w0)) by (unfold nsq, dot3, Rsqr; ring).
    pose proof (nsq_nonneg (u1*w2 - u2*w1) (u2*w0 - u0*w2) (u0*w1 - u1*w0)). lra.
Qed.

Lemma tri3 u0 u1 u2 w0 w1 w2 :
  sqrt (nsq (u0+w0) (u1+w1) (u2+w2)) <= sqrt (nsq u0 u1 u2) + sqrt (nsq w0 w1 w2).
Proof.
  apply Rsqr_incr_0_var.
  - rewrite Rsqr_sqrt by apply nsq_nonneg. rewrite Rsqr_plus.
    rewrite !Rsqr_sqrt by apply nsq_nonneg.
    pose proof (cauchy3 u0 u1 u2 w0 w1 w2) as C.
    replace (nsq (u0+w0) (u1+w1) (u2+w2)) with (nsq u0 u1 u2 + nsq w0 w1 w2 + 2 * dot3 u0 u1 u2 w0 w1 w2)
      by (unfold nsq, dot3; ring).
    lra.
  - apply Rplus_le_le_0_compat; apply sqrt_pos.
Qed.

(* | |u| - |w| | <= |u - w| *)
Lemma rev_tri3 u0 u1 u2 w0 w1 w2 :
  Rabs (sqrt (nsq u0 u1 u2) - sqrt (nsq w0 w1 w2)) <= sqrt (nsq (u0-w0) (u1-w1) (u2-w2)).
Proof.
  pose proof (tri3 (u0-w0) (u1-w1) (u2-w2) w0 w1 w2) as A.
  replace (u0-w0+w0) with u0 in A by ring. replace (u1-w1+w1) with u1 in A by ring.
  replace (u2-w2+w2) with u2 in A by ring.
  pose proof (tri3 (w0-u0) (w1-u1) (w2-u2) u0 u1 u2) as B.
  replace (w0-u0+u0) with w0 in B by ring. replace (w1-u1+u1) with w1 in B by ring.
  replace (w2-u2+u2) with w2 in B by ring.
  replace (nsq (w0-u0) (w1-u1) (w2-u2)) with (nsq (u0-w0) (u1-w1) (u2-w2)) in B by (unfold nsq; ring).
  apply Rabs_le. lra.
Qed.

Lemma seg_point_v3 a0 a1 a2 b0 b1 b2 s :
  seg_point (v3 a0 a1 a2) (v3 b0 b1 b2) s = v3 (a0 + s*(b0-a0)) (a1 + s*(b1-a1)) (a2 + s*(b2-a2)).
Proof. reflexivity. Qed.

Theorem sphere_capsule_eq sp rs cp ax rc hl :
  sphere_capsule sp rs cp ax rc hl
  = sphere_sphere sp rs (closest_segment_point (vsub cp (vscaler ax hl)) (vadd cp (vscaler ax hl)) sp) rc.
Proof. reflexivity. Qed.

Theorem sphere_capsule_contact s0 s1 s2 rs c0 c1 c2 x0 x1 x2 rc hl :
  let sp := v3 s0 s1 s2 in let cp := v3 c0 c1 c2 in let ax := v3 x0 x1 x2 in
  let a := vsub cp (vscaler ax hl) in let b := vadd cp (vscaler ax hl) in   (* capsule segment ends *)
  let pt := closest_segment_point a b sp in            (* the code's "closest" point *)
  let ptx := true_closest a b sp in                    (* the exact closest point *)
  let delta := eps / (vlen_sq (vsub b a) + eps) in
  a <> b -> sp <> pt ->
  let '(dist, pos, n) := sphere_capsule sp rs cp ax rc hl in
  let d := vlen (vsub pt sp) in
  let q1 := vadd sp (vscale rs n) in                   (* sphere surface point along n *)
  let q2 := vsub pt (vscale rc n) in                   (* capsule surface point along -n (about pt) *)
  n = vdivs (vsub pt sp) d /\ vlen_sq n = 1 /\ vdot (vsub pt sp) n = d /\ 0 < d
  /\ dist = d - rs - rc
  /\ vsub q2 q1 = vscale dist n /\ pos = mid q1 q2
  /\ pt = seg_point a b (clamp01 (code_t a b sp))
  /\ vlen (vsub pt ptx) <= delta * vlen (vsub ptx a)
  /\ Rabs (dist - (vlen (vsub ptx sp) - rs - rc)) <= delta * vlen (vsub ptx a).
Proof.
  cbv zeta. rewrite sphere_capsule_eq.
  change (vsub (v3 c0 c1 c2) (vscaler (v3 x0 x1 x2) hl)) with (v3 (c0 - x0*hl) (c1 - x1*hl) (c2 - x2*hl)).
  change (vadd (v3 c0 c1 c2) (vscaler (v3 x0 x1 x2) hl)) with (v3 (c0 + x0*hl) (c1 + x1*hl) (c2 + x2*hl)).
  set (a0 := c0 - x0*hl). set (a1 := c1 - x1*hl). set (a2 := c2 - x2*hl).
  set (b0 := c0 + x0*hl). set (b1 := c1 + x1*hl). set (b2 := c2 + x2*hl).
  intros Hab Hsp.
  pose proof (closest_segment_point_error a0 a1 a2 b0 b1 b2 s0 s1 s2 Hab) as Herr. cbv zeta in Herr.
  revert Hsp Herr. unfold true_closest.
  rewrite closest_segment_point_exact, !seg_point_v3.
  set (s := clamp01 (code_t (v3 a0 a1 a2) (v3 b0 b1 b2) (v3 s0 s1 s2))).
  set (c := clamp01 (true_t (v3 a0 a1 a2) (v3 b0 b1 b2) (v3 s0 s1 s2))).
  set (p0 := a0 + s*(b0-a0)). set (p1 := a1 + s*(b1-a1)). set (p2 := a2 + s*(b2-a2)).
  set (t0 := a0 + c*(b0-a0)). set (t1 := a1 + c*(b1-a1)). set (t2 := a2 + c*(b2-a2)).
  set (delta := eps / (vlen_sq (vsub (v3 b0 b1 b2) (v3 a0 a1 a2)) + eps)).
  intros Hsp Herr.
  pose proof (sphere_sphere_contact s0 s1 s2 rs p0 p1 p2 rc Hsp) as H. cbv zeta in H.
  destruct (sphere_sphere (v3 s0 s1 s2) rs (v3 p0 p1 p2) rc) as [[dist pos] n].
  destruct H as (Hd & Hn & Hu & Hdot & Hdist & Hsep & Hmid).
  repeat (split; [assumption|]). split; [reflexivity|]. split; [exact Herr|].
  eapply Rle_trans; [|exact Herr].
  rewrite Hdist. rewrite !vsub_v3, !vlen_v3.
  replace (sqrt (nsq (p0-s0) (p1-s1) (p2-s2)) - rs - rc - (sqrt (nsq (t0-s0) (t1-s1) (t2-s2)) - rs - rc))
    with (sqrt (nsq (p0-s0) (p1-s1) (p2-s2)) - sqrt (nsq (t0-s0) (t1-s1) (t2-s2))) by ring.
  eapply Rle_trans; [apply rev_tri3|].
  apply Req_le. f_equal. unfold nsq. ring.
Qed.

(* ------------------------------------------------------------------ *)

Lemma gs_core u0 u1 u2 e0 e1 e2 :
  nsq u0 u1 u2 = 1 ->
  let d := dot3 u0 u1 u2 e0 e1 e2 in
  0 < nsq (e0 - u0*d) (e1 - u1*d) (e2 - u2*d) ->
  let l := sqrt (nsq (e0 - u0*d) (e1 - u1*d) (e2 - u2*d)) in
  nsq ((e0 - u0*d)/l) ((e1 - u1*d)/l) ((e2 - u2*d)/l) = 1
  /\ dot3 u0 u1 u2 ((e0 - u0*d)/l) ((e1 - u1*d)/l) ((e2 - u2*d)/l) = 0.
Proof.
  intros Hu d Hpos l.
  assert (Hl : l * l = nsq (e0 - u0*d) (e1 - u1*d) (e2 - u2*d)) by (unfold l; rewrite sqrt_sqrt; lra).
  assert (Hl0 : l <> 0) by (intro Z; rewrite Z in Hl; lra).
  split.
  - replace (nsq ((e0 - u0*d)/l) ((e1 - u1*d)/l) ((e2 - u2*d)/l))
      with (nsq (e0 - u0*d) (e1 - u1*d) (e2 - u2*d) / (l*l)) by (unfold nsq; field; exact Hl0).
    rewrite Hl. field. lra.
  - replace (dot3 u0 u1 u2 ((e0 - u0*d)/l) ((e1 - u1*d)/l) ((e2 - u2*d)/l))
      with ((dot3 u0 u1 u2 e0 e1 e2 - d * nsq u0 u1 u2) / l) by (unfold nsq, dot3; field; exact Hl0).
    fold d. rewrite Hu. field. exact Hl0.
Qed.

Lemma nwn_v3 x y z :
  0 < nsq x y z ->
  normalize_with_norm__V3 (v3 x y z)
  = (v3 (x / sqrt (nsq x y z)) (y / sqrt (nsq x y z)) (z / sqrt (nsq x y z)), sqrt (nsq x y z)).
Proof.
  intros Hq. unfold normalize_with_norm__V3. cbv zeta. rewrite vlen_v3.
  assert (Hs : 0 < sqrt (nsq x y z)) by (apply sqrt_lt_R0; exact Hq).
  change (@seqb R ScalarR (sqrt (nsq x y z)) (sofZ 0)) with (Reqb (sqrt (nsq x y z)) 0).
  assert (E : Reqb (sqrt (nsq x y z)) 0 = false) by (apply Reqb_false; lra). rewrite E.
  reflexivity.
Qed.

(* the two contacts are plane_sphere applied to the two cap centres; the first frame row is n *)
Theorem plane_capsule_contacts n0 n1 n2 q0 q1 q2 c0 c1 c2 x0 x1 x2 r hl :
  let n := v3 n0 n1 n2 in let q := v3 q0 q1 q2 in let cp := v3 c0 c1 c2 in let ax := v3 x0 x1 x2 in
  let '(dist, pos, frame) := plane_capsule n q cp ax r hl in
  length dist = 2%nat /\ length pos = 6%nat /\ length frame = 9%nat
  /\ (vget dist 0, mrow 3 pos 0) = plane_sphere n q (vadd cp (vscaler ax hl)) r
  /\ (vget dist 1, mrow 3 pos 1) = plane_sphere n q (vsub cp (vscaler ax hl)) r
  /\ mrow 3 frame 0 = n
  /\ mrow 3 frame 2 = vcross n (mrow 3 frame 1).
Proof.
  cbv zeta. unfold plane_capsule. cbv zeta.
  destruct (normalize_with_norm__V3 _) as [b bn].
  unfold plane_sphere. cbv zeta.
  repeat (split; [reflexivity|]). reflexivity.
Qed.

(* second component of normalize_with_norm is the length, also in its zero branch *)
Lemma nwn_snd x y z : snd (normalize_with_norm__V3 (v3 x y z)) = sqrt (nsq x y z).
Proof.
  unfold normalize_with_norm__V3. cbv zeta. rewrite vlen_v3.
  change (@seqb R ScalarR (sqrt (nsq x y z)) (sofZ 0)) with (Reqb (sqrt (nsq x y z)) 0).
  destruct (Reqb (sqrt (nsq x y z)) 0) eqn:E; [|reflexivity].
  apply Reqb_true in E. rewrite E. reflexivity.
Qed.

(* the frame of plane_capsule is a rotation with first row n for EVERY capsule axis: second row is the
   normalised in-plane component w of the axis when |w| >= 1/2, otherwise the Gram-Schmidt residual of
   the y (or z) axis against n, exactly as make_frame / mju_makeFrame choose it.
   (Before the repair "C20:plane_capsule:frame-fallback-not-orthogonal" the fallback row was the raw
   axis y or z; for n = axis = (0,3/5,4/5) that gave row1.row2 = 4/5.) *)
Theorem plane_capsule_frame_orthonormal n0 n1 n2 q c x0 x1 x2 r hl :
  nsq n0 n1 n2 = 1 ->
  let n := v3 n0 n1 n2 in let ax := v3 x0 x1 x2 in
  let w := vsub ax (vscaler n (vdot n ax)) in          (* axis component in the plane *)
  let '(_, _, F) := plane_capsule n q c ax r hl in
  mrow 3 F 0 = n
  /\ mrow 3 F 1 = (if Rltb (vlen w) (1/2) then gs n (pick_e n1) else vdivs w (vlen w))
  /\ mrow 3 F 2 = vcross n (mrow 3 F 1)
  /\ mat_mat 3 3 3 F (mtranspose 3 3 F) = I3 /\ mdet3 F = 1.
Proof.
  intros Hn. cbv zeta. rewrite vdot_v3.
  set (d := dot3 n0 n1 n2 x0 x1 x2).
  change (vsub (v3 x0 x1 x2) (vscaler (v3 n0 n1 n2) d)) with (v3 (x0 - n0*d) (x1 - n1*d) (x2 - n2*d)).
  rewrite vlen_v3.
  unfold plane_capsule. cbv zeta. rewrite vdot_v3. fold d.
  change (vsub (v3 x0 x1 x2) (vscaler (v3 n0 n1 n2) d)) with (v3 (x0 - n0*d) (x1 - n1*d) (x2 - n2*d)).
  set (l := sqrt (nsq (x0 - n0*d) (x1 - n1*d) (x2 - n2*d))).
  pose proof (nwn_snd (x0 - n0*d) (x1 - n1*d) (x2 - n2*d)) as Hs. fold l in Hs.
  destruct (Rltb l (1/2)) eqn:E.
  - (* fallback branch *)
    destruct (normalize_with_norm__V3 (v3 (x0 - n0*d) (x1 - n1*d) (x2 - n2*d))) as [b bn].
    cbn [snd] in Hs. subst bn.
    change (@sltb R ScalarR l (slit 1 2)) with (Rltb l (1/2)). rewrite E.
    change (@sltb R ScalarR (sneg (slit 1 2)) (vget (v3 n0 n1 n2) 1)) with (Rltb (- (1/2)) n1).
    change (@sltb R ScalarR (vget (v3 n0 n1 n2) 1) (slit 1 2)) with (Rltb n1 (1/2)).
    assert (Eb : (let b0 := if Rltb (- (1/2)) n1 && Rltb n1 (1/2)
                             then [@sofZ R ScalarR 0; @sofZ R ScalarR 1; @sofZ R ScalarR 0]
                             else [@sofZ R ScalarR 0; @sofZ R ScalarR 0; @sofZ R ScalarR 1] in
                  vnormalize (vsub b0 (vscaler (v3 n0 n1 n2) (vdot (v3 n0 n1 n2) b0))))
                 = gs (v3 n0 n1 n2) (pick_e n1)).
    { unfold gs, pick_e. cbv zeta. destruct (Rltb (- (1/2)) n1 && Rltb n1 (1/2)); reflexivity. }
    cbv zeta in Eb. rewrite Eb.
    destruct (pick_e_ok _ _ _ Hn) as (e0 & e1 & e2 & Ee & He & Hd). rewrite Ee.
    destruct (gs_unit _ _ _ _ _ _ Hn He Hd) as (b0 & b1 & b2 & Egs & Hb & Hnb). rewrite Egs.
    destruct (frame_rows_orthonormal _ _ _ _ _ _ Hn Hb Hnb) as [HO HD]. cbv zeta in HO, HD.
    unfold plane_sphere. cbv zeta.
    split; [reflexivity|]. split; [reflexivity|]. split; [reflexivity|]. split; [exact HO | exact HD].
  - apply Rltb_false in E.
    assert (Hpos : 0 < nsq (x0 - n0*d) (x1 - n1*d) (x2 - n2*d)).
    { destruct (Rle_lt_or_eq_dec 0 _ (nsq_nonneg (x0 - n0*d) (x1 - n1*d) (x2 - n2*d))) as [P|P]; [exact P|].
      unfold l in E. rewrite <- P, sqrt_0 in E. lra. }
    rewrite (nwn_v3 _ _ _ Hpos).
    destruct (gs_core n0 n1 n2 x0 x1 x2 Hn Hpos) as [Hb Hnb]. fold d in Hb, Hnb. fold l in Hb, Hnb. fold l.
    change (@sltb R ScalarR l (slit 1 2)) with (Rltb l (1/2)).
    assert (E' : Rltb l (1/2) = false) by (apply Rltb_false; exact E). rewrite E'.
    destruct (frame_rows_orthonormal _ _ _ _ _ _ Hn Hb Hnb) as [HO HD]. cbv zeta in HO, HD.
    unfold plane_sphere. cbv zeta.
    split; [reflexivity|]. split; [reflexivity|]. split; [reflexivity|]. split; [exact HO | exact HD].
Qed.

(* ------------------------------------------------------------------ *)
(* the primitives hand a UNIT normal to make_frame: then the first row is that normal itself *)
Theorem make_frame_unit x y z :
  nsq x y z = 1 ->
  let F := make_frame (v3 x y z) in
  mrow 3 F 0 = v3 x y z
  /\ mrow 3 F 2 = vcross (mrow 3 F 0) (mrow 3 F 1)
  /\ mat_mat 3 3 3 F (mtranspose 3 3 F) = I3
  /\ mdet3 F = 1.
Proof.
  intros Hu.
  assert (Hn : v3 x y z <> v3 0 0 0).
  { intro E. unfold v3 in E. injection E as -> -> ->. unfold nsq in Hu. lra. }
  destruct (make_frame_orthonormal x y z Hn) as (H0 & _ & H2 & HO & HD). cbv zeta.
  split; [|auto].
  rewrite H0, vlen_v3, Hu, sqrt_1. unfold v3. vsimp. repeat (f_equal; try field).
Qed.

(* ---- non-vacuity: the hypotheses of the theorems above are satisfiable ---- *)
Example ex_make_frame_hyp : v3 1 2 3 <> v3 0 0 0.
Proof. unfold v3. intro E. injection E as E. lra. Qed.

Example ex_unit_normal : nsq 0 (3/5) (4/5) = 1.
Proof. unfold nsq. field. Qed.

Example ex_sphere_sphere_hyp : v3 0 0 0 <> v3 1 0 0.
Proof. unfold v3. intro E. injection E as E. lra. Qed.

Example ex_plane_capsule_frame_hyp :
  nsq 0 0 1 = 1 /\ 1/2 <= vlen (vsub (v3 1 0 0) (vscaler (v3 0 0 1) (vdot (v3 0 0 1) (v3 1 0 0)))).
Proof.
  split; [unfold nsq; ring|]. rewrite vdot_v3.
  change (vsub (v3 1 0 0) (vscaler (v3 0 0 1) (dot3 0 0 1 1 0 0)))
    with (v3 (1 - 0 * dot3 0 0 1 1 0 0) (0 - 0 * dot3 0 0 1 1 0 0) (0 - 1 * dot3 0 0 1 1 0 0)).
  rewrite vlen_v3. replace (nsq _ _ _) with 1 by (unfold nsq, dot3; ring). rewrite sqrt_1. lra.
Qed.

(* capsule along x of half-length 1 at the origin, sphere centre at (0,0,2): the segment is
   non-degenerate and the code's closest point (on the x axis) differs from the sphere centre *)
Example ex_sphere_capsule_hyp :
  let sp := v3 0 0 2 in let cp := v3 0 0 0 in let ax := v3 1 0 0 in
  let a := vsub cp (vscaler ax 1) in let b := vadd cp (vscaler ax 1) in
  a <> b /\ sp <> closest_segment_point a b sp.
Proof.
  cbv zeta. split.
  - unfold v3. vsimp. intro E. injection E as E. lra.
  - rewrite closest_segment_point_exact.
    change (vsub (v3 0 0 0) (vscaler (v3 1 0 0) 1)) with (v3 (0 - 1*1) (0 - 0*1) (0 - 0*1)).
    change (vadd (v3 0 0 0) (vscaler (v3 1 0 0) 1)) with (v3 (0 + 1*1) (0 + 0*1) (0 + 0*1)).
    rewrite seg_point_v3. unfold v3. intro E. injection E as _ _ E. lra.
Qed.
