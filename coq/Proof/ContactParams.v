From Coq Require Import String ZArith Reals List Bool Lra Lia.
From VF Require Import Base.Scalar Base.ScalarR Base.Vec Base.Loop Gen.collision_core Model.ContactParams.
Import ListNotations.
Local Open Scope R_scope.

(* ---------- small facts ---------- *)
Lemma len2 {A} (l : list A) : length l = 2%nat -> exists a b, l = [a; b].
Proof. destruct l as [|a [|b [|c l]]]; simpl; intros; try discriminate. eauto. Qed.
Lemma len3 {A} (l : list A) : length l = 3%nat -> exists a b c, l = [a; b; c].
Proof. destruct l as [|a [|b [|c [|d l]]]]; simpl; intros; try discriminate. eauto. Qed.
Lemma len5 {A} (l : list A) : length l = 5%nat -> exists a b c d e, l = [a; b; c; d; e].
Proof. destruct l as [|a [|b [|c [|d [|e [|f l]]]]]]; simpl; intros; try discriminate. eauto 6. Qed.

Definition MV : R := @mjMINVAL R ScalarR.
Definition MU : R := @mjMINMU R ScalarR.
Lemma MV_pos : 0 < MV.
Proof. unfold MV, mjMINVAL. sR. apply Rdiv_lt_0_compat; lra. Qed.
Lemma MU_pos : 0 < MU.
Proof. unfold MU, mjMINMU. sR. apply Rdiv_lt_0_compat; lra. Qed.

(* the mixing weight computed by contact_material_params (safe_div + three wp.where) *)
Definition mjw_mix (m1 m2 : R) : R :=
  let mix := safe_div__S_S m1 (sadd m1 m2) in
  let mix := if (sltb m1 (slit 1 1000000000000000)) && (sltb m2 (slit 1 1000000000000000)) then slit 1 2 else mix in
  let mix := if (sltb m1 (slit 1 1000000000000000)) && (sgeb m2 (slit 1 1000000000000000)) then sofZ 0 else mix in
  let mix := if (sgeb m1 (slit 1 1000000000000000)) && (sltb m2 (slit 1 1000000000000000)) then sofZ 1 else mix in
  mix.

Lemma mjw_mix_rule m1 m2 : mjw_mix m1 m2 = mj_mix m1 m2.
Proof.
  pose proof MV_pos as HP. unfold MV, mjMINVAL in HP.
  unfold mjw_mix, mj_mix, safe_div__S_S, mjMINVAL. sR.
  set (mv := IZR 1 / IZR 1000000000000000) in *.
  destruct (Rltb m1 mv) eqn:E1; destruct (Rltb m2 mv) eqn:E2;
  destruct (Rleb mv m1) eqn:F1; destruct (Rleb mv m2) eqn:F2; simpl;
  try apply Rltb_true in E1; try apply Rltb_false in E1;
  try apply Rltb_true in E2; try apply Rltb_false in E2;
  try apply Rleb_true in F1; try apply Rleb_false in F1;
  try apply Rleb_true in F2; try apply Rleb_false in F2; try lra; try reflexivity.
  destruct (Reqb (m1 + m2) (IZR 0)) eqn:G; simpl.
  - apply Reqb_true in G. lra.
  - reflexivity.
Qed.

Lemma gtb_false a b : (a <= b)%Z -> (a >? b)%Z = false.
Proof. intros. rewrite Z.gtb_ltb. apply Z.ltb_ge. lia. Qed.
Lemma gtb_true a b : (a > b)%Z -> (a >? b)%Z = true.
Proof. intros. rewrite Z.gtb_ltb. apply Z.ltb_lt. lia. Qed.

(* ---------- contact_margin_gap ---------- *)
Lemma margin_gap_pair (gm gg pm pg : Z -> Z -> R) geoms pairid w n1 n2 n3 n4 :
  (pairid > -1)%Z ->
  contact_margin_gap gm gg pm pg geoms pairid w n1 n2 n3 n4
  = (pm (Z.rem w n1) pairid, pg (Z.rem w n2) pairid).
Proof.
  intros Hp. unfold contact_margin_gap.
  rewrite (gtb_true pairid (- (1))) by lia. reflexivity.
Qed.

Lemma margin_gap_geoms (gm gg pm pg : Z -> Z -> R) geoms pairid w n1 n2 n3 n4 :
  (pairid <= -1)%Z ->
  contact_margin_gap gm gg pm pg geoms pairid w n1 n2 n3 n4
  = (gm (Z.rem w n3) (zget geoms 0) + gm (Z.rem w n3) (zget geoms 1),
     gg (Z.rem w n4) (zget geoms 0) + gg (Z.rem w n4) (zget geoms 1)).
Proof.
  intros Hp. unfold contact_margin_gap.
  rewrite (gtb_false pairid (- (1))) by lia.
  reflexivity.
Qed.

(* ---------- contact_material_params ---------- *)
Definition floor5 (f : list R) : list R :=
  map (smax MU) [vget f 0; vget f 1; vget f 2; vget f 3; vget f 4].

Lemma floor5_len5 f : length f = 5%nat -> floor5 f = map (smax MU) f.
Proof. intros H. destruct (len5 f H) as (a&b&c&d&e&->). reflexivity. Qed.

Section Material.
  Variables (gc gp : Z -> Z) (gsm : Z -> Z -> R) (gsr gsi gf : Z -> Z -> list R) (ga : Z -> Z -> R)
            (pd : Z -> Z) (psr psrf psi : Z -> Z -> list R) (pa : Z -> Z -> R) (pf : Z -> Z -> list R)
            (geoms : list Z) (pairid w : Z)
            (npf npsr npsrf npsi npa nsm nf nsr nsi na : Z).

  Let CMP := contact_material_params gc gp gsm gsr gsi gf ga pd psr psrf psi pa pf geoms pairid w
               npf npsr npsrf npsi npa nsm nf nsr nsi na.
  Let A := geom_of gc gp gsm gsr gsi gf ga w nsm nf nsr nsi na (zget geoms 0).
  Let B := geom_of gc gp gsm gsr gsi gf ga w nsm nf nsr nsi na (zget geoms 1).

  Lemma material_pair_verbatim :
    (pairid > -1)%Z ->
    CMP = (pd pairid, floor5 (pf (Z.rem w npf) pairid), psr (Z.rem w npsr) pairid,
           psrf (Z.rem w npsrf) pairid, psi (Z.rem w npsi) pairid, pa (Z.rem w npa) pairid).
  Proof.
    intros Hp. unfold CMP, contact_material_params.
    rewrite (gtb_true pairid (- (1))) by lia. reflexivity.
  Qed.

  Hypothesis Hpair : (pairid <= -1)%Z.
  Hypothesis La : length (g_solref A) = 2%nat.
  Hypothesis Lb : length (g_solref B) = 2%nat.
  Hypothesis Ia : length (g_solimp A) = 5%nat.
  Hypothesis Ib : length (g_solimp B) = 5%nat.
  Hypothesis Fa : length (g_friction A) = 3%nat.
  Hypothesis Fb : length (g_friction B) = 3%nat.

  Ltac shapes :=
    destruct (len2 _ La) as (ra0 & ra1 & Era); destruct (len2 _ Lb) as (rb0 & rb1 & Erb);
    destruct (len5 _ Ia) as (ia0 & ia1 & ia2 & ia3 & ia4 & Eia);
    destruct (len5 _ Ib) as (ib0 & ib1 & ib2 & ib3 & ib4 & Eib);
    destruct (len3 _ Fa) as (fa0 & fa1 & fa2 & Efa); destruct (len3 _ Fb) as (fb0 & fb1 & fb2 & Efb);
    unfold A, B, geom_of in *; simpl g_solref in *; simpl g_solimp in *; simpl g_friction in *;
    simpl g_priority in *; simpl g_condim in *; simpl g_solmix in *; simpl g_adhesion in *.

  (* equal priority: exactly the reference rule *)
  Lemma material_equal_priority :
    g_priority A = g_priority B -> CMP = mj_contact_param A B.
  Proof.
    intros Hpr. shapes.
    unfold CMP, contact_material_params, mj_contact_param.
    rewrite (gtb_false pairid (- (1))) by lia.
    simpl g_priority. simpl g_solref. simpl g_solimp. simpl g_friction. simpl g_condim. simpl g_solmix. simpl g_adhesion.
    rewrite Hpr. rewrite Z.gtb_ltb, Z.ltb_irrefl.
    rewrite Era, Erb, Eia, Eib, Efa, Efb.
    pose proof (mjw_mix_rule (gsm (Z.rem w nsm) (zget geoms 0)) (gsm (Z.rem w nsm) (zget geoms 1))) as HM.
    unfold mjw_mix in HM. cbv zeta in HM. cbv beta iota zeta delta [fst snd]. rewrite HM.
    set (mx := mj_mix _ _).
    cbv [vget vmap2 vadd vscale map nth Z.to_nat Pos.to_nat Pos.iter_op Nat.add unpack_friction maxv minv lerpv mjMINMU].
    reflexivity.
  Qed.

  Ltac prio_simpl :=
    unfold CMP, contact_material_params, mj_contact_param;
    rewrite (gtb_false pairid (- (1))) by lia;
    simpl g_priority; simpl g_solref; simpl g_solimp; simpl g_friction; simpl g_condim;
    simpl g_solmix; simpl g_adhesion.

  (* different priorities: everything, solref included, is the higher-priority geom's *)
  Lemma material_priority_first :
    (g_priority A > g_priority B)%Z ->
    CMP = (g_condim A, unpack_friction (g_friction A), g_solref A, [0; 0], g_solimp A, g_adhesion A).
  Proof.
    intros Hpr. shapes. prio_simpl.
    rewrite !(gtb_true _ _ Hpr). rewrite ?Era, ?Erb, Eia, Eib, Efa.
    cbv beta iota zeta delta [fst snd].
    cbv [vget vmap2 vadd vscale map nth Z.to_nat Pos.to_nat Pos.iter_op Nat.add unpack_friction maxv minv lerpv mjMINMU].
    sR. repeat (f_equal; try ring).
  Qed.

  Lemma material_priority_second :
    (g_priority B > g_priority A)%Z ->
    CMP = (g_condim B, unpack_friction (g_friction B), g_solref B, [0; 0], g_solimp B, g_adhesion B).
  Proof.
    intros Hpr. shapes. prio_simpl.
    rewrite !(gtb_false (gp (zget geoms 0)) (gp (zget geoms 1))) by lia.
    rewrite !(gtb_true _ _ Hpr). rewrite ?Era, ?Erb, Eia, Eib, Efb.
    cbv beta iota zeta delta [fst snd].
    cbv [vget vmap2 vadd vscale map nth Z.to_nat Pos.to_nat Pos.iter_op Nat.add unpack_friction maxv minv lerpv mjMINMU].
    sR. repeat (f_equal; try ring).
  Qed.

  (* THE MIXING RULE, unconditionally: contact_material_params is the reference rule *)
  Lemma material_mix_rule : CMP = mj_contact_param A B.
  Proof.
    destruct (Z.lt_trichotomy (g_priority A) (g_priority B)) as [Hlt | [Heq | Hgt]].
    - rewrite material_priority_second by lia.
      unfold mj_contact_param.
      rewrite (gtb_false (g_priority A)) by lia. rewrite (gtb_true (g_priority B)) by lia. reflexivity.
    - apply material_equal_priority; assumption.
    - rewrite material_priority_first by lia.
      unfold mj_contact_param. rewrite (gtb_true (g_priority A)) by lia. reflexivity.
  Qed.
End Material.

(* the friction floor holds on every path, for every input *)
Lemma material_friction_floor
    (gc gp : Z -> Z) (gsm : Z -> Z -> R) (gsr gsi gf : Z -> Z -> list R) (ga : Z -> Z -> R)
    (pd : Z -> Z) (psr psrf psi : Z -> Z -> list R) (pa : Z -> Z -> R) (pf : Z -> Z -> list R)
    (geoms : list Z) (pairid w npf npsr npsrf npsi npa nsm nf nsr nsi na : Z) :
  let '(_, fr, _, _, _, _) := contact_material_params gc gp gsm gsr gsi gf ga pd psr psrf psi pa pf
                                geoms pairid w npf npsr npsrf npsi npa nsm nf nsr nsi na in
  length fr = 5%nat /\ Forall (fun x => MU <= x) fr.
Proof.
  assert (M : forall x : R, MU <= smax (slit 1 100000) x).
  { intro x. unfold MU, mjMINMU. sR. destruct (Rltb (IZR 1 / IZR 100000) x) eqn:E.
    - apply Rltb_true in E. lra.
    - lra. }
  unfold contact_material_params.
  destruct (pairid >? - (1))%Z.
  - cbv zeta. split; [reflexivity | repeat (apply Forall_cons; [apply M|]); apply Forall_nil].
  - destruct (gp (zget geoms 0) >? gp (zget geoms 1))%Z; [| destruct (gp (zget geoms 1) >? gp (zget geoms 0))%Z];
    cbv zeta; (split; [reflexivity | repeat (apply Forall_cons; [apply M|]); apply Forall_nil]).
Qed.

(* regression witness of the repaired defect C04:contact_material_params:priority-direct-solref: geom 1 has the
   higher priority and the standard-format solref (0.02, 1), geom 0 the direct-format (-100, -10); the contact
   gets geom 1's solref (before the repair: the element-wise minimum (-100, -10)).  Replayed on the real
   kernel and on mujoco.mj_collision by bin/props/C04.py. *)
Definition wit_solref (_ g : Z) : list R := if (g =? 0)%Z then [-100; -10] else [2/100; 1].
Definition wit_solimp (_ _ : Z) : list R := [9/10; 95/100; 1/1000; 1/2; 2].
Definition wit_friction (_ _ : Z) : list R := [1; 5/1000; 1/10000].
Definition wit_nil (_ _ : Z) : list R := [].

Lemma priority_direct_solref_witness :
  let '(_, _, solref, _, _, _) :=
    contact_material_params (fun _ => 3%Z) (fun g => g) (fun _ _ => 1) wit_solref wit_solimp wit_friction (fun _ _ => 0)
      (fun _ => 0%Z) wit_nil wit_nil wit_nil (fun _ _ => 0) wit_nil [0%Z; 1%Z] (-1) 0 1 1 1 1 1 1 1 1 1 1 in
  solref = [2/100; 1].
Proof.
  pose proof (material_priority_second (fun _ => 3%Z) (fun g => g) (fun _ _ => 1) wit_solref wit_solimp wit_friction
    (fun _ _ => 0) (fun _ => 0%Z) wit_nil wit_nil wit_nil (fun _ _ => 0) wit_nil [0%Z; 1%Z] (-1) 0 1 1 1 1 1 1 1 1 1 1) as P.
  cbv zeta in P.
  specialize (P ltac:(lia) eq_refl eq_refl eq_refl eq_refl eq_refl eq_refl ltac:(unfold geom_of, zget; simpl; lia)).
  rewrite P. reflexivity.
Qed.

(* ---------- write_contact ---------- *)
Section Writer.
  Variables (naconmax nefc nacon id_ : Z) (dist : R) (pos frame : list R) (margin gap : R) (condim : Z)
            (friction solref solreffriction solimp : list R) (adhesion : R) (geoms pairid : list Z) (worldid : Z).

  Let WC := write_contact_model naconmax nefc nacon id_ dist pos frame margin gap condim friction solref
              solreffriction solimp adhesion geoms pairid worldid.

  Definition detected : Prop := dist < margin + gap.
  Definition active : Prop := dist < margin \/ (adhesion <> 0 /\ dist < margin + gap).
  (* no constraint contact wanted (pair filtered out: -2, or not detected) and no collision sensor *)
  Definition skipped : Prop := (zget pairid 0 = (-2)%Z \/ ~ detected) /\ zget pairid 1 = (-1)%Z.

  Definition detectedb : bool := Rltb dist (margin + gap).
  Definition activeb : bool := Rltb dist margin || (negb (Reqb adhesion 0) && detectedb).
  Definition skippedb : bool := ((zget pairid 0 =? -2)%Z || negb detectedb) && (zget pairid 1 =? -1)%Z.

  Lemma detectedb_spec : detectedb = true <-> detected.
  Proof. apply Rltb_true. Qed.
  Lemma activeb_spec : activeb = true <-> active.
  Proof.
    unfold activeb, active, detectedb. rewrite orb_true_iff, andb_true_iff, negb_true_iff.
    rewrite !Rltb_true, Reqb_false. tauto.
  Qed.
  Lemma skippedb_spec : skippedb = true <-> skipped.
  Proof.
    unfold skippedb, skipped. rewrite andb_true_iff, orb_true_iff, negb_true_iff, !Z.eqb_eq.
    rewrite <- detectedb_spec. destruct detectedb; intuition congruence.
  Qed.

  (* dimension stored: an adhesive contact that is only in the gap becomes frictionless (condim 1) *)
  Definition stored_dim : Z := if negb (Reqb adhesion 0) && Rleb margin dist then 1%Z else condim.
  (* type bits: CONSTRAINT = 1, SENSOR = 2 *)
  Definition stored_type : Z :=
    Z.lor (if (zget pairid 0 >=? -1)%Z && detectedb then 1 else 0) (if (zget pairid 1 >=? 0)%Z then 2 else 0).

  Lemma decision_eq :
    write_contact_decision dist margin gap condim adhesion pairid
    = if skippedb then (0, 0, 0, 0)%Z else (1%Z, if activeb then 1%Z else 0%Z, stored_dim, stored_type).
  Proof.
    unfold write_contact_decision, skippedb, activeb, detectedb, stored_dim, stored_type, detectedb. sR.
    change (- (2))%Z with (-2)%Z. change (- (1))%Z with (-1)%Z.
    destruct (((zget pairid 0 =? -2)%Z || negb (Rltb dist (margin + gap))) && (zget pairid 1 =? -1)%Z); [reflexivity|].
    f_equal.
    destruct ((zget pairid 0 >=? -1)%Z && Rltb dist (margin + gap)); destruct (zget pairid 1 >=? 0)%Z; reflexivity.
  Qed.

  Theorem write_contact_skipped :
    skipped -> WC = (0%Z, nacon, None).
  Proof.
    intros Hs. apply skippedb_spec in Hs. unfold WC, write_contact_model. rewrite decision_eq, Hs. reflexivity.
  Qed.

  Theorem write_contact_stored :
    ~ skipped -> (nacon < naconmax)%Z ->
    WC = ((if activeb then 1 else 0)%Z, (nacon + 1)%Z,
          Some (nacon, mkContact dist pos frame geoms worldid margin stored_dim friction solref solreffriction
                         solimp adhesion stored_type id_ (repeat (-1)%Z (Z.to_nat nefc)))).
  Proof.
    intros Hs Hn. rewrite <- skippedb_spec in Hs. apply not_true_is_false in Hs.
    unfold WC, write_contact_model. rewrite decision_eq, Hs. simpl.
    replace (nacon <? naconmax)%Z with true by (symmetry; apply Z.ltb_lt; lia). reflexivity.
  Qed.

  Theorem write_contact_overflow :
    ~ skipped -> (naconmax <= nacon)%Z -> WC = (0%Z, (nacon + 1)%Z, None).
  Proof.
    intros Hs Hn. rewrite <- skippedb_spec in Hs. apply not_true_is_false in Hs.
    unfold WC, write_contact_model. rewrite decision_eq, Hs. simpl.
    replace (nacon <? naconmax)%Z with false by (symmetry; apply Z.ltb_ge; lia). reflexivity.
  Qed.

  (* return value 1 <-> the contact was stored and is active *)
  Theorem write_contact_active :
    fst (fst WC) = 1%Z <-> (~ skipped /\ (nacon < naconmax)%Z /\ active).
  Proof.
    destruct skippedb eqn:Hs.
    - pose proof (proj1 skippedb_spec Hs) as Hs'. rewrite (write_contact_skipped Hs'). simpl.
      split; [discriminate | tauto].
    - assert (Hs' : ~ skipped) by (rewrite <- skippedb_spec; congruence).
      destruct (Z_lt_le_dec nacon naconmax) as [Hn | Hn].
      + rewrite (write_contact_stored Hs' Hn). simpl. rewrite <- activeb_spec.
        destruct activeb; split; intros; try tauto; try discriminate. destruct H as (_ & _ & H). discriminate.
      + rewrite (write_contact_overflow Hs' Hn). simpl. split; [discriminate | lia].
  Qed.

  (* with a non-negative gap an active contact is always a detected one (so it carries the CONSTRAINT
     bit whenever the pair is not filtered out) *)
  Lemma active_detected : 0 <= gap -> active -> detected.
  Proof. unfold active, detected. intros Hg [H | [_ H]]; lra. Qed.
End Writer.

(* S-tie of the hand-written stores of write_contact_model *)
Lemma writes_table : write_contact_writes = @expected_writes.
Proof. reflexivity. Qed.
Lemma writes_shape :
  write_contact_counter = "wp.atomic_add(nacon_out, 0, 1)"%string /\
  write_contact_guard = "cid < naconmax_in"%string /\
  write_contact_ret_stored = "int(active)"%string /\ write_contact_ret_overflow = "0"%string.
Proof. repeat split; reflexivity. Qed.

Lemma contact_params_compose :
  forall gc gp gsm gsr gsi gf gm gg ga pd psr psrf psi pm pg pa pf (cp cpid : Z -> list Z) cid w
         n1 n2 n3 n4 npf npsr npsrf npsi npa nsm nf nsr nsi na,
    @contact_params R ScalarR gc gp gsm gsr gsi gf gm gg ga pd psr psrf psi pm pg pa pf cp cpid cid w
      n1 n2 n3 n4 npf npsr npsrf npsi npa nsm nf nsr nsi na
    = let geoms := cp cid in
      let pairid := zget (cpid cid) 0 in
      let '(margin, gap) := contact_margin_gap gm gg pm pg geoms pairid w n1 n2 n3 n4 in
      let '(condim, friction, solref, solreffriction, solimp, adhesion) :=
        contact_material_params gc gp gsm gsr gsi gf ga pd psr psrf psi pa pf geoms pairid w
          npf npsr npsrf npsi npa nsm nf nsr nsi na in
      (geoms, margin, gap, condim, friction, solref, solreffriction, solimp, adhesion).
Proof. intros. reflexivity. Qed.

(* ---------- non-vacuity ---------- *)
Lemma mix_rule_hyp_sat :
  let gsr := fun (_ _ : Z) => [2/100; 1] in
  let A := geom_of (fun _ => 3%Z) (fun g => g) (fun _ _ => 1) gsr wit_solimp wit_friction (fun _ _ => 0) 0 1 1 1 1 1 0%Z in
  let B := geom_of (fun _ => 3%Z) (fun g => g) (fun _ _ => 1) gsr wit_solimp wit_friction (fun _ _ => 0) 0 1 1 1 1 1 1%Z in
  length (g_solref A) = 2%nat /\ length (g_solimp B) = 5%nat /\ length (g_friction A) = 3%nat /\
  g_priority A <> g_priority B /\ 0 < vget (g_solref A) 0 /\ 0 < vget (g_solref B) 0.
Proof.
  cbv zeta. unfold geom_of, vget. simpl. repeat split; try reflexivity; try lia; sR; lra.
Qed.

Lemma in_gap_examples :
  let P := [(-1)%Z; (-1)%Z] in
  ~ skipped (12/100) (1/10) (5/100) P /\ ~ active (12/100) (1/10) (5/100) 0 /\
  active (12/100) (1/10) (5/100) (1/2) /\ stored_dim (12/100) (1/10) 4 (1/2) = 1%Z /\
  stored_dim (5/100) (1/10) 4 (1/2) = 4%Z /\ skipped (27/100) (1/10) (5/100) P.
Proof.
  cbv zeta. unfold skipped, active, detected, stored_dim, zget. simpl.
  repeat split.
  - intros [[H | H] _]; [discriminate | apply H; lra].
  - intros [H | [H _]]; [lra | apply H; reflexivity].
  - right. split; lra.
  - destruct (Reqb (1/2) 0) eqn:E; [apply Reqb_true in E; lra|].
    destruct (Rleb (1/10) (12/100)) eqn:F; [reflexivity | apply Rleb_false in F; lra].
  - destruct (Reqb (1/2) 0) eqn:E; [apply Reqb_true in E; lra|].
    destruct (Rleb (1/10) (5/100)) eqn:F; [apply Rleb_true in F; lra | reflexivity].
  - right. lra.
Qed.
