(* Proof/Sensor.v -- C07: cutoff rule, kernel = model, slot disjointness, energy, closed-form sensors.

   Objects the theorems are about (all regenerated from /repo on every run):
     Gen/K_sensor.v  machine translation of sensor._sensor_pos / _sensor_vel / _limit_* /
                     _tendon_actuator_force_cutoff after the source-to-source inlining of
                     _write_scalar / _write_vector done by bin/gens_sensor.py
     Gen/T_sensor.v  machine translation of the value functions and the energy kernels
   Model/Sensor.v holds the hand-written readable forms; the *_kernel_eq_model theorems below
   prove that the translated kernels equal them for every input and EVERY scalar instance
   (reals and the three float instances alike), so everything proved about the models holds
   for the translation. *)
From Coq Require Import ZArith Reals List Bool String Lia Lra.
From VF Require Import Base.Scalar Base.ScalarR Base.Vec Base.Loop Base.Kernel Gen.K_sensor Model.Sensor.
From VF Require Gen.T_sensor.
Import ListNotations.
Local Open Scope Z_scope.

(* ---------------------------------------------------------------------------------------- *)
(* tactics                                                                                    *)
Ltac kill_conds :=
  repeat (match goal with
          | |- context [if ?c then _ else _] =>
              lazymatch c with
              | context [if _ then _ else _] => fail
              | _ => destruct c
              end
          end; cbv iota).
Ltac finish :=
  cbv beta iota zeta delta [fst snd app write_vector write_scalar map seq Z.of_nat Pos.of_succ_nat Pos.succ SD cutoff_val insidesite_point];
  kill_conds; reflexivity.
Ltac case_on T k := let b := fresh "b" in generalize (Z.eqb T k); intro b; destruct b; cbv iota beta delta [orb]; [finish|].

(* ---------------------------------------------------------------------------------------- *)
(* 0. slot arithmetic                                                                         *)
Section Slots.
  Context {S : Type} `{Scalar S}.

  Lemma write_scalar_in_slot w adr st dt (c x : S) y :
    In y (write_scalar w adr st dt c x) -> in_slot w adr 1 y.
  Proof.
    unfold write_scalar. intros [<- | []]. split; [reflexivity|]. exists adr. split; [reflexivity|lia].
  Qed.

  Lemma write_vector_in_slot w adr st dt (c : S) v n y :
    In y (write_vector w adr st dt c v n) -> in_slot w adr (Z.of_nat n) y.
  Proof.
    unfold write_vector. intros Hin. apply in_map_iff in Hin. destruct Hin as (i & <- & Hi).
    apply in_seq in Hi. split; [reflexivity|]. exists (adr + Z.of_nat i). split; [reflexivity|lia].
  Qed.

  Lemma in_slot_weaken w lo n n' (y : write S) : n <= n' -> in_slot w lo n y -> in_slot w lo n' y.
  Proof. intros Hn (Ha & k & Hk & Hr). split; [assumption|]. exists k. split; [assumption|lia]. Qed.

  (* MuJoCo's layout invariant orders the slots *)
  Lemma slots_ordered n adr dim :
    adr_dim_invariant n adr dim -> forall k i, 0 <= k -> 0 <= i -> i + 1 + k < n -> adr i + dim i <= adr (i + 1 + k).
  Proof.
    intros (_ & Hd & Hs) k i Hk. revert i. pattern k. apply natlike_ind; [| |assumption].
    - intros i Hi Hn. rewrite Z.add_0_r. rewrite Hs by lia. lia.
    - intros x Hx IH i Hi Hn. replace (i + 1 + Z.succ x) with ((i + 1 + x) + 1) by lia.
      rewrite Hs by lia. specialize (IH i Hi ltac:(lia)). specialize (Hd (i + 1 + x) ltac:(lia)). lia.
  Qed.

  Theorem sensor_slots_disjoint n adr dim i j w w' (x y : write S) :
    adr_dim_invariant n adr dim -> 0 <= i < n -> 0 <= j < n -> i <> j ->
    in_slot w (adr i) (dim i) x -> in_slot w' (adr j) (dim j) y ->
    (w_arr x, w_idx x) <> (w_arr y, w_idx y).
  Proof.
    intros Hinv Hi Hj Hne (Hax & kx & Hkx & Hrx) (Hay & ky & Hky & Hry) Heq.
    injection Heq as _ Hidx. rewrite Hkx, Hky in Hidx. injection Hidx as _ Hk. subst ky.
    destruct (Z_lt_le_dec i j) as [Hlt | Hge].
    - pose proof (slots_ordered n adr dim Hinv (j - i - 1) i ltac:(lia) ltac:(lia) ltac:(lia)) as Ho.
      replace (i + 1 + (j - i - 1)) with j in Ho by lia. lia.
    - pose proof (slots_ordered n adr dim Hinv (i - j - 1) j ltac:(lia) ltac:(lia) ltac:(lia)) as Ho.
      replace (j + 1 + (i - j - 1)) with i in Ho by lia. lia.
  Qed.

  Example adr_dim_invariant_example :
    adr_dim_invariant 3 (fun i => if i =? 0 then 0 else if i =? 1 then 3 else 4) (fun i => if i =? 0 then 3 else if i =? 1 then 1 else 4).
  Proof.
    split; [reflexivity|]. split.
    - intros i Hi. assert (i = 0 \/ i = 1 \/ i = 2) as [-> | [-> | ->]] by lia; simpl; lia.
    - intros i Hi Hn. assert (i = 0 \/ i = 1) as [-> | ->] by lia; reflexivity.
  Qed.
End Slots.

Ltac slot_case t k :=
  destruct (Z.eqb_spec t k) as [-> | ?];
  [ intros y Hy; first [ apply write_vector_in_slot in Hy | apply write_scalar_in_slot in Hy ]; exact Hy | ].

(* ---------------------------------------------------------------------------------------- *)
(* 1. translated kernels = models (any scalar instance)                                       *)
Section KernelsEqModels.
  Context {S : Type} `{Scalar S}.

  Section Vel.
    Variables (w velid : Z)
      (body_rootid jnt_dofadr geom_bodyid site_bodyid cam_bodyid sensor_type sensor_datatype sensor_objtype
         sensor_objid sensor_reftype sensor_refid sensor_adr : Z -> Z)
      (sensor_cutoff : Z -> S) (sensor_vel_adr : Z -> Z) (qvel_in : Z -> Z -> S)
      (xpos_in xmat_in xipos_in ximat_in geom_xpos_in geom_xmat_in site_xpos_in site_xmat_in cam_xpos_in cam_xmat_in
         subtree_com_in : Z -> Z -> list S)
      (ten_velocity_in actuator_velocity_in : Z -> Z -> S)
      (cvel_in subtree_linvel_in subtree_angmom_in : Z -> Z -> list S)
      (sensordata_out : Z -> Z -> S) (orc : nat -> Z).

    Definition kvel := k__sensor_vel w velid body_rootid jnt_dofadr geom_bodyid site_bodyid cam_bodyid sensor_type
        sensor_datatype sensor_objtype sensor_objid sensor_reftype sensor_refid sensor_adr sensor_cutoff sensor_vel_adr qvel_in
        xpos_in xmat_in xipos_in ximat_in geom_xpos_in geom_xmat_in site_xpos_in site_xmat_in cam_xpos_in cam_xmat_in
        subtree_com_in ten_velocity_in actuator_velocity_in cvel_in subtree_linvel_in subtree_angmom_in sensordata_out orc.
    Definition kvel_body := k__sensor_vel_body w velid body_rootid jnt_dofadr geom_bodyid site_bodyid cam_bodyid sensor_type
        sensor_datatype sensor_objtype sensor_objid sensor_reftype sensor_refid sensor_adr sensor_cutoff sensor_vel_adr qvel_in
        xpos_in xmat_in xipos_in ximat_in geom_xpos_in geom_xmat_in site_xpos_in site_xmat_in cam_xpos_in cam_xmat_in
        subtree_com_in ten_velocity_in actuator_velocity_in cvel_in subtree_linvel_in subtree_angmom_in sensordata_out orc.
    Definition mvel_gen := sensor_vel_model_gen w body_rootid jnt_dofadr geom_bodyid site_bodyid cam_bodyid sensor_type
        sensor_datatype sensor_objtype sensor_reftype sensor_refid sensor_adr sensor_cutoff qvel_in
        xpos_in xmat_in xipos_in ximat_in geom_xpos_in geom_xmat_in site_xpos_in site_xmat_in cam_xpos_in cam_xmat_in
        subtree_com_in ten_velocity_in actuator_velocity_in cvel_in subtree_linvel_in subtree_angmom_in.
    Definition mvel := sensor_vel_model w velid body_rootid jnt_dofadr geom_bodyid site_bodyid cam_bodyid sensor_type
        sensor_datatype sensor_objtype sensor_objid sensor_reftype sensor_refid sensor_adr sensor_cutoff sensor_vel_adr qvel_in
        xpos_in xmat_in xipos_in ximat_in geom_xpos_in geom_xmat_in site_xpos_in site_xmat_in cam_xpos_in cam_xmat_in
        subtree_com_in ten_velocity_in actuator_velocity_in cvel_in subtree_linvel_in subtree_angmom_in.

    Lemma vel_body_eq_model (t sid objid : Z) : kvel_body [] w velid sid t objid = mvel_gen t sid objid.
    Proof.
      unfold kvel_body, mvel_gen.
      cbv beta delta [k__sensor_vel_body sensor_vel_model_gen].
      case_on t 2. case_on t 3. case_on t 10. case_on t 12. case_on t 14. case_on t 19.
      case_on t 31. case_on t 32. case_on t 36. case_on t 37.
      cbv beta iota zeta. reflexivity.
    Qed.

    Theorem sensor_vel_kernel_eq_model : kvel = mvel.
    Proof.
      unfold kvel, mvel. cbv beta zeta delta [k__sensor_vel sensor_vel_model].
      apply vel_body_eq_model.
    Qed.

    Lemma vel_model_in_slot (t sid objid : Z) y :
      In y (mvel_gen t sid objid) -> in_slot w (sensor_adr sid) (sensor_dim_of_type t) y.
    Proof.
      unfold mvel_gen, sensor_vel_model_gen. cbv zeta. revert y.
      slot_case t 2. slot_case t 3. slot_case t 10. slot_case t 12. slot_case t 14. slot_case t 19.
      slot_case t 31. slot_case t 32. slot_case t 36. slot_case t 37.
      intros y [].
    Qed.

    (* every write of one task of the translated _sensor_vel lies in the slot of its sensor *)
    Theorem sensor_vel_writes_in_slot y :
      In y kvel ->
      let sid := sensor_vel_adr velid in in_slot w (sensor_adr sid) (sensor_dim_of_type (sensor_type sid)) y.
    Proof.
      rewrite sensor_vel_kernel_eq_model. unfold mvel, sensor_vel_model. cbv zeta. apply vel_model_in_slot.
    Qed.
  End Vel.

  Section Pos.
    Variables (w posid : Z) (ngeom : Z) (opt_magnetic : Z -> list S) (body_geomnum body_geomadr : Z -> Z)
      (body_iquat : Z -> Z -> list S) (body_mass body_subtreemass : Z -> Z -> S) (jnt_qposadr geom_type geom_bodyid : Z -> Z)
      (geom_quat : Z -> Z -> list S) (site_type site_bodyid : Z -> Z) (site_size : Z -> list S) (site_quat : Z -> Z -> list S)
      (cam_bodyid : Z -> Z) (cam_quat : Z -> Z -> list S) (cam_fovy : Z -> Z -> S) (cam_resolution : Z -> list Z)
      (cam_sensorsize : Z -> list S) (cam_intrinsic : Z -> Z -> list S)
      (sensor_type sensor_datatype sensor_objtype sensor_objid sensor_reftype sensor_refid sensor_adr : Z -> Z)
      (sensor_cutoff : Z -> S) (nxn_pairid : Z -> list Z) (sensor_pos_adr rangefinder_sensor_adr : Z -> Z)
      (time_in : Z -> S) (energy_in : Z -> list S) (qpos_in : Z -> Z -> S)
      (xpos_in xquat_in xmat_in xipos_in ximat_in geom_xpos_in geom_xmat_in site_xpos_in site_xmat_in cam_xpos_in cam_xmat_in
         subtree_com_in : Z -> Z -> list S)
      (ten_length_in actuator_length_in rangefinder_dist_in : Z -> Z -> S)
      (sensor_collision_in : Z -> Z -> Z -> Z -> S) (sensordata_out : Z -> Z -> S) (orc : nat -> Z)
      (opt_magnetic__shape0 cam_intrinsic__shape0 cam_fovy__shape0 body_iquat__shape0 geom_quat__shape0 site_quat__shape0
         cam_quat__shape0 body_mass__shape0 body_subtreemass__shape0 : Z).

    Definition kpos := k__sensor_pos w posid ngeom opt_magnetic body_geomnum body_geomadr body_iquat body_mass body_subtreemass
        jnt_qposadr geom_type geom_bodyid geom_quat site_type site_bodyid site_size site_quat cam_bodyid cam_quat cam_fovy
        cam_resolution cam_sensorsize cam_intrinsic sensor_type sensor_datatype sensor_objtype sensor_objid sensor_reftype
        sensor_refid sensor_adr sensor_cutoff nxn_pairid sensor_pos_adr rangefinder_sensor_adr time_in energy_in qpos_in
        xpos_in xquat_in xmat_in xipos_in ximat_in geom_xpos_in geom_xmat_in site_xpos_in site_xmat_in cam_xpos_in cam_xmat_in
        subtree_com_in ten_length_in actuator_length_in rangefinder_dist_in sensor_collision_in sensordata_out orc
        opt_magnetic__shape0 cam_intrinsic__shape0 cam_fovy__shape0 body_iquat__shape0 geom_quat__shape0 site_quat__shape0
        cam_quat__shape0 body_mass__shape0 body_subtreemass__shape0.
    Definition kpos_body := k__sensor_pos_body w posid ngeom opt_magnetic body_geomnum body_geomadr body_iquat body_mass
        body_subtreemass jnt_qposadr geom_type geom_bodyid geom_quat site_type site_bodyid site_size site_quat cam_bodyid cam_quat
        cam_fovy cam_resolution cam_sensorsize cam_intrinsic sensor_type sensor_datatype sensor_objtype sensor_objid
        sensor_reftype sensor_refid sensor_adr sensor_cutoff nxn_pairid sensor_pos_adr rangefinder_sensor_adr time_in energy_in
        qpos_in xpos_in xquat_in xmat_in xipos_in ximat_in geom_xpos_in geom_xmat_in site_xpos_in site_xmat_in cam_xpos_in
        cam_xmat_in subtree_com_in ten_length_in actuator_length_in rangefinder_dist_in sensor_collision_in sensordata_out orc
        opt_magnetic__shape0 cam_intrinsic__shape0 cam_fovy__shape0 body_iquat__shape0 geom_quat__shape0 site_quat__shape0
        cam_quat__shape0 body_mass__shape0 body_subtreemass__shape0.
    Definition kpos_geom_write := k__sensor_pos_geom_write w posid ngeom opt_magnetic body_geomnum body_geomadr body_iquat
        body_mass body_subtreemass jnt_qposadr geom_type geom_bodyid geom_quat site_type site_bodyid site_size site_quat
        cam_bodyid cam_quat cam_fovy cam_resolution cam_sensorsize cam_intrinsic sensor_type sensor_datatype sensor_objtype
        sensor_objid sensor_reftype sensor_refid sensor_adr sensor_cutoff nxn_pairid sensor_pos_adr rangefinder_sensor_adr
        time_in energy_in qpos_in xpos_in xquat_in xmat_in xipos_in ximat_in geom_xpos_in geom_xmat_in site_xpos_in site_xmat_in
        cam_xpos_in cam_xmat_in subtree_com_in ten_length_in actuator_length_in rangefinder_dist_in sensor_collision_in
        sensordata_out orc opt_magnetic__shape0 cam_intrinsic__shape0 cam_fovy__shape0 body_iquat__shape0 geom_quat__shape0
        site_quat__shape0 cam_quat__shape0 body_mass__shape0 body_subtreemass__shape0.
    Definition kpos_geom_search := k__sensor_pos_geom_search w posid ngeom opt_magnetic body_geomnum body_geomadr body_iquat
        body_mass body_subtreemass jnt_qposadr geom_type geom_bodyid geom_quat site_type site_bodyid site_size site_quat
        cam_bodyid cam_quat cam_fovy cam_resolution cam_sensorsize cam_intrinsic sensor_type sensor_datatype sensor_objtype
        sensor_objid sensor_reftype sensor_refid sensor_adr sensor_cutoff nxn_pairid sensor_pos_adr rangefinder_sensor_adr
        time_in energy_in qpos_in xpos_in xquat_in xmat_in xipos_in ximat_in geom_xpos_in geom_xmat_in site_xpos_in site_xmat_in
        cam_xpos_in cam_xmat_in subtree_com_in ten_length_in actuator_length_in rangefinder_dist_in sensor_collision_in
        sensordata_out orc opt_magnetic__shape0 cam_intrinsic__shape0 cam_fovy__shape0 body_iquat__shape0 geom_quat__shape0
        site_quat__shape0 cam_quat__shape0 body_mass__shape0 body_subtreemass__shape0.
    Definition mpos_gen := sensor_pos_model_gen w opt_magnetic body_iquat body_mass body_subtreemass jnt_qposadr geom_bodyid
        geom_quat site_type site_bodyid site_size site_quat cam_bodyid cam_quat cam_fovy cam_resolution cam_sensorsize
        cam_intrinsic sensor_type sensor_datatype sensor_objtype sensor_reftype sensor_refid sensor_adr
        sensor_cutoff rangefinder_sensor_adr time_in energy_in qpos_in xpos_in xquat_in xmat_in xipos_in ximat_in
        geom_xpos_in geom_xmat_in site_xpos_in site_xmat_in cam_xpos_in cam_xmat_in subtree_com_in ten_length_in
        actuator_length_in rangefinder_dist_in opt_magnetic__shape0 cam_intrinsic__shape0 cam_fovy__shape0 body_iquat__shape0
        geom_quat__shape0 site_quat__shape0 cam_quat__shape0 body_mass__shape0 body_subtreemass__shape0.
    Definition mpos := sensor_pos_model w posid opt_magnetic body_iquat body_mass body_subtreemass jnt_qposadr geom_bodyid
        geom_quat site_type site_bodyid site_size site_quat cam_bodyid cam_quat cam_fovy cam_resolution cam_sensorsize
        cam_intrinsic sensor_type sensor_datatype sensor_objtype sensor_objid sensor_reftype sensor_refid sensor_adr
        sensor_cutoff sensor_pos_adr rangefinder_sensor_adr time_in energy_in qpos_in xpos_in xquat_in xmat_in xipos_in ximat_in
        geom_xpos_in geom_xmat_in site_xpos_in site_xmat_in cam_xpos_in cam_xmat_in subtree_com_in ten_length_in
        actuator_length_in rangefinder_dist_in opt_magnetic__shape0 cam_intrinsic__shape0 cam_fovy__shape0 body_iquat__shape0
        geom_quat__shape0 site_quat__shape0 cam_quat__shape0 body_mass__shape0 body_subtreemass__shape0.

    Lemma kpos_unfold : kpos = kpos_body [] w posid 0 (sensor_pos_adr posid) (sensor_type (sensor_pos_adr posid))
                                 (sensor_objid (sensor_pos_adr posid)).
    Proof. unfold kpos, kpos_body. cbv beta zeta delta [k__sensor_pos]. reflexivity. Qed.

    Lemma pos_body_eq_model (axis0 t sid objid : Z) :
      Z.eqb t 39 = false -> Z.eqb t 40 = false -> Z.eqb t 41 = false ->
      kpos_body [] w posid axis0 sid t objid = mpos_gen t sid objid.
    Proof.
      intros H39 H40 H41. unfold kpos_body, mpos_gen.
      cbv beta delta [k__sensor_pos_body sensor_pos_model_gen].
      rewrite H39, H40, H41.
      cbv beta iota delta [orb].
      case_on t 6. case_on t 8. case_on t 7. case_on t 9. case_on t 11. case_on t 13. case_on t 18. case_on t 26.
      case_on t 28. case_on t 29. case_on t 30.
      case_on t 27. case_on t 35. case_on t 38.
      case_on t 43. case_on t 44. case_on t 45.
      cbv beta iota zeta. reflexivity.
    Qed.

    (* every sensor type of the position stage except GEOMDIST / GEOMNORMAL / GEOMFROMTO *)
    Theorem sensor_pos_kernel_eq_model :
      let t := sensor_type (sensor_pos_adr posid) in
      t <> 39 -> t <> 40 -> t <> 41 -> kpos = mpos.
    Proof.
      intros t H39 H40 H41. rewrite kpos_unfold. unfold mpos. cbv beta zeta delta [sensor_pos_model].
      apply pos_body_eq_model; apply Z.eqb_neq; assumption.
    Qed.

    (* the three geom-distance types: whatever the search loop found (dist, pnts, flip), what is
       written is one scalar / one 3-vector / one 6-vector at the sensor's address, through the
       same cutoff function *)
    Lemma geom_write_shape (axis0 t sid objid : Z) (dist : S) (pnts : list S) (flip : bool) :
      let ws := kpos_geom_write [] w posid axis0 sid t objid dist pnts flip in
      let wsc := write_scalar w (sensor_adr sid) (sensor_type sid) (sensor_datatype sid) (sensor_cutoff sid) in
      let wv := write_vector w (sensor_adr sid) (sensor_type sid) (sensor_datatype sid) (sensor_cutoff sid) in
      (t = 39 -> ws = wsc dist) /\ (t = 40 -> exists v, ws = wv v 3%nat) /\ (t = 41 -> exists v, ws = wv v 6%nat).
    Proof.
      cbv zeta. unfold kpos_geom_write. cbv beta delta [k__sensor_pos_geom_write].
      repeat split; intros ->; simpl Z.eqb; cbv iota.
      - finish.
      - match goal with |- context [let normal := ?e in _] => exists e end. finish.
      - match goal with |- context [let fromto := ?e in _] => exists e end. finish.
    Qed.

    Lemma pos_model_in_slot (t sid objid : Z) y :
      In y (mpos_gen t sid objid) -> in_slot w (sensor_adr sid) (sensor_dim_of_type t) y.
    Proof.
      unfold mpos_gen, sensor_pos_model_gen. cbv zeta. revert y.
      slot_case t 6. slot_case t 8. slot_case t 7. slot_case t 9. slot_case t 11. slot_case t 13. slot_case t 18.
      slot_case t 26.
      destruct (Z.eqb_spec t 28) as [-> | ?]; [intros y Hy; apply write_vector_in_slot in Hy; exact Hy|].
      destruct (Z.eqb_spec t 29) as [-> | ?]; [intros y Hy; apply write_vector_in_slot in Hy; exact Hy|].
      destruct (Z.eqb_spec t 30) as [-> | ?]; [intros y Hy; apply write_vector_in_slot in Hy; exact Hy|].
      cbv beta iota delta [orb].
      slot_case t 27. slot_case t 35.
      destruct (Z.eqb_spec t 38) as [-> | ?].
      { intros y Hy. destruct (insidesite_point _ _ _ _ _ _ _ _ _ _ _ _ _); [|destruct Hy].
        apply write_scalar_in_slot in Hy. exact Hy. }
      slot_case t 43. slot_case t 44. slot_case t 45.
      intros y [].
    Qed.

    Lemma pos_body_geom (axis0 t sid objid : Z) :
      (t = 39 \/ t = 40 \/ t = 41) ->
      kpos_body [] w posid axis0 sid t objid =
      let p := kpos_geom_search [] w posid axis0 sid t objid in
      kpos_geom_write [] w posid axis0 sid t objid (fst p) (fst (snd p)) (snd (snd p)).
    Proof.
      intros Ht. unfold kpos_body, kpos_geom_search, kpos_geom_write.
      cbv beta delta [k__sensor_pos_body].
      destruct Ht as [-> | [-> | ->]]; simpl Z.eqb; cbv beta iota delta [orb];
        cbv beta zeta delta [k__sensor_pos_geom]; reflexivity.
    Qed.

    (* every write of one task of the translated _sensor_pos (ALL position-stage types, the geom
       distance ones included) lies in the slot of its sensor *)
    Theorem sensor_pos_writes_in_slot y :
      In y kpos ->
      let sid := sensor_pos_adr posid in in_slot w (sensor_adr sid) (sensor_dim_of_type (sensor_type sid)) y.
    Proof.
      cbv zeta. rewrite kpos_unfold.
      set (sid := sensor_pos_adr posid). set (t := sensor_type sid).
      destruct (Z.eq_dec t 39) as [E39 | N39]; [|destruct (Z.eq_dec t 40) as [E40 | N40]; [|destruct (Z.eq_dec t 41) as [E41 | N41]]].
      - rewrite pos_body_geom by auto. cbv zeta.
        match goal with |- context [kpos_geom_write _ _ _ _ _ _ _ ?d ?p ?f] =>
          destruct (geom_write_shape 0 t sid (sensor_objid sid) d p f) as (G & _ & _) end.
        rewrite (G E39). rewrite E39. intros Hy. apply write_scalar_in_slot in Hy. exact Hy.
      - rewrite pos_body_geom by auto. cbv zeta.
        match goal with |- context [kpos_geom_write _ _ _ _ _ _ _ ?d ?p ?f] =>
          destruct (geom_write_shape 0 t sid (sensor_objid sid) d p f) as (_ & G & _) end.
        destruct (G E40) as (v & ->). rewrite E40. intros Hy. apply write_vector_in_slot in Hy. exact Hy.
      - rewrite pos_body_geom by auto. cbv zeta.
        match goal with |- context [kpos_geom_write _ _ _ _ _ _ _ ?d ?p ?f] =>
          destruct (geom_write_shape 0 t sid (sensor_objid sid) d p f) as (_ & _ & G) end.
        destruct (G E41) as (v & ->). rewrite E41. intros Hy. apply write_vector_in_slot in Hy. exact Hy.
      - rewrite pos_body_eq_model by (apply Z.eqb_neq; assumption). apply pos_model_in_slot.
    Qed.
  End Pos.
End KernelsEqModels.

(* ---------------------------------------------------------------------------------------- *)
(* 2. the cutoff rule over the reals                                                          *)
Section CutoffR.
  Local Open Scope R_scope.
  (* decide the real comparisons, innermost first *)
  Ltac rdec :=
    unfold Rltb, Rleb, Rmin, Rmax;
    repeat match goal with
      | |- context [Rlt_dec ?a ?b] =>
          lazymatch a with context [if _ then _ else _] => fail | _ =>
          lazymatch b with context [if _ then _ else _] => fail | _ => destruct (Rlt_dec a b) end end
      | |- context [Rle_dec ?a ?b] =>
          lazymatch a with context [if _ then _ else _] => fail | _ =>
          lazymatch b with context [if _ then _ else _] => fail | _ => destruct (Rle_dec a b) end end
      end.

  Lemma cutoff_val_real (stype : Z) (c x : R) :
    0 < c -> stype <> 41%Z -> cutoff_val stype 0 c x = Rmin (Rmax x (- c)) c.
  Proof.
    intros Hc Hs. unfold cutoff_val. apply Z.eqb_neq in Hs. rewrite Hs. simpl Z.eqb. sR.
    rdec; simpl; try lra; try reflexivity.
  Qed.

  Theorem cutoff_rule_real (stype : Z) (c x : R) :
    0 < c -> stype <> 41%Z ->
    let y := cutoff_val stype 0 c x in
    - c <= y <= c /\ (- c <= x <= c -> y = x) /\ (x < - c -> y = - c) /\ (c < x -> y = c).
  Proof.
    intros Hc Hs y. subst y. rewrite cutoff_val_real by assumption.
    rdec; repeat split; intros; lra.
  Qed.

  Theorem cutoff_rule_positive (stype : Z) (c x : R) :
    0 < c -> stype <> 41%Z -> cutoff_val stype 1 c x = Rmin x c.
  Proof.
    intros Hc Hs. unfold cutoff_val. apply Z.eqb_neq in Hs. rewrite Hs. simpl Z.eqb. sR.
    rdec; simpl; try lra; try reflexivity.
  Qed.

  Theorem cutoff_zero_noop (stype dtype : Z) (c x : R) : c <= 0 -> cutoff_val stype dtype c x = x.
  Proof.
    intros Hc. unfold cutoff_val. sR. rdec; simpl; try lra; reflexivity.
  Qed.

  Theorem cutoff_fromto_exempt (dtype : Z) (c x : R) : cutoff_val 41 dtype c x = x.
  Proof. unfold cutoff_val. simpl Z.eqb. rewrite andb_false_r. reflexivity. Qed.

  Theorem cutoff_other_datatype_noop (stype dtype : Z) (c x : R) :
    dtype <> 0%Z -> dtype <> 1%Z -> cutoff_val stype dtype c x = x.
  Proof.
    intros H0 H1. unfold cutoff_val. apply Z.eqb_neq in H0, H1. rewrite H0, H1.
    destruct (_ && _); reflexivity.
  Qed.

  (* the value the writer functions store = MuJoCo's apply_cutoff, for every type but CONTACT (42) /
     datatype / cutoff / value.  CONTACT sensors never go through the writer functions: _sensor_acc
     fills their slots directly, without cutoff, which is also what MuJoCo does. *)
  Theorem cutoff_eq_mujoco (stype dtype : Z) (c x : R) :
    stype <> 42%Z -> cutoff_val stype dtype c x = mj_cutoff stype dtype c x.
  Proof.
    intros H42. apply Z.eqb_neq in H42.
    unfold cutoff_val, mj_cutoff, mju_clip, mju_min. rewrite H42. sR.
    destruct (Z.eqb stype 41), (Z.eqb dtype 0), (Z.eqb dtype 1); simpl; rdec; simpl; try reflexivity; try lra.
  Qed.

  Example cutoff_example : cutoff_val 10 0 1 5 = 1 /\ cutoff_val 10 1 1 (-5) = -5 /\ cutoff_val 41 0 1 5 = 5.
  Proof.
    repeat split.
    - rewrite cutoff_val_real by (try lra; lia). rdec; lra.
    - rewrite cutoff_rule_positive by (try lra; lia). rdec; lra.
    - apply cutoff_fromto_exempt.
  Qed.
End CutoffR.

(* ---------------------------------------------------------------------------------------- *)
(* 4. limit kernels and the tendon-actuator-force cutoff pass                                 *)
Section Limit.
  Context {S : Type} `{Scalar S}.
  Variables (w efcid lid : Z) (sensor_type sensor_datatype sensor_objid sensor_adr : Z -> Z) (sensor_cutoff : Z -> S)
    (sensor_limit_adr ne_in nf_in nl_in : Z -> Z) (efc_type_in efc_id_in : Z -> Z -> Z) (efc_pos_in efc_margin_in : Z -> Z -> S)
    (sensordata_out : Z -> Z -> S) (orc : nat -> Z).

  Definition klimpos := k__limit_pos w efcid lid sensor_type sensor_datatype sensor_objid sensor_adr sensor_cutoff sensor_limit_adr
      ne_in nf_in nl_in efc_type_in efc_id_in efc_pos_in efc_margin_in sensordata_out orc.
  Definition klimvel := k__limit_vel w efcid lid sensor_type sensor_datatype sensor_objid sensor_adr sensor_cutoff sensor_limit_adr
      ne_in nf_in nl_in efc_type_in efc_id_in efc_pos_in sensordata_out orc.
  Definition klimfrc := k__limit_frc w efcid lid sensor_type sensor_datatype sensor_objid sensor_adr sensor_cutoff sensor_limit_adr
      ne_in nf_in nl_in efc_type_in efc_id_in efc_pos_in sensordata_out orc.

  (* the row condition: inside the limit block of the world, efc_id = the sensor's object, and the row
     family matches the sensor family: LIMIT_JOINT (3) for the joint-limit sensor type [jt],
     LIMIT_TENDON (4) for the tendon-limit sensor type [tt] *)
  Definition limit_row_selected (jt tt : Z) : bool :=
    let sid := sensor_limit_adr lid in
    negb ((efcid <? ne_in w + nf_in w) || (efcid >=? ne_in w + nf_in w + nl_in w))
    && (efc_id_in w efcid =? sensor_objid sid)
    && (((efc_type_in w efcid =? 3) && (sensor_type sid =? jt)) || ((efc_type_in w efcid =? 4) && (sensor_type sid =? tt))).
  Definition limit_write (x : S) : list (write S) :=
    let sid := sensor_limit_adr lid in
    write_scalar w (sensor_adr sid) (sensor_type sid) (sensor_datatype sid) (sensor_cutoff sid) x.

  Ltac atoms :=
    cbv beta zeta delta [limit_row_selected limit_write write_scalar cutoff_val SD app];
    repeat match goal with
           | |- context [Z.ltb ?a ?b] => destruct (Z.ltb a b)
           | |- context [Z.geb ?a ?b] => destruct (Z.geb a b)
           | |- context [Z.eqb ?a ?b] => destruct (Z.eqb a b)
           | |- context [sgtb ?a ?b] => destruct (sgtb a b)
           end; cbv beta iota delta [orb andb negb].

  (* one task of the translated kernels: exactly the selected row is written, through the cutoff function,
     at the sensor's address *)
  Theorem limit_pos_kernel_spec :
    klimpos = if limit_row_selected 20 23 then limit_write (ssub (efc_pos_in w efcid) (efc_margin_in w efcid)) else [].
  Proof. unfold klimpos. cbv beta zeta delta [k__limit_pos]. atoms; reflexivity. Qed.
  Theorem limit_vel_kernel_spec : klimvel = if limit_row_selected 21 24 then limit_write (efc_pos_in w efcid) else [].
  Proof. unfold klimvel. cbv beta zeta delta [k__limit_vel]. atoms; reflexivity. Qed.
  Theorem limit_frc_kernel_spec : klimfrc = if limit_row_selected 22 25 then limit_write (efc_pos_in w efcid) else [].
  Proof. unfold klimfrc. cbv beta zeta delta [k__limit_frc]. atoms; reflexivity. Qed.

  (* the selection is MuJoCo's (engine_sensor.c): a joint-limit sensor reads only mjCNSTR_LIMIT_JOINT rows whose
     id is its joint, a tendon-limit sensor only mjCNSTR_LIMIT_TENDON rows whose id is its tendon *)
  Ltac sel_mj jt tt :=
    unfold limit_row_selected, mj_limit_row_matches; cbv zeta;
    destruct (negb _); [|discriminate];
    destruct (efc_id_in w efcid =? sensor_objid (sensor_limit_adr lid)); [|discriminate];
    destruct (efc_type_in w efcid =? 3), (efc_type_in w efcid =? 4);
    destruct (Z.eqb_spec (sensor_type (sensor_limit_adr lid)) jt) as [E1 |];
    destruct (Z.eqb_spec (sensor_type (sensor_limit_adr lid)) tt) as [E2 |];
    try (exfalso; lia); try rewrite E1; try rewrite E2; cbv; intros; try discriminate; reflexivity.
  Lemma selected_matches_mujoco_pos :
    limit_row_selected 20 23 = true ->
    mj_limit_row_matches (sensor_type (sensor_limit_adr lid)) (efc_type_in w efcid) (efc_id_in w efcid) (sensor_objid (sensor_limit_adr lid)) = true.
  Proof. sel_mj 20 23. Qed.
  Lemma selected_matches_mujoco_vel :
    limit_row_selected 21 24 = true ->
    mj_limit_row_matches (sensor_type (sensor_limit_adr lid)) (efc_type_in w efcid) (efc_id_in w efcid) (sensor_objid (sensor_limit_adr lid)) = true.
  Proof. sel_mj 21 24. Qed.
  Lemma selected_matches_mujoco_frc :
    limit_row_selected 22 25 = true ->
    mj_limit_row_matches (sensor_type (sensor_limit_adr lid)) (efc_type_in w efcid) (efc_id_in w efcid) (sensor_objid (sensor_limit_adr lid)) = true.
  Proof. sel_mj 22 25. Qed.

  Theorem limit_pos_reads_only_matching_row :
    klimpos <> [] ->
    let sid := sensor_limit_adr lid in
    mj_limit_row_matches (sensor_type sid) (efc_type_in w efcid) (efc_id_in w efcid) (sensor_objid sid) = true.
  Proof.
    rewrite limit_pos_kernel_spec. destruct (limit_row_selected 20 23) eqn:E; [|intros Hc; exfalso; apply Hc; reflexivity].
    intros _. cbv zeta. apply selected_matches_mujoco_pos; assumption.
  Qed.
  Theorem limit_vel_reads_only_matching_row :
    klimvel <> [] ->
    let sid := sensor_limit_adr lid in
    mj_limit_row_matches (sensor_type sid) (efc_type_in w efcid) (efc_id_in w efcid) (sensor_objid sid) = true.
  Proof.
    rewrite limit_vel_kernel_spec. destruct (limit_row_selected 21 24) eqn:E; [|intros Hc; exfalso; apply Hc; reflexivity].
    intros _. cbv zeta. apply selected_matches_mujoco_vel; assumption.
  Qed.
  Theorem limit_frc_reads_only_matching_row :
    klimfrc <> [] ->
    let sid := sensor_limit_adr lid in
    mj_limit_row_matches (sensor_type sid) (efc_type_in w efcid) (efc_id_in w efcid) (sensor_objid sid) = true.
  Proof.
    rewrite limit_frc_kernel_spec. destruct (limit_row_selected 22 25) eqn:E; [|intros Hc; exfalso; apply Hc; reflexivity].
    intros _. cbv zeta. apply selected_matches_mujoco_frc; assumption.
  Qed.

  (* in particular the former defect is excluded: a JOINTLIMITPOS sensor never reads a tendon-limit row *)
  Corollary jointlimitpos_ignores_tendon_rows :
    sensor_type (sensor_limit_adr lid) = 20 -> efc_type_in w efcid = 4 -> klimpos = [].
  Proof.
    intros Hs Ht. rewrite limit_pos_kernel_spec. unfold limit_row_selected. cbv zeta. rewrite Hs, Ht. simpl Z.eqb.
    rewrite !andb_false_r. reflexivity.
  Qed.
End Limit.

Section TendonCutoff.
  Context {S : Type} `{Scalar S}.
  Variables (w k : Z) (sensor_type sensor_datatype sensor_adr : Z -> Z) (sensor_cutoff : Z -> S) (sensor_tendonactfrc_adr : Z -> Z)
    (sensordata_in sensordata_out : Z -> Z -> S) (orc : nat -> Z).
  (* _tendon_actuator_force_cutoff re-stores the accumulated value through the cutoff function *)
  Theorem tendon_actuator_force_cutoff_spec :
    k__tendon_actuator_force_cutoff w k sensor_type sensor_datatype sensor_adr sensor_cutoff sensor_tendonactfrc_adr
      sensordata_in sensordata_out orc
    = let sid := sensor_tendonactfrc_adr k in
      write_scalar w (sensor_adr sid) (sensor_type sid) (sensor_datatype sid) (sensor_cutoff sid) (sensordata_in w (sensor_adr sid)).
  Proof. cbv beta zeta delta [k__tendon_actuator_force_cutoff]. finish. Qed.
End TendonCutoff.

(* ---------------------------------------------------------------------------------------- *)
(* 5. energy                                                                                  *)
Section EnergyR.
  Local Open Scope R_scope.

  (* potential energy: the translated kernels of Gen/T_sensor.v *)
  Variables (opt_gravity : Z -> list R) (body_mass : Z -> Z -> R) (xipos_in : Z -> Z -> list R) (energy_out : Z -> list R)
            (orc : nat -> Z) (gs ms : Z).

  Lemma energy_run_app (w : Z) (e : R * R) a b : energy_run w e (a ++ b) = energy_run w (energy_run w e a) b.
  Proof. unfold energy_run. apply fold_left_app. Qed.

  Theorem energy_pos_zero_spec (w : Z) (e : R * R) :
    energy_run w e (T_sensor.k__energy_pos_zero w energy_out orc) = (0, snd e).
  Proof.
    unfold T_sensor.k__energy_pos_zero, energy_run, energy_apply. simpl. rewrite Z.eqb_refl. reflexivity.
  Qed.

  (* one task (world w, body b+1) subtracts  m_{b+1} * (g . x_{b+1})  from the potential energy *)
  Theorem energy_pos_gravity_task (w b : Z) (e : R * R) :
    energy_run w e (T_sensor.k__energy_pos_gravity w b opt_gravity body_mass xipos_in energy_out orc gs ms)
    = (fst e - body_mass (Z.rem w ms) (b + 1)%Z * vdot (opt_gravity (Z.rem w gs)) (xipos_in w (b + 1)%Z), snd e - 0).
  Proof.
    unfold T_sensor.k__energy_pos_gravity, energy_run, energy_apply. simpl. rewrite Z.eqb_refl. reflexivity.
  Qed.

  (* the launch over bodies 1..n (tasks b = 0..n-1, any order gives the same real sum; here ascending):
     potential = - sum_b m_b (g . x_b) *)
  Fixpoint grav_sum (w : Z) (n : nat) (b0 : Z) : R :=
    match n with
    | O => 0
    | Datatypes.S n' => body_mass (Z.rem w ms) (b0 + 1)%Z * vdot (opt_gravity (Z.rem w gs)) (xipos_in w (b0 + 1)%Z)
                        + grav_sum w n' (b0 + 1)%Z
    end.
  Fixpoint grav_tasks (w : Z) (n : nat) (b0 : Z) : list (write R) :=
    match n with
    | O => []
    | Datatypes.S n' => T_sensor.k__energy_pos_gravity w b0 opt_gravity body_mass xipos_in energy_out orc gs ms ++ grav_tasks w n' (b0 + 1)%Z
    end.
  Theorem energy_pos_gravity_launch (w : Z) (n : nat) (b0 : Z) (e : R * R) :
    energy_run w e (grav_tasks w n b0) = (fst e - grav_sum w n b0, snd e).
  Proof.
    revert b0 e. induction n as [|n IH]; intros b0 e.
    - simpl. destruct e; simpl. f_equal; lra.
    - change (grav_tasks w (Datatypes.S n) b0)
        with (T_sensor.k__energy_pos_gravity w b0 opt_gravity body_mass xipos_in energy_out orc gs ms ++ grav_tasks w n (b0 + 1)%Z).
      rewrite energy_run_app, energy_pos_gravity_task, IH. simpl. f_equal; lra.
  Qed.
  Corollary potential_energy_gravity (w : Z) (n : nat) :
    energy_run w (0, 0) (T_sensor.k__energy_pos_zero w energy_out orc ++ grav_tasks w n 0%Z) = (- grav_sum w n 0%Z, 0).
  Proof.
    rewrite energy_run_app, energy_pos_zero_spec, energy_pos_gravity_launch. simpl. f_equal; lra.
  Qed.

  (* spring potential of the polynomial-stiffness law; with zero polynomial terms it is k x^2 / 2 *)
  Theorem poly_potential_quadratic (k x : R) : T_sensor.poly_potential k [0; 0] x 0 = / 2 * k * (x * x).
  Proof. unfold T_sensor.poly_potential. simpl. sR. unfold vget. simpl. field. Qed.
  Theorem poly_potential_quadratic_nonneg (k x : R) : 0 <= k -> 0 <= T_sensor.poly_potential k [0; 0] x 0.
  Proof. intros Hk. rewrite poly_potential_quadratic. nra. Qed.
End EnergyR.

(* ---------------------------------------------------------------------------------------- *)
(* 5b. spring potential: polynomial stiffness and the tendon deadband                          *)
Section SpringR.
  Local Open Scope R_scope.

  (* the literal 0.3333333333333333 of util_misc.poly_potential *)
  Definition c3 : R := 3333333333333333 / 10000000000000000.
  Lemma c3_third : Rabs (c3 - / 3) <= / 10000000000000000.
  Proof. unfold c3. rewrite Rabs_left1 by lra. lra. Qed.

  (* poly_potential(k, (a, b), x, 0) = k/2 x^2 + c3 a x^3 + b/4 x^4 on the SIGNED x: the integral from 0 to x of
     the polynomial spring force k s + a s^2 + b s^3 (with c3 for 1/3) *)
  Theorem poly_potential_closed_form (k a b x : R) :
    T_sensor.poly_potential k [a; b] x 0 = / 2 * k * (x * x) + c3 * a * (x * x * x) + / 4 * b * (x * x * x * x).
  Proof. unfold T_sensor.poly_potential, c3. simpl. sR. unfold vget. simpl. field. Qed.
  (* ... so it is NOT even: the cubic term follows the sign of the displacement *)
  Theorem poly_potential_sign_sensitive (k a b x : R) :
    T_sensor.poly_potential k [a; b] x 0 - T_sensor.poly_potential k [a; b] (- x) 0 = 2 * c3 * a * (x * x * x).
  Proof. rewrite !poly_potential_closed_form. ring. Qed.

  (* signed displacement of a tendon from its spring deadband [lower, upper] (MuJoCo engine_passive / energyPos) *)
  Definition deadband_disp (len lower upper : R) : R :=
    if Rlt_dec upper len then len - upper else if Rlt_dec len lower then len - lower else 0.

  Section Tendon.
    Variables (w t : Z) (stiff : Z -> Z -> R) (spoly lspring : Z -> Z -> list R) (len : Z -> Z -> R)
              (energy_out : Z -> list R) (orc : nat -> Z) (n1 n2 n3 : Z).
    Definition ktendon := T_sensor.k__energy_pos_passive_tendon w t stiff spoly lspring len energy_out orc n1 n2 n3.
    Definition k_ := stiff (Z.rem w n1) t.
    Definition sp_ := spoly (Z.rem w n2) t.
    Definition lo_ := vget (lspring (Z.rem w n3) t) 0.
    Definition hi_ := vget (lspring (Z.rem w n3) t) 1.
    Definition no_spring : bool := Reqb k_ 0 && Reqb (vget sp_ 0) 0 && Reqb (vget sp_ 1) 0.

    (* one task of the translated _energy_pos_passive_tendon: nothing without a spring, otherwise it adds the
       polynomial potential of the SIGNED deadband displacement to energy[w][0] and 0 to energy[w][1] *)
    Theorem energy_tendon_task_spec :
      ktendon = if no_spring then []
                else [mkW "energy_out" [w] KAdd (VV [T_sensor.poly_potential k_ sp_ (deadband_disp (len w t) lo_ hi_) 0; 0])].
    Proof.
      unfold ktendon, T_sensor.k__energy_pos_passive_tendon, no_spring, k_, sp_, lo_, hi_, deadband_disp. cbv zeta. sR.
      destruct (_ && _ && _); [reflexivity|].
      unfold Rltb. destruct (Rlt_dec _ (len w t)); [reflexivity|]. destruct (Rlt_dec (len w t) _); reflexivity.
    Qed.

    Theorem energy_tendon_task (e : R * R) :
      no_spring = false ->
      energy_run w e ktendon = (fst e + T_sensor.poly_potential k_ sp_ (deadband_disp (len w t) lo_ hi_) 0, snd e + 0).
    Proof.
      intros Hn. rewrite energy_tendon_task_spec, Hn. unfold energy_run, energy_apply. simpl. rewrite Z.eqb_refl. reflexivity.
    Qed.
  End Tendon.

  (* the three regimes of the displacement *)
  Theorem deadband_above len lower upper : upper < len -> deadband_disp len lower upper = len - upper.
  Proof. intros. unfold deadband_disp. destruct Rlt_dec; [reflexivity|lra]. Qed.
  Theorem deadband_below len lower upper : lower <= upper -> len < lower -> deadband_disp len lower upper = len - lower /\ deadband_disp len lower upper < 0.
  Proof. intros. unfold deadband_disp. destruct Rlt_dec; [lra|]. destruct Rlt_dec; [split; lra|lra]. Qed.
  Theorem deadband_inside len lower upper k a b :
    lower <= len <= upper -> deadband_disp len lower upper = 0 /\ T_sensor.poly_potential k [a; b] (deadband_disp len lower upper) 0 = 0.
  Proof.
    intros. assert (E : deadband_disp len lower upper = 0).
    { unfold deadband_disp. destruct Rlt_dec; [lra|]. destruct Rlt_dec; [lra|reflexivity]. }
    split; [exact E|]. rewrite E, poly_potential_closed_form. ring.
  Qed.
  (* a compressed tendon with a cubic term: the unsigned distance gives a different energy *)
  Theorem deadband_compressed_differs_from_unsigned len lower upper k a b :
    lower <= upper -> len < lower -> a <> 0 ->
    T_sensor.poly_potential k [a; b] (deadband_disp len lower upper) 0 <> T_sensor.poly_potential k [a; b] (Rabs (deadband_disp len lower upper)) 0.
  Proof.
    intros Hlu Hl Ha. destruct (deadband_below len lower upper Hlu Hl) as (E & Hneg).
    rewrite (Rabs_left _ Hneg). set (x := deadband_disp len lower upper) in *.
    intros Heq. pose proof (poly_potential_sign_sensitive k a b x) as Hs. rewrite Heq in Hs.
    replace (T_sensor.poly_potential k [a; b] (- x) 0 - T_sensor.poly_potential k [a; b] (- x) 0) with 0 in Hs by ring.
    assert (x * x * x <> 0) by (repeat apply Rmult_integral_contrapositive_currified; lra).
    assert (2 * c3 * a <> 0) by (unfold c3; apply Rmult_integral_contrapositive_currified; lra).
    assert (2 * c3 * a * (x * x * x) <> 0) by (apply Rmult_integral_contrapositive_currified; assumption). lra.
  Qed.

  (* hinge / slide joint spring: polynomial potential of the signed q - q_spring *)
  Section Joint.
    Variables (w j : Z) (qspring : Z -> Z -> R) (jtype jadr : Z -> Z) (stiff : Z -> Z -> R) (spoly : Z -> Z -> list R)
              (qpos : Z -> Z -> R) (energy_out : Z -> list R) (orc : nat -> Z) (n1 n2 n3 : Z).
    Theorem energy_joint_hinge_slide_task_spec :
      (jtype j = 2 \/ jtype j = 3)%Z ->
      T_sensor.k__energy_pos_passive_joint w j qspring jtype jadr stiff spoly qpos energy_out orc n1 n2 n3
      = if Reqb (stiff (Z.rem w n1) j) 0 && Reqb (vget (spoly (Z.rem w n2) j) 0) 0 && Reqb (vget (spoly (Z.rem w n2) j) 1) 0 then []
        else [mkW "energy_out" [w] KAdd
                (VV [T_sensor.poly_potential (stiff (Z.rem w n1) j) (spoly (Z.rem w n2) j)
                       (qpos w (jadr j) - qspring (Z.rem w n3) (jadr j)) 0; 0])].
    Proof.
      intros Ht. unfold T_sensor.k__energy_pos_passive_joint. cbv zeta. sR.
      destruct (_ && _ && _); [reflexivity|].
      destruct Ht as [-> | ->]; reflexivity.
    Qed.
  End Joint.
End SpringR.

Section KineticR.
  Local Open Scope R_scope.
  (* kinetic energy as the tile kernel computes it: 1/2 * sum_i qvel_i * (M qvel)_i *)
  Theorem kinetic_is_half_quadratic_form (M : list (list R)) (v : list R) :
    kinetic v (mat_vec_rows M v) = / 2 * quad_form M v.
  Proof. unfold kinetic, quad_form. sR. field. Qed.

  Theorem kinetic_energy_nonneg (M : list (list R)) (v : list R) :
    (forall u, 0 <= quad_form M u) -> 0 <= kinetic v (mat_vec_rows M v).
  Proof. intros Hpsd. rewrite kinetic_is_half_quadratic_form. specialize (Hpsd v). lra. Qed.

  (* the hypothesis is satisfiable, e.g. by the inertia of a 2-dof chain *)
  Example psd_example : forall u, 0 <= quad_form [[2; 1]; [1; 2]] u.
  Proof.
    intros u. unfold quad_form, mat_vec_rows. destruct u as [|a [|b r]]; simpl; sR.
    - lra.
    - pose proof (Rle_0_sqr a) as H2. unfold Rsqr in *. lra.
    - replace (dot_list r []) with 0 by (destruct r; reflexivity).
      pose proof (Rle_0_sqr (a + b)) as H1. pose proof (Rle_0_sqr a) as H2. pose proof (Rle_0_sqr b) as H3. unfold Rsqr in *. lra.
  Qed.
End KineticR.

(* ---------------------------------------------------------------------------------------- *)
(* 6. closed-form sensors (the value functions of Gen/T_sensor.v)                             *)
Section ClosedForm.
  (* the value functions the kernels of Gen/K_sensor.v call are the same terms as in Gen/T_sensor.v *)
  Lemma K_T_gyro {S} `{Scalar S} : @K_sensor._gyro S _ = @T_sensor._gyro S _. Proof. reflexivity. Qed.
  Lemma K_T_velocimeter {S} `{Scalar S} : @K_sensor._velocimeter S _ = @T_sensor._velocimeter S _. Proof. reflexivity. Qed.
  Lemma K_T_magnetometer {S} `{Scalar S} : @K_sensor._magnetometer S _ = @T_sensor._magnetometer S _. Proof. reflexivity. Qed.
  Lemma K_T_clock {S} `{Scalar S} : @K_sensor._clock S = @T_sensor._clock S. Proof. reflexivity. Qed.
  Lemma K_T_joint_pos {S} `{Scalar S} : @K_sensor._joint_pos S = @T_sensor._joint_pos S. Proof. reflexivity. Qed.
  Lemma K_T_joint_vel {S} `{Scalar S} : @K_sensor._joint_vel S = @T_sensor._joint_vel S. Proof. reflexivity. Qed.

  Local Open Scope R_scope.

  (* copies *)
  Theorem clock_spec (time_in : Z -> R) w : T_sensor._clock time_in w = time_in w. Proof. reflexivity. Qed.
  Theorem jointpos_spec (adr : Z -> Z) (qpos : Z -> Z -> R) w j : T_sensor._joint_pos adr qpos w j = qpos w (adr j). Proof. reflexivity. Qed.
  Theorem jointvel_spec (adr : Z -> Z) (qvel : Z -> Z -> R) w j : T_sensor._joint_vel adr qvel w j = qvel w (adr j). Proof. reflexivity. Qed.
  Theorem tendonpos_spec (len : Z -> Z -> R) w t : T_sensor._tendon_pos len w t = len w t. Proof. reflexivity. Qed.
  Theorem actuatorpos_spec (len : Z -> Z -> R) w a : T_sensor._actuator_pos len w a = len w a. Proof. reflexivity. Qed.

  (* R^T v for a row-major 3x3 matrix *)
  Definition tmul (m v : list R) : list R :=
    match m, v with
    | [a; b; c; d; e; f; g; h; i], [x; y; z] => [a * x + d * y + g * z; b * x + e * y + h * z; c * x + f * y + i * z]
    | _, _ => []
    end.
  Definition orthonormal (m : list R) : Prop :=
    match m with
    | [a; b; c; d; e; f; g; h; i] =>
        a * a + b * b + c * c = 1 /\ d * d + e * e + f * f = 1 /\ g * g + h * h + i * i = 1 /\
        a * d + b * e + c * f = 0 /\ a * g + b * h + c * i = 0 /\ d * g + e * h + f * i = 0
    | _ => False
    end.
  Lemma mat_vec_transpose_tmul a b c d e f g h i x y z :
    mat_vec 3 3 (mtranspose 3 3 [a; b; c; d; e; f; g; h; i]) [x; y; z] = tmul [a; b; c; d; e; f; g; h; i] [x; y; z].
  Proof. cbv [mat_vec mtranspose mcol mrow flat_map map seq app firstn skipn nth Nat.mul Nat.add vdot vdot_acc tmul]. sR. reflexivity. Qed.

  (* gyro: angular part of the body's cvel rotated into the site frame *)
  Theorem gyro_spec (site_bodyid : Z -> Z) (site_xmat cvel : Z -> Z -> list R) w o m wx wy wz vx vy vz :
    site_xmat w o = m -> List.length m = 9%nat -> cvel w (site_bodyid o) = [wx; wy; wz; vx; vy; vz] ->
    T_sensor._gyro site_bodyid site_xmat cvel w o = tmul m [wx; wy; wz].
  Proof.
    intros Hm Hl Hc. unfold T_sensor._gyro. cbv zeta. rewrite Hm, Hc.
    do 10 (destruct m as [|? m]; try discriminate). simpl firstn. apply mat_vec_transpose_tmul.
  Qed.
  (* a rotation preserves the length of the measured angular velocity *)
  Theorem gyro_norm_preserved m x y z :
    orthonormal m ->
    match tmul m [x; y; z] with [p; q; r] => p * p + q * q + r * r = x * x + y * y + z * z | _ => False end.
  Proof.
    destruct m as [|a [|b [|c [|d [|e [|f [|g [|h [|i [|? ?]]]]]]]]]]; try (intros []; fail).
    simpl. intros (H1 & H2 & H3 & H4 & H5 & H6).
    (* rows orthonormal = R R^T = I, hence |R^T v| = |v| *)
    transitivity (x * x * (a * a + b * b + c * c) + y * y * (d * d + e * e + f * f) + z * z * (g * g + h * h + i * i)
                  + 2 * x * y * (a * d + b * e + c * f) + 2 * x * z * (a * g + b * h + c * i) + 2 * y * z * (d * g + e * h + f * i)).
    - ring.
    - rewrite H1, H2, H3, H4, H5, H6. ring.
  Qed.

  Example orthonormal_identity : orthonormal [1; 0; 0; 0; 1; 0; 0; 0; 1].
  Proof. simpl. repeat split; ring. Qed.

  (* velocimeter: linear velocity of the site point, v - (p - com) x omega, in the site frame *)
  Theorem velocimeter_spec (body_rootid site_bodyid : Z -> Z) (site_xpos site_xmat subtree_com cvel : Z -> Z -> list R)
          w o m wx wy wz vx vy vz px py pz cx cy cz :
    site_xmat w o = m -> List.length m = 9%nat -> cvel w (site_bodyid o) = [wx; wy; wz; vx; vy; vz] ->
    site_xpos w o = [px; py; pz] -> subtree_com w (body_rootid (site_bodyid o)) = [cx; cy; cz] ->
    T_sensor._velocimeter body_rootid site_bodyid site_xpos site_xmat subtree_com cvel w o
    = tmul m [vx - ((py - cy) * wz - (pz - cz) * wy); vy - ((pz - cz) * wx - (px - cx) * wz); vz - ((px - cx) * wy - (py - cy) * wx)].
  Proof.
    intros Hm Hl Hc Hp Hs. unfold T_sensor._velocimeter. cbv zeta. rewrite Hm, Hc, Hp, Hs.
    do 10 (destruct m as [|? m]; try discriminate).
    cbv [firstn skipn vsub vmap2 vcross vget nth Z.to_nat Pos.to_nat Pos.iter_op Nat.add]. sR. apply mat_vec_transpose_tmul.
  Qed.

  (* magnetometer: the (per-world) magnetic field in the site frame *)
  Theorem magnetometer_spec (opt_magnetic : Z -> list R) (site_xmat : Z -> Z -> list R) w o n m bx by_ bz :
    site_xmat w o = m -> List.length m = 9%nat -> opt_magnetic (Z.rem w n) = [bx; by_; bz] ->
    T_sensor._magnetometer opt_magnetic site_xmat w o n = tmul m [bx; by_; bz].
  Proof.
    intros Hm Hl Hb. unfold T_sensor._magnetometer. cbv zeta. rewrite Hm, Hb.
    do 10 (destruct m as [|? m]; try discriminate). apply mat_vec_transpose_tmul.
  Qed.

  (* framepos: absolute position without a reference frame, R_ref^T (x - x_ref) with one *)
  Section FramePos.
    Variables (xpos_in xmat_in xipos_in ximat_in geom_xpos_in geom_xmat_in site_xpos_in site_xmat_in cam_xpos_in cam_xmat_in : Z -> Z -> list R)
              (w objid objtype refid reftype : Z).
    Definition fpos := K_sensor._frame_pos xpos_in xmat_in xipos_in ximat_in geom_xpos_in geom_xmat_in site_xpos_in site_xmat_in
                         cam_xpos_in cam_xmat_in w objid objtype refid reftype.
    Definition objpos := K_sensor._get_pos xpos_in xipos_in geom_xpos_in site_xpos_in cam_xpos_in w objtype objid.
    Definition refpos := K_sensor._get_pos xpos_in xipos_in geom_xpos_in site_xpos_in cam_xpos_in w reftype refid.
    Definition refmat := K_sensor._get_mat xmat_in ximat_in geom_xmat_in site_xmat_in cam_xmat_in w reftype refid.

    Theorem framepos_no_reference : refid = (-1)%Z -> fpos = objpos.
    Proof. intros Hr. unfold fpos, objpos, K_sensor._frame_pos. cbv zeta. rewrite Hr. reflexivity. Qed.

    Theorem framepos_relative m x y z a b c :
      refid <> (-1)%Z -> refmat = m -> List.length m = 9%nat -> objpos = [x; y; z] -> refpos = [a; b; c] ->
      fpos = tmul m [x - a; y - b; z - c].
    Proof.
      intros Hr Hm Hl Ho Hp. unfold fpos, K_sensor._frame_pos. cbv zeta.
      apply Z.eqb_neq in Hr. change (- (1))%Z with (-1)%Z. rewrite Hr.
      fold objpos refpos refmat. rewrite Ho, Hp, Hm.
      do 10 (destruct m as [|? m]; try discriminate). cbv [vsub vmap2]. sR. apply mat_vec_transpose_tmul.
    Qed.
  End FramePos.

  (* the relative-frame transform is inverted by R_ref (.) + x_ref when R_ref is a rotation *)
  Definition rmul (m v : list R) : list R :=
    match m, v with
    | [a; b; c; d; e; f; g; h; i], [x; y; z] => [a * x + b * y + c * z; d * x + e * y + f * z; g * x + h * y + i * z]
    | _, _ => []
    end.
  Theorem framepos_relative_inverts m x y z :
    orthonormal m -> rmul m (tmul m [x; y; z]) = [x; y; z].
  Proof.
    destruct m as [|a [|b [|c [|d [|e [|f [|g [|h [|i [|? ?]]]]]]]]]]; try (intros []; fail).
    simpl. intros (H1 & H2 & H3 & H4 & H5 & H6).
    f_equal; [|f_equal; [|f_equal]].
    - transitivity (x * (a * a + b * b + c * c) + y * (a * d + b * e + c * f) + z * (a * g + b * h + c * i)); [ring|].
      rewrite H1, H4, H5. ring.
    - transitivity (x * (a * d + b * e + c * f) + y * (d * d + e * e + f * f) + z * (d * g + e * h + f * i)); [ring|].
      rewrite H2, H4, H6. ring.
    - transitivity (x * (a * g + b * h + c * i) + y * (d * g + e * h + f * i) + z * (g * g + h * h + i * i)); [ring|].
      rewrite H3, H5, H6. ring.
  Qed.
End ClosedForm.

(* ---------------------------------------------------------------------------------------- *)
(* 7. writes of different sensors never overlap                                               *)
Section TasksDisjoint.
  Context {S : Type} `{Scalar S}.

  Theorem sensor_tasks_disjoint n (sensor_adr sensor_dim sensor_type : Z -> Z) s1 s2 w1 w2 (ws1 ws2 : list (write S)) :
    adr_dim_invariant n sensor_adr sensor_dim ->
    (forall s, 0 <= s < n -> sensor_dim s = sensor_dim_of_type (sensor_type s)) ->
    0 <= s1 < n -> 0 <= s2 < n -> s1 <> s2 ->
    (forall y, In y ws1 -> in_slot w1 (sensor_adr s1) (sensor_dim_of_type (sensor_type s1)) y) ->
    (forall y, In y ws2 -> in_slot w2 (sensor_adr s2) (sensor_dim_of_type (sensor_type s2)) y) ->
    forall x y, In x ws1 -> In y ws2 -> (w_arr x, w_idx x) <> (w_arr y, w_idx y).
  Proof.
    intros Hinv Hdim H1 H2 Hne Hs1 Hs2 x y Hx Hy.
    apply (sensor_slots_disjoint n sensor_adr sensor_dim s1 s2 w1 w2 x y Hinv H1 H2 Hne).
    - rewrite Hdim by assumption. auto.
    - rewrite Hdim by assumption. auto.
  Qed.

  (* instance: one task of the translated _sensor_pos and one of the translated _sensor_vel (any worlds) *)
  Variables (w w' posid velid ngeom : Z) (opt_magnetic : Z -> list S) (body_geomnum body_geomadr : Z -> Z)
    (body_iquat : Z -> Z -> list S) (body_mass body_subtreemass : Z -> Z -> S) (jnt_qposadr geom_type geom_bodyid : Z -> Z)
    (geom_quat : Z -> Z -> list S) (site_type site_bodyid : Z -> Z) (site_size : Z -> list S) (site_quat : Z -> Z -> list S)
    (cam_bodyid : Z -> Z) (cam_quat : Z -> Z -> list S) (cam_fovy : Z -> Z -> S) (cam_resolution : Z -> list Z)
    (cam_sensorsize : Z -> list S) (cam_intrinsic : Z -> Z -> list S)
    (sensor_type sensor_datatype sensor_objtype sensor_objid sensor_reftype sensor_refid sensor_adr sensor_dim : Z -> Z)
    (sensor_cutoff : Z -> S) (nxn_pairid : Z -> list Z) (sensor_pos_adr rangefinder_sensor_adr sensor_vel_adr : Z -> Z)
    (time_in : Z -> S) (energy_in : Z -> list S) (qpos_in qvel_in : Z -> Z -> S)
    (xpos_in xquat_in xmat_in xipos_in ximat_in geom_xpos_in geom_xmat_in site_xpos_in site_xmat_in cam_xpos_in cam_xmat_in
       subtree_com_in : Z -> Z -> list S)
    (ten_length_in actuator_length_in rangefinder_dist_in ten_velocity_in actuator_velocity_in : Z -> Z -> S)
    (cvel_in subtree_linvel_in subtree_angmom_in : Z -> Z -> list S)
    (sensor_collision_in : Z -> Z -> Z -> Z -> S) (sensordata_out : Z -> Z -> S) (orc orc' : nat -> Z)
    (body_rootid jnt_dofadr : Z -> Z)
    (sh0 sh1 sh2 sh3 sh4 sh5 sh6 sh7 sh8 nsensor : Z).

  Theorem sensor_pos_vel_tasks_disjoint :
    adr_dim_invariant nsensor sensor_adr sensor_dim ->
    (forall s, 0 <= s < nsensor -> sensor_dim s = sensor_dim_of_type (sensor_type s)) ->
    0 <= sensor_pos_adr posid < nsensor -> 0 <= sensor_vel_adr velid < nsensor -> sensor_pos_adr posid <> sensor_vel_adr velid ->
    forall x y,
      In x (k__sensor_pos w posid ngeom opt_magnetic body_geomnum body_geomadr body_iquat body_mass body_subtreemass
              jnt_qposadr geom_type geom_bodyid geom_quat site_type site_bodyid site_size site_quat cam_bodyid cam_quat cam_fovy
              cam_resolution cam_sensorsize cam_intrinsic sensor_type sensor_datatype sensor_objtype sensor_objid sensor_reftype
              sensor_refid sensor_adr sensor_cutoff nxn_pairid sensor_pos_adr rangefinder_sensor_adr time_in energy_in qpos_in
              xpos_in xquat_in xmat_in xipos_in ximat_in geom_xpos_in geom_xmat_in site_xpos_in site_xmat_in cam_xpos_in cam_xmat_in
              subtree_com_in ten_length_in actuator_length_in rangefinder_dist_in sensor_collision_in sensordata_out orc
              sh0 sh1 sh2 sh3 sh4 sh5 sh6 sh7 sh8) ->
      In y (k__sensor_vel w' velid body_rootid jnt_dofadr geom_bodyid site_bodyid cam_bodyid sensor_type
              sensor_datatype sensor_objtype sensor_objid sensor_reftype sensor_refid sensor_adr sensor_cutoff sensor_vel_adr qvel_in
              xpos_in xmat_in xipos_in ximat_in geom_xpos_in geom_xmat_in site_xpos_in site_xmat_in cam_xpos_in cam_xmat_in
              subtree_com_in ten_velocity_in actuator_velocity_in cvel_in subtree_linvel_in subtree_angmom_in sensordata_out orc') ->
      (w_arr x, w_idx x) <> (w_arr y, w_idx y).
  Proof.
    intros Hinv Hdim H1 H2 Hne x y Hx Hy.
    eapply (sensor_tasks_disjoint nsensor sensor_adr sensor_dim sensor_type _ _ w w' _ _ Hinv Hdim H1 H2 Hne); [| |exact Hx|exact Hy].
    - intros z Hz. eapply sensor_pos_writes_in_slot. exact Hz.
    - intros z Hz. eapply sensor_vel_writes_in_slot. exact Hz.
  Qed.
End TasksDisjoint.
