(* Proof/PairTable.v -- lemmas for C19 about Model/PairTable.v (copy of the host code of
   io.py:put_model) and the device lookup Gen.math.upper_tri_index (regenerated from
   math.py on every run). *)
From Coq Require Import ZArith List Bool Lia ZifyBool Psatz.
From VF Require Import Gen.math Model.PairTable.
Import ListNotations.
Local Open Scope Z_scope.

(* ------------------------------------------------------------------ zseq / triu *)
Lemma zseq_length lo len : length (zseq lo len) = len.
Proof. unfold zseq. now rewrite map_length, seq_length. Qed.

Lemma zseq_cons lo len : zseq lo (S len) = lo :: zseq (lo + 1) len.
Proof.
  unfold zseq. simpl. f_equal; [lia|].
  rewrite <- seq_shift, map_map. apply map_ext. intros; lia.
Qed.

Lemma zseq_nth lo len k d : (k < len)%nat -> nth k (zseq lo len) d = lo + Z.of_nat k.
Proof.
  revert lo k. induction len; intros lo k Hk; [lia|].
  rewrite zseq_cons. destruct k; simpl; [lia|]. rewrite IHlen by lia. lia.
Qed.

Lemma In_zseq lo len x : In x (zseq lo len) <-> lo <= x < lo + Z.of_nat len.
Proof.
  unfold zseq. rewrite in_map_iff. split.
  - intros (k & <- & Hk). apply in_seq in Hk. lia.
  - intros Hx. exists (Z.to_nat (x - lo)). split; [lia|]. apply in_seq. lia.
Qed.

Lemma triu_row_length n i : length (triu_row n i) = Z.to_nat (n - 1 - i).
Proof. unfold triu_row. now rewrite map_length, zseq_length. Qed.

Lemma triu_row_nth n i k d : (k < Z.to_nat (n - 1 - i))%nat -> nth k (triu_row n i) d = (i, i + 1 + Z.of_nat k).
Proof.
  intros Hk. unfold triu_row.
  rewrite nth_indep with (d' := (fun j => (i, j)) 0) by (now rewrite map_length, zseq_length).
  rewrite map_nth. now rewrite zseq_nth.
Qed.

Definition rows (n i0 : Z) (cnt : nat) : list (Z * Z) := flat_map (triu_row n) (zseq i0 cnt).

Lemma rows_S n i0 cnt : rows n i0 (S cnt) = triu_row n i0 ++ rows n (i0 + 1) cnt.
Proof. unfold rows. now rewrite zseq_cons. Qed.

Lemma rows_length n : forall cnt i0, i0 + Z.of_nat cnt = n -> 0 <= i0 ->
  2 * Z.of_nat (length (rows n i0 cnt)) = Z.of_nat cnt * (Z.of_nat cnt - 1).
Proof.
  induction cnt; intros i0 H H0; [reflexivity|].
  rewrite rows_S, app_length, triu_row_length.
  specialize (IHcnt (i0 + 1) ltac:(lia) ltac:(lia)). nia.
Qed.

(* position of (i,j) inside the rows i0, i0+1, ... : k with
   2k = (i-i0)(2n-i-i0-1) + 2(j-i-1)  (stated without division) *)
Lemma rows_nth n : forall cnt i0 i j k d,
  i0 + Z.of_nat cnt = n -> 0 <= i0 <= i -> i < j < n ->
  2 * k = (i - i0) * (2 * n - i - i0 - 1) + 2 * (j - i - 1) ->
  nth (Z.to_nat k) (rows n i0 cnt) d = (i, j).
Proof.
  induction cnt; intros i0 i j k d Hn Hi Hj Hk; [lia|].
  rewrite rows_S.
  destruct (Z.eq_dec i i0) as [->|Hne].
  - assert (k = j - i0 - 1) by lia. subst k.
    rewrite app_nth1 by (rewrite triu_row_length; lia).
    rewrite triu_row_nth by lia. f_equal. lia.
  - assert (Hge : n - 1 - i0 <= k).
    { assert (0 <= (i - i0 - 1) * (2 * n - i - i0 - 2)) by (apply Z.mul_nonneg_nonneg; lia). lia. }
    rewrite app_nth2 by (rewrite triu_row_length; lia).
    rewrite triu_row_length.
    replace (Z.to_nat k - Z.to_nat (n - 1 - i0))%nat with (Z.to_nat (k - (n - 1 - i0))) by lia.
    apply IHcnt; try lia.
Qed.

Lemma rows_nth_inv n : forall cnt i0 k d,
  i0 + Z.of_nat cnt = n -> 0 <= i0 -> (k < length (rows n i0 cnt))%nat ->
  exists i j, nth k (rows n i0 cnt) d = (i, j) /\ i0 <= i /\ i < j < n /\
    2 * Z.of_nat k = (i - i0) * (2 * n - i - i0 - 1) + 2 * (j - i - 1).
Proof.
  induction cnt; intros i0 k d Hn H0 Hk; [simpl in Hk; lia|].
  rewrite rows_S in *. rewrite app_length, triu_row_length in Hk.
  destruct (Nat.ltb k (Z.to_nat (n - 1 - i0))) eqn:E.
  - apply Nat.ltb_lt in E. exists i0, (i0 + 1 + Z.of_nat k).
    rewrite app_nth1 by (rewrite triu_row_length; lia).
    rewrite triu_row_nth by lia. repeat split; lia.
  - apply Nat.ltb_ge in E.
    rewrite app_nth2 by (rewrite triu_row_length; lia). rewrite triu_row_length.
    destruct (IHcnt (i0 + 1) (k - Z.to_nat (n - 1 - i0))%nat d) as (i & j & Hnth & Hi & Hj & Hr); try lia.
    exists i, j. split; [exact Hnth|]. split; [lia|]. split; [lia|].
    assert (Hz : Z.of_nat (k - Z.to_nat (n - 1 - i0)) = Z.of_nat k - (n - 1 - i0)) by lia.
    rewrite Hz in Hr. clear - Hr. ring_simplify in Hr. ring_simplify. lia.
Qed.

Lemma triu_rows n : triu n = rows n 0 (Z.to_nat n).
Proof. reflexivity. Qed.

Lemma triu_length n : 0 <= n -> 2 * Z.of_nat (length (triu n)) = n * (n - 1).
Proof. intros. rewrite triu_rows, rows_length with (n := n); lia. Qed.

(* ------------------------------------------------------------------ upper_tri_index *)
(* i * (2n - i - 3) is always even, so the device's truncating `//` (Z.quot) and the
   host's floor `//` (Z.div) agree and are exact, whatever the sign *)
Lemma uti_even n i : exists x, i * (2 * n - i - 3) = 2 * x.
Proof.
  destruct (Z.Even_or_Odd i) as [[a ->]|[a ->]].
  - exists (a * (2 * n - 2 * a - 3)). ring.
  - exists ((2 * a + 1) * (n - a - 2)). ring.
Qed.

Lemma uti_quot_div n i : Z.quot (i * (2 * n - i - 3)) 2 = (i * (2 * n - i - 3)) / 2.
Proof.
  destruct (uti_even n i) as [x ->].
  rewrite (Z.mul_comm 2 x), Z.quot_mul, Z.div_mul; lia.
Qed.

Lemma uti_twice n i j : 2 * upper_tri_index n i j = i * (2 * n - i - 1) + 2 * (j - i - 1).
Proof.
  unfold upper_tri_index. destruct (uti_even n i) as [x Hx].
  rewrite Hx, (Z.mul_comm 2 x), Z.quot_mul by lia. lia.
Qed.

Lemma uti_host n i j : i < j -> upper_tri_index n i j = host_upper_tri_index n i j.
Proof.
  intros H. unfold host_upper_tri_index.
  destruct (j <? i) eqn:E; [lia|]. unfold upper_tri_index. now rewrite uti_quot_div.
Qed.

Lemma host_uti_sym n i j : host_upper_tri_index n i j = host_upper_tri_index n j i.
Proof.
  unfold host_upper_tri_index. destruct (j <? i) eqn:E1, (i <? j) eqn:E2; try reflexivity; try lia.
  assert (i = j) by lia. now subst.
Qed.

Lemma uti_nth n i j d : 0 <= i -> i < j < n -> nth (Z.to_nat (upper_tri_index n i j)) (triu n) d = (i, j).
Proof.
  intros Hi Hj. rewrite triu_rows. apply rows_nth; try lia.
  rewrite uti_twice. ring.
Qed.

Lemma uti_range n i j : 0 <= i -> i < j < n -> 0 <= upper_tri_index n i j < Z.of_nat (length (triu n)).
Proof.
  intros Hi Hj. split.
  - pose proof (uti_twice n i j). nia.
  - destruct (Z.ltb_spec (upper_tri_index n i j) (Z.of_nat (length (triu n)))) as [|Hge]; [assumption|].
    pose proof (uti_nth n i j (-1, -1) Hi Hj) as Hn.
    rewrite nth_overflow in Hn by lia. inversion Hn. lia.
Qed.

Lemma triu_nth_inv n k d : 0 <= n -> (k < length (triu n))%nat ->
  exists i j, nth k (triu n) d = (i, j) /\ 0 <= i /\ i < j < n /\ upper_tri_index n i j = Z.of_nat k.
Proof.
  intros Hn Hk. rewrite triu_rows in *.
  destruct (rows_nth_inv n (Z.to_nat n) 0 k d) as (i & j & H1 & H2 & H3 & H4); try lia.
  exists i, j. repeat split; try lia; try assumption.
  pose proof (uti_twice n i j). lia.
Qed.

(* C19 upper_tri_index_bij: (i,j) |-> upper_tri_index n i j is a bijection from
   {0 <= i < j < n} onto [0, n(n-1)/2), and it is the rank of (i,j) in np.triu_indices order *)
Theorem upper_tri_index_bij n :
  0 <= n ->
  (forall i j, 0 <= i -> i < j < n ->
     0 <= upper_tri_index n i j < Z.of_nat (length (triu n))
     /\ nth_error (triu n) (Z.to_nat (upper_tri_index n i j)) = Some (i, j)
     /\ upper_tri_index n i j = host_upper_tri_index n i j)
  /\ (forall k, 0 <= k < Z.of_nat (length (triu n)) ->
        exists i j, 0 <= i /\ i < j < n /\ upper_tri_index n i j = k)
  /\ (forall i j i' j', 0 <= i -> i < j < n -> 0 <= i' -> i' < j' < n ->
        upper_tri_index n i j = upper_tri_index n i' j' -> i = i' /\ j = j')
  /\ 2 * Z.of_nat (length (triu n)) = n * (n - 1).
Proof.
  intros Hn. repeat split.
  - apply uti_range; lia.
  - apply uti_range; lia.
  - pose proof (uti_range n i j H H0).
    rewrite nth_error_nth' with (d := (0, 0)) by lia. f_equal. now apply uti_nth.
  - apply uti_host; lia.
  - intros k Hk. destruct (triu_nth_inv n (Z.to_nat k) (0, 0) Hn) as (i & j & _ & H1 & H2 & H3); [lia|].
    exists i, j. repeat split; lia.
  - pose proof (uti_nth n i j (0, 0) H H0) as A. pose proof (uti_nth n i' j' (0, 0) H1 H2) as B.
    rewrite H3 in A. rewrite A in B. now inversion B.
  - pose proof (uti_nth n i j (0, 0) H H0) as A. pose proof (uti_nth n i' j' (0, 0) H1 H2) as B.
    rewrite H3 in A. rewrite A in B. now inversion B.
  - now apply triu_length.
Qed.

Lemma uti_inj n i j i' j' : 0 <= i -> i < j < n -> 0 <= i' -> i' < j' < n ->
  upper_tri_index n i j = upper_tri_index n i' j' -> i = i' /\ j = j'.
Proof.
  intros. destruct (Z.le_gt_cases 0 n) as [Hn|Hn]; [|lia].
  destruct (upper_tri_index_bij n Hn) as (_ & _ & Hinj & _). eapply Hinj; eauto.
Qed.

(* host index of an unordered valid pair hits the row of the ordered pair *)
Lemma host_uti_hit n g1 g2 i j :
  0 <= g1 < n -> 0 <= g2 < n -> g1 <> g2 -> 0 <= i -> i < j < n ->
  (host_upper_tri_index n g1 g2 = upper_tri_index n i j <-> (g1 = i /\ g2 = j) \/ (g1 = j /\ g2 = i)).
Proof.
  intros H1 H2 Hne Hi Hj. split.
  - intros E. destruct (Z.lt_ge_cases g1 g2) as [L|L].
    + rewrite <- uti_host in E by lia. apply uti_inj in E; lia.
    + rewrite host_uti_sym, <- uti_host in E by lia. apply uti_inj in E; lia.
  - intros [[-> ->]|[-> ->]].
    + now rewrite uti_host by lia.
    + rewrite host_uti_sym. now rewrite uti_host by lia.
Qed.

Lemma host_uti_range n g1 g2 : 0 <= g1 < n -> 0 <= g2 < n -> g1 <> g2 ->
  0 <= host_upper_tri_index n g1 g2 < Z.of_nat (length (triu n)).
Proof.
  intros. destruct (Z.lt_ge_cases g1 g2) as [L|L].
  - rewrite <- uti_host by lia. apply uti_range; lia.
  - rewrite host_uti_sym, <- uti_host by lia. apply uti_range; lia.
Qed.

(* ------------------------------------------------------------------ the update loop *)
Lemma upd_nat_length l : forall i x, length (upd_nat l i x) = length l.
Proof. induction l; intros [|i] x; simpl; auto. Qed.

Lemma upd_nat_nth l : forall i k x d, (k < length l)%nat ->
  nth i (upd_nat l k x) d = if Nat.eqb i k then x else nth i l d.
Proof.
  induction l; intros i k x d Hk; simpl in *; [lia|].
  destruct k, i; simpl; auto. apply IHl. lia.
Qed.

Lemma upd_wrap_length l idx x : length (upd_wrap l idx x) = length l.
Proof. unfold upd_wrap. destruct (_ && _); auto using upd_nat_length. Qed.

Lemma upd_wrap_nth l idx x i : 0 <= idx < Z.of_nat (length l) -> 0 <= i ->
  nth (Z.to_nat i) (upd_wrap l idx x) 0 = if idx =? i then x else nth (Z.to_nat i) l 0.
Proof.
  intros H Hi. unfold upd_wrap, wrap_index.
  destruct (idx <? 0) eqn:E; [lia|].
  destruct ((0 <=? idx) && (idx <? Z.of_nat (length l))) eqn:E2; [|lia].
  rewrite upd_nat_nth by lia.
  destruct (Nat.eqb (Z.to_nat i) (Z.to_nat idx)) eqn:E3, (idx =? i) eqn:E4; try reflexivity.
  - apply Nat.eqb_eq in E3. lia.
  - apply Nat.eqb_neq in E3. lia.
Qed.

(* the last pair (highest index) whose row is idx *)
Fixpoint last_pair (n : Z) (ps : list (Z * Z)) (k idx : Z) : option Z :=
  match ps with
  | [] => None
  | (g1, g2) :: r =>
      match last_pair n r (k + 1) idx with
      | Some v => Some v
      | None => if host_upper_tri_index n g1 g2 =? idx then Some k else None
      end
  end.

Lemma apply_pairs_spec n : forall ps k t idx,
  (forall g1 g2, In (g1, g2) ps -> 0 <= host_upper_tri_index n g1 g2 < Z.of_nat (length t)) ->
  0 <= idx ->
  length (apply_pairs n ps k t) = length t /\
  nth (Z.to_nat idx) (apply_pairs n ps k t) 0 =
    match last_pair n ps k idx with Some v => v | None => nth (Z.to_nat idx) t 0 end.
Proof.
  induction ps as [|[g1 g2] r IH]; intros k t idx Hv Hidx; simpl; [auto|].
  assert (Hh : 0 <= host_upper_tri_index n g1 g2 < Z.of_nat (length t)) by (apply Hv; now left).
  destruct (IH (k + 1) (upd_wrap t (host_upper_tri_index n g1 g2) k) idx) as [L N]; auto.
  { intros a b Hin. rewrite upd_wrap_length. apply Hv. now right. }
  rewrite upd_wrap_length in L. split; [exact L|].
  rewrite N. destruct (last_pair n r (k + 1) idx); [reflexivity|].
  rewrite upd_wrap_nth by lia. now destruct (host_upper_tri_index n g1 g2 =? idx).
Qed.

Lemma last_pair_some n : forall ps k idx v, last_pair n ps k idx = Some v ->
  k <= v < k + Z.of_nat (length ps) /\
  exists g1 g2, nth_error ps (Z.to_nat (v - k)) = Some (g1, g2) /\ host_upper_tri_index n g1 g2 = idx.
Proof.
  induction ps as [|[g1 g2] r IH]; intros k idx v H; simpl in *; [discriminate|].
  destruct (last_pair n r (k + 1) idx) eqn:E.
  - inversion H; subst. destruct (IH _ _ _ E) as (Hr & a & b & Hn & Hh).
    split; [lia|]. exists a, b. split; [|assumption].
    replace (Z.to_nat (v - k)) with (S (Z.to_nat (v - (k + 1)))) by lia. exact Hn.
  - destruct (host_upper_tri_index n g1 g2 =? idx) eqn:E2; [|discriminate].
    inversion H; subst. split; [lia|]. exists g1, g2.
    replace (Z.to_nat (v - v)) with O by lia. split; [reflexivity|lia].
Qed.

(* ... and no pair with a higher index has the same row *)
Lemma last_pair_last n : forall ps k idx v, last_pair n ps k idx = Some v ->
  forall v' g1 g2, v < v' -> nth_error ps (Z.to_nat (v' - k)) = Some (g1, g2) ->
    host_upper_tri_index n g1 g2 <> idx.
Proof.
  induction ps as [|[a b] r IH]; intros k idx v H v' g1 g2 Hlt Hn; simpl in *; [discriminate|].
  destruct (last_pair n r (k + 1) idx) eqn:E.
  - inversion H; subst. pose proof (last_pair_some _ _ _ _ _ E) as [Hr _].
    replace (Z.to_nat (v' - k)) with (S (Z.to_nat (v' - (k + 1)))) in Hn by lia.
    eapply IH; eauto.
  - destruct (host_upper_tri_index n a b =? idx) eqn:E2; [|discriminate].
    inversion H; subst.
    replace (Z.to_nat (v' - v)) with (S (Z.to_nat (v' - (v + 1)))) in Hn by lia. simpl in Hn.
    clear -E Hn. revert E Hn. generalize (v + 1) as k. generalize (Z.to_nat (v' - (v + 1))) as q. clear.
    intros q k. revert k. revert q.
    (* a None result means no entry matches, at any position *)
    assert (G : forall ps k, last_pair n ps k idx = None -> forall q, nth_error ps q = Some (g1, g2) ->
                  host_upper_tri_index n g1 g2 <> idx).
    { induction ps as [|[c e] r' IH']; intros k Hnone q Hq; [destruct q; discriminate|].
      simpl in Hnone. destruct (last_pair n r' (k + 1) idx) eqn:E'; [discriminate|].
      destruct (host_upper_tri_index n c e =? idx) eqn:E''; [discriminate|].
      destruct q; simpl in Hq.
      - inversion Hq; subst. lia.
      - eapply IH'; eauto. }
    intros q k E Hn. eapply G; eauto.
Qed.

Lemma last_pair_none n : forall ps k idx, last_pair n ps k idx = None ->
  forall g1 g2, In (g1, g2) ps -> host_upper_tri_index n g1 g2 <> idx.
Proof.
  induction ps as [|[a b] r IH]; intros k idx H g1 g2 Hin; simpl in *; [contradiction|].
  destruct (last_pair n r (k + 1) idx) eqn:E; [discriminate|].
  destruct (host_upper_tri_index n a b =? idx) eqn:E2; [discriminate|].
  destruct Hin as [Heq|Hin]; [inversion Heq; subst; lia|eauto].
Qed.

(* ------------------------------------------------------------------ the rule, as Props *)
Section Rule.
  Variable m : pmodel.

  (* the model's inputs are well formed: explicit pairs name two different existing geoms *)
  Definition wf_pairs : Prop :=
    forall g1 g2, In (g1, g2) (pairs m) -> 0 <= g1 < ngeom m /\ 0 <= g2 < ngeom m /\ g1 <> g2.

  Definition explicit_pair (i j : Z) : Prop := In (i, j) (pairs m) \/ In (j, i) (pairs m).

  Definition type_affinity_pass (i j : Z) : Prop :=
    Z.land (znth (geom_contype m) i) (znth (geom_conaffinity m) j) <> 0 \/
    Z.land (znth (geom_contype m) j) (znth (geom_conaffinity m) i) <> 0.
  Definition same_weld (i j : Z) : Prop := weldid m i = weldid m j.
  Definition parent_child (i j : Z) : Prop :=
    filterparent m = true /\ weldid m i <> 0 /\ weldid m j <> 0 /\
    (weldid m i = weld_parentid m j \/ weldid m j = weld_parentid m i).
  Definition excluded (i j : Z) : Prop :=
    In (Z.shiftl (bodyid m i) 16 + bodyid m j) (exclude_signature m).

  (* MuJoCo's rule for a pair that is not an explicit <pair> *)
  Definition dynamic_rule (i j : Z) : Prop :=
    type_affinity_pass i j /\ ~ same_weld i j /\ ~ parent_child i j /\ ~ excluded i j.

  (* what the kernels read: nxn_pairid[upper_tri_index(ngeom, i, j)][0], DEVICE index function *)
  Definition lookup (i j : Z) : Z := nth (Z.to_nat (upper_tri_index (ngeom m) i j)) (pair_table m) 0.

  Lemma mask_iff i j : mask m i j = true <-> type_affinity_pass i j.
  Proof.
    unfold mask, type_affinity_pass. rewrite negb_true_iff, Z.eqb_neq, Z.lor_eq_0_iff.
    split.
    - intros H. destruct (Z.eq_dec (Z.land (znth (geom_contype m) i) (znth (geom_conaffinity m) j)) 0);
        [right|left]; intuition.
    - intros [H|H] [A B]; contradiction.
  Qed.

  Lemma self_iff i j : self_collision m i j = true <-> same_weld i j.
  Proof. unfold self_collision, same_weld. apply Z.eqb_eq. Qed.

  Lemma parent_child_iff i j : parent_child_collision m i j = true <-> parent_child i j.
  Proof.
    unfold parent_child_collision, parent_child.
    rewrite !andb_true_iff, orb_true_iff, !negb_true_iff, !Z.eqb_neq, !Z.eqb_eq. tauto.
  Qed.

  Lemma exclude_iff i j : exclude m i j = true <-> excluded i j.
  Proof.
    unfold exclude, excluded. rewrite existsb_exists. split.
    - intros (x & Hin & Hx). apply Z.eqb_eq in Hx. now subst.
    - intros H. eexists. split; [exact H|]. apply Z.eqb_refl.
  Qed.

  Lemma base_id_rule i j : (base_id m (i, j) = -1 <-> dynamic_rule i j) /\ (base_id m (i, j) = -2 <-> ~ dynamic_rule i j).
  Proof.
    unfold base_id, dynamic_rule.
    rewrite <- mask_iff, <- self_iff, <- parent_child_iff, <- exclude_iff.
    destruct (mask m i j), (self_collision m i j), (parent_child_collision m i j), (exclude m i j); simpl;
      split; split; intros; try lia; try tauto; try intuition discriminate.
  Qed.

  Lemma base_table_length : length (base_table m) = length (triu (ngeom m)).
  Proof. unfold base_table. apply map_length. Qed.

  Lemma base_table_nth i j : 0 <= i -> i < j < ngeom m ->
    nth (Z.to_nat (upper_tri_index (ngeom m) i j)) (base_table m) 0 = base_id m (i, j).
  Proof.
    intros Hi Hj. unfold base_table.
    pose proof (uti_range (ngeom m) i j Hi Hj).
    rewrite nth_indep with (d' := base_id m (0, 0)) by (rewrite map_length; lia).
    rewrite map_nth. now rewrite uti_nth.
  Qed.

  Lemma pair_table_length : wf_pairs -> length (pair_table m) = length (triu (ngeom m)).
  Proof.
    intros Hwf. unfold pair_table.
    destruct (apply_pairs_spec (ngeom m) (pairs m) 0 (base_table m) 0) as [L _]; [|lia|].
    - intros g1 g2 Hin. rewrite base_table_length. destruct (Hwf _ _ Hin) as (A & B & C).
      now apply host_uti_range.
    - now rewrite L, base_table_length.
  Qed.

  Lemma lookup_spec i j : wf_pairs -> 0 <= i -> i < j < ngeom m ->
    lookup i j = match last_pair (ngeom m) (pairs m) 0 (upper_tri_index (ngeom m) i j) with
                 | Some v => v | None => base_id m (i, j) end.
  Proof.
    intros Hwf Hi Hj. unfold lookup, pair_table.
    pose proof (uti_range (ngeom m) i j Hi Hj) as Hr.
    destruct (apply_pairs_spec (ngeom m) (pairs m) 0 (base_table m) (upper_tri_index (ngeom m) i j)) as [_ N]; [|lia|].
    - intros g1 g2 Hin. rewrite base_table_length. destruct (Hwf _ _ Hin) as (A & B & C).
      now apply host_uti_range.
    - rewrite N. now rewrite base_table_nth.
  Qed.

  (* C19 pair_rule *)
  Theorem pair_rule i j :
    wf_pairs -> 0 <= i -> i < j < ngeom m ->
    let v := lookup i j in
    (* an explicit pair overrides everything, and the id is that of the (last such) pair *)
    (v >= 0 <-> explicit_pair i j)
    /\ (v >= 0 -> (nth_error (pairs m) (Z.to_nat v) = Some (i, j) \/ nth_error (pairs m) (Z.to_nat v) = Some (j, i))
                  /\ v < Z.of_nat (length (pairs m))
                  /\ forall k, v < k -> nth_error (pairs m) (Z.to_nat k) <> Some (i, j)
                                     /\ nth_error (pairs m) (Z.to_nat k) <> Some (j, i))
    (* otherwise MuJoCo's dynamic filtering rule decides between -1 (collide) and -2 (never) *)
    /\ (v = -1 <-> ~ explicit_pair i j /\ dynamic_rule i j)
    /\ (v = -2 <-> ~ explicit_pair i j /\ ~ dynamic_rule i j)
    /\ (v >= 0 \/ v = -1 \/ v = -2).
  Proof.
    intros Hwf Hi Hj v. subst v. rewrite (lookup_spec i j Hwf Hi Hj).
    set (idx := upper_tri_index (ngeom m) i j).
    pose proof (base_id_rule i j) as [B1 B2].
    assert (Bcases : base_id m (i, j) = -1 \/ base_id m (i, j) = -2).
    { unfold base_id. destruct (_ && _); auto. }
    set (D := dynamic_rule i j) in *. clearbody D.
    destruct (last_pair (ngeom m) (pairs m) 0 idx) as [v|] eqn:E.
    - destruct (last_pair_some _ _ _ _ _ E) as (Hr & g1 & g2 & Hn & Hh).
      replace (v - 0) with v in Hn by lia.
      assert (Hin : In (g1, g2) (pairs m)) by (eapply nth_error_In; eauto).
      destruct (Hwf _ _ Hin) as (A1 & A2 & A3).
      apply (host_uti_hit (ngeom m) g1 g2 i j A1 A2 A3 Hi Hj) in Hh.
      assert (Hex : explicit_pair i j).
      { unfold explicit_pair. destruct Hh as [[-> ->]|[-> ->]]; auto. }
      repeat split; intros; try lia; try tauto.
      + destruct Hh as [[-> ->]|[-> ->]]; auto.
      + intros Hk. pose proof (last_pair_last _ _ _ _ _ E k i j H0) as Hl.
        replace (k - 0) with k in Hl by lia. specialize (Hl Hk).
        apply Hl. fold idx. unfold idx. symmetry. apply uti_host. lia.
      + intros Hk. pose proof (last_pair_last _ _ _ _ _ E k j i H0) as Hl.
        replace (k - 0) with k in Hl by lia. specialize (Hl Hk).
        apply Hl. rewrite host_uti_sym. unfold idx. symmetry. apply uti_host. lia.
    - assert (Hnex : ~ explicit_pair i j).
      { intros [Hin|Hin]; pose proof (last_pair_none _ _ _ _ E _ _ Hin) as Hne; apply Hne; unfold idx.
        - symmetry. apply uti_host. lia.
        - rewrite host_uti_sym. symmetry. apply uti_host. lia. }
      repeat split; intros; try lia; try tauto.
  Qed.

  (* the NXN kernel walks nxn_geom_pair / nxn_pairid side by side: row k of both tables
     belongs to the same geom pair *)
  Theorem tables_aligned k :
    wf_pairs -> 0 <= ngeom m -> (k < length (triu (ngeom m)))%nat ->
    exists i j, nth_error (triu (ngeom m)) k = Some (i, j) /\ 0 <= i /\ i < j < ngeom m
                /\ nth k (pair_table m) 0 = lookup i j.
  Proof.
    intros Hwf Hn Hk. destruct (triu_nth_inv (ngeom m) k (0, 0) Hn Hk) as (i & j & H1 & H2 & H3 & H4).
    exists i, j. repeat split; try lia.
    - rewrite nth_error_nth' with (d := (0, 0)) by lia. now f_equal.
    - unfold lookup. rewrite H4. now rewrite Nat2Z.id.
  Qed.

  (* nxn_geom_pair_filtered / nxn_pairid_filtered: exactly the pairs whose id is not -2 *)
  Theorem filtered_spec i j v :
    wf_pairs -> 0 <= ngeom m ->
    (In ((i, j), v) (filtered m) <-> 0 <= i /\ i < j < ngeom m /\ v = lookup i j /\ v > -2).
  Proof.
    intros Hwf Hn. unfold filtered. rewrite filter_In. simpl. split.
    - intros [Hin Hv]. apply In_nth_error in Hin. destruct Hin as [k Hk].
      assert (Hlen : (k < length (combine (triu (ngeom m)) (pair_table m)))%nat).
      { apply nth_error_Some. congruence. }
      rewrite combine_length, pair_table_length, Nat.min_id in Hlen by assumption.
      destruct (tables_aligned k Hwf Hn Hlen) as (i' & j' & A & B & C & D).
      rewrite nth_error_nth' with (d := ((0, 0), 0)) in Hk
        by (rewrite combine_length, pair_table_length, Nat.min_id; assumption).
      rewrite combine_nth in Hk by (now rewrite pair_table_length).
      inversion Hk as [[K1 K2]].
      rewrite nth_error_nth' with (d := (0, 0)) in A by lia. inversion A as [A'].
      rewrite A' in K1. inversion K1; subst i' j'. rewrite <- D. repeat split; try lia.
    - intros (Hi & Hj & -> & Hgt). split; [|lia].
      pose proof (uti_range (ngeom m) i j Hi Hj) as Hr.
      replace ((i, j), lookup i j) with (nth (Z.to_nat (upper_tri_index (ngeom m) i j))
                  (combine (triu (ngeom m)) (pair_table m)) ((0, 0), 0)).
      + apply nth_In. rewrite combine_length, pair_table_length, Nat.min_id by assumption. lia.
      + rewrite combine_nth by (now rewrite pair_table_length).
        rewrite uti_nth by lia. reflexivity.
  Qed.
End Rule.

(* ------------------------------------------------------------------ exclude signatures *)
Lemma signature_injective a b c d :
  0 <= a -> 0 <= c -> 0 <= b < 65536 -> 0 <= d < 65536 ->
  Z.shiftl a 16 + b = Z.shiftl c 16 + d -> a = c /\ b = d.
Proof. intros. rewrite !Z.shiftl_mul_pow2 in * by lia. change (2 ^ 16) with 65536 in *. lia. Qed.

(* geom_bodyid is non-decreasing (MuJoCo compiler invariant; checked on every generated model) *)
Definition bodyid_sorted (m : pmodel) : Prop :=
  forall a b, 0 <= a <= b -> b < ngeom m -> bodyid m a <= bodyid m b.

(* with sorted geom_bodyid the signature (b_i << 16) + b_j computed for i < j is MuJoCo's
   canonical signature (smaller body id in the high half), so "signature in the list" means
   "the two bodies are listed in an <exclude>" *)
Theorem exclude_signature_canonical m (exb : list (Z * Z)) i j :
  exclude_signature m = map (fun p => Z.shiftl (fst p) 16 + snd p) exb ->
  (forall a b, In (a, b) exb -> 0 <= a <= b /\ b < 65536) ->
  bodyid_sorted m -> 0 <= i -> i < j < ngeom m -> 0 <= bodyid m i -> bodyid m j < 65536 ->
  bodyid m i <= bodyid m j /\ (excluded m i j <-> In (bodyid m i, bodyid m j) exb).
Proof.
  intros Hsig Hex Hs Hi Hj Hb1 Hb2.
  assert (Hle : bodyid m i <= bodyid m j) by (apply Hs; lia).
  split; [exact Hle|]. unfold excluded. rewrite Hsig, in_map_iff. split.
  - intros ([a b] & Heq & Hin). simpl in Heq. destruct (Hex _ _ Hin).
    apply signature_injective in Heq; try lia. destruct Heq; subst. exact Hin.
  - intros Hin. exists (bodyid m i, bodyid m j). split; [reflexivity|exact Hin].
Qed.

(* ------------------------------------------------------------------ examples *)
(* world(0) <- b1 <- b2 (welded to b1: weldid 1) ; b3 child of world; geoms: g0 on world, g1 on b1,
   g2 on b2, g3,g4 on b3.  exclude (b1,b3); explicit pair (g4,g1). *)
Definition ex_model : pmodel := {|
  ngeom := 5;
  geom_bodyid := [0; 1; 2; 3; 3];
  geom_contype := [1; 1; 1; 2; 1];
  geom_conaffinity := [1; 1; 1; 4; 1];
  body_weldid := [0; 1; 1; 3];
  body_parentid := [0; 0; 1; 0];
  exclude_signature := [Z.shiftl 1 16 + 3];
  pairs := [(4, 1)];
  filterparent := true |}.

Example ex_wf : wf_pairs ex_model.
Proof. intros g1 g2 [H|[]]. inversion H; subst. simpl. lia. Qed.

Example ex_table : pair_table ex_model = [-1; -1; -2; -1; -2; -2; 0; -2; -1; -2].
Proof. vm_compute. reflexivity. Qed.

(* all three outcomes occur: explicit pair (1,4) although excluded; (0,1) collides; (1,2) same weld *)
Example ex_outcomes : lookup ex_model 1 4 = 0 /\ lookup ex_model 0 1 = -1 /\ lookup ex_model 1 2 = -2.
Proof. vm_compute. auto. Qed.

Example ex_sorted : bodyid_sorted ex_model.
Proof.
  intros a b Ha Hb. simpl in Hb.
  assert (a = 0 \/ a = 1 \/ a = 2 \/ a = 3 \/ a = 4) as Ca by lia.
  assert (b = 0 \/ b = 1 \/ b = 2 \/ b = 3 \/ b = 4) as Cb by lia.
  destruct Ca as [->|[->|[->|[->| ->]]]], Cb as [->|[->|[->|[->| ->]]]]; vm_compute; try discriminate; lia.
Qed.

(* A pair element naming the same geom twice (MuJoCo accepts <pair geom1="g" geom2="g"/>) is
   outside wf_pairs, and the faithful model then violates the rule: for geom 0 the host index
   is -1, numpy wraps it to the LAST row, and the pair (1,2) -- two geoms of one body, never an
   explicit pair -- gets pair id 0. *)
Definition selfpair_model : pmodel := {|
  ngeom := 3;
  geom_bodyid := [1; 2; 2];
  geom_contype := [1; 1; 1];
  geom_conaffinity := [1; 1; 1];
  body_weldid := [0; 1; 2];
  body_parentid := [0; 0; 0];
  exclude_signature := [];
  pairs := [(0, 0)];
  filterparent := true |}.

Theorem pair_rule_selfpair_refuted :
  exists m i j, 0 <= i /\ i < j < ngeom m /\ lookup m i j >= 0 /\ ~ explicit_pair m i j /\ same_weld m i j.
Proof.
  exists selfpair_model, 1, 2. repeat split; try (vm_compute; congruence); try lia.
  intros [H|H]; simpl in H; destruct H as [H|[]]; inversion H.
Qed.
