(* Proof/Reset.v -- lemmas about Model/Reset.v (C13 reset_data, C14 reset_data_keyframe).

   Layout: list-cell and cond_map lemmas; world_of through the launch sequence; scatter = gather
   for mocap; well-formedness predicates; what reset does to a selected world (positive,
   `_partial` where something had to be excluded); contacts; frame; the witnesses wit_* (states
   built on the real code, re-checked against it on every run by bin/props/C13.py) and the
   `_refuted` theorems; keyframe theorems. *)
From Coq Require Import ZArith List Bool Lia ZifyBool.
From VF Require Import Base.Loop Model.Reset.
Import ListNotations.
Local Open Scope Z_scope.

(* ---------- list cells ---------- *)
Lemma upd_nat_length : forall A (l : list A) i x, length (upd_nat l i x) = length l.
Proof. induction l; destruct i; simpl; intros; auto. Qed.

Lemma nth_upd_nat : forall A (l : list A) i x k d,
  nth k (upd_nat l i x) d = if (Nat.eqb k i && Nat.ltb i (length l))%bool then x else nth k l d.
Proof.
  induction l as [|a l IH]; intros.
  - simpl. rewrite andb_false_r. reflexivity.
  - destruct i, k; simpl; auto. rewrite IH. reflexivity.
Qed.

Lemma upd_length : forall A (l : list A) i x, length (upd l i x) = length l.
Proof. intros. unfold upd. destruct (i <? 0); auto using upd_nat_length. Qed.

Lemma lenZ_nonneg : forall A (l : list A), 0 <= lenZ l.
Proof. intros. unfold lenZ. lia. Qed.

Lemma nthZ_upd : forall A (l : list A) i x k d,
  nthZ (upd l i x) k d = if (k =? i) && (0 <=? i) && (i <? lenZ l) then x else nthZ l k d.
Proof.
  intros. unfold nthZ, upd, lenZ.
  destruct (k <? 0) eqn:Hk.
  - destruct (k =? i) eqn:E; simpl; auto. assert (i < 0) by lia. 
    replace (0 <=? i) with false by lia. reflexivity.
  - destruct (i <? 0) eqn:Hi.
    + replace (0 <=? i) with false by lia. rewrite andb_false_r. reflexivity.
    + rewrite nth_upd_nat.
      replace (0 <=? i) with true by lia. rewrite andb_true_r.
      assert (Nat.eqb (Z.to_nat k) (Z.to_nat i) = (k =? i)).
      { destruct (k =? i) eqn:E. apply Nat.eqb_eq. f_equal. lia.
        apply Nat.eqb_neq. lia. }
      assert (Nat.ltb (Z.to_nat i) (length l) = (i <? Z.of_nat (length l))).
      { destruct (i <? Z.of_nat (length l)) eqn:E. apply Nat.ltb_lt. lia. apply Nat.ltb_ge. lia. }
      rewrite H, H0. reflexivity.
Qed.

Lemma nthZ_ext : forall A (l1 l2 : list A) d,
  length l1 = length l2 ->
  (forall k, 0 <= k < lenZ l1 -> nthZ l1 k d = nthZ l2 k d) -> l1 = l2.
Proof.
  intros. apply nth_ext with (d:=d) (d':=d); auto.
  intros n Hn. specialize (H0 (Z.of_nat n)). unfold nthZ, lenZ in H0.
  replace (Z.of_nat n <? 0) with false in H0 by lia. rewrite Nat2Z.id in H0. apply H0. lia.
Qed.

Lemma nthZ_default : forall A (l : list A) k d d', 0 <= k < lenZ l -> nthZ l k d = nthZ l k d'.
Proof. intros. unfold nthZ, lenZ in *. replace (k <? 0) with false by lia. apply nth_indep. lia. Qed.

(* ---------- cond_map ---------- *)
Lemma for_nat_cond_map : forall A (c : Z -> bool) (g : Z -> A -> A) (d : A) cnt i acc,
  0 <= i ->
  let r := for_nat cnt i acc (fun i acc => if c i then upd acc i (g i (nthZ acc i d)) else acc) in
  length r = length acc /\
  forall k d', nthZ r k d' =
    if (i <=? k) && (k <? i + Z.of_nat cnt) && c k && (k <? lenZ acc) then g k (nthZ acc k d) else nthZ acc k d'.
Proof.
  induction cnt; intros; simpl in *.
  - subst r. split; auto. intros. replace ((i <=? k) && (k <? i + 0)) with false by lia. reflexivity.
  - subst r.
    set (acc' := if c i then upd acc i (g i (nthZ acc i d)) else acc).
    assert (Hl : length acc' = length acc). { unfold acc'. destruct (c i); auto using upd_length. }
    destruct (IHcnt (i+1) acc' ltac:(lia)) as [L N]. split. congruence.
    intros. rewrite N. unfold lenZ in *. rewrite Hl.
    assert (Hk : forall dd, k <> i -> nthZ acc' k dd = nthZ acc k dd).
    { intros. unfold acc'. destruct (c i); auto. rewrite nthZ_upd. replace (k =? i) with false by lia. reflexivity. }
    destruct (Z.eq_dec k i).
    + subst k. replace ((i + 1 <=? i)) with false by lia. simpl.
      replace (i <=? i) with true by lia. replace (i <? i + Z.pos (Pos.of_succ_nat cnt)) with true by lia. simpl.
      unfold acc'. destruct (c i) eqn:Ci; simpl; auto.
      rewrite nthZ_upd. replace (i =? i) with true by lia. replace (0 <=? i) with true by lia. simpl.
      unfold lenZ. destruct (i <? Z.of_nat (length acc)); auto.
    + rewrite !Hk by auto.
      replace ((i + 1 <=? k) && (k <? i + 1 + Z.of_nat cnt)) with ((i <=? k) && (k <? i + Z.pos (Pos.of_succ_nat cnt))) by lia.
      reflexivity.
Qed.

Lemma cond_map_length : forall A n c g (d : A) l, length (cond_map n c g d l) = length l.
Proof. intros. unfold cond_map, for_range. destruct (for_nat_cond_map A c g d (Z.to_nat (n - 0)) 0 l ltac:(lia)) as [L _]. exact L. Qed.

Lemma cond_map_nth : forall A n c g (d : A) l k d',
  nthZ (cond_map n c g d l) k d' =
    if (0 <=? k) && (k <? n) && c k && (k <? lenZ l) then g k (nthZ l k d) else nthZ l k d'.
Proof.
  intros. unfold cond_map, for_range.
  destruct (for_nat_cond_map A c g d (Z.to_nat (n - 0)) 0 l ltac:(lia)) as [_ N]. rewrite N.
  replace ((0 <=? k) && (k <? 0 + Z.of_nat (Z.to_nat (n - 0)))) with ((0 <=? k) && (k <? n)) by lia. reflexivity.
Qed.

Lemma nth_repeat_lt' : forall A (v : A) n k d, (k < n)%nat -> nth k (repeat v n) d = v.
Proof. induction n; intros; [lia|]. destruct k; simpl; auto. apply IHn. lia. Qed.

Lemma nthZ_repeat : forall A (v : A) n k d, nthZ (repeat v n) k d = if (0 <=? k) && (k <? Z.of_nat n) then v else d.
Proof.
  intros. unfold nthZ. destruct (k <? 0) eqn:E.
  - replace (0 <=? k) with false by lia. reflexivity.
  - replace (0 <=? k) with true by lia. simpl.
    destruct (k <? Z.of_nat n) eqn:F.
    + apply nth_repeat_lt'. lia.
    + apply nth_overflow. rewrite repeat_length. lia.
Qed.

Lemma Forall_nthZ : forall A (P : A -> Prop) l k d, Forall P l -> 0 <= k < lenZ l -> P (nthZ l k d).
Proof.
  intros. unfold nthZ, lenZ in *. replace (k <? 0) with false by lia.
  rewrite Forall_forall in H. apply H. apply nth_In. lia.
Qed.

Lemma cond_map_const : forall n c v d (l : list Z) len,
  lenZ l = len ->
  (forall k, 0 <= k < len -> (k <? n) && c k = true) ->
  cond_map n c (fun _ _ => v) d l = zconst len v.
Proof.
  intros. apply nthZ_ext with (d:=d).
  - rewrite cond_map_length. unfold zconst. rewrite repeat_length. unfold lenZ in H. lia.
  - intros k Hk. unfold lenZ in Hk. rewrite cond_map_length in Hk. fold (lenZ l) in Hk.
    rewrite cond_map_nth. unfold zconst. rewrite nthZ_repeat.
    specialize (H0 k ltac:(lia)).
    replace ((0 <=? k) && (k <? n) && c k && (k <? lenZ l)) with true by lia.
    replace ((0 <=? k) && (k <? Z.of_nat (Z.to_nat len))) with true by lia. reflexivity.
Qed.

Lemma cond_map_table : forall A n c (t : list A) d0 d (l : list A),
  length l = length t ->
  (forall k, 0 <= k < lenZ t -> (k <? n) && c k = true) ->
  cond_map n c (fun i _ => nthZ t i d0) d l = t.
Proof.
  intros. apply nthZ_ext with (d:=d0).
  - rewrite cond_map_length. auto.
  - intros k Hk. unfold lenZ in Hk. rewrite cond_map_length in Hk. fold (lenZ l) in Hk.
    rewrite cond_map_nth. assert (lenZ l = lenZ t) by (unfold lenZ; lia).
    specialize (H0 k ltac:(lia)).
    replace ((0 <=? k) && (k <? n) && c k && (k <? lenZ l)) with true by lia. reflexivity.
Qed.

Lemma cond_map_rows_zero : forall n (l : list (list Z)) w,
  lenZ l = n -> Forall (fun r => lenZ r = w) l ->
  cond_map n ctrue (fun _ row => cond_map w ctrue (fun _ _ => 0) 0 row) [] l = repeat (zeros w) (Z.to_nat n).
Proof.
  intros. apply nthZ_ext with (d:=[]).
  - rewrite cond_map_length, repeat_length. unfold lenZ in H. lia.
  - intros k Hk. unfold lenZ in Hk. rewrite cond_map_length in Hk. fold (lenZ l) in Hk.
    rewrite cond_map_nth, nthZ_repeat. unfold ctrue at 1.
    replace ((0 <=? k) && (k <? n) && true && (k <? lenZ l)) with true by lia.
    replace ((0 <=? k) && (k <? Z.of_nat (Z.to_nat n))) with true by lia.
    apply cond_map_const. apply (Forall_nthZ _ _ l k [] H0). lia.
    intros. unfold ctrue. lia.
Qed.

(* ---------- map_worlds / world_of ---------- *)
Lemma map_worlds_from_length : forall mask f l w, length (map_worlds_from mask f w l) = length l.
Proof. induction l; simpl; intros; auto. Qed.

Lemma map_worlds_from_nth : forall mask f l w0 n,
  nth_error (map_worlds_from mask f w0 l) n =
  option_map (fun x => if selected mask (w0 + Z.of_nat n) then f (w0 + Z.of_nat n) x else x) (nth_error l n).
Proof.
  induction l; intros; destruct n; simpl; auto.
  - replace (w0 + 0) with w0 by lia. reflexivity.
  - rewrite IHl. replace (w0 + 1 + Z.of_nat n) with (w0 + Z.pos (Pos.of_succ_nat n)) by lia. reflexivity.
Qed.

Lemma world_of_map_worlds : forall mask f d w,
  world_of (map_worlds mask f d) w = option_map (fun x => if selected mask w then f w x else x) (world_of d w).
Proof.
  intros. unfold world_of, map_worlds; simpl. destruct (w <? 0) eqn:E; auto.
  rewrite map_worlds_from_nth. rewrite Z2Nat.id by lia. reflexivity.
Qed.

Lemma nworld_map_worlds : forall mask f d, nworld (map_worlds mask f d) = nworld d.
Proof. intros. unfold nworld, lenZ, map_worlds; simpl. rewrite map_worlds_from_length. reflexivity. Qed.

Definition reset_world (m : MModel) (w : Z) (x : World) : World :=
  k_nworld_w m w (k_sleep m w (k_mocap m w (k_efcJ m w (k_M m w (k_xfrc m w x))))).
Definition post_sleep (m : MModel) (x : World) : World :=
  if sleep_enabled m then update_sleep_w m x else x.

Lemma world_of_update_sleep : forall m d w, world_of (update_sleep m d) w = option_map (update_sleep_w m) (world_of d w).
Proof.
  intros. unfold world_of, update_sleep; simpl. destruct (w <? 0); auto. apply nth_error_map.
Qed.

Lemma world_of_reset_kernels : forall m mask d w,
  world_of (reset_kernels m mask d) w =
  option_map (fun x => post_sleep m (if selected mask w then reset_world m w x else x)) (world_of d w).
Proof.
  intros. unfold reset_kernels, post_sleep.
  assert (E : world_of (k_nworld m mask (map_worlds mask (k_sleep m) (k_contact m mask
               (map_worlds mask (k_mocap m) (map_worlds mask (k_efcJ m) (map_worlds mask (k_M m) (map_worlds mask (k_xfrc m) d))))))) w
          = option_map (fun x => if selected mask w then reset_world m w x else x) (world_of d w)).
  { unfold k_nworld. 
    change (world_of {| worlds := ?a; contacts := ?b; nacon := ?c |} w) with (world_of {| worlds := a; contacts := b; nacon := 0 |} w).
    match goal with |- world_of ?D w = _ => 
      replace (world_of D w) with (world_of (map_worlds mask (k_nworld_w m) (map_worlds mask (k_sleep m)
        (k_contact m mask (map_worlds mask (k_mocap m) (map_worlds mask (k_efcJ m) (map_worlds mask (k_M m) (map_worlds mask (k_xfrc m) d))))))) w) by reflexivity end.
    rewrite !world_of_map_worlds.
    replace (world_of (k_contact m mask (map_worlds mask (k_mocap m) (map_worlds mask (k_efcJ m) (map_worlds mask (k_M m) (map_worlds mask (k_xfrc m) d))))) w)
      with (world_of (map_worlds mask (k_mocap m) (map_worlds mask (k_efcJ m) (map_worlds mask (k_M m) (map_worlds mask (k_xfrc m) d)))) w) by reflexivity.
    rewrite !world_of_map_worlds.
    destruct (world_of d w); simpl; auto. unfold reset_world. destruct (selected mask w); reflexivity. }
  destruct (sleep_enabled m).
  - rewrite world_of_update_sleep, E. destruct (world_of d w); reflexivity.
  - rewrite E. destruct (world_of d w); reflexivity.
Qed.


Lemma for_nat_fold : forall A (f : Z -> A -> A) n s acc,
  for_nat n (Z.of_nat s) acc f = fold_left (fun a k => f k a) (map Z.of_nat (seq s n)) acc.
Proof.
  induction n; intros; simpl; auto.
  replace (Z.of_nat s + 1) with (Z.of_nat (S s)) by lia. apply IHn.
Qed.

Lemma for_range_fold : forall A (f : Z -> A -> A) n acc,
  for_range 0 n acc f = fold_left (fun a k => f k a) (Zseq n) acc.
Proof. intros. unfold for_range, Zseq. replace (n - 0) with n by lia. apply (for_nat_fold A f (Z.to_nat n) 0). Qed.

Lemma fold_filter : forall A B (p : B -> bool) (h : A -> B -> A) l acc,
  fold_left (fun a k => if p k then h a k else a) l acc = fold_left h (filter p l) acc.
Proof. induction l; simpl; intros; auto. destruct (p a); simpl; auto. Qed.

Lemma firstn_upd_snoc : forall A (l : list A) j v, (j < length l)%nat ->
  firstn (S j) (upd_nat l j v) = firstn j l ++ [v].
Proof.
  induction l; intros; simpl in *; [lia|]. destruct j; simpl; auto. f_equal. apply IHl. lia.
Qed.

Lemma upd_nat_firstn : forall A (l : list A) j i v, (j <= i)%nat -> firstn j (upd_nat l i v) = firstn j l.
Proof.
  induction l; intros; simpl; auto. destruct i; destruct j; simpl; auto; try lia. f_equal. apply IHl. lia.
Qed.

(* scatter in id order = gather *)
Lemma scatter_fold : forall A (mid : Z -> Z) (row : Z -> A) bs j (acc : list A),
  length acc = (j + length bs)%nat ->
  (forall i, (i < length bs)%nat -> mid (nth i bs 0) = Z.of_nat (j + i)) ->
  fold_left (fun a b => upd a (mid b) (row b)) bs acc = firstn j acc ++ map row bs.
Proof.
  induction bs; intros; simpl in *.
  - rewrite app_nil_r. rewrite firstn_all2; auto. lia.
  - rewrite IHbs with (j := S j).
    + pose proof (H0 O ltac:(lia)) as H1. simpl in H1. rewrite H1. unfold upd.
      replace (Z.of_nat (j + 0) <? 0) with false by lia. rewrite Nat2Z.id. replace (j + 0)%nat with j by lia.
      rewrite firstn_upd_snoc by lia. rewrite <- app_assoc. reflexivity.
    + rewrite upd_length. lia.
    + intros. specialize (H0 (S i) ltac:(lia)). simpl in H0. rewrite H0. f_equal. lia.
Qed.

Lemma nth_map' : forall A B (f : A -> B) l i d d', (i < length l)%nat -> nth i (map f l) d = f (nth i l d').
Proof. intros. rewrite nth_indep with (d' := f d') by (rewrite map_length; auto). apply map_nth. Qed.

Lemma nth_Zseq : forall n i, (i < Z.to_nat n)%nat -> nth i (Zseq n) 0 = Z.of_nat i.
Proof.
  intros. unfold Zseq. rewrite nth_indep with (d':=Z.of_nat 0) by (rewrite map_length, seq_length; lia).
  rewrite map_nth. rewrite seq_nth; auto.
Qed.

Lemma nthZ_cons_S : forall A (a : A) l x d, nthZ (a :: l) (Z.of_nat (S x)) d = nthZ l (Z.of_nat x) d.
Proof. intros. unfold nthZ. replace (Z.of_nat (S x) <? 0) with false by lia. replace (Z.of_nat x <? 0) with false by lia.
  rewrite !Nat2Z.id. reflexivity. Qed.

Lemma map_nthZ_Zseq : forall A B (F : A -> B) (l : list A) d,
  map (fun k => F (nthZ l k d)) (Zseq (lenZ l)) = map F l.
Proof.
  intros. unfold Zseq, lenZ. rewrite Nat2Z.id. rewrite map_map.
  induction l; simpl; auto. f_equal.
  rewrite <- seq_shift, map_map. rewrite <- IHl. apply map_ext. intros. apply f_equal. apply nthZ_cons_S.
Qed.

Lemma scatter_mocap_gather : forall m (row old : list (list Z)),
  mocap_id m = Zseq (nmocap m) -> 0 <= nmocap m ->
  lenZ old = nmocap m ->
  scatter_mocap m row old = fresh_mocap m row.
Proof.
  intros m row old Hid Hn Hl. unfold scatter_mocap, fresh_mocap.
  rewrite for_range_fold.
  change (Zseq (nbody m)) with (bodies m).
  rewrite (fold_filter _ _ (fun b => 0 <=? nthZ (body_mocapid m) b (-1))
             (fun a b => upd a (nthZ (body_mocapid m) b (-1)) (nthZ row b []))).
  fold (mocap_body m).
  assert (Hlen : length (mocap_body m) = Z.to_nat (nmocap m)).
  { transitivity (length (mocap_id m)). unfold mocap_id. rewrite map_length. reflexivity.
    rewrite Hid. unfold Zseq. rewrite map_length, seq_length. reflexivity. }
  rewrite (scatter_fold _ (fun b => nthZ (body_mocapid m) b (-1)) (fun b => nthZ row b []) (mocap_body m) O old).
  - simpl. rewrite Hid.
    replace (nmocap m) with (lenZ (mocap_body m)) by (unfold lenZ; lia).
    symmetry. apply (map_nthZ_Zseq _ _ (fun b => nthZ row b [])).
  - unfold lenZ in Hl. simpl. lia.
  - intros i Hi. simpl.
    assert (E : nth i (mocap_id m) 0 = Z.of_nat i). { rewrite Hid. apply nth_Zseq. lia. }
    unfold mocap_id in E.
    rewrite nth_map' with (d' := 0) in E by lia. exact E.
Qed.
(* ---------- well-formedness ------------------------------------------------------------------ *)
Record wf_model (m : MModel) : Prop := {
  wm_nq : 0 <= nq m; wm_nv : 0 <= nv m; wm_nu : 0 <= nu m; wm_na : 0 <= na m; wm_nbody : 0 <= nbody m;
  wm_ntree : 0 <= ntree m; wm_neq : 0 <= neq m; wm_nuserdata : 0 <= nuserdata m; wm_nsensordata : 0 <= nsensordata m;
  wm_nmocap : 0 <= nmocap m; wm_nhistory : 0 <= nhistory m; wm_nM : 0 <= nM m; wm_nJr : 0 <= nJr m; wm_nJc : 0 <= nJc m; wm_nefc : 0 <= nefcaddress m;
  wm_nfev : 0 <= nfev m; wm_minawake : 0 <= minawake m;
  wm_qpos0 : qpos0 m <> [] /\ Forall (fun r => lenZ r = nq m) (qpos0 m);
  wm_eq0 : lenZ (eq_active0 m) = neq m;
  wm_hist0 : lenZ (history0 m) = nhistory m;
  wm_mocapid : lenZ (body_mocapid m) = nbody m;
  wm_treeid : lenZ (body_treeid m) = nbody m;
  wm_rootid : lenZ (body_rootid m) = nbody m;
  wm_body_pos : body_pos m <> [] /\ Forall (fun t => lenZ t = nbody m) (body_pos m);
  wm_body_quat : body_quat m <> [] /\ Forall (fun t => lenZ t = nbody m) (body_quat m)
}.

(* the device model is not batched and equals the host model make_data was given
   (make_data reads mjm, the reset kernels read m[worldid % rows]) *)
Record tables_consistent (m : MModel) : Prop := {
  tc_qpos0 : Forall (fun r => r = h_qpos0 m) (qpos0 m);
  tc_eq0 : eq_active0 m = h_eq_active0 m;
  tc_hist0 : history0 m = h_history0 m;
  tc_pos : Forall (fun t => t = h_body_pos m) (body_pos m);
  tc_quat : Forall (fun t => t = h_body_quat m) (body_quat m)
}.

(* invariants of a compiled MuJoCo model used by the proofs *)
Record mj_model (m : MModel) : Prop := {
  mj_nv_le_nq : nv m <= nq m;
  mj_mocap_ids : mocap_id m = Zseq (nmocap m);     (* mocap ids are assigned in body order *)
  mj_treeids : Forall (fun t => t < ntree m) (body_treeid m);   (* tree ids index the tree arrays *)
  mj_dofs : lenZ (dof_bodyid m) = nv m /\                       (* every dof belongs to a body of a tree *)
            Forall (fun b => 0 <= b < nbody m /\ 0 <= nthZ (body_treeid m) b 0) (dof_bodyid m)
}.

Record wf_world (m : MModel) (x : World) : Prop := {
  ww_qpos : lenZ (w_qpos x) = nq m; ww_qvel : lenZ (w_qvel x) = nv m; ww_act : lenZ (w_act x) = na m;
  ww_history : lenZ (w_history x) = nhistory m; ww_warm : lenZ (w_qacc_warmstart x) = nv m;
  ww_ctrl : lenZ (w_ctrl x) = nu m; ww_qfrc : lenZ (w_qfrc_applied x) = nv m;
  ww_xfrc : lenZ (w_xfrc_applied x) = nbody m /\ Forall (fun r => lenZ r = 6) (w_xfrc_applied x);
  ww_eq : lenZ (w_eq_active x) = neq m;
  ww_mpos : lenZ (w_mocap_pos x) = nmocap m; ww_mquat : lenZ (w_mocap_quat x) = nmocap m;
  ww_user : lenZ (w_userdata x) = nuserdata m;
  ww_qacc : lenZ (w_qacc x) = nv m; ww_actdot : lenZ (w_act_dot x) = na m;
  ww_sens : lenZ (w_sensordata x) = nsensordata m; ww_M : lenZ (w_M x) = nM m;
  ww_tas : lenZ (w_tree_asleep x) = ntree m; ww_taw : lenZ (w_tree_awake x) = ntree m;
  ww_baw : lenZ (w_body_awake x) = nbody m; ww_bind : lenZ (w_body_awake_ind x) = nbody m;
  ww_dind : lenZ (w_dof_awake_ind x) = nv m;
  ww_cvel : lenZ (w_cvel x) = nbody m /\ Forall (fun r => lenZ r = 6) (w_cvel x);
  ww_cdofdot : lenZ (w_cdof_dot x) = nv m;
  ww_efcJ : lenZ (w_efc_J x) = nJr m /\ Forall (fun r => lenZ r = nJc m) (w_efc_J x)
}.

Definition wf_data (m : MModel) (d : Data) : Prop := Forall (wf_world m) (worlds d).

Definition hyps (m : MModel) (d : Data) : Prop := wf_model m /\ tables_consistent m /\ mj_model m /\ wf_data m d.

Lemma row_consistent : forall A (tbl : list A) (h : A) w d,
  tbl <> [] -> Forall (fun r => r = h) tbl -> 0 <= w -> nthZ tbl (Z.rem w (lenZ tbl)) d = h.
Proof.
  intros. apply (Forall_nthZ _ (fun r => r = h)); auto.
  assert (0 < lenZ tbl). { unfold lenZ. destruct tbl; simpl; [congruence|lia]. }
  apply Z.rem_bound_pos; lia.
Qed.

Lemma row_length : forall A (tbl : list (list A)) n w,
  tbl <> [] -> Forall (fun r => lenZ r = n) tbl -> 0 <= w -> lenZ (nthZ tbl (Z.rem w (lenZ tbl)) []) = n.
Proof.
  intros. apply (Forall_nthZ _ (fun r => lenZ r = n)); auto.
  assert (0 < lenZ tbl). { unfold lenZ. destruct tbl; simpl; [congruence|lia]. }
  apply Z.rem_bound_pos; lia.
Qed.


Ltac allk := intros; unfold ctrue; lia.

Lemma nthZ_Zseq : forall n k, 0 <= k < n -> nthZ (Zseq n) k 0 = k.
Proof. intros. unfold nthZ. replace (k <? 0) with false by lia. rewrite nth_Zseq by lia. lia. Qed.

Lemma Zseq_length : forall n, lenZ (Zseq n) = Z.max 0 n.
Proof. intros. unfold lenZ, Zseq. rewrite map_length, seq_length. lia. Qed.

Lemma nthZ_map_Zseq : forall A (f : Z -> A) n k d, 0 <= k < n -> nthZ (map f (Zseq n)) k d = f k.
Proof.
  intros. unfold nthZ. replace (k <? 0) with false by lia.
  rewrite nth_map' with (d' := 0) by (unfold Zseq; rewrite map_length, seq_length; lia).
  rewrite nth_Zseq by lia. f_equal. lia.
Qed.

Lemma cond_map_fun_ext : forall n c (f f' : Z -> Z) d (l : list Z) len,
  lenZ l = len ->
  (forall k, 0 <= k < len -> (k <? n) && c k = true) ->
  (forall k, 0 <= k < len -> f k = f' k) ->
  cond_map n c (fun i _ => f i) d l = map f' (Zseq len).
Proof.
  intros. assert (0 <= len) by (subst; apply lenZ_nonneg).
  apply nthZ_ext with (d:=d).
  - rewrite cond_map_length, map_length. unfold Zseq. rewrite map_length, seq_length. unfold lenZ in H. lia.
  - intros k Hk. unfold lenZ in Hk. rewrite cond_map_length in Hk. fold (lenZ l) in Hk.
    rewrite cond_map_nth. rewrite nthZ_map_Zseq by lia.
    specialize (H0 k ltac:(lia)).
    replace ((0 <=? k) && (k <? n) && c k && (k <? lenZ l)) with true by lia. apply H1. lia.
Qed.

Lemma nthZ_zconst : forall n v k, 0 <= k < n -> nthZ (zconst n v) k 0 = v.
Proof. intros. unfold zconst. rewrite nthZ_repeat. replace ((0 <=? k) && (k <? Z.of_nat (Z.to_nat n))) with true by lia. reflexivity. Qed.

Lemma tree_awake_after : forall m (l : list Z),
  0 <= ntree m -> 0 <= minawake m -> lenZ l = ntree m ->
  cond_map (ntree m) ctrue (fun t _ => b2z (nthZ (zconst (ntree m) (- (1 + minawake m))) t 0 <? 0)) 0 l = zconst (ntree m) 1.
Proof.
  intros. apply nthZ_ext with (d:=0).
  - rewrite cond_map_length. unfold zconst. rewrite repeat_length. unfold lenZ in *. lia.
  - intros k Hk. unfold lenZ in Hk. rewrite cond_map_length in Hk. fold (lenZ l) in Hk.
    rewrite cond_map_nth. rewrite !nthZ_zconst by lia. unfold ctrue.
    replace ((0 <=? k) && (k <? ntree m) && true && (k <? lenZ l)) with true by lia.
    replace (- (1 + minawake m) <? 0) with true by lia. reflexivity.
Qed.


Lemma cond_map_const_gen : forall A n c (v : A) d (l : list A) len,
  lenZ l = len ->
  (forall k, 0 <= k < len -> (k <? n) && c k = true) ->
  cond_map n c (fun _ _ => v) d l = repeat v (Z.to_nat len).
Proof.
  intros. apply nthZ_ext with (d:=d).
  - rewrite cond_map_length. rewrite repeat_length. unfold lenZ in H. lia.
  - intros k Hk. unfold lenZ in Hk. rewrite cond_map_length in Hk. fold (lenZ l) in Hk.
    rewrite cond_map_nth. rewrite nthZ_repeat.
    specialize (H0 k ltac:(lia)).
    replace ((0 <=? k) && (k <? n) && c k && (k <? lenZ l)) with true by lia.
    replace ((0 <=? k) && (k <? Z.of_nat (Z.to_nat len))) with true by lia. reflexivity.
Qed.

Lemma hqpos0_length : forall m, wf_model m -> tables_consistent m -> lenZ (h_qpos0 m) = nq m.
Proof.
  intros m WM TC. pose proof (wm_qpos0 _ WM) as [Q0 Q1].
  rewrite <- (row_consistent _ (qpos0 m) (h_qpos0 m) 0 []) by (auto using tc_qpos0; lia).
  apply row_length; auto. lia.
Qed.

(* ---------- a selected world after the six kernels ---------------------------------------------- *)
Lemma world_eq : forall a0 a1 a2 a3 a4 a5 a6 a7 a8 a9 a10 a11 a12 a13 a14 a15 a16 a17 a18 a19 a20 a21 a22 a23 a24 a25 a26 a27 a28 a29 a30 a31 a32 a33 a34 b0 b1 b2 b3 b4 b5 b6 b7 b8 b9 b10 b11 b12 b13 b14 b15 b16 b17 b18 b19 b20 b21 b22 b23 b24 b25 b26 b27 b28 b29 b30 b31 b32 b33 b34,
  a0 = b0 -> a1 = b1 -> a2 = b2 -> a3 = b3 -> a4 = b4 -> a5 = b5 -> a6 = b6 -> a7 = b7 -> a8 = b8 -> a9 = b9 -> a10 = b10 -> a11 = b11 -> a12 = b12 -> a13 = b13 -> a14 = b14 -> a15 = b15 -> a16 = b16 -> a17 = b17 -> a18 = b18 -> a19 = b19 -> a20 = b20 -> a21 = b21 -> a22 = b22 -> a23 = b23 -> a24 = b24 -> a25 = b25 -> a26 = b26 -> a27 = b27 -> a28 = b28 -> a29 = b29 -> a30 = b30 -> a31 = b31 -> a32 = b32 -> a33 = b33 -> a34 = b34 ->
  Build_World a0 a1 a2 a3 a4 a5 a6 a7 a8 a9 a10 a11 a12 a13 a14 a15 a16 a17 a18 a19 a20 a21 a22 a23 a24 a25 a26 a27 a28 a29 a30 a31 a32 a33 a34 = Build_World b0 b1 b2 b3 b4 b5 b6 b7 b8 b9 b10 b11 b12 b13 b14 b15 b16 b17 b18 b19 b20 b21 b22 b23 b24 b25 b26 b27 b28 b29 b30 b31 b32 b33 b34.
Proof. intros; subst; reflexivity. Qed.

Theorem reset_world_fresh : forall m w x,
  wf_model m -> tables_consistent m -> mj_model m -> wf_world m x -> 0 <= w ->
  reset_world m w x = fresh_world m.
Proof.
  intros m w x WM TC MJ WW Hw.
  pose proof (wm_qpos0 _ WM) as [Q0 Q1]. pose proof (wm_body_pos _ WM) as [P0 P1]. pose proof (wm_body_quat _ WM) as [R0 R1].
  pose proof (ww_xfrc _ _ WW) as [X0 X1]. pose proof (ww_cvel _ _ WW) as [V0 V1]. pose proof (ww_efcJ _ _ WW) as [J0 J1].
  pose proof (hqpos0_length m WM TC) as Hq. pose proof (mj_nv_le_nq _ MJ) as Hnv.
  pose proof (wm_ntree _ WM). pose proof (wm_nv _ WM). pose proof (wm_nbody _ WM).
  unfold reset_world, k_nworld_w, fresh_world. simpl.
  rewrite (row_consistent _ (qpos0 m) (h_qpos0 m) w []) by (auto using tc_qpos0).
  rewrite (row_consistent _ (body_pos m) (h_body_pos m) w []) by (auto using tc_pos).
  rewrite (row_consistent _ (body_quat m) (h_body_quat m) w []) by (auto using tc_quat).
  apply world_eq; try reflexivity.
  - apply cond_map_table. pose proof (ww_qpos _ _ WW). unfold lenZ in *; lia. rewrite Hq. allk.
  - apply (cond_map_const _ _ 0 0 _ (nv m)). apply (ww_qvel _ _ WW). allk.
  - apply (cond_map_const _ _ 0 0 _ (na m)). apply (ww_act _ _ WW). allk.
  - rewrite <- (tc_hist0 _ TC). apply cond_map_table.
    pose proof (ww_history _ _ WW). pose proof (wm_hist0 _ WM). unfold lenZ in *; lia. rewrite (wm_hist0 _ WM). allk.
  - apply (cond_map_const _ _ 0 0 _ (nv m)). apply (ww_warm _ _ WW). allk.
  - apply (cond_map_const _ _ 0 0 _ (nu m)). apply (ww_ctrl _ _ WW). allk.
  - apply (cond_map_const _ _ 0 0 _ (nv m)). apply (ww_qfrc _ _ WW). allk.
  - apply cond_map_rows_zero; auto.
  - rewrite <- (tc_eq0 _ TC). apply cond_map_table.
    pose proof (ww_eq _ _ WW). pose proof (wm_eq0 _ WM). unfold lenZ in *; lia. rewrite (wm_eq0 _ WM). allk.
  - apply scatter_mocap_gather. apply (mj_mocap_ids _ MJ). apply (wm_nmocap _ WM). apply (ww_mpos _ _ WW).
  - apply scatter_mocap_gather. apply (mj_mocap_ids _ MJ). apply (wm_nmocap _ WM). apply (ww_mquat _ _ WW).
  - apply (cond_map_const _ _ 0 0 _ (nuserdata m)). apply (ww_user _ _ WW). allk.
  - apply (cond_map_const _ _ 0 0 _ (nv m)). apply (ww_qacc _ _ WW). allk.
  - apply (cond_map_const _ _ 0 0 _ (na m)). apply (ww_actdot _ _ WW). allk.
  - apply (cond_map_const _ _ 0 0 _ (nsensordata m)). apply (ww_sens _ _ WW). allk.
  - apply (cond_map_const _ _ 0 0 _ (nM m)). apply (ww_M _ _ WW). allk.
  - apply (cond_map_const _ _ _ 0 _ (ntree m)). apply (ww_tas _ _ WW). allk.
  - apply (cond_map_const _ _ 1 0 _ (ntree m)). apply (ww_taw _ _ WW). allk.
  - unfold initial_body_awake, bodies.
    apply cond_map_fun_ext with (f := fun e => if nthZ (body_treeid m) e 0 <? 0
       then if 0 <=? nthZ (body_mocapid m) (nthZ (body_rootid m) e 0) (-1) then AWAKE else STATIC else AWAKE).
    apply (ww_baw _ _ WW). allk. auto.
  - rewrite <- (map_id (Zseq (nbody m))). apply (cond_map_fun_ext _ _ (fun e => e) (fun e => e) 0 _ (nbody m)); auto.
    apply (ww_bind _ _ WW). allk.
  - rewrite <- (map_id (Zseq (nv m))). apply (cond_map_fun_ext _ _ (fun e => e) (fun e => e) 0 _ (nv m)); auto.
    apply (ww_dind _ _ WW). allk.
  - apply cond_map_rows_zero; auto.
  - apply (cond_map_const_gen _ _ _ (zeros 6) [] _ (nv m)). apply (ww_cdofdot _ _ WW). allk.
  - apply cond_map_rows_zero; auto.
Qed.

(* ---------- sleep.update_sleep on a fresh world is the identity --------------------------------- *)
Lemma count_all : forall (p : Z -> bool) cnt i c,
  (forall k, i <= k < i + Z.of_nat cnt -> p k = true) ->
  for_nat cnt i c (fun t c => if p t then c + 1 else c) = c + Z.of_nat cnt.
Proof.
  induction cnt; intros; simpl. lia.
  rewrite (H i) by lia. rewrite IHcnt. lia. intros. apply H. lia.
Qed.

Lemma compact_all_nat : forall (keep : Z -> bool) cnt i (l : list Z),
  (forall k, i <= k < i + Z.of_nat cnt -> keep k = true) ->
  for_nat cnt i (i, l) (fun i st => if keep i then (fst st + 1, upd (snd st) (fst st) i) else st) =
  (i + Z.of_nat cnt, for_nat cnt i l (fun i acc => if ctrue i then upd acc i ((fun e _ => e) i (nthZ acc i 0)) else acc)).
Proof.
  induction cnt; intros; simpl.
  - f_equal. lia.
  - rewrite (H i) by lia. simpl. rewrite IHcnt. f_equal. lia. intros. apply H. lia.
Qed.

Lemma compact_all : forall n keep ind,
  0 <= n -> (forall k, 0 <= k < n -> keep k = true) ->
  compact n keep ind = (n, cond_map n ctrue (fun e _ => e) 0 ind).
Proof.
  intros. unfold compact, cond_map, for_range. rewrite compact_all_nat. f_equal. lia.
  intros. apply H0. lia.
Qed.

Lemma cond_map_index_Zseq : forall n, 0 <= n -> cond_map n ctrue (fun e _ => e) 0 (Zseq n) = Zseq n.
Proof.
  intros. rewrite <- (map_id (Zseq n)) at 2.
  apply (cond_map_fun_ext _ _ (fun e => e) (fun e => e) 0 _ n); auto.
  rewrite Zseq_length. lia. allk.
Qed.

Lemma initial_body_awake_length : forall m, lenZ (initial_body_awake m) = Z.max 0 (nbody m).
Proof. intros. unfold initial_body_awake, lenZ, bodies, Zseq. rewrite !map_length, seq_length. lia. Qed.

Theorem update_sleep_fresh : forall m, wf_model m -> mj_model m -> update_sleep_w m (fresh_world m) = fresh_world m.
Proof.
  intros m WM MJ.
  pose proof (wm_ntree _ WM) as Hnt. pose proof (wm_minawake _ WM) as Hmin. pose proof (wm_nbody _ WM) as Hnb.
  pose proof (wm_nv _ WM) as Hnv. pose proof (mj_dofs _ MJ) as [D0 D1].
  assert (TAW : cond_map (ntree m) ctrue (fun t _ => b2z (nthZ (zconst (ntree m) (- (1 + minawake m))) t 0 <? 0)) 0
                  (zconst (ntree m) 1) = zconst (ntree m) 1).
  { apply tree_awake_after; auto. unfold zconst, lenZ. rewrite repeat_length. lia. }
  set (state := fun b =>
    if nthZ (body_treeid m) b 0 <? 0
    then (if 0 <=? nthZ (body_mocapid m) (nthZ (body_rootid m) b 0) (-1) then AWAKE else STATIC)
    else (if nthZ (zconst (ntree m) 1) (nthZ (body_treeid m) b 0) 0 =? 1 then AWAKE else ASLEEP)).
  assert (ST : forall b, 0 <= b < nbody m -> state b =
      (if nthZ (body_treeid m) b 0 <? 0
       then (if 0 <=? nthZ (body_mocapid m) (nthZ (body_rootid m) b 0) (-1) then AWAKE else STATIC) else AWAKE)).
  { intros b Hb. unfold state. destruct (nthZ (body_treeid m) b 0 <? 0) eqn:E; auto.
    rewrite nthZ_zconst. reflexivity. split. lia.
    apply (Forall_nthZ _ (fun t => t < ntree m)). apply (mj_treeids _ MJ). rewrite (wm_treeid _ WM). lia. }
  assert (BAW : cond_map (nbody m) ctrue (fun b _ => state b) 0 (initial_body_awake m) = initial_body_awake m).
  { unfold initial_body_awake at 2. unfold bodies.
    apply cond_map_fun_ext with (f := state). rewrite initial_body_awake_length. lia. allk. exact ST. }
  assert (K1 : forall k, 0 <= k < nbody m -> negb (state k =? ASLEEP) = true).
  { intros k Hk. rewrite (ST k Hk). destruct (nthZ (body_treeid m) k 0 <? 0); [destruct (0 <=? _)|]; reflexivity. }
  assert (K2 : forall k, 0 <= k < nv m ->
     (0 <=? nthZ (body_treeid m) (nthZ (dof_bodyid m) k 0) 0) && (nthZ (initial_body_awake m) (nthZ (dof_bodyid m) k 0) 0 =? AWAKE) = true).
  { intros k Hk. pose proof (Forall_nthZ _ _ (dof_bodyid m) k 0 D1 ltac:(lia)) as [B1 B2]. simpl in B1, B2.
    set (b := nthZ (dof_bodyid m) k 0) in *.
    unfold initial_body_awake, bodies. rewrite nthZ_map_Zseq by lia.
    replace (nthZ (body_treeid m) b 0 <? 0) with false by lia.
    replace (0 <=? nthZ (body_treeid m) b 0) with true by lia. reflexivity. }
  unfold update_sleep_w. cbn [fresh_world w_tree_asleep w_tree_awake w_body_awake w_body_awake_ind w_dof_awake_ind].
  subst state. cbv beta in *.
  rewrite TAW. rewrite BAW.
  rewrite (compact_all (nbody m) _ _ Hnb K1). rewrite (compact_all (nv m) _ _ Hnv K2). cbn [fst snd].
  rewrite !cond_map_index_Zseq by auto.
  assert (NT : for_range 0 (ntree m) 0 (fun t c => if nthZ (zconst (ntree m) (- (1 + minawake m))) t 0 <? 0 then c + 1 else c) = ntree m).
  { unfold for_range. rewrite (count_all (fun t => nthZ (zconst (ntree m) (- (1 + minawake m))) t 0 <? 0)). lia.
    intros. rewrite nthZ_zconst by lia. lia. }
  rewrite NT. reflexivity.
Qed.

Theorem post_sleep_fresh : forall m, wf_model m -> mj_model m -> post_sleep m (fresh_world m) = fresh_world m.
Proof. intros. unfold post_sleep. destruct (sleep_enabled m); auto using update_sleep_fresh. Qed.

(* the whole selected world equals make_data's world: every field reset_data writes, act with any na,
   history, awake counters, body_awake, cvel, cdof_dot included; SLEEP enabled or not *)
Theorem reset_world_eq_fresh : forall m w x,
  wf_model m -> tables_consistent m -> mj_model m -> wf_world m x -> 0 <= w ->
  post_sleep m (reset_world m w x) = fresh_world m.
Proof. intros. rewrite reset_world_fresh by auto. apply post_sleep_fresh; auto. Qed.
(* ---------- contacts and frame -------------------------------------------------------------------- *)
Lemma contacts_reset : forall m mask d,
  contacts (reset_kernels m mask d) =
  cond_map (naconmax d) (fun i => i <? nacon d)
    (fun _ c => if slot_kept mask c then c else clear_slot m c) (fresh_slot m) (contacts d).
Proof. intros. unfold reset_kernels. destruct (sleep_enabled m); reflexivity. Qed.

Lemma nacon_reset : forall m mask d,
  nacon (reset_kernels m mask d) = if (0 <? nworld d) && selected mask 0 then 0 else nacon d.
Proof.
  intros. unfold reset_kernels.
  destruct (sleep_enabled m); simpl; unfold nworld, lenZ; simpl; rewrite !map_worlds_from_length; reflexivity.
Qed.

Lemma reset_data_some : forall m mask d d', reset_data m mask d = Some d' -> d' = reset_kernels m mask d.
Proof.
  intros. unfold reset_data in H. destruct mask. destruct (lenZ l =? nworld d); congruence. congruence.
Qed.

Lemma filter_nil : forall A (p : A -> bool) l, (forall x, In x l -> p x = false) -> filter p l = [].
Proof. induction l; simpl; intros; auto. rewrite H by auto. apply IHl. auto. Qed.

Lemma In_firstn_nth : forall A (l : list A) n x d, In x (firstn n l) ->
  exists i, (i < n)%nat /\ (i < length l)%nat /\ nth i l d = x.
Proof.
  induction l; intros; destruct n; simpl in *; try contradiction.
  destruct H.
  - exists O. repeat split; auto; lia.
  - destruct (IHl n x d H) as (i & A1 & A2 & A3). exists (S i). repeat split; auto; lia.
Qed.

Lemma nth_In_firstn : forall A (l : list A) n i d, (i < n)%nat -> (i < length l)%nat -> In (nth i l d) (firstn n l).
Proof.
  induction l; intros; destruct n; simpl in *; try lia.
  destruct i; auto. right. apply IHl; lia.
Qed.

(* every contact of a selected world disappears (also under a partial mask) *)
Theorem reset_contacts_selected : forall m mask d w,
  0 <= w < nworld d -> selected mask w = true ->
  contacts_of (reset_kernels m mask d) w = [].
Proof.
  intros m mask d w Hw Hs. unfold contacts_of. rewrite nacon_reset.
  destruct ((0 <? nworld d) && selected mask 0) eqn:E0.
  - reflexivity.
  - assert (w <> 0). { intro; subst. rewrite Hs in E0. lia. }
    apply filter_nil. intros x Hx.
    destruct (In_firstn_nth _ _ _ _ (fresh_slot m) Hx) as (i & A1 & A2 & A3).
    rewrite contacts_reset in A2, A3. rewrite cond_map_length in A2.
    assert (N := cond_map_nth _ (naconmax d) (fun i => i <? nacon d)
      (fun _ c => if slot_kept mask c then c else clear_slot m c) (fresh_slot m) (contacts d) (Z.of_nat i) (fresh_slot m)).
    unfold nthZ at 1 in N. replace (Z.of_nat i <? 0) with false in N by lia. rewrite Nat2Z.id in N.
    rewrite A3 in N. unfold naconmax, lenZ in N. cbv beta in N.
    assert (B1 : Z.of_nat i < nacon d) by lia. assert (B2 : Z.of_nat i < Z.of_nat (length (contacts d))) by lia.
    assert (B3 : 0 <= Z.of_nat i) by lia.
    apply Z.ltb_lt in B1, B2. apply Z.leb_le in B3. rewrite B1, B2, B3 in N. simpl in N.
    rewrite N. set (c := nthZ (contacts d) (Z.of_nat i) (fresh_slot m)).
    destruct (slot_kept mask c) eqn:K.
    + unfold slot_kept in K. destruct mask as [l|]; [|discriminate]. simpl in Hs.
      destruct (c_worldid c =? w) eqn:Ew; auto. assert (c_worldid c = w) by lia. rewrite H0 in K. rewrite Hs in K. lia.
    + change (c_worldid (clear_slot m c)) with 0. lia.
Qed.

(* worlds: an unselected world is not written by the six kernels *)
Theorem reset_frame_world : forall m mask d w,
  selected mask w = false ->
  world_of (reset_kernels m mask d) w = option_map (post_sleep m) (world_of d w).
Proof. intros. rewrite world_of_reset_kernels. rewrite H. reflexivity. Qed.

Lemma Forall2_nthZ : forall A (R : A -> A -> Prop) (l l' : list A) d,
  length l = length l' -> (forall k, 0 <= k < lenZ l -> R (nthZ l k d) (nthZ l' k d)) -> Forall2 R l l'.
Proof.
  induction l; intros; destruct l'; simpl in *; try discriminate; constructor.
  - apply (H0 0). unfold lenZ; simpl. lia.
  - apply IHl with (d := d). lia. intros k Hk.
    specialize (H0 (k + 1)). unfold nthZ, lenZ in *. simpl in H0.
    replace (k + 1 <? 0) with false in H0 by lia. replace (k <? 0) with false by lia.
    replace (Z.to_nat (k + 1)) with (S (Z.to_nat k)) in H0 by lia. apply H0. lia.
Qed.

Lemma filter_firstn_rel : forall A (p : A -> bool) (l l' : list A),
  Forall2 (fun c c' => c' = c \/ (p c = false /\ p c' = false)) l l' ->
  forall n, filter p (firstn n l') = filter p (firstn n l).
Proof.
  induction 1; intros; destruct n; simpl; auto.
  rewrite IHForall2. destruct H as [E | [E1 E2]]. subst; reflexivity. rewrite E1, E2. reflexivity.
Qed.

(* contacts of an unselected world w <> 0 survive when world 0 is not selected (nacon is kept) *)
Theorem reset_frame_contacts_partial : forall m mask d w,
  selected mask 0 = false -> 0 < w -> selected mask w = false ->
  contacts_of (reset_kernels m mask d) w = contacts_of d w.
Proof.
  intros m mask d w H0 Hw Hs. unfold contacts_of. rewrite nacon_reset, H0, andb_false_r, contacts_reset.
  apply filter_firstn_rel. apply Forall2_nthZ with (d := fresh_slot m).
  - rewrite cond_map_length. reflexivity.
  - intros k Hk. rewrite cond_map_nth.
    destruct ((0 <=? k) && (k <? naconmax d) && (k <? nacon d) && (k <? lenZ (contacts d))); auto.
    set (c := nthZ (contacts d) k (fresh_slot m)).
    destruct (slot_kept mask c) eqn:K; auto. right.
    unfold slot_kept in K. destruct mask as [l|]; [|discriminate]. simpl in Hs. split; [|change (c_worldid (clear_slot m c)) with 0; lia].
    destruct (c_worldid c =? w) eqn:Ew; auto. assert (c_worldid c = w) by lia. rewrite H in K. rewrite Hs in K. lia.
Qed.

(* no slot below nacon belongs to a selected world (or has a negative tag), world 0 not selected:
   the whole buffer is untouched, so world 0 keeps its contacts too *)
Theorem reset_frame_contacts_untouched : forall m mask d,
  selected mask 0 = false ->
  (forall c, In c (firstn (Z.to_nat (nacon d)) (contacts d)) -> slot_kept mask c = true) ->
  contacts (reset_kernels m mask d) = contacts d /\ nacon (reset_kernels m mask d) = nacon d.
Proof.
  intros m mask d H0 HK. rewrite nacon_reset, H0, andb_false_r, contacts_reset. split; auto.
  apply nthZ_ext with (d := fresh_slot m). apply cond_map_length.
  intros k Hk. unfold lenZ in Hk. rewrite cond_map_length in Hk. rewrite cond_map_nth.
  destruct ((0 <=? k) && (k <? naconmax d) && (k <? nacon d) && (k <? lenZ (contacts d))) eqn:E; auto.
  rewrite HK; auto. unfold nthZ. replace (k <? 0) with false by lia. apply nth_In_firstn; unfold lenZ in *; lia.
Qed.

Lemma world_of_some : forall m d w, wf_data m d -> 0 <= w < nworld d ->
  exists x, world_of d w = Some x /\ wf_world m x.
Proof.
  intros. unfold world_of, nworld, lenZ, wf_data in *. replace (w <? 0) with false by lia.
  destruct (nth_error (worlds d) (Z.to_nat w)) eqn:E.
  - exists w0. split; auto. rewrite Forall_forall in H. apply H. eapply nth_error_In; eauto.
  - apply nth_error_None in E. lia.
Qed.

(* ---------- C13, data level --------------------------------------------------------------------------- *)
(* the full statements (both are refuted below) *)
Definition reset_eq_fresh_stmt : Prop := forall m d mask d' w,
  hyps m d -> reset_data m mask d = Some d' -> 0 <= w < nworld d -> selected mask w = true ->
  obs d' w = obs (fresh m (nworld d) (naconmax d)) w.

Definition reset_frame_stmt : Prop := forall m d mask d' w,
  hyps m d -> reset_data m mask d = Some d' -> 0 <= w < nworld d -> selected mask w = false ->
  obs d' w = obs d w.

Lemma nth_error_repeat : forall A (v : A) n k, (k < n)%nat -> nth_error (repeat v n) k = Some v.
Proof. induction n; intros; [lia|]. destruct k; simpl; auto. apply IHn. lia. Qed.

Lemma world_of_fresh : forall m nw ncm w, 0 <= w < nw -> world_of (fresh m nw ncm) w = Some (fresh_world m).
Proof.
  intros. unfold world_of, fresh. simpl. replace (w <? 0) with false by lia. apply nth_error_repeat. lia.
Qed.

(* THE FULL STATEMENT for selected worlds: after reset_data (any mask, any well-formed Data d, SLEEP enabled
   or not) a selected world and the contacts reported for it are exactly those of make_data *)
Theorem reset_eq_fresh : reset_eq_fresh_stmt.
Proof.
  intros m d mask d' w (WM & TC & MJ & WD) HR Hw Hs.
  apply reset_data_some in HR. subst d'.
  destruct (world_of_some m d w WD Hw) as (x & Ex & WW).
  unfold obs. f_equal.
  - rewrite world_of_reset_kernels, Ex, Hs. simpl. rewrite reset_world_eq_fresh by (auto; lia).
    symmetry. apply world_of_fresh. exact Hw.
  - rewrite reset_contacts_selected by auto. reflexivity.
Qed.

(* What does hold for an unselected world: its fields are untouched (SLEEP disabled; with SLEEP enabled
   update_sleep is re-run on every world), and its contacts survive when world 0 is not selected and
   w <> 0 (for w = 0 see reset_frame_contacts_untouched). *)
Theorem reset_frame_partial : forall m d mask d' w,
  reset_data m mask d = Some d' -> selected mask w = false ->
  world_of d' w = option_map (post_sleep m) (world_of d w) /\
  (sleep_enabled m = false -> world_of d' w = world_of d w) /\
  (selected mask 0 = false -> 0 < w -> contacts_of d' w = contacts_of d w).
Proof.
  intros m d mask d' w HR Hs. apply reset_data_some in HR. subst d'.
  split. apply reset_frame_world; auto.
  split. intros E. rewrite reset_frame_world by auto. unfold post_sleep. rewrite E. destruct (world_of d w); reflexivity.
  intros. apply reset_frame_contacts_partial; auto.
Qed.

(* a mask of the wrong length is rejected by the wrapper *)
Theorem reset_mask_shape_rejected : forall m l d, lenZ l <> nworld d -> reset_data m (Some l) d = None.
Proof. intros. unfold reset_data. replace (lenZ l =? nworld d) with false by lia. reflexivity. Qed.
(* ---------- witnesses: states built on the real code (bin/props/C13.py WITNESSES) -------------------- *)
(* wit_con: the open partial-mask contact defect.  wit_act, wit_hist, wit_mchild: inputs of defects that were
   repaired in /repo (act with na > nu, history, body_awake of a mocap child); they stay as regression states.
   wit_key: a model with two keyframes (C14).  All are explicit values: nothing here depends on /repo. *)
Definition wit_act_m : MModel := (Build_MModel (1) (1) (1) (3) (2) (1) (0) (0) (0) (0) (0) (1) (16) (4) (4) (0) (10) false [[0]] [] [(-1); (-1)] [(-1); 0] [0; 1] [1] [[[0; 0; 0]; [0; 0; 0]]] [[[1065353216; 0; 0; 0]; [1065353216; 0; 0; 0]]] [] [0] [] [[0; 0; 0]; [0; 0; 0]] [[1065353216; 0; 0; 0]; [1065353216; 0; 0; 0]] [] (0) [] [] [] [] [] [] []).
Definition wit_act_d : Data := (Build_Data [(Build_World (0) [0] [0] [1088421888; 1088421888; 1088421888] [] [0] [0] [0] [[0; 0; 0; 0; 0; 0]; [0; 0; 0; 0; 0; 0]] [] [] [] [] (0) (0) (0) (0) (0) (1) (2) (1) [0; 0] [0] [0; 0; 0] [] [0] [(-11)] [1] [(-1); 1] [0; 1] [0] [[0; 0; 0; 0; 0; 0]; [0; 0; 0; 0; 0; 0]] [[0; 0; 0; 0; 0; 0]] [[0; 0; 0; 0]; [0; 0; 0; 0]; [0; 0; 0; 0]; [0; 0; 0; 0]; [0; 0; 0; 0]; [0; 0; 0; 0]; [0; 0; 0; 0]; [0; 0; 0; 0]; [0; 0; 0; 0]; [0; 0; 0; 0]; [0; 0; 0; 0]; [0; 0; 0; 0]; [0; 0; 0; 0]; [0; 0; 0; 0]; [0; 0; 0; 0]; [0; 0; 0; 0]] (0))] [] (0)).
Definition wit_hist_m : MModel := (Build_MModel (1) (1) (1) (0) (2) (1) (0) (0) (0) (0) (6) (1) (16) (4) (4) (0) (10) false [[0]] [] [(-1); (-1)] [(-1); 0] [0; 1] [1] [[[0; 0; 0]; [0; 0; 0]]] [[[1065353216; 0; 0; 0]; [1065353216; 0; 0; 0]]] [0; 1065353216; (-1149037969); (-1157426577); 0; 0] [0] [] [[0; 0; 0]; [0; 0; 0]] [[1065353216; 0; 0; 0]; [1065353216; 0; 0; 0]] [0; 1065353216; (-1149037969); (-1157426577); 0; 0] (0) [] [] [] [] [] [] []).
Definition wit_hist_d : Data := (Build_Data [(Build_World (0) [0] [0] [] [1069547520; 1069547520; 1069547520; 1069547520; 1069547520; 1069547520] [0] [0] [0] [[0; 0; 0; 0; 0; 0]; [0; 0; 0; 0; 0; 0]] [] [] [] [] (0) (0) (0) (0) (0) (1) (2) (1) [0; 0] [0] [] [] [0] [(-11)] [1] [(-1); 1] [0; 1] [0] [[0; 0; 0; 0; 0; 0]; [0; 0; 0; 0; 0; 0]] [[0; 0; 0; 0; 0; 0]] [[0; 0; 0; 0]; [0; 0; 0; 0]; [0; 0; 0; 0]; [0; 0; 0; 0]; [0; 0; 0; 0]; [0; 0; 0; 0]; [0; 0; 0; 0]; [0; 0; 0; 0]; [0; 0; 0; 0]; [0; 0; 0; 0]; [0; 0; 0; 0]; [0; 0; 0; 0]; [0; 0; 0; 0]; [0; 0; 0; 0]; [0; 0; 0; 0]; [0; 0; 0; 0]] (0))] [] (0)).
Definition wit_con_m : MModel := (Build_MModel (1) (1) (0) (0) (2) (1) (0) (0) (0) (0) (0) (1) (16) (4) (4) (0) (10) false [[0]] [] [(-1); (-1)] [(-1); 0] [0; 1] [1] [[[0; 0; 0]; [0; 0; 1035489772]]] [[[1065353216; 0; 0; 0]; [1065353216; 0; 0; 0]]] [] [0] [] [[0; 0; 0]; [0; 0; 1035489772]] [[1065353216; 0; 0; 0]; [1065353216; 0; 0; 0]] [] (0) [] [] [] [] [] [] []).
Definition wit_con_d : Data := (Build_Data [(Build_World (0) [0] [0] [] [] [0] [] [0] [[0; 0; 0; 0; 0; 0]; [0; 0; 0; 0; 0; 0]] [] [] [] [] (0) (0) (0) (0) (0) (1) (2) (1) [0; 0] [0] [] [] [0] [(-11)] [1] [(-1); 1] [0; 1] [0] [[0; 0; 0; 0; 0; 0]; [0; 0; 0; 0; 0; 0]] [[0; 0; 0; 0; 0; 0]] [[0; 0; 0; 0]; [0; 0; 0; 0]; [0; 0; 0; 0]; [0; 0; 0; 0]; [0; 0; 0; 0]; [0; 0; 0; 0]; [0; 0; 0; 0]; [0; 0; 0; 0]; [0; 0; 0; 0]; [0; 0; 0; 0]; [0; 0; 0; 0]; [0; 0; 0; 0]; [0; 0; 0; 0]; [0; 0; 0; 0]; [0; 0; 0; 0]; [0; 0; 0; 0]] (0)); (Build_World (0) [0] [0] [] [] [0] [] [0] [[0; 0; 0; 0; 0; 0]; [0; 0; 0; 0; 0; 0]] [] [] [] [] (0) (0) (0) (0) (0) (1) (2) (1) [0; 0] [0] [] [] [0] [(-11)] [1] [(-1); 1] [0; 1] [0] [[0; 0; 0; 0; 0; 0]; [0; 0; 0; 0; 0; 0]] [[0; 0; 0; 0; 0; 0]] [[0; 0; 0; 0]; [0; 0; 0; 0]; [0; 0; 0; 0]; [0; 0; 0; 0]; [0; 0; 0; 0]; [0; 0; 0; 0]; [0; 0; 0; 0]; [0; 0; 0; 0]; [0; 0; 0; 0]; [0; 0; 0; 0]; [0; 0; 0; 0]; [0; 0; 0; 0]; [0; 0; 0; 0]; [0; 0; 0; 0]; [0; 0; 0; 0]; [0; 0; 0; 0]] (0))] [(Build_Slot (0) [0; 1] (3) (0) (0) [(-1); (-1); (-1); (-1)] [(-1138501878); 0; 0; 0; 0; 0; 0; 0; 0; 0; 0; 0; 0; 0; 0; 0; 0; 0; 0; 0; 0; 0; 0; 0; 0; 0; 0; 0; 0] []); (Build_Slot (1) [0; 1] (3) (0) (0) [(-1); (-1); (-1); (-1)] [(-1130113270); 0; 0; 0; 0; 0; 0; 0; 0; 0; 0; 0; 0; 0; 0; 0; 0; 0; 0; 0; 0; 0; 0; 0; 0; 0; 0; 0; 0] [])] (2)).
Definition wit_mchild_m : MModel := (Build_MModel (1) (1) (0) (0) (4) (1) (0) (0) (0) (1) (0) (1) (16) (4) (4) (0) (10) false [[0]] [] [(-1); 0; (-1); (-1)] [(-1); (-1); (-1); 0] [0; 1; 1; 3] [3] [[[0; 0; 0]; [0; 0; 1065353216]; [0; 0; 1050253722]; [0; 0; 0]]] [[[1065353216; 0; 0; 0]; [1065353216; 0; 0; 0]; [1065353216; 0; 0; 0]; [1065353216; 0; 0; 0]]] [] [0] [] [[0; 0; 0]; [0; 0; 1065353216]; [0; 0; 1050253722]; [0; 0; 0]] [[1065353216; 0; 0; 0]; [1065353216; 0; 0; 0]; [1065353216; 0; 0; 0]; [1065353216; 0; 0; 0]] [] (0) [] [] [] [] [] [] []).
Definition wit_mchild_d : Data := (Build_Data [(Build_World (0) [0] [0] [] [] [0] [] [0] [[0; 0; 0; 0; 0; 0]; [0; 0; 0; 0; 0; 0]; [0; 0; 0; 0; 0; 0]; [0; 0; 0; 0; 0; 0]] [] [[0; 0; 1065353216]] [[1065353216; 0; 0; 0]] [] (0) (0) (0) (0) (0) (1) (4) (1) [0; 0] [0] [] [] [0] [(-11)] [1] [(-1); 1; 1; 1] [0; 1; 2; 3] [0] [[0; 0; 0; 0; 0; 0]; [0; 0; 0; 0; 0; 0]; [0; 0; 0; 0; 0; 0]; [0; 0; 0; 0; 0; 0]] [[0; 0; 0; 0; 0; 0]] [[0; 0; 0; 0]; [0; 0; 0; 0]; [0; 0; 0; 0]; [0; 0; 0; 0]; [0; 0; 0; 0]; [0; 0; 0; 0]; [0; 0; 0; 0]; [0; 0; 0; 0]; [0; 0; 0; 0]; [0; 0; 0; 0]; [0; 0; 0; 0]; [0; 0; 0; 0]; [0; 0; 0; 0]; [0; 0; 0; 0]; [0; 0; 0; 0]; [0; 0; 0; 0]] (0))] [] (0)).
Definition wit_key_m : MModel := (Build_MModel (1) (1) (1) (2) (3) (1) (0) (0) (0) (1) (0) (1) (16) (4) (4) (0) (10) false [[0]] [] [(-1); 0; (-1)] [(-1); (-1); 0] [0; 1; 2] [2] [[[0; 0; 0]; [0; 0; 1065353216]; [0; 0; 0]]] [[[1065353216; 0; 0; 0]; [1065353216; 0; 0; 0]; [1065353216; 0; 0; 0]]] [] [0] [] [[0; 0; 0]; [0; 0; 1065353216]; [0; 0; 0]] [[1065353216; 0; 0; 0]; [1065353216; 0; 0; 0]; [1065353216; 0; 0; 0]] [] (2) [1069547520; 1075838976] [[1048576000]; [1061158912]] [[(-1090519040)]; [1056964608]] [[1073741824; 1077936128]; [1084227584; 1086324736]] [[1082130432]; [1088421888]] [[[1065353216; 1073741824; 1077936128]]; [[1077936128; 1073741824; 1065353216]]] [[[0; 1065353216; 0; 0]]; [[0; 0; 1065353216; 0]]]).
Definition wit_key_d : Data := (Build_Data [(Build_World (1091567616) [0] [1065353216] [1088421888; 1088421888] [] [0] [0] [0] [[0; 0; 0; 0; 0; 0]; [0; 0; 0; 0; 0; 0]; [0; 0; 0; 0; 0; 0]] [] [[0; 0; 1065353216]] [[1065353216; 0; 0; 0]] [] (0) (0) (0) (0) (0) (1) (3) (1) [0; 0] [0] [0; 0] [] [0] [(-11)] [1] [(-1); 1; 1] [0; 1; 2] [0] [[0; 0; 0; 0; 0; 0]; [0; 0; 0; 0; 0; 0]; [0; 0; 0; 0; 0; 0]] [[0; 0; 0; 0; 0; 0]] [[0; 0; 0; 0]; [0; 0; 0; 0]; [0; 0; 0; 0]; [0; 0; 0; 0]; [0; 0; 0; 0]; [0; 0; 0; 0]; [0; 0; 0; 0]; [0; 0; 0; 0]; [0; 0; 0; 0]; [0; 0; 0; 0]; [0; 0; 0; 0]; [0; 0; 0; 0]; [0; 0; 0; 0]; [0; 0; 0; 0]; [0; 0; 0; 0]; [0; 0; 0; 0]] (0)); (Build_World (1091567616) [0] [1065353216] [1088421888; 1088421888] [] [0] [0] [0] [[0; 0; 0; 0; 0; 0]; [0; 0; 0; 0; 0; 0]; [0; 0; 0; 0; 0; 0]] [] [[0; 0; 1065353216]] [[1065353216; 0; 0; 0]] [] (0) (0) (0) (0) (0) (1) (3) (1) [0; 0] [0] [0; 0] [] [0] [(-11)] [1] [(-1); 1; 1] [0; 1; 2] [0] [[0; 0; 0; 0; 0; 0]; [0; 0; 0; 0; 0; 0]; [0; 0; 0; 0; 0; 0]] [[0; 0; 0; 0; 0; 0]] [[0; 0; 0; 0]; [0; 0; 0; 0]; [0; 0; 0; 0]; [0; 0; 0; 0]; [0; 0; 0; 0]; [0; 0; 0; 0]; [0; 0; 0; 0]; [0; 0; 0; 0]; [0; 0; 0; 0]; [0; 0; 0; 0]; [0; 0; 0; 0]; [0; 0; 0; 0]; [0; 0; 0; 0]; [0; 0; 0; 0]; [0; 0; 0; 0]; [0; 0; 0; 0]] (0))] [] (0)).

Ltac wf_solve :=
  repeat match goal with
  | |- hyps _ _ => unfold hyps
  | |- _ /\ _ => split
  | |- wf_data _ _ => unfold wf_data; cbn [worlds]
  end;
  repeat (constructor; cbn); try reflexivity; try discriminate; try (vm_compute; intro; discriminate); try (vm_compute; reflexivity);
  try (vm_compute; split; [discriminate|reflexivity]).

Lemma wit_act_hyps : hyps wit_act_m wit_act_d. Proof. wf_solve. Qed.
Lemma wit_hist_hyps : hyps wit_hist_m wit_hist_d. Proof. wf_solve. Qed.
Lemma wit_con_hyps : hyps wit_con_m wit_con_d. Proof. wf_solve. Qed.
Lemma wit_mchild_hyps : hyps wit_mchild_m wit_mchild_d. Proof. wf_solve. Qed.

Definition the (o : option World) (m : MModel) : World := match o with Some x => x | None => fresh_world m end.

(* the repaired defects on their former witnesses (explicit values, by computation) *)
Example reset_act_regression :
  nu wit_act_m < na wit_act_m /\
  w_act (the (world_of wit_act_d 0) wit_act_m) <> zeros (na wit_act_m) /\
  w_act (the (world_of (reset_kernels wit_act_m None wit_act_d) 0) wit_act_m) = zeros (na wit_act_m).
Proof. split. reflexivity. split. vm_compute; discriminate. reflexivity. Qed.

Example reset_history_regression :
  w_history (the (world_of wit_hist_d 0) wit_hist_m) <> h_history0 wit_hist_m /\
  w_history (the (world_of (reset_kernels wit_hist_m None wit_hist_d) 0) wit_hist_m) = h_history0 wit_hist_m.
Proof. split. vm_compute; discriminate. reflexivity. Qed.

Example reset_body_awake_regression :
  w_body_awake (the (world_of (reset_kernels wit_mchild_m None wit_mchild_d) 0) wit_mchild_m) = [STATIC; AWAKE; AWAKE; AWAKE].
Proof. reflexivity. Qed.

(* F4, still open.  (a) world 0 selected => nacon := 0 and an unselected world loses its contacts;
   (b) world 0 not selected => cleared slots are retagged worldid 0 and world 0 gains contacts *)
Theorem reset_frame_contacts_refuted :
  (exists m d mask d' w, hyps m d /\ reset_data m mask d = Some d' /\ 0 <= w < nworld d /\
      selected mask w = false /\ selected mask 0 = true /\
      nacon d' = 0 /\ contacts_of d w <> [] /\ contacts_of d' w = []) /\
  (exists m d mask d' w, hyps m d /\ reset_data m mask d = Some d' /\ 0 <= w < nworld d /\
      selected mask w = false /\ w = 0 /\
      (length (contacts_of d' w) > length (contacts_of d w))%nat).
Proof.
  split.
  - exists wit_con_m, wit_con_d, (Some [true; false]), (reset_kernels wit_con_m (Some [true; false]) wit_con_d), 1.
    split. apply wit_con_hyps. split. reflexivity. split. vm_compute; split; [discriminate|reflexivity].
    split. reflexivity. split. reflexivity. split. reflexivity. split. vm_compute; discriminate. reflexivity.
  - exists wit_con_m, wit_con_d, (Some [false; true]), (reset_kernels wit_con_m (Some [false; true]) wit_con_d), 0.
    split. apply wit_con_hyps. split. reflexivity. split. vm_compute; split; [discriminate|reflexivity].
    split. reflexivity. split. reflexivity. vm_compute. lia.
Qed.

Theorem reset_frame_refuted : ~ reset_frame_stmt.
Proof.
  intro H. specialize (H wit_con_m wit_con_d (Some [true; false]) _ 1 wit_con_hyps eq_refl).
  assert (0 <= 1 < nworld wit_con_d) by (vm_compute; split; [discriminate|reflexivity]).
  specialize (H H0 eq_refl). vm_compute in H. discriminate H.
Qed.
(* ---------- C14 reset_data_keyframe ------------------------------------------------------------------ *)
Record wf_keys (m : MModel) : Prop := {
  wk_time : lenZ (key_time m) = nkey m;
  wk_qpos : lenZ (key_qpos m) = nkey m /\ Forall (fun r => lenZ r = nq m) (key_qpos m);
  wk_qvel : lenZ (key_qvel m) = nkey m /\ Forall (fun r => lenZ r = nv m) (key_qvel m);
  wk_act : lenZ (key_act m) = nkey m /\ Forall (fun r => lenZ r = na m) (key_act m);
  wk_ctrl : lenZ (key_ctrl m) = nkey m /\ Forall (fun r => lenZ r = nu m) (key_ctrl m);
  wk_mpos : lenZ (key_mpos m) = nkey m /\ Forall (fun r => lenZ r = nmocap m) (key_mpos m);
  wk_mquat : lenZ (key_mquat m) = nkey m /\ Forall (fun r => lenZ r = nmocap m) (key_mquat m)
}.

(* specification: a fresh world with time, qpos, qvel, act, ctrl, mocap_pos, mocap_quat of key k
   (what mj_resetDataKeyframe produces) *)
Definition key_world (m : MModel) (k : Z) : World :=
  let f := fresh_world m in {|
  w_time := nthZ (key_time m) k 0; w_qpos := nthZ (key_qpos m) k []; w_qvel := nthZ (key_qvel m) k [];
  w_act := nthZ (key_act m) k []; w_history := w_history f; w_qacc_warmstart := w_qacc_warmstart f;
  w_ctrl := nthZ (key_ctrl m) k []; w_qfrc_applied := w_qfrc_applied f; w_xfrc_applied := w_xfrc_applied f;
  w_eq_active := w_eq_active f; w_mocap_pos := nthZ (key_mpos m) k []; w_mocap_quat := nthZ (key_mquat m) k [];
  w_userdata := w_userdata f; w_solver_niter := w_solver_niter f; w_ne := w_ne f; w_nf := w_nf f; w_nl := w_nl f;
  w_nefc := w_nefc f; w_ntree_awake := w_ntree_awake f; w_nbody_awake := w_nbody_awake f; w_nv_awake := w_nv_awake f;
  w_energy := w_energy f; w_qacc := w_qacc f; w_act_dot := w_act_dot f; w_sensordata := w_sensordata f; w_M := w_M f;
  w_tree_asleep := w_tree_asleep f; w_tree_awake := w_tree_awake f; w_body_awake := w_body_awake f;
  w_body_awake_ind := w_body_awake_ind f; w_dof_awake_ind := w_dof_awake_ind f;
  w_cvel := w_cvel f; w_cdof_dot := w_cdof_dot f; w_efc_J := w_efc_J f; w_overflow := w_overflow f |}.

Lemma nthZ_map : forall A B (f : A -> B) l k d d', 0 <= k < lenZ l -> nthZ (map f l) k d = f (nthZ l k d').
Proof.
  intros. unfold nthZ, lenZ in *. replace (k <? 0) with false by lia. apply nth_map'. lia.
Qed.

Lemma keyframe_unfold : forall m ks d d',
  reset_data_keyframe m (KArr ks) d = Some d' ->
  lenZ ks = nworld d /\
  d' = map_worlds (Some (map (valid_key m) ks)) (fun w x => k_keyframe_w m (nthZ ks w 0) x)
         (reset_kernels m (Some (map (valid_key m) ks)) d).
Proof.
  intros m ks d d' H. unfold reset_data_keyframe in H.
  destruct (lenZ ks =? nworld d) eqn:E; [|discriminate]. split. lia.
  unfold reset_data in H. unfold lenZ in H at 1. rewrite map_length in H. fold (lenZ ks) in H. rewrite E in H.
  congruence.
Qed.

Lemma keyframe_world_of : forall m ks d d' w,
  reset_data_keyframe m (KArr ks) d = Some d' -> 0 <= w < nworld d ->
  world_of d' w = option_map
    (fun x => if valid_key m (nthZ ks w 0)
              then k_keyframe_w m (nthZ ks w 0) (post_sleep m (reset_world m w x))
              else post_sleep m x) (world_of d w).
Proof.
  intros m ks d d' w H Hw. destruct (keyframe_unfold _ _ _ _ H) as [L E]. subst d'.
  rewrite world_of_map_worlds, world_of_reset_kernels.
  assert (S : selected (Some (map (valid_key m) ks)) w = valid_key m (nthZ ks w 0)).
  { simpl. apply nthZ_map. lia. }
  rewrite S. destruct (world_of d w); simpl; auto. destruct (valid_key m (nthZ ks w 0)); reflexivity.
Qed.

Lemma keyframe_on_fresh : forall m k,
  wf_model m -> tables_consistent m -> mj_model m -> wf_keys m -> 0 <= k < nkey m ->
  k_keyframe_w m k (fresh_world m) = key_world m k.
Proof.
  intros m k WM TC MJ WK Hk.
  pose proof (wk_qpos _ WK) as [K1 K1']. pose proof (wk_qvel _ WK) as [K2 K2']. pose proof (wk_act _ WK) as [K3 K3'].
  pose proof (wk_ctrl _ WK) as [K4 K4']. pose proof (wk_mpos _ WK) as [K5 K5']. pose proof (wk_mquat _ WK) as [K6 K6'].
  assert (F : forall A (tbl : list (list A)) n, lenZ tbl = nkey m -> Forall (fun r => lenZ r = n) tbl -> lenZ (nthZ tbl k []) = n).
  { intros. apply (Forall_nthZ _ (fun r => lenZ r = n)); auto. lia. }
  assert (LM : forall tbl, lenZ (fresh_mocap m tbl) = nmocap m).
  { intros. unfold fresh_mocap, lenZ. rewrite !map_length. rewrite (mj_mocap_ids _ MJ). fold (lenZ (Zseq (nmocap m))).
    rewrite Zseq_length. pose proof (wm_nmocap _ WM). lia. }
  assert (LZ : forall n, 0 <= n -> lenZ (zeros n) = n).
  { intros. unfold zeros, lenZ. rewrite repeat_length. lia. }
  pose proof (hqpos0_length m WM TC) as Hq.
  unfold k_keyframe_w, key_world. cbn [fresh_world w_time w_qpos w_qvel w_act w_history w_qacc_warmstart w_ctrl
    w_qfrc_applied w_xfrc_applied w_eq_active w_mocap_pos w_mocap_quat w_userdata w_solver_niter w_ne w_nf w_nl
    w_nefc w_ntree_awake w_nbody_awake w_nv_awake w_energy w_qacc w_act_dot w_sensordata w_M w_tree_asleep
    w_tree_awake w_body_awake w_body_awake_ind w_dof_awake_ind w_cvel w_cdof_dot w_efc_J w_overflow].
  apply world_eq; try reflexivity.
  - apply cond_map_table. pose proof (F _ _ _ K1 K1'). unfold lenZ in *. lia. rewrite (F _ _ _ K1 K1'). allk.
  - apply cond_map_table. pose proof (F _ _ _ K2 K2'). pose proof (LZ _ (wm_nv _ WM)). unfold lenZ in *. lia.
    rewrite (F _ _ _ K2 K2'). allk.
  - apply cond_map_table. pose proof (F _ _ _ K3 K3'). pose proof (LZ _ (wm_na _ WM)). unfold lenZ in *. lia.
    rewrite (F _ _ _ K3 K3'). allk.
  - apply cond_map_table. pose proof (F _ _ _ K4 K4'). pose proof (LZ _ (wm_nu _ WM)). unfold lenZ in *. lia.
    rewrite (F _ _ _ K4 K4'). allk.
  - apply cond_map_table. pose proof (F _ _ _ K5 K5'). pose proof (LM (h_body_pos m)). unfold lenZ in *. lia.
    rewrite (F _ _ _ K5 K5'). allk.
  - apply cond_map_table. pose proof (F _ _ _ K6 K6'). pose proof (LM (h_body_quat m)). unfold lenZ in *. lia.
    rewrite (F _ _ _ K6 K6'). allk.
Qed.

(* THE FULL STATEMENT for a valid key index: the world is exactly a fresh world carrying the keyframe's time,
   qpos, qvel, act (all na entries), ctrl and mocap poses - what mj_resetDataKeyframe produces *)
Theorem keyframe_valid : forall m ks d d' w,
  hyps m d -> wf_keys m -> reset_data_keyframe m (KArr ks) d = Some d' -> 0 <= w < nworld d ->
  valid_key m (nthZ ks w 0) = true ->
  world_of d' w = Some (key_world m (nthZ ks w 0)).
Proof.
  intros m ks d d' w (WM & TC & MJ & WD) WK HR Hw Hv.
  destruct (world_of_some m d w WD Hw) as (x & Ex & WW).
  assert (Hk : 0 <= nthZ ks w 0 < nkey m) by (unfold valid_key in Hv; lia).
  rewrite (keyframe_world_of _ _ _ _ _ HR Hw), Ex. simpl. rewrite Hv.
  rewrite reset_world_eq_fresh by (auto; lia). rewrite keyframe_on_fresh by auto. reflexivity.
Qed.

(* invalid key index: no kernel writes the world (SLEEP disabled; otherwise update_sleep is re-run on it) *)
Theorem keyframe_invalid_untouched : forall m ks d d' w,
  reset_data_keyframe m (KArr ks) d = Some d' -> 0 <= w < nworld d ->
  valid_key m (nthZ ks w 0) = false ->
  world_of d' w = option_map (post_sleep m) (world_of d w) /\
  (sleep_enabled m = false -> world_of d' w = world_of d w).
Proof.
  intros m ks d d' w HR Hw Hv. rewrite (keyframe_world_of _ _ _ _ _ HR Hw), Hv. split; auto.
  intros E. unfold post_sleep. rewrite E. destruct (world_of d w); reflexivity.
Qed.

(* contacts after a keyframe reset are those after reset_data with the validity mask *)
Theorem keyframe_contacts : forall m ks d d',
  reset_data_keyframe m (KArr ks) d = Some d' ->
  contacts d' = contacts (reset_kernels m (Some (map (valid_key m) ks)) d) /\
  nacon d' = nacon (reset_kernels m (Some (map (valid_key m) ks)) d).
Proof. intros. destruct (keyframe_unfold _ _ _ _ H) as [_ E]. subst d'. split; reflexivity. Qed.

(* a plain integer key out of range raises ValueError *)
Theorem scalar_key_rejected : forall m k d, k < 0 \/ nkey m <= k -> reset_data_keyframe m (KInt k) d = None.
Proof. intros. unfold reset_data_keyframe. replace ((k <? 0) || (nkey m <=? k)) with true by lia. reflexivity. Qed.

(* a valid integer key behaves as the constant key array (wp.full(d.nworld, key)) *)
Theorem scalar_key_broadcast : forall m k d, 0 <= k < nkey m ->
  reset_data_keyframe m (KInt k) d = reset_data_keyframe m (KArr (repeat k (length (worlds d)))) d.
Proof.
  intros. unfold reset_data_keyframe. replace ((k <? 0) || (nkey m <=? k)) with false by lia.
  assert (E : (lenZ (repeat k (length (worlds d))) =? nworld d) = true).
  { unfold nworld, lenZ. rewrite repeat_length. apply Z.eqb_refl. }
  rewrite E. reflexivity.
Qed.

(* a key array of the wrong length raises ValueError *)
Theorem key_shape_rejected : forall m ks d, lenZ ks <> nworld d -> reset_data_keyframe m (KArr ks) d = None.
Proof. intros. unfold reset_data_keyframe. replace (lenZ ks =? nworld d) with false by lia. reflexivity. Qed.

(* ---------- the hypotheses are satisfiable ----------------------------------------------------------- *)
Lemma wit_key_hyps : hyps wit_key_m wit_key_d. Proof. wf_solve. Qed.
Lemma wit_key_wf_keys : wf_keys wit_key_m.
Proof. constructor; repeat split; try reflexivity; repeat constructor. Qed.

Example keyframe_valid_hyps_sat :
  hyps wit_key_m wit_key_d /\ wf_keys wit_key_m /\
  reset_data_keyframe wit_key_m (KArr [5; 1]) wit_key_d <> None /\ 0 <= 1 < nworld wit_key_d /\
  valid_key wit_key_m (nthZ [5; 1] 1 0) = true /\ valid_key wit_key_m (nthZ [5; 1] 0 0) = false.
Proof.
  split. apply wit_key_hyps. split. apply wit_key_wf_keys. split. vm_compute; discriminate.
  split. vm_compute; split; [discriminate|reflexivity]. split; reflexivity.
Qed.

(* partial mask with world 0 unselected on a Data with contacts *)
Example reset_partial_hyps_sat :
  hyps wit_con_m wit_con_d /\ sleep_enabled wit_con_m = false /\
  selected (Some [false; true]) 0 = false /\ selected (Some [false; true]) 1 = true /\ contacts_of wit_con_d 1 <> [].
Proof.
  split. apply wit_con_hyps. split. reflexivity. split. reflexivity. split. reflexivity. vm_compute; discriminate.
Qed.
