(* Proof/Alloc.v -- lemmas about the allocator model Model/Alloc.v (C16; serves C17, C11).

   Plan of the file
     1. lists: zrange, upd/get, stores of a block of rows
     2. one execution of an allocating path under a well-formed skeleton (effect_fit, effect_nofit)
     3. the invariant [inv] (counters above capacity once anything was dropped; the stored
        metadata of the last row equals the nnz counter) and never-silent for one allocator
     4. runs that drop nothing: what exactly is written, and "fits <-> no overflow bit"
     5. bounds of every index written, under the weaker [safe_builder]
     6. the whole step (four allocators + overflow word): never_silent,
        no_overflow_same_as_ample, alloc_sched, alloc_in_bounds
     7. refutations on explicit builder values and necessity of the exact guard; examples
     8. parts 10-14: the repairs [nnzfix] of the njmax_nnz class (prezero / direct flag / clamp):
        weak invariant for the direct flag, independence of counters and rows from the stored
        metadata, silence of the probe when everything fits, and the whole-step theorems
        never_silent_fx, no_overflow_same_as_ample_fx, alloc_sched_fx, alloc_in_bounds_fx
        (fx = nofix is the original code) *)
From Coq Require Import ZArith List Bool Lia ZifyBool String Permutation.
From VF Require Import Model.Alloc.
Import ListNotations.
Local Open Scope Z_scope.

(* ------------------------------ part 1 ------------------------------ *)
(* ---------- zrange ---------- *)
Lemma zrange_length k : Z.of_nat (List.length (zrange k)) = Z.max 0 k.
Proof. unfold zrange. rewrite map_length, seq_length. lia. Qed.

Lemma zrange_nonpos k : k <= 0 -> zrange k = [].
Proof. intros. unfold zrange. replace (Z.to_nat k) with 0%nat by lia. reflexivity. Qed.

Lemma zrange_succ k : 0 <= k -> zrange (k + 1) = zrange k ++ [k].
Proof.
  intros. unfold zrange. replace (Z.to_nat (k + 1)) with (S (Z.to_nat k)) by lia.
  rewrite seq_S, map_app. simpl. f_equal. f_equal. lia.
Qed.

Lemma zrange_In i k : In i (zrange k) <-> 0 <= i < k.
Proof.
  unfold zrange. rewrite in_map_iff. split.
  - intros (n & <- & Hn). apply in_seq in Hn. lia.
  - intros. exists (Z.to_nat i). split; [lia|]. apply in_seq. lia.
Qed.

Lemma filter_lt_zrange T k : filter (fun i => i <? T) (zrange k) = zrange (Z.min k T).
Proof.
  destruct (Z_le_gt_dec k 0) as [Hk|Hk].
  { rewrite (zrange_nonpos k) by lia. rewrite zrange_nonpos by lia. reflexivity. }
  assert (Hn : exists n, k = Z.of_nat n) by (exists (Z.to_nat k); lia).
  destruct Hn as [n ->]. clear Hk. induction n.
  - simpl. rewrite zrange_nonpos by lia. reflexivity.
  - replace (Z.of_nat (S n)) with (Z.of_nat n + 1) by lia.
    rewrite zrange_succ by lia. rewrite filter_app, IHn. simpl.
    destruct (Z.of_nat n <? T) eqn:E.
    + replace (Z.min (Z.of_nat n) T) with (Z.of_nat n) by lia.
      replace (Z.min (Z.of_nat n + 1) T) with (Z.of_nat n + 1) by lia.
      rewrite zrange_succ by lia. reflexivity.
    + rewrite app_nil_r. f_equal. lia.
Qed.

(* ---------- upd / get ---------- *)
Lemma upd_length l : forall i v, List.length (upd l i v) = List.length l.
Proof. induction l; simpl; intros; auto. destruct (i =? 0); simpl; auto. Qed.

Lemma get_upd_same l : forall i v, 0 <= i < Z.of_nat (List.length l) -> get (upd l i v) i = v.
Proof.
  induction l; simpl; intros; [lia|].
  destruct (i =? 0) eqn:E; simpl; rewrite E; auto.
  apply IHl. lia.
Qed.

Lemma get_upd_other l : forall i j v, i <> j -> get (upd l i v) j = get l j.
Proof.
  induction l; simpl; intros; auto.
  destruct (i =? 0) eqn:E; simpl; destruct (j =? 0) eqn:F; auto; try lia.
  apply IHl. lia.
Qed.

Lemma apply_stores_length sts : forall l, List.length (apply_stores l sts) = List.length l.
Proof.
  unfold apply_stores. induction sts; simpl; intros; auto. rewrite IHsts. apply upd_length.
Qed.

Lemma apply_stores_app l a b : apply_stores l (a ++ b) = apply_stores (apply_stores l a) b.
Proof. unfold apply_stores. apply fold_left_app. Qed.

(* storing rows e .. e+k-1: the last row holds the last value *)
Lemma apply_stores_last (f : Z -> Z) l e k :
  0 < k -> 0 <= e -> e + k <= Z.of_nat (List.length l) ->
  get (apply_stores l (map (fun i => (e + i, f i)) (zrange k))) (e + k - 1) = f (k - 1).
Proof.
  intros. replace k with ((k - 1) + 1) at 1 by lia.
  rewrite zrange_succ by lia. rewrite map_app, apply_stores_app.
  set (l' := apply_stores l _).
  change (get (upd l' (e + (k - 1)) (f (k - 1))) (e + k - 1) = f (k - 1)).
  replace (e + (k - 1)) with (e + k - 1) by lia.
  apply get_upd_same. unfold l'. rewrite apply_stores_length. lia.
Qed.

Lemma app_neq_nil_l {A} (l m : list A) : l <> [] -> l ++ m <> [].
Proof. destruct l; simpl; congruence. Qed.
Lemma app_neq_nil_r {A} (l m : list A) : m <> [] -> l ++ m <> [].
Proof. destruct l; simpl; [auto | congruence]. Qed.

Lemma filter_len_le {A} (f : A -> bool) l : (List.length (filter f l) <= List.length l)%nat.
Proof. induction l; simpl; auto. destruct (f a); simpl; lia. Qed.

(* ------------------------------ part 2 ------------------------------ *)
Lemma block_dropped_iff b e cap :
  b_perrow b = false -> wf_fit b = true ->
  cmpb (b_cmp b) e (cap + b_off b) = (e + b_rows b >? cap) /\ 0 < b_rows b.
Proof. unfold wf_fit. intros ->. destruct (b_cmp b); unfold cmpb; lia. Qed.

Lemma perrow_kept b e cap k :
  b_perrow b = true -> wf_fit b = true ->
  filter (fun i => negb (cmpb (b_cmp b) (e + i) (cap + b_off b))) (zrange k) = zrange (Z.min k (cap - e))
  /\ b_rows b = 0.
Proof.
  unfold wf_fit. intros ->. intros H. split; [|lia].
  rewrite <- filter_lt_zrange. apply filter_ext. intros i.
  destruct (b_cmp b); unfold cmpb; lia.
Qed.

Lemma nnz_dropped_iff b x capz :
  wf_nnz b = true -> cmpb (b_ncmp b) x (capz + b_noff b) = (x >? capz).
Proof. unfold wf_nnz. destruct (b_ncmp b); unfold cmpb; lia. Qed.

Definition full_rows (e : Z) (q : req) (k : Z) (c : bool) : list wrow :=
  map (fun i => mkW (e + i) (q_type q) (q_id q) c) (zrange k).
Definition full_adr (e r p k : Z) : list (Z * Z) := map (fun i => (e + i, r + i * p)) (zrange k).
Definition full_rnz (e p k : Z) : list (Z * Z) := map (fun i => (e + i, p)) (zrange k).

(* normal form of the effect when the block fits *)
Lemma effect_fit cap capz sparse b q e r :
  wf_builder sparse b = true -> 0 < nrows b q -> e + nrows b q <= cap ->
  let k := nrows b q in let p := q_pernnz q in
  alloc_effect cap capz sparse b q e r =
    if sparse then
      if r + k * p >? capz
      then mkE k (k * p) (if b_deferred b then full_rows e q k false else []) (full_adr e r p k) (full_rnz e p k) [] 0 true false
      else mkE k (k * p) (full_rows e q k true) (full_adr e r p k) (full_rnz e p k) [(r, k * p)] 0 false true
    else mkE k 0 (full_rows e q k true) [] [] [] 0 false true.
Proof.
  intros Hwf Hk Hfit k p. unfold wf_builder in Hwf. apply andb_prop in Hwf. destruct Hwf as [Hf Hn].
  unfold alloc_effect. fold k. fold p.
  destruct (b_perrow b) eqn:Hp.
  - (* per-row *)
    destruct (perrow_kept b e cap k Hp Hf) as [Hkept _]. simpl negb. cbv iota. simpl andb.
    rewrite Hkept. replace (Z.min k (cap - e)) with k by lia.
    assert (Hl : k - Z.of_nat (List.length (zrange k)) = 0) by (rewrite zrange_length; lia).
    rewrite Hl.
    destruct sparse; simpl in Hn.
    + pose proof Hn as Hn'. unfold wf_nnz in Hn'.
      repeat (apply andb_prop in Hn'; destruct Hn' as [Hn' ?]).
      rewrite Hn'. simpl andb. cbv iota. rewrite (nnz_dropped_iff b _ capz Hn).
      destruct (r + k * p >? capz); unfold full_rows, full_adr, full_rnz.
      * rewrite H1, H0, H2. reflexivity.
      * rewrite H0. reflexivity.
    + simpl. reflexivity.
  - destruct (block_dropped_iff b e cap Hp Hf) as [Hd Hpos].
    assert (Hkr : k = b_rows b) by (unfold k, nrows; destruct (b_rows b =? 0) eqn:E; lia).
    simpl negb. rewrite Hd. rewrite <- Hkr.
    replace (e + k >? cap) with false by lia. simpl andb. cbv iota.
    assert (Hl : k - Z.of_nat (List.length (zrange k)) = 0) by (rewrite zrange_length; lia).
    rewrite Hl.
    destruct sparse; simpl in Hn.
    + pose proof Hn as Hn'. unfold wf_nnz in Hn'.
      repeat (apply andb_prop in Hn'; destruct Hn' as [Hn' ?]).
      rewrite Hn'. simpl andb. cbv iota. rewrite (nnz_dropped_iff b _ capz Hn).
      destruct (r + k * p >? capz); unfold full_rows, full_adr, full_rnz.
      * rewrite H1, H0, H2. reflexivity.
      * rewrite H0. reflexivity.
    + simpl. reflexivity.
Qed.

(* facts that hold for every builder *)
Lemma effect_general cap capz sparse b q e r :
  0 <= nrows b q -> 0 <= q_pernnz q ->
  let ef := alloc_effect cap capz sparse b q e r in
  e_rows ef = nrows b q /\ 0 <= e_nnz ef /\ 0 <= e_rdrop ef /\
  (e_zdrop ef = true -> sparse = true /\ e_nnz ef = nrows b q * q_pernnz q
                        /\ cmpb (b_ncmp b) (r + nrows b q * q_pernnz q) (capz + b_noff b) = true) /\
  (e_cont ef = false -> e_zdrop ef = true \/ 0 < e_rdrop ef \/ nrows b q = 0) /\
  (sparse = false -> e_nnz ef = 0 /\ e_adr ef = [] /\ e_rnz ef = [] /\ e_slots ef = []) /\
  List.length (e_adr ef) = List.length (e_adr ef).
Proof.
  intros Hk Hp. assert (0 <= nrows b q * q_pernnz q) by (apply Z.mul_nonneg_nonneg; lia).
  unfold alloc_effect.
  set (k := nrows b q) in *. set (p := q_pernnz q) in *.
  set (kept := if b_perrow b then filter _ _ else zrange k).
  assert (Hlen : 0 <= k - Z.of_nat (List.length kept)).
  { unfold kept. destruct (b_perrow b).
    - pose proof (filter_len_le (fun i => negb (cmpb (b_cmp b) (e + i) (cap + b_off b))) (zrange k)).
      pose proof (zrange_length k). lia.
    - pose proof (zrange_length k). lia. }
  destruct (negb (b_perrow b) && cmpb (b_cmp b) (if b_perrow b then e + 0 else e) (cap + b_off b)) eqn:D.
  { simpl. repeat split; auto; try lia; try congruence. }
  destruct (sparse && b_has_nnz b) eqn:S.
  - destruct (cmpb (b_ncmp b) (r + k * p) (capz + b_noff b)) eqn:G; simpl.
    + repeat split; auto; try lia; try congruence; destruct sparse; simpl in S; congruence.
    + repeat split; auto; try lia; try congruence; destruct sparse; simpl in S; congruence.
  - simpl. repeat split; auto; try lia; try congruence.
Qed.

(* ------------------------------ part 3 ------------------------------ *)
Lemma effect_nofit cap capz sparse b q e r :
  wf_builder sparse b = true -> 0 < nrows b q -> e + nrows b q > cap ->
  0 < e_rdrop (alloc_effect cap capz sparse b q e r).
Proof.
  intros Hwf Hk Hno. unfold wf_builder in Hwf. apply andb_prop in Hwf. destruct Hwf as [Hf _].
  unfold alloc_effect. set (k := nrows b q) in *.
  destruct (b_perrow b) eqn:Hp.
  - destruct (perrow_kept b e cap k Hp Hf) as [Hkept _]. simpl negb. cbv iota. simpl andb.
    rewrite Hkept.
    assert (Hl : 0 < k - Z.of_nat (List.length (zrange (Z.min k (cap - e))))) by (rewrite zrange_length; lia).
    destruct (sparse && b_has_nnz b); [destruct (cmpb _ _ _)|]; simpl; exact Hl.
  - destruct (block_dropped_iff b e cap Hp Hf) as [Hd Hpos].
    assert (Hkr : k = b_rows b) by (unfold k, nrows; destruct (b_rows b =? 0) eqn:E; lia).
    simpl negb. rewrite Hd. rewrite <- Hkr.
    replace (e + k >? cap) with true by lia. simpl. lia.
Qed.

Ltac split8 := split; [|split; [|split; [|split; [|split; [|split; [|split; [|split]]]]]]].

Section Inv.
Variables (cap capz : Z) (sparse : bool).

Definition inv (s : st) : Prop :=
  0 <= s_n s /\ 0 <= s_z s /\
  (sparse = true -> List.length (s_adr s) = Z.to_nat cap) /\ (sparse = true -> List.length (s_rnz s) = Z.to_nat cap) /\
  (s_rdrop s <> [] -> s_n s > cap) /\
  (s_zdrop s <> [] -> sparse = true /\ s_z s > capz /\ 0 < s_n s) /\
  (s_skip s <> [] -> s_rdrop s <> [] \/ s_zdrop s <> []) /\
  (sparse = true -> 0 < s_n s <= cap ->
     get (s_adr s) (s_n s - 1) + get (s_rnz s) (s_n s - 1) = s_z s) /\
  (s_n s = 0 -> s_z s = 0).

Definition step (b : builder) (q : req) (s : st) : st :=
  apply_effect b q (alloc_effect cap capz sparse b q (s_n s) (s_z s)) s.

Lemma step_inv b q s :
  wf_builder sparse b = true -> wf_req b q -> inv s ->
  inv (step b q s) /\
  (e_cont (alloc_effect cap capz sparse b q (s_n s) (s_z s)) = false ->
     s_rdrop (step b q s) <> [] \/ s_zdrop (step b q s) <> []).
Proof.
  intros Hwf [Hk Hp] (Hn & Hz & Hla & Hlr & Hrd & Hzd & Hsk & Hlast & Hz0).
  assert (Hkp : 0 <= nrows b q * q_pernnz q) by (apply Z.mul_nonneg_nonneg; lia).
  pose proof (effect_general cap capz sparse b q (s_n s) (s_z s) ltac:(lia) Hp) as G.
  cbv zeta in G. destruct G as (Grows & Gnnz & Grd & Gzd & Gcont & Gdense & _).
  unfold step.
  destruct (Z_le_gt_dec (s_n s + nrows b q) cap) as [Hfit|Hno].
  - (* the block fits *)
    pose proof (effect_fit cap capz sparse b q (s_n s) (s_z s) Hwf Hk Hfit) as E. cbv zeta in E.
    set (k := nrows b q) in *. set (p := q_pernnz q) in *.
    set (e := s_n s) in *. set (r := s_z s) in *.
    assert (Hlast' : forall l1 l2, List.length l1 = Z.to_nat cap -> List.length l2 = Z.to_nat cap ->
              get (apply_stores l1 (full_adr e r p k)) (e + k - 1)
              + get (apply_stores l2 (full_rnz e p k)) (e + k - 1) = r + k * p).
    { intros l1 l2 H1 H2. unfold full_adr, full_rnz.
      rewrite (apply_stores_last (fun i => r + i * p)) by lia.
      rewrite (apply_stores_last (fun _ => p)) by lia. lia. }
    destruct sparse eqn:Sp.
    + destruct (r + k * p >? capz) eqn:Gd; rewrite E; unfold apply_effect; simpl.
      * (* nnz guard fires *)
        split.
        { unfold inv; split8; simpl.
          - lia.
          - lia.
          - intros S'; rewrite apply_stores_length; auto.
          - intros S'; rewrite apply_stores_length; auto.
          - intros H. apply Hrd in H. fold e in H. lia.
          - intros _. fold e. fold r. repeat split; lia.
          - intros H. apply Hsk in H. destruct H; [left; auto|right; apply app_neq_nil_l; auto].
          - intros _ _. fold e. fold r. apply Hlast'; auto.
          - fold e. lia. }
        { intros _. right. apply app_neq_nil_r. discriminate. }
      * split.
        { unfold inv; split8; simpl.
          - lia.
          - lia.
          - intros S'; rewrite apply_stores_length; auto.
          - intros S'; rewrite apply_stores_length; auto.
          - intros H. apply Hrd in H. fold e in H. lia.
          - intros H. apply Hzd in H. fold e. fold r. fold e in H. fold r in H. repeat split; lia.
          - intros H. apply Hsk in H. auto.
          - intros _ _. fold e. fold r. apply Hlast'; auto.
          - fold e. lia. }
        { intros H. discriminate H. }
    + rewrite E; unfold apply_effect; simpl. split.
      { unfold inv; split8; simpl.
        - lia.
        - lia.
        - intros; congruence.
        - intros; congruence.
        - intros H. apply Hrd in H. fold e in H. lia.
        - intros H. apply Hzd in H. destruct H; congruence.
        - auto.
        - intros H; congruence.
        - fold e. lia. }
      { intros H. discriminate H. }
  - (* rows are lost: the counter is above capacity from now on *)
    pose proof (effect_nofit cap capz sparse b q (s_n s) (s_z s) Hwf Hk Hno) as Hpos.
    set (ef := alloc_effect cap capz sparse b q (s_n s) (s_z s)) in *.
    unfold apply_effect. split.
    + unfold inv; split8; simpl.
      * lia.
      * lia.
      * intros S'; rewrite apply_stores_length; auto.
      * intros S'; rewrite apply_stores_length; auto.
      * intros _. lia.
      * intros H. destruct (e_zdrop ef) eqn:Z.
        -- destruct (Gzd eq_refl) as (S & N & C).
           assert (Hw : wf_nnz b = true).
           { unfold wf_builder in Hwf. rewrite S in Hwf. simpl in Hwf. apply andb_prop in Hwf. tauto. }
           rewrite (nnz_dropped_iff b _ capz Hw) in C. repeat split; auto; lia.
        -- apply Hzd in H. repeat split; try tauto; lia.
      * intros H. replace (0 <? e_rdrop ef) with true by lia.
        left. apply app_neq_nil_r. discriminate.
      * intros _ H. lia.
      * lia.
    + intros _. left. simpl. replace (0 <? e_rdrop ef) with true by lia.
      apply app_neq_nil_r. discriminate.
Qed.

End Inv.

(* ------------------------------ part 4 ------------------------------ *)
Definition wf_tasks (sparse : bool) (ts : list task) : Prop :=
  Forall (fun t => wf_builder sparse (t_b t) = true /\ wf_task t) ts.

Section Run.
Variables (cap capz : Z) (sparse : bool).
Notation inv := (inv cap capz sparse).
Notation step := (step cap capz sparse).

Lemma skip_all_inv qs s :
  inv s -> (s_rdrop s <> [] \/ s_zdrop s <> []) -> inv (skip_all qs s).
Proof.
  intros (Hn & Hz & Hla & Hlr & Hrd & Hzd & Hsk & Hlast & Hz0) H.
  unfold inv, skip_all; simpl. repeat split; auto; try (apply Hzd; auto).
Qed.

Lemma run_reqs_inv b : forall qs s,
  wf_builder sparse b = true -> Forall (wf_req b) qs -> inv s ->
  inv (run_reqs cap capz sparse b qs s).
Proof.
  induction qs as [|q qs IH]; intros s Hwf Hq Hi; simpl; auto.
  inversion Hq; subst.
  destruct (step_inv cap capz sparse b q s Hwf H1 Hi) as [Hi' Hc].
  fold (step b q s).
  destruct (e_cont _) eqn:C.
  - apply IH; auto.
  - apply skip_all_inv; auto.
Qed.

Lemma run_tasks_inv : forall ts s, wf_tasks sparse ts -> inv s -> inv (run_tasks cap capz sparse ts s).
Proof.
  unfold run_tasks. induction ts as [|t ts IH]; intros s Hw Hi; simpl; auto.
  inversion Hw; subst. destruct H1. apply IH; auto. apply run_reqs_inv; auto.
Qed.

Lemma init_inv adr0 rnz0 :
  (sparse = true -> List.length adr0 = Z.to_nat cap /\ List.length rnz0 = Z.to_nat cap) -> inv (init_st adr0 rnz0).
Proof.
  intros. unfold inv, init_st; simpl. repeat split; auto; try lia; try congruence; try tauto; intros; lia.
Qed.

Lemma dropped_any_true s :
  dropped_any s = true -> s_rdrop s <> [] \/ s_zdrop s <> [] \/ s_skip s <> [].
Proof.
  unfold dropped_any. destruct (s_rdrop s), (s_zdrop s), (s_skip s); simpl; intros; try discriminate;
    try (left; discriminate); try (right; left; discriminate); right; right; discriminate.
Qed.

Lemma dropped_any_false s :
  dropped_any s = false -> s_rdrop s = [] /\ s_zdrop s = [] /\ s_skip s = [].
Proof.
  unfold dropped_any. destruct (s_rdrop s), (s_zdrop s), (s_skip s); simpl; intros; try discriminate; auto.
Qed.

Lemma inv_never_silent s :
  inv s -> dropped_any s = true -> ov_nefc cap s || ov_nnz cap capz sparse s = true.
Proof.
  intros (Hn & Hz & Hla & Hlr & Hrd & Hzd & Hsk & Hlast & Hz0) Hd.
  apply dropped_any_true in Hd.
  assert (Hd' : s_rdrop s <> [] \/ s_zdrop s <> []) by (destruct Hd as [|[|]]; auto).
  unfold ov_nefc, ov_nnz. destruct (s_n s >? cap) eqn:E; auto. simpl.
  destruct Hd' as [H|H]; [apply Hrd in H; lia|].
  apply Hzd in H. destruct H as (S & Hgt & Hpos).
  replace (s_n s >? 0) with true by lia. rewrite S. simpl.
  replace (Z.min (s_n s) cap - 1) with (s_n s - 1) by lia.
  rewrite Hlast; auto; lia.
Qed.

End Run.

(* ------------------------------ part 5 ------------------------------ *)
Definition nodrop (s : st) : Prop := s_rdrop s = [] /\ s_zdrop s = [] /\ s_skip s = [].
Definition znz (sparse : bool) (x : Z) : Z := if sparse then x else 0.
Definition tadd (b : builder) (c k old : Z) : Z := if b_tcounter b =? c then old + k else old.

Lemma zsum_app a b : zsum (a ++ b) = zsum a + zsum b.
Proof. induction a; simpl; lia. Qed.
Lemma zsum_nonneg l : Forall (fun x => 0 <= x) l -> 0 <= zsum l.
Proof. induction 1; simpl; lia. Qed.

Section NoDrop.
Variables (cap capz : Z) (sparse : bool).
Notation inv := (inv cap capz sparse).
Notation step := (step cap capz sparse).

Definition within (s : st) : Prop := s_n s <= cap /\ (sparse = true -> s_z s <= capz).

Lemma step_nodrop b q s :
  wf_builder sparse b = true -> wf_req b q -> inv s -> nodrop (step b q s) ->
  nodrop s /\ e_cont (alloc_effect cap capz sparse b q (s_n s) (s_z s)) = true /\
  s_n s + nrows b q <= cap /\ (sparse = true -> s_z s + nrows b q * q_pernnz q <= capz) /\
  s_n (step b q s) = s_n s + nrows b q /\
  s_z (step b q s) = s_z s + znz sparse (nrows b q * q_pernnz q) /\
  s_rows (step b q s) = s_rows s ++ full_rows (s_n s) q (nrows b q) true /\
  s_ne (step b q s) = tadd b 0 (nrows b q) (s_ne s) /\
  s_nf (step b q s) = tadd b 1 (nrows b q) (s_nf s) /\
  s_nl (step b q s) = tadd b 2 (nrows b q) (s_nl s).
Proof.
  intros Hwf [Hk Hp] Hi (Hr & Hz & Hs).
  unfold step in *. set (ef := alloc_effect cap capz sparse b q (s_n s) (s_z s)) in *.
  unfold apply_effect in Hr, Hz, Hs. simpl in Hr, Hz, Hs.
  assert (Hrd : (0 <? e_rdrop ef) = false /\ s_rdrop s = []).
  { destruct (0 <? e_rdrop ef); auto. apply app_eq_nil in Hr. destruct Hr; discriminate. }
  destruct Hrd as [Hrd Hr0].
  assert (Hzd : e_zdrop ef = false /\ s_zdrop s = []).
  { destruct (e_zdrop ef); auto. apply app_eq_nil in Hz. destruct Hz; discriminate. }
  destruct Hzd as [Hzd Hz0].
  assert (Hfit : s_n s + nrows b q <= cap).
  { destruct (Z_le_gt_dec (s_n s + nrows b q) cap); auto.
    pose proof (effect_nofit cap capz sparse b q (s_n s) (s_z s) Hwf Hk g). fold ef in H. lia. }
  pose proof (effect_fit cap capz sparse b q (s_n s) (s_z s) Hwf Hk Hfit) as E. cbv zeta in E. fold ef in E.
  unfold nodrop, tadd, znz. unfold apply_effect; simpl.
  destruct sparse eqn:Sp.
  - destruct (s_z s + nrows b q * q_pernnz q >? capz) eqn:G.
    + rewrite E in Hzd. simpl in Hzd. discriminate.
    + rewrite E. simpl. repeat split; auto; try lia; try (intros _; lia).
  - rewrite E. simpl. repeat split; auto; try lia; try (intros; congruence).
Qed.

Lemma effect_mono b q ef s : nodrop (apply_effect b q ef s) -> nodrop s.
Proof.
  unfold nodrop, apply_effect; simpl. intros (A & B & C). repeat split; auto.
  - destruct (0 <? e_rdrop ef); auto. apply app_eq_nil in A. tauto.
  - destruct (e_zdrop ef); auto. apply app_eq_nil in B. tauto.
Qed.

Lemma skip_mono qs s : nodrop (skip_all qs s) -> nodrop s.
Proof.
  unfold nodrop, skip_all; simpl. intros (A & B & C). apply app_eq_nil in C. tauto.
Qed.

Lemma run_reqs_mono b : forall qs s, nodrop (run_reqs cap capz sparse b qs s) -> nodrop s.
Proof.
  induction qs as [|q qs IH]; simpl; intros s H; auto.
  destruct (e_cont _).
  - apply IH in H. eapply effect_mono; eauto.
  - apply skip_mono in H. eapply effect_mono; eauto.
Qed.

Lemma run_tasks_mono : forall ts s, nodrop (run_tasks cap capz sparse ts s) -> nodrop s.
Proof.
  unfold run_tasks. induction ts as [|t ts IH]; simpl; intros s H; auto.
  apply IH in H. unfold run_task in H. eapply run_reqs_mono; eauto.
Qed.

Lemma skip_all_not_nodrop qs s :
  (s_rdrop s <> [] \/ s_zdrop s <> []) -> ~ nodrop (skip_all qs s).
Proof. unfold nodrop, skip_all; simpl. intros [H|H] (A & B & C); auto. Qed.

(* requested rows of a request list placed from row e on *)
Fixpoint place (b : builder) (qs : list req) (e : Z) : list wrow :=
  match qs with
  | [] => []
  | q :: qs' => full_rows e q (nrows b q) true ++ place b qs' (e + nrows b q)
  end.
Definition reqs_nrows (b : builder) (qs : list req) : Z := zsum (map (nrows b) qs).
Definition reqs_nnz (b : builder) (qs : list req) : Z := zsum (map (fun q => nrows b q * q_pernnz q) qs).

Lemma run_reqs_nodrop b : forall qs s,
  wf_builder sparse b = true -> Forall (wf_req b) qs -> inv s -> within s ->
  nodrop (run_reqs cap capz sparse b qs s) ->
  let s' := run_reqs cap capz sparse b qs s in
  nodrop s /\
  s_n s + reqs_nrows b qs <= cap /\ (sparse = true -> s_z s + reqs_nnz b qs <= capz) /\
  s_n s' = s_n s + reqs_nrows b qs /\
  s_z s' = s_z s + znz sparse (reqs_nnz b qs) /\
  s_rows s' = s_rows s ++ place b qs (s_n s) /\
  s_ne s' = tadd b 0 (reqs_nrows b qs) (s_ne s) /\
  s_nf s' = tadd b 1 (reqs_nrows b qs) (s_nf s) /\
  s_nl s' = tadd b 2 (reqs_nrows b qs) (s_nl s).
Proof.
  induction qs as [|q qs IH]; intros s Hwf Hq Hi [W1 W2] Hnd; simpl in *.
  - unfold reqs_nrows, reqs_nnz, tadd, znz, nodrop in *; simpl. rewrite app_nil_r.
    destruct Hnd as (? & ? & ?).
    destruct (b_tcounter b =? 0), (b_tcounter b =? 1), (b_tcounter b =? 2);
      repeat split; auto; try lia; try (intros S; specialize (W2 S); lia); destruct sparse; lia.
  - inversion Hq; subst.
    destruct (step_inv cap capz sparse b q s Hwf H1 Hi) as [Hi' Hc].
    fold (step b q s) in *.
    destruct (e_cont (alloc_effect cap capz sparse b q (s_n s) (s_z s))) eqn:C.
    + pose proof (run_reqs_mono b qs _ Hnd) as Hnd0.
      destruct (step_nodrop b q s Hwf H1 Hi Hnd0) as (N0 & _ & G1 & G2 & B1 & B2 & B3 & B4 & B5 & B6).
      assert (Wn : within (step b q s)).
      { split; [lia|]. intros S. specialize (G2 S). rewrite B2. unfold znz. rewrite S. lia. }
      destruct (IH (step b q s) Hwf H2 Hi' Wn Hnd) as (_ & F1 & F2 & A1 & A2 & A3 & A4 & A5 & A6).
      assert (0 <= reqs_nnz b qs).
      { apply zsum_nonneg. apply Forall_map. eapply Forall_impl; [|exact H2].
        intros a [? ?]. apply Z.mul_nonneg_nonneg; lia. }
      assert (0 <= reqs_nrows b qs).
      { apply zsum_nonneg. apply Forall_map. eapply Forall_impl; [|exact H2]. intros a [? ?]. lia. }
      unfold reqs_nrows, reqs_nnz in *. simpl.
      rewrite A1, A2, A3, A4, A5, A6, B1, B2, B3, B4, B5, B6.
      unfold tadd, znz in *. rewrite <- app_assoc.
      destruct N0 as (? & ? & ?).
      repeat split; auto; try lia;
        try (intros S; specialize (F2 S); rewrite S in *; lia); try (destruct sparse; lia).
      * destruct (b_tcounter b =? 0); lia.
      * destruct (b_tcounter b =? 1); lia.
      * destruct (b_tcounter b =? 2); lia.
    + exfalso. eapply skip_all_not_nodrop; [|exact Hnd]. apply Hc; auto.
Qed.

Fixpoint place_tasks (ts : list task) (e : Z) : list wrow :=
  match ts with
  | [] => []
  | t :: ts' => place (t_b t) (t_reqs t) e ++ place_tasks ts' (e + task_nrows t)
  end.

Lemma run_tasks_nodrop : forall ts s,
  wf_tasks sparse ts -> inv s -> within s -> nodrop (run_tasks cap capz sparse ts s) ->
  let s' := run_tasks cap capz sparse ts s in
  nodrop s /\
  s_n s + total_rows ts <= cap /\ (sparse = true -> s_z s + total_nnz ts <= capz) /\
  s_n s' = s_n s + total_rows ts /\
  s_z s' = s_z s + znz sparse (total_nnz ts) /\
  s_rows s' = s_rows s ++ place_tasks ts (s_n s) /\
  s_ne s' = s_ne s + tcount 0 ts /\ s_nf s' = s_nf s + tcount 1 ts /\ s_nl s' = s_nl s + tcount 2 ts.
Proof.
  unfold run_tasks. induction ts as [|t ts IH]; intros s Hw Hi [W1 W2] Hnd; simpl in *.
  - unfold total_rows, total_nnz, tcount, znz, nodrop in *; simpl. rewrite app_nil_r.
    destruct Hnd as (? & ? & ?).
    repeat split; auto; try lia; try (intros S; specialize (W2 S); lia); destruct sparse; lia.
  - inversion Hw; subst. destruct H1 as [Hb Ht].
    pose proof (run_reqs_inv cap capz sparse (t_b t) (t_reqs t) s Hb Ht Hi) as Hi'.
    fold (run_task cap capz sparse s t) in *. unfold run_task in *.
    pose proof (run_tasks_mono ts _ Hnd) as N1.
    destruct (run_reqs_nodrop (t_b t) (t_reqs t) s Hb Ht Hi (conj W1 W2) N1) as (N0 & G1 & G2 & B1 & B2 & B3 & B4 & B5 & B6).
    assert (Wn : within (run_reqs cap capz sparse (t_b t) (t_reqs t) s)).
    { split; [lia|]. intros S. specialize (G2 S). rewrite B2. unfold znz. rewrite S. lia. }
    destruct (IH _ H2 Hi' Wn Hnd) as (_ & F1 & F2 & A1 & A2 & A3 & A4 & A5 & A6).
    assert (0 <= total_nnz ts).
    { apply zsum_nonneg. apply Forall_map. eapply Forall_impl; [|exact H2].
      intros a [_ Ha]. apply zsum_nonneg. apply Forall_map. eapply Forall_impl; [|exact Ha].
      intros x [? ?]. apply Z.mul_nonneg_nonneg; lia. }
    assert (0 <= total_rows ts).
    { apply zsum_nonneg. apply Forall_map. eapply Forall_impl; [|exact H2].
      intros a [_ Ha]. apply zsum_nonneg. apply Forall_map. eapply Forall_impl; [|exact Ha].
      intros x [? ?]. lia. }
    unfold total_rows, total_nnz, tcount in *. simpl.
    unfold task_nrows, task_nnz in *.
    fold (reqs_nrows (t_b t) (t_reqs t)) in *. fold (reqs_nnz (t_b t) (t_reqs t)) in *.
    rewrite A1, A2, A3, A4, A5, A6, B1, B2, B3, B4, B5, B6.
    unfold tadd, znz in *. rewrite <- app_assoc.
    destruct N0 as (? & ? & ?).
    repeat split; auto; try lia;
      try (intros S; specialize (F2 S); rewrite S in *; lia); try (destruct sparse; lia).
    * destruct (b_tcounter (t_b t) =? 0); lia.
    * destruct (b_tcounter (t_b t) =? 1); lia.
    * destruct (b_tcounter (t_b t) =? 2); lia.
Qed.

End NoDrop.

(* ------------------------------ part 6 ------------------------------ *)
Section Fits.
Variables (cap capz : Z) (sparse : bool).
Notation inv := (inv cap capz sparse).
Notation step := (step cap capz sparse).

Lemma step_fits b q s :
  wf_builder sparse b = true -> wf_req b q -> nodrop s ->
  s_n s + nrows b q <= cap -> (sparse = true -> s_z s + nrows b q * q_pernnz q <= capz) ->
  nodrop (step b q s) /\ e_cont (alloc_effect cap capz sparse b q (s_n s) (s_z s)) = true /\
  s_n (step b q s) = s_n s + nrows b q /\
  s_z (step b q s) = s_z s + znz sparse (nrows b q * q_pernnz q).
Proof.
  intros Hwf [Hk Hp] (Hr & Hz & Hs) Hfit Hfz.
  pose proof (effect_fit cap capz sparse b q (s_n s) (s_z s) Hwf Hk Hfit) as E. cbv zeta in E.
  unfold step, nodrop, znz. destruct sparse eqn:Sp.
  - specialize (Hfz eq_refl).
    replace (s_z s + nrows b q * q_pernnz q >? capz) with false in E by lia.
    rewrite E. unfold apply_effect; simpl. repeat split; auto.
  - rewrite E. unfold apply_effect; simpl. repeat split; auto; lia.
Qed.

Lemma reqs_nonneg b qs : Forall (wf_req b) qs -> 0 <= reqs_nrows b qs /\ 0 <= reqs_nnz b qs.
Proof.
  intros H. split; apply zsum_nonneg; apply Forall_map; (eapply Forall_impl; [|exact H]); intros a [? ?].
  - lia.
  - apply Z.mul_nonneg_nonneg; lia.
Qed.

Lemma tasks_nonneg ts : wf_tasks sparse ts -> 0 <= total_rows ts /\ 0 <= total_nnz ts.
Proof.
  intros H. split; apply zsum_nonneg; apply Forall_map; (eapply Forall_impl; [|exact H]); intros a [_ Ha].
  - apply (reqs_nonneg _ _ Ha).
  - apply (reqs_nonneg _ _ Ha).
Qed.

Lemma run_reqs_fits b : forall qs s,
  wf_builder sparse b = true -> Forall (wf_req b) qs -> nodrop s ->
  s_n s + reqs_nrows b qs <= cap -> (sparse = true -> s_z s + reqs_nnz b qs <= capz) ->
  let s' := run_reqs cap capz sparse b qs s in
  nodrop s' /\ s_n s' = s_n s + reqs_nrows b qs /\ s_z s' = s_z s + znz sparse (reqs_nnz b qs).
Proof.
  induction qs as [|q qs IH]; intros s Hwf Hq Hnd Hfit Hfz; simpl.
  - unfold reqs_nrows, reqs_nnz, znz; simpl. split; [exact Hnd|]. split; [lia|]. destruct sparse; lia.
  - inversion Hq; subst. destruct (reqs_nonneg b qs H2) as [P1 P2].
    unfold reqs_nrows, reqs_nnz in *. simpl in *.
    destruct (step_fits b q s Hwf H1 Hnd) as (N & C & A1 & A2); [lia| intros S; specialize (Hfz S); lia |].
    fold (step b q s). rewrite C.
    destruct (IH (step b q s) Hwf H2 N) as (N' & B1 & B2).
    + rewrite A1. lia.
    + intros S. specialize (Hfz S). rewrite A2. unfold znz. rewrite S. lia.
    + split; [exact N'|]. split; [lia|]. rewrite B2, A2. unfold znz. destruct sparse; lia.
Qed.

Lemma run_tasks_fits : forall ts s,
  wf_tasks sparse ts -> nodrop s ->
  s_n s + total_rows ts <= cap -> (sparse = true -> s_z s + total_nnz ts <= capz) ->
  nodrop (run_tasks cap capz sparse ts s).
Proof.
  unfold run_tasks. induction ts as [|t ts IH]; intros s Hw Hnd Hfit Hfz; simpl; auto.
  inversion Hw; subst. destruct H1 as [Hb Ht]. destruct (tasks_nonneg ts H2) as [P1 P2].
  unfold total_rows, total_nnz in *. simpl in *. unfold task_nrows, task_nnz in *.
  fold (reqs_nrows (t_b t) (t_reqs t)) in *. fold (reqs_nnz (t_b t) (t_reqs t)) in *.
  destruct (run_reqs_fits (t_b t) (t_reqs t) s Hb Ht Hnd) as (N & A1 & A2); [lia| intros S; specialize (Hfz S); lia |].
  unfold run_task. apply IH; auto.
  - rewrite A1. lia.
  - intros S. specialize (Hfz S). rewrite A2. unfold znz. rewrite S. lia.
Qed.

Definition fits (ts : list task) : Prop :=
  total_rows ts <= cap /\ (sparse = true -> total_nnz ts <= capz).

Definition overflowed (s : st) : bool := ov_nefc cap s || ov_nnz cap capz sparse s.

Lemma nodrop_init a r : nodrop (init_st a r).
Proof. unfold nodrop, init_st; simpl; auto. Qed.

Lemma nodrop_dropped_any s : nodrop s <-> dropped_any s = false.
Proof.
  split.
  - intros (A & B & C). unfold dropped_any. rewrite A, B, C. reflexivity.
  - apply dropped_any_false.
Qed.

Theorem overflow_iff_fits ts adr0 rnz0 :
  wf_tasks sparse ts -> 0 <= cap -> 0 <= capz ->
  (sparse = true -> List.length adr0 = Z.to_nat cap /\ List.length rnz0 = Z.to_nat cap) ->
  overflowed (run_tasks cap capz sparse ts (init_st adr0 rnz0)) = false <-> fits ts.
Proof.
  intros Hw Hc Hcz Hl.
  pose proof (init_inv cap capz sparse adr0 rnz0 Hl) as Hi0.
  pose proof (run_tasks_inv cap capz sparse ts _ Hw Hi0) as Hi.
  assert (W0 : within cap capz sparse (init_st adr0 rnz0)) by (unfold within, init_st; simpl; split; auto; lia).
  set (s := run_tasks cap capz sparse ts (init_st adr0 rnz0)) in *.
  split.
  - intros Hov.
    assert (Hnd : nodrop s).
    { apply nodrop_dropped_any. destruct (dropped_any s) eqn:D; auto.
      pose proof (inv_never_silent cap capz sparse s Hi D). unfold overflowed in Hov. congruence. }
    destruct (run_tasks_nodrop cap capz sparse ts _ Hw Hi0 W0 Hnd) as (_ & F1 & F2 & _).
    unfold init_st in F1, F2; simpl in F1, F2. split; [lia|]. intros S. specialize (F2 S). lia.
  - intros [F1 F2].
    assert (Hnd : nodrop s).
    { apply run_tasks_fits; auto. apply nodrop_init. }
    destruct (run_tasks_nodrop cap capz sparse ts _ Hw Hi0 W0 Hnd) as (_ & _ & _ & A1 & A2 & _).
    fold s in A1, A2. unfold init_st in A1, A2; simpl in A1, A2.
    destruct Hi as (Hn & Hz & Hla & Hlr & Hrd & Hzd & Hsk & Hlast & Hz0).
    unfold overflowed, ov_nefc, ov_nnz.
    replace (s_n s >? cap) with false by lia. simpl.
    destruct ((s_n s >? 0) && sparse) eqn:G; auto.
    apply andb_prop in G. destruct G as [G1 G2].
    replace (Z.min (s_n s) cap - 1) with (s_n s - 1) by lia.
    rewrite Hlast; auto; try lia. specialize (F2 G2). unfold znz in A2. rewrite G2 in A2. lia.
Qed.

End Fits.

(* ---------- requested rows ---------- *)
Lemma place_content b : forall qs e, map content (place b qs e) = flat_map (req_rows b) qs.
Proof.
  induction qs; simpl; intros; auto. rewrite map_app, IHqs. f_equal.
  unfold full_rows, req_rows. rewrite map_map. reflexivity.
Qed.

Lemma place_tasks_content : forall ts e, map content (place_tasks ts e) = expected_rows ts.
Proof.
  induction ts; simpl; intros; auto. rewrite map_app, IHts, place_content. reflexivity.
Qed.

Lemma zrange_add a b : 0 <= a -> 0 <= b -> zrange (a + b) = zrange a ++ map (fun i => a + i) (zrange b).
Proof.
  intros Ha Hb. assert (Hn : exists n, b = Z.of_nat n) by (exists (Z.to_nat b); lia).
  destruct Hn as [n ->]. clear Hb. induction n.
  - replace (a + Z.of_nat 0) with a by lia. rewrite (zrange_nonpos (Z.of_nat 0)) by lia. simpl. rewrite app_nil_r. auto.
  - replace (Z.of_nat (S n)) with (Z.of_nat n + 1) by lia.
    replace (a + (Z.of_nat n + 1)) with (a + Z.of_nat n + 1) by lia.
    rewrite !zrange_succ by lia. rewrite IHn. rewrite map_app, app_assoc. reflexivity.
Qed.

Lemma place_efcid b : forall qs e, Forall (wf_req b) qs -> 0 <= e ->
  map w_efcid (place b qs e) = map (fun i => e + i) (zrange (reqs_nrows b qs)).
Proof.
  induction qs as [|q qs IH]; intros e Hq He; simpl.
  - reflexivity.
  - inversion Hq; subst. destruct H1 as [Hk _]. destruct (reqs_nonneg b qs H2) as [P _].
    unfold reqs_nrows in *. simpl. rewrite map_app, IH by (auto; lia).
    rewrite zrange_add by lia. rewrite map_app. f_equal.
    + unfold full_rows. rewrite map_map. reflexivity.
    + rewrite !map_map. apply map_ext. intros. lia.
Qed.

Lemma place_tasks_efcid sparse : forall ts e, wf_tasks sparse ts -> 0 <= e ->
  map w_efcid (place_tasks ts e) = map (fun i => e + i) (zrange (total_rows ts)).
Proof.
  induction ts as [|t ts IH]; intros e Hw He; simpl.
  - reflexivity.
  - inversion Hw; subst. destruct H1 as [_ Ht]. destruct (reqs_nonneg _ _ Ht) as [P _].
    destruct (tasks_nonneg sparse ts H2) as [P2 _].
    unfold total_rows in *. simpl. unfold task_nrows in *. fold (reqs_nrows (t_b t) (t_reqs t)) in *.
    rewrite map_app, IH, place_efcid by (auto; lia).
    rewrite zrange_add by lia. rewrite map_app. f_equal.
    rewrite !map_map. apply map_ext. intros. lia.
Qed.

Lemma place_complete b : forall qs e, forallb w_complete (place b qs e) = true.
Proof.
  induction qs; simpl; intros; auto. rewrite forallb_app, IHqs, andb_true_r.
  unfold full_rows. rewrite forallb_forall. intros x Hx. apply in_map_iff in Hx. destruct Hx as (i & <- & _). reflexivity.
Qed.
Lemma place_tasks_complete : forall ts e, forallb w_complete (place_tasks ts e) = true.
Proof. induction ts; simpl; intros; auto. rewrite forallb_app, IHts, place_complete. reflexivity. Qed.

(* ---------- schedules ---------- *)
Lemma zsum_perm l l' : Permutation l l' -> zsum l = zsum l'.
Proof. induction 1; simpl; lia. Qed.

Lemma perm_totals ts ts' : Permutation ts ts' ->
  total_rows ts = total_rows ts' /\ total_nnz ts = total_nnz ts' /\
  (forall c, tcount c ts = tcount c ts') /\ Permutation (expected_rows ts) (expected_rows ts').
Proof.
  intros P. unfold total_rows, total_nnz, tcount, expected_rows. repeat split.
  - apply zsum_perm, Permutation_map, P.
  - apply zsum_perm, Permutation_map, P.
  - intros c. apply zsum_perm, Permutation_map, P.
  - induction P; simpl; auto.
    + apply Permutation_app_head; auto.
    + rewrite !app_assoc. apply Permutation_app_tail, Permutation_app_comm.
    + eapply Permutation_trans; eauto.
Qed.

Lemma wf_tasks_perm sparse ts ts' : Permutation ts ts' -> wf_tasks sparse ts -> wf_tasks sparse ts'.
Proof. unfold wf_tasks. intros P H. eapply Permutation_Forall; eauto. Qed.

(* ------------------------------ part 7 ------------------------------ *)
Section Bounds.
Variables (cap capz : Z) (sparse : bool).

Definition slot_ok (sl : Z * Z) : Prop := 0 <= fst sl /\ 0 <= snd sl /\ fst sl + snd sl <= capz.
Definition bounds_ok (s : st) : Prop :=
  Forall (fun w => 0 <= w_efcid w < cap) (s_rows s) /\
  Forall (fun i => 0 <= i < cap) (s_midx s) /\
  Forall slot_ok (s_slots s).
Definition binv (s : st) : Prop := 0 <= s_n s /\ 0 <= s_z s /\ bounds_ok s.

Lemma effect_bounds b q e r :
  safe_builder b = true -> 0 <= nrows b q -> 0 <= q_pernnz q -> 0 <= e -> 0 <= r ->
  let ef := alloc_effect cap capz sparse b q e r in
  Forall (fun w => 0 <= w_efcid w < cap) (e_w ef) /\
  Forall (fun i => 0 <= i < cap) (map fst (e_adr ef)) /\
  Forall (fun i => 0 <= i < cap) (map fst (e_rnz ef)) /\
  Forall slot_ok (e_slots ef).
Proof.
  intros Hs Hk Hp He Hr. assert (Hkp : 0 <= nrows b q * q_pernnz q) by (apply Z.mul_nonneg_nonneg; lia).
  unfold alloc_effect. set (k := nrows b q) in *. set (p := q_pernnz q) in *.
  set (kept := if b_perrow b then filter _ _ else zrange k).
  destruct (negb (b_perrow b) && cmpb (b_cmp b) (if b_perrow b then e + 0 else e) (cap + b_off b)) eqn:D.
  { simpl. repeat split; constructor. }
  assert (Hkept : Forall (fun i => 0 <= i /\ e + i < cap) kept).
  { unfold kept. apply Forall_forall. intros i Hi. unfold safe_builder in Hs.
    apply andb_prop in Hs. destruct Hs as [Hs _].
    destruct (b_perrow b) eqn:P.
    - apply filter_In in Hi. destruct Hi as [Hi Hd]. apply zrange_In in Hi.
      destruct (b_cmp b); unfold cmpb in Hd; lia.
    - apply zrange_In in Hi. simpl in D.
      assert (k = b_rows b) by (unfold k, nrows; destruct (b_rows b =? 0) eqn:E; lia).
      destruct (b_cmp b); unfold cmpb in D; lia. }
  assert (Hw : forall c, Forall (fun w => 0 <= w_efcid w < cap) (map (fun i => mkW (e + i) (q_type q) (q_id q) c) kept)).
  { intros c. apply Forall_map. eapply Forall_impl; [|exact Hkept]. simpl. intros; lia. }
  assert (Hi1 : forall f : Z -> Z, Forall (fun i => 0 <= i < cap) (map fst (map (fun i => (e + i, f i)) kept))).
  { intros f. rewrite map_map. simpl. apply Forall_map. eapply Forall_impl; [|exact Hkept]. simpl. intros; lia. }
  destruct (sparse && b_has_nnz b).
  - destruct (cmpb (b_ncmp b) (r + k * p) (capz + b_noff b)) eqn:G; simpl.
    + repeat split.
      * destruct (b_deferred b); auto.
      * destruct (b_adr_before b); [apply (Hi1 (fun i => r + i * p))|constructor].
      * destruct (b_rnz_before b); [apply (Hi1 (fun _ => if b_rnz_exact b then p else q_actnnz q))|constructor].
      * constructor.
    + split; [apply Hw|]. split; [apply (Hi1 (fun i => r + i * p))|].
      split; [apply (Hi1 (fun _ => if b_rnz_exact b then p else q_actnnz q))|].
      constructor; [|constructor]. unfold slot_ok; simpl.
        unfold safe_builder in Hs. apply andb_prop in Hs. destruct Hs as [_ Hs].
        destruct (b_ncmp b); unfold cmpb in G; lia.
  - simpl. split; [apply Hw|]. repeat split; constructor.
Qed.

Lemma step_binv b q s :
  safe_builder b = true -> 0 <= nrows b q -> 0 <= q_pernnz q -> binv s ->
  binv (apply_effect b q (alloc_effect cap capz sparse b q (s_n s) (s_z s)) s).
Proof.
  intros Hs Hk Hp (Hn & Hz & Hr & Hm & Hsl).
  pose proof (effect_bounds b q (s_n s) (s_z s) Hs Hk Hp Hn Hz) as B. cbv zeta in B.
  destruct B as (B1 & B2 & B3 & B4).
  pose proof (effect_general cap capz sparse b q (s_n s) (s_z s) Hk Hp) as G. cbv zeta in G.
  destruct G as (G1 & G2 & _).
  unfold binv, bounds_ok, apply_effect; simpl. repeat split; try lia.
  - apply Forall_app; auto.
  - apply Forall_app; split; auto. apply Forall_app; auto.
  - apply Forall_app; auto.
Qed.

Definition req_ok (b : builder) (q : req) : Prop := 0 <= nrows b q /\ 0 <= q_pernnz q.
Definition safe_tasks (ts : list task) : Prop :=
  Forall (fun t => safe_builder (t_b t) = true /\ Forall (req_ok (t_b t)) (t_reqs t)) ts.

Lemma run_reqs_binv b : forall qs s,
  safe_builder b = true -> Forall (req_ok b) qs -> binv s -> binv (run_reqs cap capz sparse b qs s).
Proof.
  induction qs as [|q qs IH]; intros s Hs Hq Hb; simpl; auto.
  inversion Hq; subst. destruct H1.
  pose proof (step_binv b q s Hs H H0 Hb) as Hb'.
  destruct (e_cont _); [apply IH; auto|]. exact Hb'.
Qed.

Lemma run_tasks_binv : forall ts s, safe_tasks ts -> binv s -> binv (run_tasks cap capz sparse ts s).
Proof.
  unfold run_tasks. induction ts as [|t ts IH]; intros s Hs Hb; simpl; auto.
  inversion Hs; subst. destruct H1. apply IH; auto. apply run_reqs_binv; auto.
Qed.

Lemma init_binv a r : binv (init_st a r).
Proof. unfold binv, bounds_ok, init_st; simpl. repeat split; try lia; constructor. Qed.

End Bounds.

(* ------------------------------ part 8 ------------------------------ *)
(* ================= one allocator ================= *)
Definition meta_ok (cap : Z) (sparse : bool) (adr0 rnz0 : list Z) : Prop :=
  sparse = true -> List.length adr0 = Z.to_nat cap /\ List.length rnz0 = Z.to_nat cap.

Definition uses (bs : list builder) (ts : list task) : Prop :=
  Forall (fun t => In (t_b t) bs /\ wf_task t) ts.

Lemma uses_wf sparse bs ts : wf_builders sparse bs = true -> uses bs ts -> wf_tasks sparse ts.
Proof.
  unfold wf_builders, uses, wf_tasks. intros H U. eapply Forall_impl; [|exact U].
  intros t [Hin Ht]. split; auto. rewrite forallb_forall in H. auto.
Qed.

Lemma uses_perm bs ts ts' : Permutation ts ts' -> uses bs ts -> uses bs ts'.
Proof. unfold uses. intros P H. eapply Permutation_Forall; eauto. Qed.

Lemma wf_req_ok b q : wf_req b q -> req_ok b q.
Proof. unfold wf_req, req_ok. lia. Qed.

Lemma uses_safe bs ts : safe_builders bs = true -> uses bs ts -> safe_tasks ts.
Proof.
  unfold safe_builders, uses, safe_tasks. intros H U. eapply Forall_impl; [|exact U].
  intros t [Hin Ht]. rewrite forallb_forall in H. split; auto.
  eapply Forall_impl; [|exact Ht]. intros a. apply wf_req_ok.
Qed.

Section One.
Variables (cap capz : Z) (sparse : bool).
Notation run ts a r := (run_tasks cap capz sparse ts (init_st a r)).
Notation ovf := (overflowed cap capz sparse).

Theorem G_never_silent ts a r :
  wf_tasks sparse ts -> meta_ok cap sparse a r ->
  dropped_any (run ts a r) = true -> ovf (run ts a r) = true.
Proof.
  intros Hw Hm Hd. apply inv_never_silent; auto.
  apply run_tasks_inv; auto. apply init_inv; auto.
Qed.

Theorem G_exact ts a r :
  wf_tasks sparse ts -> 0 <= cap -> 0 <= capz -> meta_ok cap sparse a r ->
  ovf (run ts a r) = false ->
  let s := run ts a r in
  dropped_any s = false /\
  map content (s_rows s) = expected_rows ts /\
  map w_efcid (s_rows s) = zrange (total_rows ts) /\
  forallb w_complete (s_rows s) = true /\
  s_n s = total_rows ts /\ s_z s = znz sparse (total_nnz ts) /\
  s_ne s = tcount 0 ts /\ s_nf s = tcount 1 ts /\ s_nl s = tcount 2 ts.
Proof.
  intros Hw Hc Hcz Hm Hov.
  pose proof (init_inv cap capz sparse a r Hm) as Hi0.
  assert (W0 : within cap capz sparse (init_st a r)) by (unfold within, init_st; simpl; split; auto; lia).
  assert (Hnd : nodrop (run ts a r)).
  { apply nodrop_dropped_any. destruct (dropped_any (run ts a r)) eqn:D; auto.
    pose proof (G_never_silent ts a r Hw Hm D). congruence. }
  destruct (run_tasks_nodrop cap capz sparse ts _ Hw Hi0 W0 Hnd) as (_ & _ & _ & A1 & A2 & A3 & A4 & A5 & A6).
  cbv zeta. unfold init_st in *; simpl in *.
  rewrite A3, A1, A2, A4, A5, A6. simpl.
  split; [apply nodrop_dropped_any; exact Hnd|].
  split; [apply place_tasks_content|].
  split; [rewrite (place_tasks_efcid sparse) by (auto; lia); rewrite map_ext with (g := fun i => i) by (intros; lia); apply map_id|].
  split; [apply place_tasks_complete|]. repeat split; lia.
Qed.

Theorem G_sched ts ts' a r a' r' :
  wf_tasks sparse ts -> 0 <= cap -> 0 <= capz -> meta_ok cap sparse a r -> meta_ok cap sparse a' r' ->
  Permutation ts ts' -> ovf (run ts a r) = false ->
  ovf (run ts' a' r') = false.
Proof.
  intros Hw Hc Hcz Hm Hm' P Hov.
  pose proof (wf_tasks_perm sparse ts ts' P Hw) as Hw'.
  apply (overflow_iff_fits cap capz sparse ts a r Hw Hc Hcz Hm) in Hov.
  apply (overflow_iff_fits cap capz sparse ts' a' r' Hw' Hc Hcz Hm').
  destruct (perm_totals ts ts' P) as (E1 & E2 & _). destruct Hov as [F1 F2].
  split; [lia|]. intros S. specialize (F2 S). lia.
Qed.

Theorem G_bounds ts a r : safe_tasks ts -> bounds_ok cap capz (run ts a r).
Proof.
  intros Hs. pose proof (run_tasks_binv cap capz sparse ts _ Hs (init_binv cap capz a r)) as (_ & _ & B). exact B.
Qed.

End One.

(* two runs with (possibly) different capacities and schedules of the same requests *)
Theorem G_ample cap capz cap' capz' sparse ts ts' a r a' r' :
  wf_tasks sparse ts -> 0 <= cap -> 0 <= capz -> 0 <= cap' -> 0 <= capz' ->
  meta_ok cap sparse a r -> meta_ok cap' sparse a' r' -> Permutation ts ts' ->
  overflowed cap capz sparse (run_tasks cap capz sparse ts (init_st a r)) = false ->
  overflowed cap' capz' sparse (run_tasks cap' capz' sparse ts' (init_st a' r')) = false ->
  let s := run_tasks cap capz sparse ts (init_st a r) in
  let s' := run_tasks cap' capz' sparse ts' (init_st a' r') in
  Permutation (map content (s_rows s)) (map content (s_rows s')) /\
  s_n s = s_n s' /\ s_z s = s_z s' /\ s_ne s = s_ne s' /\ s_nf s = s_nf s' /\ s_nl s = s_nl s'.
Proof.
  intros Hw Hc Hcz Hc' Hcz' Hm Hm' P H1 H2.
  pose proof (wf_tasks_perm sparse ts ts' P Hw) as Hw'.
  destruct (G_exact cap capz sparse ts a r Hw Hc Hcz Hm H1) as (_ & R1 & _ & _ & N1 & Z1 & E1 & F1 & L1).
  destruct (G_exact cap' capz' sparse ts' a' r' Hw' Hc' Hcz' Hm' H2) as (_ & R2 & _ & _ & N2 & Z2 & E2 & F2 & L2).
  destruct (perm_totals ts ts' P) as (T1 & T2 & T3 & T4).
  cbv zeta. rewrite R1, R2, N1, N2, Z1, Z2, E1, E2, F1, F2, L1, L2, T1, T2, !T3. repeat split; auto.
Qed.

Lemma ov_nnz_dense cap capz s : ov_nnz cap capz false s = false.
Proof. unfold ov_nnz. destruct (s_n s >? cap); auto. rewrite andb_false_r. auto. Qed.

Lemma overflowed_dense cap capz s : overflowed cap capz false s = ov_nefc cap s.
Proof. unfold overflowed. rewrite ov_nnz_dense. apply orb_false_r. Qed.

(* ================= the whole step ================= *)
Definition caps_nonneg (c : caps) : Prop := 0 <= njmax c /\ 0 <= njmax_nnz c /\ 0 <= naconmax c /\ 0 <= nvmax c.

Definition requests_use (rbs sbs : list builder) (rq : requests) : Prop :=
  uses rbs (r_efc rq) /\ uses sbs (r_bp rq) /\ uses sbs (r_np rq) /\ uses sbs (r_dof rq).

Definition is_schedule (rq rq' : requests) : Prop :=
  Permutation (r_efc rq) (r_efc rq') /\ Permutation (r_bp rq) (r_bp rq') /\
  Permutation (r_np rq) (r_np rq') /\ Permutation (r_dof rq) (r_dof rq').

Definition same_rows (x y : st) : Prop := Permutation (map content (s_rows x)) (map content (s_rows y)).
Definition same_counters (x y : st) : Prop :=
  s_n x = s_n y /\ s_z x = s_z y /\ s_ne x = s_ne y /\ s_nf x = s_nf y /\ s_nl x = s_nl y.
Definition same_result (r r' : result) : Prop :=
  (same_rows (x_efc r) (x_efc r') /\ same_counters (x_efc r) (x_efc r')) /\
  (same_rows (x_bp r) (x_bp r') /\ same_counters (x_bp r) (x_bp r')) /\
  (same_rows (x_np r) (x_np r') /\ same_counters (x_np r) (x_np r')) /\
  (same_rows (x_dof r) (x_dof r') /\ same_counters (x_dof r) (x_dof r')).

Lemma meta_dense cap : meta_ok cap false [] [].
Proof. unfold meta_ok. intros; discriminate. Qed.

Lemma overflow_any_false r :
  overflow_any r = false ->
  x_nefc r = false /\ x_nnz r = false /\ x_broad r = false /\ x_narrow r = false /\ x_nvmax r = false.
Proof.
  unfold overflow_any. destruct (x_nefc r), (x_nnz r), (x_broad r), (x_narrow r), (x_nvmax r); simpl; intros; try discriminate; auto.
Qed.
(* the collision pipeline is launched: the host guard `d.naconmax == 0` is absent or does not fire *)
Definition collision_runs (zskip : bool) (c : caps) : Prop := zskip && (naconmax c =? 0) = false.
Lemma run_collision_runs zskip c ts :
  collision_runs zskip c -> run_collision zskip (naconmax c) ts = run_tasks (naconmax c) 0 false ts (init_st [] []).
Proof. unfold collision_runs, run_collision. intros ->. reflexivity. Qed.
Lemma word_nonzero r ov0 o1 o2 o3 o4 o5 :
  r = Z.lor ov0 (bitz o1 1 + bitz o2 2 + bitz o3 4 + bitz o4 8 + bitz o5 128) ->
  o1 || o2 || o3 || o4 || o5 = true -> r <> 0.
Proof.
  intros -> H E. apply Z.lor_eq_0_iff in E. destruct E as [_ E].
  destruct o1, o2, o3, o4, o5; simpl in *; try discriminate; lia.
Qed.



(* ------------------------------ part 9 ------------------------------ *)
Local Open Scope string_scope.
Local Open Scope Z_scope.
(* ================= refutations: explicit builder values ================= *)
(* the guard of constraint._equality_connect as found in the tree when this file was written:
   `if efcid >= njmax_in - 3: return` *)
Definition connect_like : builder :=
  mkB "connect-like" "nefc_out" "njmax" 0 3 false CGe (-3) false false true CGt 0 false false true.
Definition weld_like : builder :=
  mkB "weld-like" "nefc_out" "njmax" 0 6 false CGe (-6) false false true CGt 0 false false true.
(* one-row builder that stores rownnz before and rowadr after the nnz guard (joint, friction, limit) *)
Definition joint_like : builder :=
  mkB "joint-like" "nefc_out" "njmax" 0 1 false CGe 0 false false true CGt 0 false true true.
(* contact-like: per-row guard, deferred rows, both metadata stores after the nnz guard *)
Definition contact_like : builder :=
  mkB "contact-like" "nefc_out" "njmax" 3 0 true CGe 0 false true true CGt 0 false false true.
(* metadata stored before the guard but rownnz = actual count (tendon-like, if only the order were fixed) *)
Definition inexact_like : builder :=
  mkB "inexact-like" "nefc_out" "njmax" 0 1 false CGe 0 false false true CGt 0 true true false.
Definition slot_like : builder :=
  mkB "slot" "nacon_out" "naconmax" 3 1 false CGe 0 false false false CGt 0 false false false.

Definition silent (r : result) : Prop := dropped r = true /\ overflow_any r = false /\ x_word r = 0.

(* F1: one connect constraint, njmax = 3: the block fits exactly, is dropped, nefc = njmax *)
Theorem never_silent_refuted_fit :
  exists b c rq, safe_builder b = true /\ wf_fit b = false /\ requests_use [b] [] rq /\
    silent (run_builders nofix false c false [] [] 0 rq) /\
    s_n (x_efc (run_builders nofix false c false [] [] 0 rq)) = njmax c.
Proof.
  exists connect_like, (mkCaps 3 0 0 0), (mkReqs [mkT connect_like [mkQ 0 0 0 0 0]] [] [] []).
  split; [reflexivity|]. split; [reflexivity|]. split.
  - unfold requests_use, uses; simpl. repeat split; repeat constructor; simpl; lia.
  - split; [|reflexivity]. unfold silent. vm_compute. auto.
Qed.

Theorem never_silent_refuted_fit_weld :
  exists c rq, requests_use [weld_like] [] rq /\ silent (run_builders nofix false c false [] [] 0 rq).
Proof.
  exists (mkCaps 6 0 0 0), (mkReqs [mkT weld_like [mkQ 0 0 0 0 0]] [] [] []). split.
  - unfold requests_use, uses; simpl. repeat split; repeat constructor; simpl; lia.
  - unfold silent. vm_compute. auto.
Qed.

(* F2: sparse, two one-row constraints with 2 non-zeros each, njmax = 3, njmax_nnz = 3 (4 needed):
   the second row is dropped by the nnz guard before its rowadr is stored; _next_time reads the
   stale rowadr 0 + rownnz 2 <= 3 *)
Theorem never_silent_refuted_nnz :
  exists b c rq, safe_builder b = true /\ wf_fit b = true /\ wf_nnz b = false /\ requests_use [b] [] rq /\
    silent (run_builders nofix false c true [0;0;0] [0;0;0] 0 rq) /\
    s_zdrop (x_efc (run_builders nofix false c true [0;0;0] [0;0;0] 0 rq)) <> [].
Proof.
  exists joint_like, (mkCaps 3 3 0 0),
         (mkReqs [mkT joint_like [mkQ 0 0 0 2 2]; mkT joint_like [mkQ 0 1 0 2 2]] [] [] []).
  split; [reflexivity|]. split; [reflexivity|]. split; [reflexivity|]. split.
  - unfold requests_use, uses; simpl. repeat split; repeat constructor; simpl; lia.
  - split; [unfold silent; vm_compute; auto|]. vm_compute. discriminate.
Qed.

(* same for the contact shape (both stores after the guard): three contacts of 4 rows x 6 non-zeros,
   njmax_nnz = 71 < 72 *)
Theorem never_silent_refuted_nnz_contact :
  exists c rq adr0, requests_use [contact_like] [] rq /\ List.length adr0 = 64%nat /\
    silent (run_builders nofix false c true adr0 adr0 0 rq).
Proof.
  exists (mkCaps 64 71 0 0),
         (mkReqs [mkT contact_like [mkQ 6 0 4 6 6]; mkT contact_like [mkQ 6 1 4 6 6]; mkT contact_like [mkQ 6 2 4 6 6]] [] [] []),
         (repeat 0 64).
  split; [|split; [reflexivity|]].
  - unfold requests_use, uses; simpl. repeat split; repeat constructor; simpl; lia.
  - unfold silent. vm_compute. auto.
Qed.

(* storing the metadata first is not enough if the stored rownnz is the actual count *)
Theorem never_silent_refuted_nnz_inexact :
  exists c rq, requests_use [inexact_like] [] rq /\ silent (run_builders nofix false c true [0;0] [0;0] 0 rq).
Proof.
  exists (mkCaps 2 3 0 0), (mkReqs [mkT inexact_like [mkQ 0 0 0 2 2]; mkT inexact_like [mkQ 0 1 0 2 1]] [] [] []). split.
  - unfold requests_use, uses; simpl. repeat split; repeat constructor; simpl; lia.
  - unfold silent. vm_compute. auto.
Qed.

(* collision() returns before any allocation when naconmax = 0 *)
Theorem never_silent_refuted_nacon0 :
  exists c rq, requests_use [] [slot_like] rq /\ wf_builders false [slot_like] = true /\
    silent (run_builders nofix true c false [] [] 0 rq).
Proof.
  exists (mkCaps 8 0 0 4), (mkReqs [] [mkT slot_like [mkQ 0 0 0 0 0]] [mkT slot_like [mkQ 0 0 0 0 0]] []).
  split; [|split; [reflexivity|]].
  - unfold requests_use, uses; simpl. repeat split; repeat constructor; simpl; lia.
  - unfold silent. vm_compute. auto.
Qed.

(* exactness of the row guard is necessary: any safe block builder whose guard is not
   "dropped iff old + rows > cap" drops a fitting block silently for some capacity *)
Theorem exact_fit_necessary : forall b,
  b_perrow b = false -> safe_builder b = true -> wf_fit b = false ->
  exists cap, 0 <= cap /\
    let s := run_tasks cap 0 false [mkT b [mkQ 0 0 0 0 0]] (init_st [] []) in
    dropped_any s = true /\ ov_nefc cap s = false /\ s_n s <= cap.
Proof.
  intros b Hp Hs Hw. unfold safe_builder, wf_fit in *. rewrite Hp in *.
  apply andb_prop in Hs. destruct Hs as [Hs _]. apply andb_prop in Hs. destruct Hs as [Hk Hs].
  rewrite Hk in Hw. rewrite andb_true_l in Hw.
  set (cap := match b_cmp b with CGe => - b_off b | CGt => - b_off b - 1 end).
  exists cap. split; [unfold cap; destruct (b_cmp b); lia|].
  cbv zeta. unfold run_tasks, run_task. simpl. unfold alloc_effect. rewrite Hp. simpl negb. cbv iota.
  assert (Hn : nrows b (mkQ 0 0 0 0 0) = b_rows b) by (unfold nrows; destruct (b_rows b =? 0) eqn:E; lia).
  rewrite Hn.
  assert (Hd : cmpb (b_cmp b) 0 (cap + b_off b) = true) by (unfold cap; destruct (b_cmp b); unfold cmpb; lia).
  unfold init_st at 1 2. simpl s_n. rewrite Hd. simpl andb. cbv iota.
  unfold apply_effect, skip_all, dropped_any, ov_nefc; simpl.
  replace (0 <? b_rows b) with true by lia. simpl.
  split; [reflexivity|]. unfold cap. destruct (b_cmp b); lia.
Qed.

(* ================= the hypotheses are satisfiable ================= *)
Definition connect_fixed : builder :=
  mkB "connect-fixed" "nefc_out" "njmax" 0 3 false CGt (-3) false false true CGt 0 true true true.
Definition contact_fixed : builder :=
  mkB "contact-fixed" "nefc_out" "njmax" 3 0 true CGe 0 false true true CGt 0 true true true.

Example wf_satisfiable : wf_builders true [connect_fixed; contact_fixed] = true /\ wf_builders false [slot_like] = true.
Proof. split; reflexivity. Qed.

(* with well-formed builders the exact fit is written, and one row less is flagged *)
Example fixed_exact_fit :
  let rq := mkReqs [mkT connect_fixed [mkQ 0 0 0 2 2]] [] [] [] in
  dropped (run_builders nofix false (mkCaps 3 6 0 0) true [0;0;0] [0;0;0] 0 rq) = false /\
  overflow_any (run_builders nofix false (mkCaps 3 6 0 0) true [0;0;0] [0;0;0] 0 rq) = false /\
  x_word (run_builders nofix false (mkCaps 2 6 0 0) true [0;0] [0;0] 0 rq) = 1 /\
  x_word (run_builders nofix false (mkCaps 3 5 0 0) true [0;0;0] [0;0;0] 0 rq) = 2.
Proof. vm_compute. auto. Qed.

(* ------------------------------ part 10: repairs of the njmax_nnz class ------------------------------ *)
Definition wfb2 (sparse : bool) (b : builder) : bool := wf_fit b && (negb sparse || nnz_exact b).

Lemma nnz_dropped_iff2 b x capz :
  nnz_exact b = true -> cmpb (b_ncmp b) x (capz + b_noff b) = (x >? capz) /\ b_has_nnz b = true.
Proof. unfold nnz_exact. destruct (b_ncmp b); unfold cmpb; lia. Qed.

Lemma wf_nnz_exact b : wf_nnz b = true -> nnz_exact b = true.
Proof. unfold wf_nnz, nnz_exact. destruct (b_ncmp b); lia. Qed.

Lemma rdrop_pos_nofit cap capz sparse b q e r :
  wf_fit b = true -> 0 < nrows b q -> 0 < e_rdrop (alloc_effect cap capz sparse b q e r) -> e + nrows b q > cap.
Proof.
  intros Hf Hk. unfold alloc_effect. set (k := nrows b q) in *.
  destruct (b_perrow b) eqn:Hp.
  - destruct (perrow_kept b e cap k Hp Hf) as [Hkept _]. simpl negb. cbv iota. simpl andb. rewrite Hkept.
    pose proof (zrange_length (Z.min k (cap - e))) as L.
    destruct (sparse && b_has_nnz b); [destruct (cmpb (b_ncmp b) _ _)|]; cbn [e_rdrop]; rewrite L; lia.
  - destruct (block_dropped_iff b e cap Hp Hf) as [Hd Hpos].
    assert (Hkr : k = b_rows b) by (unfold k, nrows; destruct (b_rows b =? 0) eqn:E; lia).
    simpl negb. rewrite Hd. rewrite <- Hkr.
    destruct (e + k >? cap) eqn:E; [lia|]. simpl andb. cbv iota.
    pose proof (zrange_length k) as L.
    destruct (sparse && b_has_nnz b); [destruct (cmpb (b_ncmp b) _ _)|]; cbn [e_rdrop]; rewrite L; lia.
Qed.

Section Inv2.
Variables (cap capz : Z) (sparse : bool).

Definition inv2 (s : st) : Prop :=
  0 <= s_n s /\ 0 <= s_z s /\
  (s_rdrop s <> [] -> s_n s > cap) /\
  (s_zdrop s <> [] -> sparse = true /\ s_z s > capz) /\
  (s_skip s <> [] -> s_rdrop s <> [] \/ s_zdrop s <> []).

Lemma step_inv2 b q s :
  wfb2 sparse b = true -> wf_req b q -> inv2 s ->
  inv2 (step cap capz sparse b q s) /\
  (e_cont (alloc_effect cap capz sparse b q (s_n s) (s_z s)) = false ->
     s_rdrop (step cap capz sparse b q s) <> [] \/ s_zdrop (step cap capz sparse b q s) <> []).
Proof.
  intros Hwf [Hk Hp] (Hn & Hz & Hrd & Hzd & Hsk).
  unfold wfb2 in Hwf. apply andb_prop in Hwf. destruct Hwf as [Hf Hx].
  pose proof (effect_general cap capz sparse b q (s_n s) (s_z s) ltac:(lia) Hp) as G.
  cbv zeta in G. destruct G as (Grows & Gnnz & Grd & Gzd & Gcont & _).
  pose proof (rdrop_pos_nofit cap capz sparse b q (s_n s) (s_z s) Hf Hk) as Gr.
  unfold step. set (ef := alloc_effect cap capz sparse b q (s_n s) (s_z s)) in *.
  assert (Gz : e_zdrop ef = true -> sparse = true /\ s_z s + e_nnz ef > capz).
  { intros Z. destruct (Gzd Z) as (S & N & C). split; auto. rewrite S in Hx. simpl in Hx.
    destruct (nnz_dropped_iff2 b (s_z s + nrows b q * q_pernnz q) capz Hx) as [E _]. rewrite E in C. lia. }
  unfold apply_effect. split.
  - unfold inv2; simpl. split; [lia|]. split; [lia|]. split; [|split].
    + destruct (0 <? e_rdrop ef) eqn:E.
      * intros _. assert (0 < e_rdrop ef) by lia. apply Gr in H. lia.
      * intros H. apply Hrd in H. lia.
    + destruct (e_zdrop ef) eqn:Z.
      * intros _. destruct (Gz eq_refl). split; auto.
      * intros H. apply Hzd in H. destruct H. split; auto. lia.
    + intros H. apply Hsk in H. destruct H as [H|H].
      * left. destruct (0 <? e_rdrop ef); auto. apply app_neq_nil_l; auto.
      * right. destruct (e_zdrop ef); auto. apply app_neq_nil_l; auto.
  - intros C. simpl. destruct (Gcont C) as [Z|[R|K]].
    + right. rewrite Z. apply app_neq_nil_r. discriminate.
    + left. replace (0 <? e_rdrop ef) with true by lia. apply app_neq_nil_r. discriminate.
    + lia.
Qed.

Lemma run_reqs_inv2 b : forall qs s,
  wfb2 sparse b = true -> Forall (wf_req b) qs -> inv2 s -> inv2 (run_reqs cap capz sparse b qs s).
Proof.
  induction qs as [|q qs IH]; intros s Hwf Hq Hi; simpl; auto.
  inversion Hq; subst.
  destruct (step_inv2 b q s Hwf H1 Hi) as [Hi' Hc]. fold (step cap capz sparse b q s).
  destruct (e_cont _) eqn:C.
  - apply IH; auto.
  - specialize (Hc eq_refl). destruct Hi' as (A & B & C1 & D & E).
    unfold inv2, skip_all; simpl. repeat split; auto; try (apply D; auto).
Qed.

Definition wf_tasks2 (ts : list task) : Prop := Forall (fun t => wfb2 sparse (t_b t) = true /\ wf_task t) ts.

Lemma run_tasks_inv2 : forall ts s, wf_tasks2 ts -> inv2 s -> inv2 (run_tasks cap capz sparse ts s).
Proof.
  unfold run_tasks. induction ts as [|t ts IH]; intros s Hw Hi; simpl; auto.
  inversion Hw; subst. destruct H1. apply IH; auto. apply run_reqs_inv2; auto.
Qed.

Lemma init_inv2 a r : inv2 (init_st a r).
Proof. unfold inv2, init_st; simpl. repeat split; try lia; congruence. Qed.

(* with the direct flag: a dropped request sets NEFC or the counter exceeds njmax_nnz *)
Lemma G_never_silent_flag ts a r :
  wf_tasks2 ts -> let s := run_tasks cap capz sparse ts (init_st a r) in
  dropped_any s = true -> ov_nefc cap s || (sparse && (s_z s >? capz)) = true.
Proof.
  intros Hw s Hd. pose proof (run_tasks_inv2 ts _ Hw (init_inv2 a r)) as (Hn & Hz & Hrd & Hzd & Hsk).
  fold s in Hn, Hz, Hrd, Hzd, Hsk. apply dropped_any_true in Hd.
  assert (Hd' : s_rdrop s <> [] \/ s_zdrop s <> []) by (destruct Hd as [|[|]]; auto).
  unfold ov_nefc. destruct Hd' as [H|H].
  - apply Hrd in H. replace (s_n s >? cap) with true by lia. reflexivity.
  - apply Hzd in H. destruct H as [S H]. rewrite S. replace (s_z s >? capz) with true by lia. apply orb_true_r.
Qed.

End Inv2.

(* ------------------------------ part 11 ------------------------------ *)
(* ---- the stored metadata do not influence counters, rows, drops ---- *)
Definition fixmeta (b : builder) : builder :=
  mkB (b_name b) (b_counter b) (b_cap b) (b_tcounter b) (b_rows b) (b_perrow b) (b_cmp b) (b_off b)
      (b_loop b) (b_deferred b) (b_has_nnz b) (b_ncmp b) (b_noff b) true true true.
Definition fixt (t : task) : task := mkT (fixmeta (t_b t)) (t_reqs t).

Definition core_eq (s s' : st) : Prop :=
  s_n s = s_n s' /\ s_ne s = s_ne s' /\ s_nf s = s_nf s' /\ s_nl s = s_nl s' /\ s_z s = s_z s' /\
  s_rows s = s_rows s' /\ s_slots s = s_slots s' /\
  s_rdrop s = s_rdrop s' /\ s_zdrop s = s_zdrop s' /\ s_skip s = s_skip s'.

Lemma effect_core cap capz sparse b q e r :
  let ef := alloc_effect cap capz sparse b q e r in
  let ef' := alloc_effect cap capz sparse (fixmeta b) q e r in
  e_rows ef = e_rows ef' /\ e_nnz ef = e_nnz ef' /\ e_w ef = e_w ef' /\ e_slots ef = e_slots ef' /\
  e_rdrop ef = e_rdrop ef' /\ e_zdrop ef = e_zdrop ef' /\ e_cont ef = e_cont ef'.
Proof.
  cbv zeta. unfold alloc_effect.
  change (nrows (fixmeta b) q) with (nrows b q). cbn [fixmeta b_perrow b_cmp b_off b_has_nnz b_ncmp b_noff b_deferred b_adr_before b_rnz_before b_rnz_exact].
  destruct (negb (b_perrow b) && cmpb (b_cmp b) (if b_perrow b then e + 0 else e) (cap + b_off b)).
  - repeat split.
  - destruct (sparse && b_has_nnz b).
    + destruct (cmpb (b_ncmp b) (r + nrows b q * q_pernnz q) (capz + b_noff b)); repeat split.
    + repeat split.
Qed.

Section Core.
Variables (cap capz : Z) (sparse : bool).

Lemma step_core b q s s' :
  core_eq s s' ->
  core_eq (step cap capz sparse b q s) (step cap capz sparse (fixmeta b) q s') /\
  e_cont (alloc_effect cap capz sparse b q (s_n s) (s_z s)) =
  e_cont (alloc_effect cap capz sparse (fixmeta b) q (s_n s') (s_z s')).
Proof.
  intros (A1 & A2 & A3 & A4 & A5 & A6 & A7 & A8 & A9 & A10).
  unfold step. rewrite <- A1, <- A5.
  pose proof (effect_core cap capz sparse b q (s_n s) (s_z s)) as E. cbv zeta in E.
  destruct E as (E1 & E2 & E3 & E4 & E5 & E6 & E7).
  split; [|exact E7].
  unfold core_eq, apply_effect; simpl. rewrite <- E1, <- E2, <- E3, <- E4, <- E5, <- E6.
  rewrite A1, A2, A3, A4, A5, A6, A7, A8, A9, A10. repeat split.
Qed.

Lemma run_reqs_core b : forall qs s s', core_eq s s' ->
  core_eq (run_reqs cap capz sparse b qs s) (run_reqs cap capz sparse (fixmeta b) qs s').
Proof.
  induction qs as [|q qs IH]; intros s s' H; simpl; auto.
  destruct (step_core b q s s' H) as [Hc He]. fold (step cap capz sparse b q s). fold (step cap capz sparse (fixmeta b) q s').
  rewrite <- He. destruct (e_cont _).
  - apply IH; auto.
  - destruct Hc as (A1 & A2 & A3 & A4 & A5 & A6 & A7 & A8 & A9 & A10).
    unfold core_eq, skip_all; cbn [s_n s_ne s_nf s_nl s_z s_rows s_slots s_rdrop s_zdrop s_skip s_adr s_rnz s_midx]. rewrite A10. repeat split; auto.
Qed.

Lemma run_tasks_core : forall ts s s', core_eq s s' ->
  core_eq (run_tasks cap capz sparse ts s) (run_tasks cap capz sparse (map fixt ts) s').
Proof.
  unfold run_tasks. induction ts as [|t ts IH]; intros s s' H; simpl; auto.
  apply IH. unfold run_task. simpl. apply run_reqs_core; auto.
Qed.

End Core.

Lemma core_init a r a' r' : core_eq (init_st a r) (init_st a' r').
Proof. unfold core_eq, init_st; simpl. repeat split. Qed.

Lemma wfb2_fixmeta sparse b : wfb2 sparse b = true -> wf_builder sparse (fixmeta b) = true.
Proof.
  unfold wfb2, wf_builder, wf_nnz, nnz_exact, wf_fit. cbn [fixmeta b_perrow b_rows b_loop b_cmp b_off b_has_nnz b_adr_before b_rnz_before b_rnz_exact b_ncmp b_noff].
  rewrite !andb_true_r. auto.
Qed.

Lemma fixt_totals ts :
  total_rows (map fixt ts) = total_rows ts /\ total_nnz (map fixt ts) = total_nnz ts /\
  (forall c, tcount c (map fixt ts) = tcount c ts) /\ expected_rows (map fixt ts) = expected_rows ts.
Proof.
  unfold total_rows, total_nnz, tcount, expected_rows.
  induction ts as [|t ts IH]; simpl; [repeat split|].
  destruct IH as (A & B & C & D). change (task_nrows (fixt t)) with (task_nrows t).
  change (task_nnz (fixt t)) with (task_nnz t). change (task_rows (fixt t)) with (task_rows t).
  rewrite A, B, D. repeat split. intros c. rewrite C. reflexivity.
Qed.

Lemma wf_tasks2_fixt sparse ts : wf_tasks2 sparse ts -> wf_tasks sparse (map fixt ts).
Proof.
  unfold wf_tasks2, wf_tasks. intros H. apply Forall_map. eapply Forall_impl; [|exact H].
  intros t [A B]. split; [apply wfb2_fixmeta; auto|exact B].
Qed.

Lemma core_nodrop s s' : core_eq s s' -> nodrop s' -> nodrop s.
Proof. intros (_ & _ & _ & _ & _ & _ & _ & A & B & C) (X & Y & Z). unfold nodrop. rewrite A, B, C. auto. Qed.
Lemma core_sym s s' : core_eq s s' -> core_eq s' s.
Proof. unfold core_eq. intuition. Qed.

Definition zeros (cap : Z) : list Z := map (fun _ => 0) (zrange cap).
Lemma zeros_meta cap sparse : 0 <= cap -> meta_ok cap sparse (zeros cap) (zeros cap).
Proof.
  intros H _. unfold zeros. rewrite map_length. pose proof (zrange_length cap). lia.
Qed.

Section PathB.
Variables (cap capz : Z) (sparse : bool).

Definition ovB (s : st) : bool := ov_nefc cap s || (sparse && (s_z s >? capz)).

(* no NEFC bit and the counter within njmax_nnz: exactly the requested rows *)
Lemma GB_exact ts a r :
  wf_tasks2 sparse ts -> 0 <= cap -> 0 <= capz ->
  let s := run_tasks cap capz sparse ts (init_st a r) in
  ovB s = false ->
  fits cap capz sparse ts /\
  dropped_any s = false /\
  map content (s_rows s) = expected_rows ts /\
  map w_efcid (s_rows s) = zrange (total_rows ts) /\
  forallb w_complete (s_rows s) = true /\
  s_n s = total_rows ts /\ s_z s = znz sparse (total_nnz ts) /\
  s_ne s = tcount 0 ts /\ s_nf s = tcount 1 ts /\ s_nl s = tcount 2 ts.
Proof.
  intros Hw Hc Hcz s Hov.
  assert (Hnd : nodrop s).
  { apply nodrop_dropped_any. destruct (dropped_any s) eqn:D; auto.
    pose proof (G_never_silent_flag cap capz sparse ts a r Hw D). unfold ovB in Hov. fold s in H. congruence. }
  set (s' := run_tasks cap capz sparse (map fixt ts) (init_st (zeros cap) (zeros cap))).
  assert (Hce : core_eq s s') by (apply run_tasks_core, core_init).
  pose proof (wf_tasks2_fixt sparse ts Hw) as Hw'.
  pose proof (zeros_meta cap sparse Hc) as Hm.
  pose proof (init_inv cap capz sparse _ _ Hm) as Hi0.
  assert (W0 : within cap capz sparse (init_st (zeros cap) (zeros cap))) by (unfold within, init_st; simpl; split; auto; lia).
  assert (Hnd' : nodrop s') by (apply (core_nodrop s' s); [apply core_sym; auto|auto]).
  destruct (run_tasks_nodrop cap capz sparse _ _ Hw' Hi0 W0 Hnd') as (_ & F1 & F2 & A1 & A2 & A3 & A4 & A5 & A6).
  fold s' in A1, A2, A3, A4, A5, A6.
  destruct (fixt_totals ts) as (T1 & T2 & T3 & T4).
  destruct Hce as (C1 & C2 & C3 & C4 & C5 & C6 & _).
  unfold init_st in *; simpl in *. rewrite T1 in *. rewrite T2 in *. rewrite !T3 in *.
  split; [split; [lia|intros S; specialize (F2 S); lia]|].
  split; [apply nodrop_dropped_any; exact Hnd|].
  rewrite C6, C1, C5, C2, C3, C4, A3, A1, A2, A4, A5, A6. simpl.
  split; [rewrite place_tasks_content; exact T4|].
  split; [rewrite (place_tasks_efcid sparse) by (auto; lia); rewrite T1; rewrite map_ext with (g := fun i => i) by (intros; lia); apply map_id|].
  split; [apply place_tasks_complete|]. repeat split; lia.
Qed.

Lemma GB_fits ts a r :
  wf_tasks2 sparse ts -> 0 <= cap -> 0 <= capz -> fits cap capz sparse ts ->
  ovB (run_tasks cap capz sparse ts (init_st a r)) = false.
Proof.
  intros Hw Hc Hcz [F1 F2].
  set (s := run_tasks cap capz sparse ts (init_st a r)).
  set (s' := run_tasks cap capz sparse (map fixt ts) (init_st (zeros cap) (zeros cap))).
  assert (Hce : core_eq s s') by (apply run_tasks_core, core_init).
  pose proof (wf_tasks2_fixt sparse ts Hw) as Hw'.
  destruct (fixt_totals ts) as (T1 & T2 & T3 & T4).
  assert (Hnd' : nodrop s').
  { apply run_tasks_fits; auto; [apply nodrop_init| |]; unfold init_st; simpl; rewrite ?T1, ?T2; auto; lia. }
  pose proof (zeros_meta cap sparse Hc) as Hm.
  pose proof (init_inv cap capz sparse _ _ Hm) as Hi0.
  assert (W0 : within cap capz sparse (init_st (zeros cap) (zeros cap))) by (unfold within, init_st; simpl; split; auto; lia).
  destruct (run_tasks_nodrop cap capz sparse _ _ Hw' Hi0 W0 Hnd') as (_ & _ & _ & A1 & A2 & _).
  fold s' in A1, A2. destruct Hce as (C1 & _ & _ & _ & C5 & _).
  unfold init_st in *; simpl in *. rewrite T1 in *. rewrite T2 in *.
  unfold ovB, ov_nefc. rewrite C1, C5, A1, A2. unfold znz.
  replace (total_rows ts >? cap) with false by lia. simpl.
  destruct sparse; simpl; auto. specialize (F2 eq_refl). lia.
Qed.

End PathB.

(* ------------------------------ part 12 ------------------------------ *)
Definition act_ok (q : req) : Prop := q_actnnz q <= q_pernnz q.
Definition act_tasks (ts : list task) : Prop := Forall (fun t => Forall act_ok (t_reqs t)) ts.

Lemma effect_fit2 cap capz sparse b q e r :
  wfb2 sparse b = true -> 0 < nrows b q -> e + nrows b q <= cap ->
  (sparse = true -> r + nrows b q * q_pernnz q <= capz) ->
  let k := nrows b q in let p := q_pernnz q in
  let stored := if b_rnz_exact b then p else q_actnnz q in
  alloc_effect cap capz sparse b q e r =
    if sparse
    then mkE k (k * p) (full_rows e q k true) (full_adr e r p k) (map (fun i => (e + i, stored)) (zrange k)) [(r, k * p)] 0 false true
    else mkE k 0 (full_rows e q k true) [] [] [] 0 false true.
Proof.
  intros Hwf Hk Hfit Hz k p stored. unfold wfb2 in Hwf. apply andb_prop in Hwf. destruct Hwf as [Hf Hn].
  unfold alloc_effect. fold k. fold p. fold stored.
  assert (Hl : k - Z.of_nat (List.length (zrange k)) = 0) by (rewrite zrange_length; lia).
  assert (Hkept : (if b_perrow b then filter (fun i => negb (cmpb (b_cmp b) (e + i) (cap + b_off b))) (zrange k) else zrange k) = zrange k).
  { destruct (b_perrow b) eqn:Hp; auto. destruct (perrow_kept b e cap k Hp Hf) as [H _]. rewrite H. f_equal. lia. }
  assert (Hnd : negb (b_perrow b) && cmpb (b_cmp b) (if b_perrow b then e + 0 else e) (cap + b_off b) = false).
  { destruct (b_perrow b) eqn:Hp; auto. destruct (block_dropped_iff b e cap Hp Hf) as [Hd Hpos].
    assert (Hkr : k = b_rows b) by (unfold k, nrows; destruct (b_rows b =? 0) eqn:E; lia).
    simpl. rewrite Hd, <- Hkr. lia. }
  rewrite Hnd. destruct (b_perrow b) eqn:Hp.
  - rewrite Hkept, Hl. destruct sparse; simpl in Hn.
    + destruct (nnz_dropped_iff2 b (r + k * p) capz Hn) as [E H]. rewrite H. simpl andb. cbv iota. rewrite E.
      replace (r + k * p >? capz) with false by (specialize (Hz eq_refl); lia). reflexivity.
    + reflexivity.
  - rewrite Hl. destruct sparse; simpl in Hn.
    + destruct (nnz_dropped_iff2 b (r + k * p) capz Hn) as [E H]. rewrite H. simpl andb. cbv iota. rewrite E.
      replace (r + k * p >? capz) with false by (specialize (Hz eq_refl); lia). reflexivity.
    + reflexivity.
Qed.

Section Probe.
Variables (cap capz : Z) (sparse : bool).

Definition inv3 (s : st) : Prop :=
  0 <= s_n s /\ 0 <= s_z s /\
  (sparse = true -> List.length (s_adr s) = Z.to_nat cap /\ List.length (s_rnz s) = Z.to_nat cap) /\
  (sparse = true -> 0 < s_n s <= cap -> get (s_adr s) (s_n s - 1) + get (s_rnz s) (s_n s - 1) <= s_z s).

Lemma step_inv3 b q s :
  wfb2 sparse b = true -> wf_req b q -> act_ok q -> inv3 s ->
  s_n s + nrows b q <= cap -> (sparse = true -> s_z s + nrows b q * q_pernnz q <= capz) ->
  inv3 (step cap capz sparse b q s) /\
  e_cont (alloc_effect cap capz sparse b q (s_n s) (s_z s)) = true /\
  s_n (step cap capz sparse b q s) = s_n s + nrows b q /\
  s_z (step cap capz sparse b q s) = s_z s + znz sparse (nrows b q * q_pernnz q).
Proof.
  intros Hwf [Hk Hp] Ha (Hn & Hz & Hl & Hlast) Hfit Hfz.
  assert (Hkp : 0 <= nrows b q * q_pernnz q) by (apply Z.mul_nonneg_nonneg; lia).
  pose proof (effect_fit2 cap capz sparse b q (s_n s) (s_z s) Hwf Hk Hfit Hfz) as E. cbv zeta in E.
  unfold step, znz. set (k := nrows b q) in *. set (p := q_pernnz q) in *.
  set (e := s_n s) in *. set (r := s_z s) in *.
  destruct sparse eqn:Sp; rewrite E; unfold apply_effect, inv3; simpl.
  - destruct (Hl eq_refl) as [L1 L2]. repeat split; try lia.
    + rewrite apply_stores_length; auto.
    + rewrite apply_stores_length; auto.
    + intros _ _. fold e. fold r. unfold full_adr.
      rewrite (apply_stores_last (fun i => r + i * p)) by lia.
      rewrite (apply_stores_last (fun _ => if b_rnz_exact b then p else q_actnnz q)) by lia.
      unfold act_ok in Ha. fold p in Ha. destruct (b_rnz_exact b); lia.
  - repeat split; try lia; intros; congruence.
Qed.

Lemma run_reqs_inv3 b : forall qs s,
  wfb2 sparse b = true -> Forall (wf_req b) qs -> Forall act_ok qs -> inv3 s ->
  s_n s + reqs_nrows b qs <= cap -> (sparse = true -> s_z s + reqs_nnz b qs <= capz) ->
  let s' := run_reqs cap capz sparse b qs s in
  inv3 s' /\ s_n s' = s_n s + reqs_nrows b qs /\ s_z s' = s_z s + znz sparse (reqs_nnz b qs).
Proof.
  induction qs as [|q qs IH]; intros s Hwf Hq Ha Hi Hfit Hfz; simpl.
  - unfold reqs_nrows, reqs_nnz, znz; simpl. split; [exact Hi|]. split; [lia|]. destruct sparse; lia.
  - inversion Hq; subst. inversion Ha; subst. destruct (reqs_nonneg b qs H2) as [P1 P2].
    unfold reqs_nrows, reqs_nnz in *. simpl in *.
    destruct (step_inv3 b q s Hwf H1 H3 Hi) as (N & C & A1 & A2); [lia| intros S; specialize (Hfz S); lia |].
    fold (step cap capz sparse b q s). rewrite C.
    destruct (IH (step cap capz sparse b q s) Hwf H2 H4 N) as (N' & B1 & B2).
    + rewrite A1. lia.
    + intros S. specialize (Hfz S). rewrite A2. unfold znz. rewrite S. lia.
    + split; [exact N'|]. split; [lia|]. rewrite B2, A2. unfold znz. destruct sparse; lia.
Qed.

Lemma run_tasks_inv3 : forall ts s,
  wf_tasks2 sparse ts -> act_tasks ts -> inv3 s ->
  s_n s + total_rows ts <= cap -> (sparse = true -> s_z s + total_nnz ts <= capz) ->
  inv3 (run_tasks cap capz sparse ts s).
Proof.
  unfold run_tasks. induction ts as [|t ts IH]; intros s Hw Ha Hi Hfit Hfz; simpl; auto.
  inversion Hw; subst. inversion Ha; subst. destruct H1 as [Hb Ht].
  assert (P : 0 <= total_rows ts /\ 0 <= total_nnz ts).
  { split; apply zsum_nonneg; apply Forall_map; (eapply Forall_impl; [|exact H2]); intros x [_ Hx]; apply (reqs_nonneg _ _ Hx). }
  destruct P as [P1 P2].
  unfold total_rows, total_nnz in *. simpl in *. unfold task_nrows, task_nnz in *.
  fold (reqs_nrows (t_b t) (t_reqs t)) in *. fold (reqs_nnz (t_b t) (t_reqs t)) in *.
  destruct (run_reqs_inv3 (t_b t) (t_reqs t) s Hb Ht H3 Hi) as (N & A1 & A2); [lia| intros S; specialize (Hfz S); lia |].
  unfold run_task. apply IH; auto.
  - rewrite A1. lia.
  - intros S. specialize (Hfz S). rewrite A2. unfold znz. rewrite S. lia.
Qed.

(* when everything fits, _next_time's probe of the last row's stored metadata stays silent,
   whatever the order in which the builders store them *)
Lemma probe_fits ts a r :
  wf_tasks2 sparse ts -> act_tasks ts -> 0 <= cap -> 0 <= capz -> meta_ok cap sparse a r ->
  fits cap capz sparse ts ->
  ov_nnz cap capz sparse (run_tasks cap capz sparse ts (init_st a r)) = false.
Proof.
  intros Hw Ha Hc Hcz Hm [F1 F2].
  assert (Hi0 : inv3 (init_st a r)).
  { unfold inv3, init_st; simpl. repeat split; try lia; try (apply Hm; auto). }
  assert (Hi : inv3 (run_tasks cap capz sparse ts (init_st a r))).
  { apply run_tasks_inv3; auto; unfold init_st; simpl; try lia; try (intros S; specialize (F2 S); lia). }
  pose proof (GB_fits cap capz sparse ts a r Hw Hc Hcz (conj F1 F2)) as Hov.
  set (s := run_tasks cap capz sparse ts (init_st a r)) in *.
  destruct Hi as (Hn & Hz & Hl & Hlast). unfold ovB, ov_nefc in Hov. apply orb_false_elim in Hov. destruct Hov as [O1 O2].
  unfold ov_nnz. rewrite O1. destruct ((s_n s >? 0) && sparse) eqn:G; auto.
  apply andb_prop in G. destruct G as [G1 G2]. rewrite G2 in O2. simpl in O2.
  replace (Z.min (s_n s) cap - 1) with (s_n s - 1) by lia.
  specialize (Hlast G2 ltac:(lia)). lia.
Qed.

End Probe.

(* ------------------------------ part 13 ------------------------------ *)
Definition wf_tasks_fx (fx : nnzfix) (sparse : bool) (ts : list task) : Prop :=
  Forall (fun t => wf_builder_fx fx sparse (t_b t) = true /\ wf_task t /\ Forall act_ok (t_reqs t)) ts.
Definition overflowed_fx (fx : nnzfix) (cap capz : Z) (sparse : bool) (s : st) : bool :=
  ov_nefc cap s || ov_nnz_fx fx cap capz sparse s.

Lemma wf_tasks_fx_noflag fx sparse ts : f_flag fx = false -> wf_tasks_fx fx sparse ts -> wf_tasks sparse ts.
Proof.
  intros F H. unfold wf_tasks_fx, wf_tasks in *. eapply Forall_impl; [|exact H].
  intros t (A & B & _). split; auto. unfold wf_builder_fx in A. rewrite F in A. unfold wf_builder.
  rewrite andb_false_l, orb_false_r in A. exact A.
Qed.

Lemma wf_tasks_fx_flag fx sparse ts : wf_tasks_fx fx sparse ts -> wf_tasks2 sparse ts /\ act_tasks ts.
Proof.
  intros H. unfold wf_tasks_fx, wf_tasks2, act_tasks in *. split; (eapply Forall_impl; [|exact H]); intros t (A & B & C); auto.
  split; auto. unfold wf_builder_fx, wfb2 in *. apply andb_prop in A. destruct A as [A1 A2]. rewrite A1. simpl.
  destruct sparse; simpl in *; auto. apply orb_prop in A2. destruct A2 as [A2|A2].
  - apply wf_nnz_exact; auto.
  - apply andb_prop in A2. tauto.
Qed.

Lemma wf_tasks_fx_perm fx sparse ts ts' : Permutation ts ts' -> wf_tasks_fx fx sparse ts -> wf_tasks_fx fx sparse ts'.
Proof. unfold wf_tasks_fx. intros P H. eapply Permutation_Forall; eauto. Qed.

Lemma prezero_length fx l : List.length (prezero fx l) = List.length l.
Proof. unfold prezero. destruct (f_prezero fx); auto. apply map_length. Qed.
Lemma meta_ok_prezero fx cap sparse a r : meta_ok cap sparse a r -> meta_ok cap sparse (prezero fx a) (prezero fx r).
Proof. unfold meta_ok. intros H S. rewrite !prezero_length. auto. Qed.

Lemma finish_id fx cap capz sparse s : f_clamp fx && sparse && (s_z s >? capz) = false -> finish fx cap capz sparse s = s.
Proof. unfold finish. intros ->. reflexivity. Qed.

Lemma finish_core fx cap capz sparse s :
  let s' := finish fx cap capz sparse s in
  s_n s' = s_n s /\ s_ne s' = s_ne s /\ s_nf s' = s_nf s /\ s_nl s' = s_nl s /\ s_z s' = s_z s /\
  s_rows s' = s_rows s /\ s_slots s' = s_slots s /\ s_midx s' = s_midx s /\ dropped_any s' = dropped_any s.
Proof. cbv zeta. unfold finish. destruct (f_clamp fx && sparse && (s_z s >? capz)); simpl; repeat split. Qed.

Section OneFx.
Variables (fx : nnzfix) (cap capz : Z) (sparse : bool).
Hypothesis Hfx : fx_ok fx = true.
Notation run ts a r := (efc_run fx cap capz sparse ts a r).
Notation ovf := (overflowed_fx fx cap capz sparse).

Lemma noflag_noclamp : f_flag fx = false -> f_clamp fx = false.
Proof. unfold fx_ok in Hfx. destruct (f_clamp fx), (f_flag fx); simpl in *; congruence. Qed.

Lemma ovf_noflag s : f_flag fx = false -> ovf s = overflowed cap capz sparse s.
Proof.
  intros F. pose proof (noflag_noclamp F) as C.
  unfold overflowed_fx, ov_nnz_fx, nnz_flag_bit, overflowed. rewrite F. simpl.
  rewrite finish_id by (rewrite C; reflexivity). reflexivity.
Qed.

Lemma ovf_flag s : f_flag fx = true ->
  ovB cap capz sparse s = false -> ovf s = ov_nnz cap capz sparse s.
Proof.
  intros F H. unfold ovB in H. apply orb_false_elim in H. destruct H as [H1 H2].
  unfold overflowed_fx, ov_nnz_fx, nnz_flag_bit. rewrite H1, F. simpl. rewrite H2. simpl.
  rewrite finish_id; auto. rewrite <- andb_assoc, H2. apply andb_false_r.
Qed.

Lemma ovf_flag_true s : f_flag fx = true -> ovB cap capz sparse s = true -> ovf s = true.
Proof.
  intros F H. unfold ovB in H. unfold overflowed_fx, ov_nnz_fx, nnz_flag_bit. rewrite F. simpl.
  apply orb_prop in H. destruct H as [-> | ->]; simpl; auto. apply orb_true_r.
Qed.

Theorem GX_never_silent ts a r :
  wf_tasks_fx fx sparse ts -> meta_ok cap sparse a r ->
  dropped_any (run ts a r) = true -> ovf (run ts a r) = true.
Proof.
  intros Hw Hm Hd. unfold efc_run in *. destruct (f_flag fx) eqn:F.
  - apply ovf_flag_true; auto. destruct (wf_tasks_fx_flag _ _ _ Hw) as [W2 _].
    apply (G_never_silent_flag cap capz sparse ts _ _ W2 Hd).
  - rewrite ovf_noflag by auto. apply G_never_silent; auto.
    + eapply wf_tasks_fx_noflag; eauto.
    + apply meta_ok_prezero; auto.
Qed.

Theorem GX_iff ts a r :
  wf_tasks_fx fx sparse ts -> 0 <= cap -> 0 <= capz -> meta_ok cap sparse a r ->
  ovf (run ts a r) = false <-> fits cap capz sparse ts.
Proof.
  intros Hw Hc Hcz Hm. unfold efc_run. pose proof (meta_ok_prezero fx _ _ _ _ Hm) as Hm'.
  destruct (f_flag fx) eqn:F.
  - destruct (wf_tasks_fx_flag _ _ _ Hw) as [W2 Wa]. split.
    + intros H. destruct (ovB cap capz sparse (run_tasks cap capz sparse ts (init_st (prezero fx a) (prezero fx r)))) eqn:B.
      * rewrite ovf_flag_true in H; auto. discriminate.
      * apply (GB_exact cap capz sparse ts _ _ W2 Hc Hcz B).
    + intros Hf. pose proof (GB_fits cap capz sparse ts (prezero fx a) (prezero fx r) W2 Hc Hcz Hf) as B.
      rewrite ovf_flag; auto. apply probe_fits; auto.
  - rewrite ovf_noflag by auto. apply overflow_iff_fits; auto. eapply wf_tasks_fx_noflag; eauto.
Qed.

Theorem GX_exact ts a r :
  wf_tasks_fx fx sparse ts -> 0 <= cap -> 0 <= capz -> meta_ok cap sparse a r ->
  ovf (run ts a r) = false ->
  let s := run ts a r in
  dropped_any s = false /\
  map content (s_rows s) = expected_rows ts /\
  map w_efcid (s_rows s) = zrange (total_rows ts) /\
  forallb w_complete (s_rows s) = true /\
  s_n s = total_rows ts /\ s_z s = znz sparse (total_nnz ts) /\
  s_ne s = tcount 0 ts /\ s_nf s = tcount 1 ts /\ s_nl s = tcount 2 ts.
Proof.
  intros Hw Hc Hcz Hm H. unfold efc_run in *. pose proof (meta_ok_prezero fx _ _ _ _ Hm) as Hm'.
  destruct (f_flag fx) eqn:F.
  - destruct (wf_tasks_fx_flag _ _ _ Hw) as [W2 Wa].
    destruct (ovB cap capz sparse (run_tasks cap capz sparse ts (init_st (prezero fx a) (prezero fx r)))) eqn:B.
    + rewrite ovf_flag_true in H; auto. discriminate.
    + pose proof (GB_exact cap capz sparse ts _ _ W2 Hc Hcz B) as G. cbv zeta in G. cbv zeta. tauto.
  - rewrite ovf_noflag in H by auto. apply G_exact; auto. eapply wf_tasks_fx_noflag; eauto.
Qed.

Theorem GX_sched ts ts' a r a' r' :
  wf_tasks_fx fx sparse ts -> 0 <= cap -> 0 <= capz -> meta_ok cap sparse a r -> meta_ok cap sparse a' r' ->
  Permutation ts ts' -> ovf (run ts a r) = false -> ovf (run ts' a' r') = false.
Proof.
  intros Hw Hc Hcz Hm Hm' P Hov.
  pose proof (wf_tasks_fx_perm fx sparse ts ts' P Hw) as Hw'.
  apply (GX_iff ts a r Hw Hc Hcz Hm) in Hov. apply (GX_iff ts' a' r' Hw' Hc Hcz Hm').
  destruct (perm_totals ts ts' P) as (E1 & E2 & _). destruct Hov as [F1 F2].
  split; [lia|]. intros S. specialize (F2 S). lia.
Qed.

End OneFx.

Theorem GX_ample fx cap capz cap' capz' sparse ts ts' a r a' r' :
  fx_ok fx = true -> wf_tasks_fx fx sparse ts -> 0 <= cap -> 0 <= capz -> 0 <= cap' -> 0 <= capz' ->
  meta_ok cap sparse a r -> meta_ok cap' sparse a' r' -> Permutation ts ts' ->
  overflowed_fx fx cap capz sparse (efc_run fx cap capz sparse ts a r) = false ->
  overflowed_fx fx cap' capz' sparse (efc_run fx cap' capz' sparse ts' a' r') = false ->
  let s := efc_run fx cap capz sparse ts a r in
  let s' := efc_run fx cap' capz' sparse ts' a' r' in
  Permutation (map content (s_rows s)) (map content (s_rows s')) /\
  s_n s = s_n s' /\ s_z s = s_z s' /\ s_ne s = s_ne s' /\ s_nf s = s_nf s' /\ s_nl s = s_nl s'.
Proof.
  intros Hfx Hw Hc Hcz Hc' Hcz' Hm Hm' P H1 H2.
  pose proof (wf_tasks_fx_perm fx sparse ts ts' P Hw) as Hw'.
  destruct (GX_exact fx cap capz sparse Hfx ts a r Hw Hc Hcz Hm H1) as (_ & R1 & _ & _ & N1 & Z1 & E1 & F1 & L1).
  destruct (GX_exact fx cap' capz' sparse Hfx ts' a' r' Hw' Hc' Hcz' Hm' H2) as (_ & R2 & _ & _ & N2 & Z2 & E2 & F2 & L2).
  destruct (perm_totals ts ts' P) as (T1 & T2 & T3 & T4).
  cbv zeta. rewrite R1, R2, N1, N2, Z1, Z2, E1, E2, F1, F2, L1, L2, T1, T2, !T3. repeat split; auto.
Qed.

(* ------------------------------ part 14 ------------------------------ *)
Definition uses_fx (bs : list builder) (ts : list task) : Prop :=
  Forall (fun t => In (t_b t) bs /\ wf_task t /\ Forall act_ok (t_reqs t)) ts.
Lemma uses_fx_wf fx sparse bs ts : wf_builders_fx fx sparse bs = true -> uses_fx bs ts -> wf_tasks_fx fx sparse ts.
Proof.
  unfold wf_builders_fx, uses_fx, wf_tasks_fx. intros H U. eapply Forall_impl; [|exact U].
  intros t (Hin & Ht & Ha). rewrite forallb_forall in H. auto.
Qed.
Lemma uses_fx_uses bs ts : uses_fx bs ts -> uses bs ts.
Proof. unfold uses_fx, uses. intros U. eapply Forall_impl; [|exact U]. intros t (A & B & _). auto. Qed.

Definition requests_use_fx (rbs sbs : list builder) (rq : requests) : Prop :=
  uses_fx rbs (r_efc rq) /\ uses sbs (r_bp rq) /\ uses sbs (r_np rq) /\ uses sbs (r_dof rq).

Section ProjFx.
Variables (fx : nnzfix) (zskip : bool) (c : caps) (sparse : bool) (a r : list Z) (ov0 : Z) (rq : requests).
Notation R := (run_builders fx zskip c sparse a r ov0 rq).
Notation SE := (efc_run fx (njmax c) (njmax_nnz c) sparse (r_efc rq) a r).
Lemma rbx_efc : x_efc R = finish fx (njmax c) (njmax_nnz c) sparse SE. Proof. reflexivity. Qed.
Lemma rbx_bp : x_bp R = run_collision zskip (naconmax c) (r_bp rq). Proof. reflexivity. Qed.
Lemma rbx_np : x_np R = run_collision zskip (naconmax c) (r_np rq). Proof. reflexivity. Qed.
Lemma rbx_dof : x_dof R = run_tasks (nvmax c) 0 false (r_dof rq) (init_st [] []). Proof. reflexivity. Qed.
Lemma rbx_nefc : x_nefc R = ov_nefc (njmax c) SE. Proof. reflexivity. Qed.
Lemma rbx_nnz : x_nnz R = ov_nnz_fx fx (njmax c) (njmax_nnz c) sparse SE. Proof. reflexivity. Qed.
Lemma rbx_broad : x_broad R = ov_nefc (naconmax c) (x_bp R). Proof. reflexivity. Qed.
Lemma rbx_narrow : x_narrow R = ov_nefc (naconmax c) (x_np R). Proof. reflexivity. Qed.
Lemma rbx_nvmax : x_nvmax R = ov_nefc (nvmax c) (x_dof R). Proof. reflexivity. Qed.
Lemma rbx_word : x_word R = Z.lor ov0 (bitz (x_nefc R) 1 + bitz (x_nnz R) 2 + bitz (x_broad R) 4 + bitz (x_narrow R) 8 + bitz (x_nvmax R) 128).
Proof. reflexivity. Qed.
End ProjFx.
Ltac rbxsimpl := rewrite ?rbx_nefc, ?rbx_nnz, ?rbx_broad, ?rbx_narrow, ?rbx_nvmax, ?rbx_efc, ?rbx_bp, ?rbx_np, ?rbx_dof in *.

Lemma fin_drop fx cap capz sparse s : dropped_any (finish fx cap capz sparse s) = dropped_any s.
Proof. apply finish_core. Qed.

Section WholeFx.
Variables (fx : nnzfix) (rbs sbs : list builder) (sparse zskip : bool).
Hypothesis Hfx : fx_ok fx = true.
Hypothesis Hrbs : wf_builders_fx fx sparse rbs = true.
Hypothesis Hsbs : wf_builders false sbs = true.

Theorem never_silent_fx : forall c adr0 rnz0 ov0 rq,
  collision_runs zskip c -> requests_use_fx rbs sbs rq -> meta_ok (njmax c) sparse adr0 rnz0 ->
  dropped (run_builders fx zskip c sparse adr0 rnz0 ov0 rq) = true ->
  overflow_any (run_builders fx zskip c sparse adr0 rnz0 ov0 rq) = true.
Proof.
  intros c a r ov0 rq Hz (U1 & U2 & U3 & U4) Hm Hd.
  unfold dropped, overflow_any in *. rbxsimpl. rewrite !(run_collision_runs _ _ _ Hz) in *. rewrite fin_drop in Hd.
  pose proof (GX_never_silent fx (njmax c) (njmax_nnz c) sparse Hfx (r_efc rq) a r (uses_fx_wf _ _ _ _ Hrbs U1) Hm) as A1.
  pose proof (G_never_silent (naconmax c) 0 false (r_bp rq) [] [] (uses_wf _ _ _ Hsbs U2) (meta_dense _)) as A2.
  pose proof (G_never_silent (naconmax c) 0 false (r_np rq) [] [] (uses_wf _ _ _ Hsbs U3) (meta_dense _)) as A3.
  pose proof (G_never_silent (nvmax c) 0 false (r_dof rq) [] [] (uses_wf _ _ _ Hsbs U4) (meta_dense _)) as A4.
  rewrite overflowed_dense in A2, A3, A4. unfold overflowed_fx in A1.
  repeat (apply orb_prop in Hd; destruct Hd as [Hd|Hd]).
  - apply A1 in Hd. apply orb_prop in Hd. destruct Hd as [-> | ->]; simpl; auto. rewrite !orb_true_r. auto.
  - rewrite (A2 Hd). rewrite !orb_true_r. auto.
  - rewrite (A3 Hd). rewrite !orb_true_r. auto.
  - rewrite (A4 Hd). rewrite !orb_true_r. auto.
Qed.

Theorem no_overflow_same_as_ample_fx : forall c c' adr0 rnz0 adr0' rnz0' ov0 ov0' rq rq',
  collision_runs zskip c -> collision_runs zskip c' ->
  requests_use_fx rbs sbs rq -> is_schedule rq rq' -> caps_nonneg c -> caps_nonneg c' ->
  meta_ok (njmax c) sparse adr0 rnz0 -> meta_ok (njmax c') sparse adr0' rnz0' ->
  overflow_any (run_builders fx zskip c sparse adr0 rnz0 ov0 rq) = false ->
  overflow_any (run_builders fx zskip c' sparse adr0' rnz0' ov0' rq') = false ->
  dropped (run_builders fx zskip c sparse adr0 rnz0 ov0 rq) = false /\
  map content (s_rows (x_efc (run_builders fx zskip c sparse adr0 rnz0 ov0 rq))) = expected_rows (r_efc rq) /\
  same_result (run_builders fx zskip c sparse adr0 rnz0 ov0 rq) (run_builders fx zskip c' sparse adr0' rnz0' ov0' rq').
Proof.
  intros c c' a r a' r' ov0 ov0' rq rq' Hz Hz' (U1 & U2 & U3 & U4) (P1 & P2 & P3 & P4)
         (C1 & C2 & C3 & C4) (C1' & C2' & C3' & C4') Hm Hm' H H'.
  apply overflow_any_false in H. apply overflow_any_false in H'.
  destruct H as (O1 & O2 & O3 & O4 & O5). destruct H' as (O1' & O2' & O3' & O4' & O5').
  unfold dropped, same_result. rbxsimpl.
  rewrite !(run_collision_runs _ _ _ Hz) in *. rewrite !(run_collision_runs _ _ _ Hz') in *.
  pose proof (uses_fx_wf _ _ _ _ Hrbs U1) as W1. pose proof (uses_wf _ _ _ Hsbs U2) as W2.
  pose proof (uses_wf _ _ _ Hsbs U3) as W3. pose proof (uses_wf _ _ _ Hsbs U4) as W4.
  set (se := efc_run fx (njmax c) (njmax_nnz c) sparse (r_efc rq) a r) in *.
  set (se' := efc_run fx (njmax c') (njmax_nnz c') sparse (r_efc rq') a' r') in *.
  assert (E1 : overflowed_fx fx (njmax c) (njmax_nnz c) sparse se = false) by (unfold overflowed_fx; rewrite O1, O2; auto).
  assert (E1' : overflowed_fx fx (njmax c') (njmax_nnz c') sparse se' = false) by (unfold overflowed_fx; rewrite O1', O2'; auto).
  destruct (GX_exact fx _ _ _ Hfx _ _ _ W1 C1 C2 Hm E1) as (D1 & R1 & _). fold se in D1, R1.
  assert (Hd0 : forall cap ts, wf_tasks false ts -> 0 <= cap ->
            ov_nefc cap (run_tasks cap 0 false ts (init_st [] [])) = false ->
            dropped_any (run_tasks cap 0 false ts (init_st [] [])) = false).
  { intros cap ts Hw Hc Ho.
    pose proof (G_exact cap 0 false ts [] [] Hw Hc (Z.le_refl 0) (meta_dense cap)) as X.
    rewrite overflowed_dense in X. apply X in Ho. cbv zeta in Ho. tauto. }
  pose proof (Hd0 _ _ W2 C3 O3) as D2. pose proof (Hd0 _ _ W3 C3 O4) as D3. pose proof (Hd0 _ _ W4 C4 O5) as D4.
  pose proof (finish_core fx (njmax c) (njmax_nnz c) sparse se) as FC. cbv zeta in FC.
  destruct FC as (K1 & K2 & K3 & K4 & K5 & K6 & _ & _ & K9).
  pose proof (finish_core fx (njmax c') (njmax_nnz c') sparse se') as FC'. cbv zeta in FC'.
  destruct FC' as (K1' & K2' & K3' & K4' & K5' & K6' & _ & _ & K9').
  split; [rewrite K9, D1, D2, D3, D4; auto|]. split; [rewrite K6; exact R1|].
  unfold same_rows, same_counters. rewrite K1, K2, K3, K4, K5, K6, K1', K2', K3', K4', K5', K6'.
  split; [|split; [|split]].
  - pose proof (GX_ample fx _ _ _ _ sparse _ _ a r a' r' Hfx W1 C1 C2 C1' C2' Hm Hm' P1 E1 E1') as G. cbv zeta in G. fold se se' in G. tauto.
  - pose proof (G_ample (naconmax c) 0 (naconmax c') 0 false _ _ [] [] [] [] W2 C3 (Z.le_refl 0) C3' (Z.le_refl 0) (meta_dense _) (meta_dense _) P2) as G.
    rewrite !overflowed_dense in G. specialize (G O3 O3'). cbv zeta in G. tauto.
  - pose proof (G_ample (naconmax c) 0 (naconmax c') 0 false _ _ [] [] [] [] W3 C3 (Z.le_refl 0) C3' (Z.le_refl 0) (meta_dense _) (meta_dense _) P3) as G.
    rewrite !overflowed_dense in G. specialize (G O4 O4'). cbv zeta in G. tauto.
  - pose proof (G_ample (nvmax c) 0 (nvmax c') 0 false _ _ [] [] [] [] W4 C4 (Z.le_refl 0) C4' (Z.le_refl 0) (meta_dense _) (meta_dense _) P4) as G.
    rewrite !overflowed_dense in G. specialize (G O5 O5'). cbv zeta in G. tauto.
Qed.

Theorem alloc_sched_fx : forall c adr0 rnz0 adr0' rnz0' ov0 rq rq',
  collision_runs zskip c -> requests_use_fx rbs sbs rq -> is_schedule rq rq' -> caps_nonneg c ->
  meta_ok (njmax c) sparse adr0 rnz0 -> meta_ok (njmax c) sparse adr0' rnz0' ->
  overflow_any (run_builders fx zskip c sparse adr0 rnz0 ov0 rq) = false ->
  overflow_any (run_builders fx zskip c sparse adr0' rnz0' ov0 rq') = false /\
  x_word (run_builders fx zskip c sparse adr0' rnz0' ov0 rq') = x_word (run_builders fx zskip c sparse adr0 rnz0 ov0 rq) /\
  same_result (run_builders fx zskip c sparse adr0 rnz0 ov0 rq) (run_builders fx zskip c sparse adr0' rnz0' ov0 rq').
Proof.
  intros c a r a' r' ov0 rq rq' Hz U S C Hm Hm' H.
  assert (H' : overflow_any (run_builders fx zskip c sparse a' r' ov0 rq') = false).
  { destruct U as (U1 & U2 & U3 & U4). destruct S as (P1 & P2 & P3 & P4). destruct C as (C1 & C2 & C3 & C4).
    apply overflow_any_false in H. destruct H as (O1 & O2 & O3 & O4 & O5). unfold overflow_any. rbxsimpl.
    rewrite !(run_collision_runs _ _ _ Hz) in *.
    pose proof (GX_sched fx (njmax c) (njmax_nnz c) sparse Hfx _ _ a r a' r' (uses_fx_wf _ _ _ _ Hrbs U1) C1 C2 Hm Hm' P1) as G1.
    unfold overflowed_fx in G1. rewrite O1, O2 in G1. specialize (G1 eq_refl). apply orb_false_elim in G1. destruct G1 as [-> ->].
    pose proof (G_sched (naconmax c) 0 false _ _ [] [] [] [] (uses_wf _ _ _ Hsbs U2) C3 (Z.le_refl 0) (meta_dense _) (meta_dense _) P2) as G2.
    rewrite !overflowed_dense in G2. rewrite (G2 O3).
    pose proof (G_sched (naconmax c) 0 false _ _ [] [] [] [] (uses_wf _ _ _ Hsbs U3) C3 (Z.le_refl 0) (meta_dense _) (meta_dense _) P3) as G3.
    rewrite !overflowed_dense in G3. rewrite (G3 O4).
    pose proof (G_sched (nvmax c) 0 false _ _ [] [] [] [] (uses_wf _ _ _ Hsbs U4) C4 (Z.le_refl 0) (meta_dense _) (meta_dense _) P4) as G4.
    rewrite !overflowed_dense in G4. rewrite (G4 O5). reflexivity. }
  split; [exact H'|]. split.
  - pose proof (overflow_any_false _ H) as (A1 & A2 & A3 & A4 & A5).
    pose proof (overflow_any_false _ H') as (B1 & B2 & B3 & B4 & B5).
    rewrite !rbx_word, A1, A2, A3, A4, A5, B1, B2, B3, B4, B5. reflexivity.
  - destruct (no_overflow_same_as_ample_fx c c a r a' r' ov0 ov0 rq rq' Hz Hz U S C C Hm Hm' H H') as (_ & _ & R). exact R.
Qed.

End WholeFx.

Theorem alloc_in_bounds_fx : forall fx bs zskip c sparse adr0 rnz0 ov0 rq,
  safe_builders bs = true -> requests_use bs bs rq ->
  let r := run_builders fx zskip c sparse adr0 rnz0 ov0 rq in
  bounds_ok (njmax c) (njmax_nnz c) (x_efc r) /\
  bounds_ok (naconmax c) 0 (x_bp r) /\ bounds_ok (naconmax c) 0 (x_np r) /\ bounds_ok (nvmax c) 0 (x_dof r).
Proof.
  intros fx bs zskip c sparse a r ov0 rq Hs (U1 & U2 & U3 & U4). cbv zeta.
  rewrite rbx_efc, rbx_bp, rbx_np, rbx_dof. unfold run_collision.
  split.
  { pose proof (finish_core fx (njmax c) (njmax_nnz c) sparse (efc_run fx (njmax c) (njmax_nnz c) sparse (r_efc rq) a r)) as FC.
    cbv zeta in FC. destruct FC as (_ & _ & _ & _ & _ & K6 & K7 & K8 & _).
    unfold bounds_ok. rewrite K6, K7, K8. apply G_bounds. eapply uses_safe; eauto. }
  assert (Hskip : forall cap qs, bounds_ok cap 0 (skip_all qs (init_st [] []))).
  { intros. unfold bounds_ok, skip_all, init_st; simpl. repeat split; constructor. }
  split; [|split].
  - destruct (zskip && (naconmax c =? 0)); [apply Hskip|apply G_bounds; eapply uses_safe; eauto].
  - destruct (zskip && (naconmax c =? 0)); [apply Hskip|apply G_bounds; eapply uses_safe; eauto].
  - apply G_bounds; eapply uses_safe; eauto.
Qed.

Lemma overflow_word_nonzero_fx fx zskip c sparse a r ov0 rq :
  overflow_any (run_builders fx zskip c sparse a r ov0 rq) = true -> x_word (run_builders fx zskip c sparse a r ov0 rq) <> 0.
Proof. intros H. eapply word_nonzero; [apply rbx_word|exact H]. Qed.

(* the repaired code (prezero + flag + clamp) needs only exact guards: explicit builder values *)
Definition allfix : nnzfix := mkFix true true true.
Example repaired_flags_F2 :
  let rq := mkReqs [mkT joint_like [mkQ 0 0 0 2 2]; mkT joint_like [mkQ 0 1 0 2 2]] [] [] [] in
  wf_builders_fx allfix true [joint_like; contact_like; inexact_like] = true /\
  x_word (run_builders allfix false (mkCaps 3 3 0 0) true [5;5;5] [7;7;7] 0 rq) = 2 /\
  s_rnz (x_efc (run_builders allfix false (mkCaps 3 3 0 0) true [5;5;5] [7;7;7] 0 rq)) = [2; 2; 0] /\
  x_word (run_builders allfix false (mkCaps 3 4 0 0) true [5;5;5] [7;7;7] 0 rq) = 0.
Proof. vm_compute. auto. Qed.

(* the old witnesses of never_silent_refuted_nnz_contact / _inexact under the repaired scheme *)
Example repaired_flags_contact_inexact :
  let rq1 := mkReqs [mkT contact_like [mkQ 6 0 4 6 6]; mkT contact_like [mkQ 6 1 4 6 6]; mkT contact_like [mkQ 6 2 4 6 6]] [] [] [] in
  let rq2 := mkReqs [mkT inexact_like [mkQ 0 0 0 2 2]; mkT inexact_like [mkQ 0 1 0 2 1]] [] [] [] in
  x_word (run_builders allfix false (mkCaps 64 71 0 0) true (repeat 0 64) (repeat 0 64) 0 rq1) = 2 /\
  x_word (run_builders allfix false (mkCaps 64 72 0 0) true (repeat 0 64) (repeat 0 64) 0 rq1) = 0 /\
  x_word (run_builders allfix false (mkCaps 2 3 0 0) true [0;0] [0;0] 0 rq2) = 2 /\
  x_word (run_builders allfix false (mkCaps 2 4 0 0) true [0;0] [0;0] 0 rq2) = 0.
Proof. vm_compute. auto. Qed.
