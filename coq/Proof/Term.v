(* Proof/Term.v -- lemmas about Model/Term.v (C25). *)
From Coq Require Import ZArith List Bool Lia ZifyBool.
From VF Require Import Model.Term.
Import ListNotations.
Local Open Scope Z_scope.

(* ---------- the two termination kernels are the same function ---------- *)
Lemma cg_finalize_eq : forall L b s, cg_finalize_task L b s = solve_done_task L b s.
Proof. reflexivity. Qed.
Lemma task_of_eq : forall cg L b s, task_of cg L b s = solve_done_task L b s.
Proof. destruct cg; reflexivity. Qed.

Definition step (L : Z) (b : bool) (s : wstate) : wstate := fst (solve_done_task L b s).
Definition nd (s : wstate) : Z := if done s then 0 else 1.
Fixpoint count_nd (ws : list wstate) : Z :=
  match ws with [] => 0 | s :: r => nd s + count_nd r end.

Lemma task_delta : forall L b s, snd (solve_done_task L b s) = nd (step L b s) - nd s.
Proof.
  intros L b s. unfold step, solve_done_task, nd.
  destruct (done s) eqn:D; cbn [fst snd]; rewrite ?D; try reflexivity.
  destruct (b || (niter s + 1 =? L)); cbn; reflexivity.
Qed.

Lemma step_done : forall L b s, done s = true -> step L b s = s.
Proof. intros L b s D. unfold step, solve_done_task. rewrite D. reflexivity. Qed.

Lemma count_nd_nonneg : forall ws, 0 <= count_nd ws.
Proof. induction ws; cbn; [lia|]. unfold nd. destruct (done a); lia. Qed.

Lemma count_nd_zero_all_done : forall ws, count_nd ws = 0 -> forall s, In s ws -> done s = true.
Proof.
  induction ws; cbn; intros H s HI; [contradiction|]. destruct HI as [E|I].
  - subst. pose proof (count_nd_nonneg ws). unfold nd in H. destruct (done s); [reflexivity|lia].
  - apply IHws; [|exact I]. pose proof (count_nd_nonneg ws). unfold nd in H. destruct (done a); lia.
Qed.

Lemma all_done_count_zero : forall ws, (forall s, In s ws -> done s = true) -> count_nd ws = 0.
Proof.
  induction ws; cbn; intros H; [reflexivity|].
  rewrite IHws by (intros; apply H; now right). unfold nd. rewrite (H a) by now left. reflexivity.
Qed.

(* ---------- one launch ---------- *)
Lemma round_from_spec : forall cg L tolk ws i ns,
  fst (round_from cg L tolk i ws ns) = map (fun p => step L (tolk (fst p)) (snd p)) (combine (seq i (length ws)) ws)
  /\ snd (round_from cg L tolk i ws ns) = ns + count_nd (fst (round_from cg L tolk i ws ns)) - count_nd ws.
Proof.
  induction ws as [|s r IH]; intros i ns; cbn [round_from].
  - cbn. split; [reflexivity|lia].
  - rewrite task_of_eq.
    pose proof (task_delta L (tolk i) s) as TD. unfold step in *.
    destruct (solve_done_task L (tolk i) s) as [s' d] eqn:E. cbn [fst snd] in TD.
    specialize (IH (S i) (ns + d)).
    destruct (round_from cg L tolk (S i) r (ns + d)) as [r' ns'] eqn:E2. cbn [fst snd] in *.
    destruct IH as [IH1 IH2]. split.
    + cbn. rewrite E. cbn. f_equal. exact IH1.
    + cbn [count_nd]. lia.
Qed.

Lemma round_from_length : forall cg L tolk ws i ns, length (fst (round_from cg L tolk i ws ns)) = length ws.
Proof.
  intros. rewrite (proj1 (round_from_spec cg L tolk ws i ns)).
  rewrite map_length, combine_length, seq_length. lia.
Qed.

Lemma round_from_nth : forall cg L tolk ws i ns j d, (j < length ws)%nat ->
  nth j (fst (round_from cg L tolk i ws ns)) d = step L (tolk (i + j)%nat) (nth j ws d).
Proof.
  intros cg L tolk ws i ns j d Hj. rewrite (proj1 (round_from_spec cg L tolk ws i ns)).
  rewrite (nth_indep _ d (step L (tolk (i + j)%nat) d)) by (rewrite map_length, combine_length, seq_length; lia).
  rewrite (map_nth (fun p => step L (tolk (fst p)) (snd p)) _ ((i + j)%nat, d)).
  rewrite combine_nth by (rewrite seq_length; reflexivity).
  rewrite seq_nth by exact Hj. reflexivity.
Qed.

Lemma round_length : forall cg L tolk st, length (fst (round cg L tolk st)) = length (fst st).
Proof. intros. apply round_from_length. Qed.
Lemma round_nth : forall cg L tolk st j d, (j < length (fst st))%nat ->
  nth j (fst (round cg L tolk st)) d = step L (tolk j) (nth j (fst st) d).
Proof. intros. unfold round. rewrite round_from_nth by assumption. reflexivity. Qed.

(* nsolving counts the worlds that are not done: invariant of every launch *)
Definition ns_ok (st : list wstate * Z) : Prop := snd st = count_nd (fst st).
Lemma round_ns_ok : forall cg L tolk st, ns_ok st -> ns_ok (round cg L tolk st).
Proof.
  intros cg L tolk [ws ns] H. unfold ns_ok, round in *. cbn [fst snd] in *.
  rewrite (proj2 (round_from_spec cg L tolk ws 0%nat ns)). lia.
Qed.
Lemma init_ns_ok : forall ws0, ns_ok (map init_world ws0, Z.of_nat (length (map init_world ws0))).
Proof.
  intros. unfold ns_ok. cbn [fst snd]. induction ws0; cbn [map length count_nd]; [reflexivity|].
  rewrite <- IHws0. unfold nd. cbn [init_world done]. lia.
Qed.

(* ---------- one world ---------- *)
Lemma wrun_step : forall cg L b n k s, wrun cg L b (S n) k s = wrun cg L b n (S k) (step L (b k) s).
Proof. intros. cbn [wrun]. rewrite task_of_eq. reflexivity. Qed.
Lemma wrun_done : forall cg L b n k s, done s = true -> wrun cg L b n k s = s.
Proof.
  induction n; intros k s D; [reflexivity|]. rewrite wrun_step, step_done by exact D. apply IHn; exact D.
Qed.
Lemma wrun_add : forall cg L b n m k s, wrun cg L b (n + m) k s = wrun cg L b m (k + n)%nat (wrun cg L b n k s).
Proof.
  induction n; intros m k s.
  - cbn [plus wrun]. rewrite Nat.add_0_r. reflexivity.
  - cbn [plus]. rewrite !wrun_step. rewrite IHn. f_equal. lia.
Qed.
Lemma wrun_snoc : forall cg L b n k s, wrun cg L b (S n) k s = step L (b (k + n)%nat) (wrun cg L b n k s).
Proof.
  intros. replace (S n) with (n + 1)%nat by lia. rewrite wrun_add. cbn [wrun]. rewrite task_of_eq. reflexivity.
Qed.
Lemma wrun_ext : forall cg L b b' n k s, (forall r, (k <= r < k + n)%nat -> b r = b' r) ->
  wrun cg L b n k s = wrun cg L b' n k s.
Proof.
  induction n; intros k s H; [reflexivity|]. rewrite !wrun_step. rewrite (H k) by lia. apply IHn. intros; apply H; lia.
Qed.

(* the invariant after k rounds of a world entered (after init) with overflow word o0, limit L >= 1 *)
Definition Inv (L : Z) (b : nat -> bool) (o0 : Z) (k : nat) (s : wstate) : Prop :=
  if done s then
    1 <= niter s <= Z.of_nat k /\ niter s <= L /\
    (forall j, Z.of_nat j < niter s - 1 -> b j = false) /\
    ((b (Z.to_nat (niter s - 1)) = true /\ ovf s = o0) \/
     (b (Z.to_nat (niter s - 1)) = false /\ niter s = L /\ ovf s = Z.lor o0 ITERATIONS))
  else
    niter s = Z.of_nat k /\ ovf s = o0 /\ (forall j, (j < k)%nat -> b j = false) /\ Z.of_nat k < L.

Lemma Inv_step : forall L b o0 k s, 1 <= L -> Inv L b o0 k s -> Inv L b o0 (S k) (step L (b k) s).
Proof.
  intros L b o0 k s HL H. unfold Inv in H. destruct (done s) eqn:D.
  - rewrite step_done by exact D. unfold Inv. rewrite D. intuition lia.
  - destruct H as (Hn & Ho & Hb & Hk).
    unfold step, solve_done_task. rewrite D.
    destruct (b k) eqn:Bk; cbn [orb negb andb].
    + cbn [fst]. unfold Inv. cbn [done niter ovf].
      replace (Z.to_nat (niter s + 1 - 1)) with k by lia. rewrite Bk.
      split; [lia|]. split; [lia|]. split; [intros j Hj; apply Hb; lia|].
      left. split; [reflexivity|exact Ho].
    + destruct (niter s + 1 =? L) eqn:E; cbn [fst]; unfold Inv; cbn [done niter ovf].
      * replace (Z.to_nat (niter s + 1 - 1)) with k by lia. rewrite Bk.
        split; [lia|]. split; [lia|]. split; [intros j Hj; apply Hb; lia|].
        right. split; [reflexivity|]. split; [lia|]. rewrite Ho. reflexivity.
      * split; [lia|]. split; [exact Ho|]. split; [|lia].
        intros j Hj. destruct (Nat.eq_dec j k) as [->|]; [exact Bk|apply Hb; lia].
Qed.

Lemma Inv_init : forall L b s0, 1 <= L -> Inv L b (ovf s0) 0 (init_world s0).
Proof.
  intros. unfold Inv, init_world; cbn [done niter ovf].
  split; [reflexivity|]. split; [reflexivity|]. split; [intros; lia|lia].
Qed.

Lemma Inv_wrun : forall cg L b s0 n, 1 <= L -> Inv L b (ovf s0) n (wrun cg L b n 0 (init_world s0)).
Proof.
  intros cg L b s0 n HL. induction n.
  - apply Inv_init; exact HL.
  - rewrite wrun_snoc. cbn [plus]. apply Inv_step; assumption.
Qed.

Lemma Inv_done_after_L : forall L b o0 k s, Inv L b o0 k s -> L <= Z.of_nat k -> done s = true.
Proof. intros L b o0 k s H HL. unfold Inv in H. destruct (done s); [reflexivity|lia]. Qed.

Lemma Inv_niter_le : forall L b o0 k s, 1 <= L -> Inv L b o0 k s -> 0 <= niter s <= L /\ niter s <= Z.of_nat k.
Proof. intros L b o0 k s HL H. unfold Inv in H. destruct (done s); lia. Qed.

Lemma iter_bit_lor : forall o, Z.testbit (Z.lor o ITERATIONS) ITER_BIT = true.
Proof. intros. rewrite Z.lor_spec. replace (Z.testbit ITERATIONS ITER_BIT) with true by reflexivity. apply orb_true_r. Qed.
Lemma iter_other_bits : forall o i, i <> ITER_BIT -> Z.testbit (Z.lor o ITERATIONS) i = Z.testbit o i.
Proof.
  intros o i Hi. rewrite Z.lor_spec. replace ITERATIONS with (2 ^ ITER_BIT) by reflexivity.
  rewrite Z.pow2_bits_eqb by (unfold ITER_BIT; lia).
  destruct (Z.eqb_spec ITER_BIT i); [congruence|apply orb_false_r].
Qed.

(* bit <-> never met the tolerance in rounds 0..L-1, for a DONE world entered with the bit clear *)
Lemma Inv_bit_iff : forall L b o0 k s, 1 <= L -> Inv L b o0 k s -> done s = true ->
  Z.testbit o0 ITER_BIT = false ->
  (Z.testbit (ovf s) ITER_BIT = true <-> (forall r, Z.of_nat r < L -> b r = false)).
Proof.
  intros L b o0 k s HL H D Hclr. unfold Inv in H. rewrite D in H.
  destruct H as (H1 & H2 & H3 & [[Hb Ho]|[Hb [Hn Ho]]]).
  - rewrite Ho, Hclr. split; [discriminate|]. intros Hall.
    rewrite Hall in Hb by lia. discriminate.
  - rewrite Ho, iter_bit_lor. split; [|reflexivity]. intros _ r Hr.
    destruct (Z.eq_dec (Z.of_nat r) (niter s - 1)) as [E|NE].
    + replace r with (Z.to_nat (niter s - 1)) by lia. exact Hb.
    + apply H3. lia.
Qed.

Lemma Inv_bit_iff_stop : forall L b o0 k s, 1 <= L -> Inv L b o0 k s -> done s = true ->
  Z.testbit o0 ITER_BIT = false ->
  (Z.testbit (ovf s) ITER_BIT = true <-> (niter s = L /\ b (Z.to_nat (L - 1)) = false)).
Proof.
  intros L b o0 k s HL H D Hclr. unfold Inv in H. rewrite D in H.
  destruct H as (H1 & H2 & H3 & [[Hb Ho]|[Hb [Hn Ho]]]).
  - rewrite Ho, Hclr. split; [discriminate|]. intros [E Hf]. rewrite E in Hb. congruence.
  - rewrite Ho, iter_bit_lor. split; [|reflexivity]. intros _. split; [exact Hn|]. rewrite <- Hn. exact Hb.
Qed.

Lemma Inv_other_bits : forall L b o0 k s i, Inv L b o0 k s -> i <> ITER_BIT -> Z.testbit (ovf s) i = Z.testbit o0 i.
Proof.
  intros L b o0 k s i H Hi. unfold Inv in H. destruct (done s).
  - destruct H as (_ & _ & _ & [[_ Ho]|[_ [_ Ho]]]); rewrite Ho; [reflexivity|apply iter_other_bits; exact Hi].
  - destruct H as (_ & Ho & _). rewrite Ho. reflexivity.
Qed.

(* ---------- the loops, world by world ---------- *)
Definition worlds (r : lstate) : list wstate := fst (fst r).
Definition nsolving (r : lstate) : Z := snd (fst r).
Definition rounds (r : lstate) : nat := snd r.

Lemma for_loop_spec : forall cg L tol n k st,
  length (worlds (for_loop cg L tol n k st)) = length (fst st) /\
  rounds (for_loop cg L tol n k st) = (k + n)%nat /\
  (ns_ok st -> ns_ok (fst (for_loop cg L tol n k st))) /\
  (forall j d, (j < length (fst st))%nat ->
     nth j (worlds (for_loop cg L tol n k st)) d = wrun cg L (fun r => tol r j) n k (nth j (fst st) d)).
Proof.
  induction n; intros k st; cbn [for_loop].
  - unfold worlds, rounds; cbn. repeat split; try lia; auto.
  - destruct (IHn (S k) (round cg L (tol k) st)) as (A & B & C & D).
    rewrite round_length in *. repeat split.
    + exact A.
    + rewrite B. lia.
    + intros H. apply C. apply round_ns_ok. exact H.
    + intros j d Hj. rewrite D by exact Hj. rewrite round_nth by exact Hj. rewrite wrun_step. reflexivity.
Qed.

(* the while loop is the for loop with the number of rounds it happened to run *)
Lemma while_is_for : forall cg L tol fuel k st,
  exists n, (n <= fuel)%nat /\ while_loop cg L tol fuel k st = for_loop cg L tol n k st /\
    (n = fuel \/ nsolving (for_loop cg L tol n k st) = 0) /\
    (forall m, (m < n)%nat -> nsolving (for_loop cg L tol m k st) <> 0).
Proof.
  induction fuel; intros k st; cbn [while_loop].
  - exists 0%nat. split; [lia|]. split; [reflexivity|]. split; [left; reflexivity|intros; lia].
  - destruct (snd st =? 0) eqn:E.
    + exists 0%nat. cbn [for_loop]. split; [lia|]. split; [reflexivity|]. split; [|intros; lia].
      right. unfold nsolving; cbn [fst snd]. lia.
    + destruct (IHfuel (S k) (round cg L (tol k) st)) as (n & A & B & C & D).
      exists (S n). cbn [for_loop]. split; [lia|]. split; [exact B|]. split.
      * destruct C; [left; lia|right; assumption].
      * intros m Hm. destruct m; [unfold nsolving; cbn [for_loop fst snd]; lia|]. cbn [for_loop]. apply D. lia.
Qed.

Section Solve.
  Variables (cg gc : bool) (L : Z) (fuel : nat) (tol : nat -> nat -> bool) (ws0 : list wstate).
  Let col (j : nat) : nat -> bool := fun r => tol r j.

  (* whatever the loop form, the result is n rounds of the for loop for some n *)
  Lemma solve_is_for : exists n,
    solve cg gc L fuel tol ws0 = for_loop cg L tol n 0 (map init_world ws0, Z.of_nat (length (map init_world ws0))) /\
    ((negb (L =? 0) && gc = false /\ n = Z.to_nat L) \/
     (negb (L =? 0) && gc = true /\ (n <= fuel)%nat /\
        (n = fuel \/ nsolving (for_loop cg L tol n 0 (map init_world ws0, Z.of_nat (length (map init_world ws0)))) = 0) /\
        (forall m, (m < n)%nat -> nsolving (for_loop cg L tol m 0 (map init_world ws0, Z.of_nat (length (map init_world ws0)))) <> 0))).
  Proof.
    unfold solve. destruct (negb (L =? 0) && gc) eqn:E.
    - destruct (while_is_for cg L tol fuel 0 (map init_world ws0, Z.of_nat (length (map init_world ws0)))) as (n & A & B & C & D).
      exists n. split; [exact B|]. right. auto.
    - exists (Z.to_nat L). split; [reflexivity|]. left. auto.
  Qed.

  Let st0 := (map init_world ws0, Z.of_nat (length (map init_world ws0))).

  Lemma rounds_world : forall n j d, (j < length ws0)%nat ->
    nth j (worlds (for_loop cg L tol n 0 st0)) d = wrun cg L (col j) n 0 (init_world (nth j ws0 d)).
  Proof.
    intros n j d Hj.
    destruct (for_loop_spec cg L tol n 0 st0) as (_ & _ & _ & D).
    rewrite D by (unfold st0; cbn [fst]; rewrite map_length; exact Hj).
    unfold st0; cbn [fst]. f_equal.
    rewrite (nth_indep _ d (init_world d)) by (rewrite map_length; exact Hj).
    apply map_nth.
  Qed.

  Lemma rounds_length : forall n, length (worlds (for_loop cg L tol n 0 st0)) = length ws0.
  Proof.
    intros n. destruct (for_loop_spec cg L tol n 0 st0) as (A & _). rewrite A. unfold st0; cbn [fst]. apply map_length.
  Qed.

  Lemma rounds_ns : forall n, nsolving (for_loop cg L tol n 0 st0) = count_nd (worlds (for_loop cg L tol n 0 st0)).
  Proof.
    intros n. destruct (for_loop_spec cg L tol n 0 st0) as (_ & _ & C & _). apply C. apply init_ns_ok.
  Qed.

  Lemma rounds_Inv : 1 <= L -> forall n j d, (j < length ws0)%nat ->
    Inv L (col j) (ovf (nth j ws0 d)) n (nth j (worlds (for_loop cg L tol n 0 st0)) d).
  Proof. intros HL n j d Hj. rewrite rounds_world by exact Hj. apply Inv_wrun. exact HL. Qed.

  Lemma all_done_from_L : 1 <= L -> forall n, L <= Z.of_nat n -> nsolving (for_loop cg L tol n 0 st0) = 0.
  Proof.
    intros HL n Hn. rewrite rounds_ns. apply all_done_count_zero. intros s Hs.
    destruct (In_nth _ _ s Hs) as (j & Hj & E). rewrite rounds_length in Hj. rewrite <- E.
    eapply Inv_done_after_L; [apply rounds_Inv; assumption|exact Hn].
  Qed.

  Lemma zero_ns_done : forall n j d, (j < length ws0)%nat -> nsolving (for_loop cg L tol n 0 st0) = 0 ->
    done (nth j (worlds (for_loop cg L tol n 0 st0)) d) = true.
  Proof.
    intros n j d Hj H. rewrite rounds_ns in H. eapply count_nd_zero_all_done; [exact H|].
    apply nth_In. rewrite rounds_length. exact Hj.
  Qed.

  (* ---- the iteration count never exceeds the limit (no fuel assumption: true of every prefix) ---- *)
  Theorem niter_le_limit : 0 <= L -> forall j d, (j < length ws0)%nat ->
    0 <= niter (nth j (worlds (solve cg gc L fuel tol ws0)) d) <= L.
  Proof.
    intros HL j d Hj. destruct (Z.eq_dec L 0) as [E0|NZ].
    - (* L = 0: the for loop with range(0) *)
      clear col st0. subst L. cbn [solve Z.eqb negb andb Z.to_nat for_loop]. unfold worlds; cbn [fst].
      rewrite (nth_indep _ d (init_world d)) by (rewrite map_length; exact Hj).
      rewrite map_nth. cbn [init_world niter]. lia.
    - destruct solve_is_for as (n & E & _). rewrite E. fold st0.
      pose proof (rounds_Inv ltac:(lia) n j d Hj) as I. apply Inv_niter_le in I; lia.
  Qed.

  Hypothesis Hfuel : (Z.to_nat L <= fuel)%nat.

  Lemma wrun_stable : forall b n m s, done (wrun cg L b n 0 s) = true -> (n <= m)%nat ->
    wrun cg L b m 0 s = wrun cg L b n 0 s.
  Proof.
    intros b n m s D Hm. replace m with (n + (m - n))%nat by lia. rewrite wrun_add. apply wrun_done. exact D.
  Qed.

  (* ---- every world's final state is its own run of L rounds with its own oracle column:
          the number of rounds the batch happened to execute (which depends on the OTHER worlds
          under capture_while) and the loop form do not matter ---- *)
  Theorem solve_world : 0 <= L -> forall j d, (j < length ws0)%nat ->
    nth j (worlds (solve cg gc L fuel tol ws0)) d
    = wrun cg L (col j) (Z.to_nat L) 0 (init_world (nth j ws0 d)).
  Proof.
    intros HL j d Hj. destruct solve_is_for as (n & E & [[_ ->]|(Hgc & Hn & Hstop & Hrun)]); rewrite E; fold st0.
    - apply rounds_world. exact Hj.
    - assert (1 <= L) as HL1 by (destruct (Z.eqb_spec L 0); [subst; discriminate|lia]).
      rewrite rounds_world by exact Hj.
      assert (done (wrun cg L (col j) (Z.to_nat L) 0 (init_world (nth j ws0 d))) = true) as DL.
      { eapply Inv_done_after_L; [apply Inv_wrun; exact HL1|lia]. }
      destruct (le_lt_dec (Z.to_nat L) n) as [Hle|Hlt].
      + apply wrun_stable; assumption.
      + symmetry. apply wrun_stable; [|lia].
        destruct Hstop as [->|Z0]; [lia|].
        rewrite <- rounds_world by exact Hj. apply zero_ns_done; assumption.
  Qed.

  Theorem all_done : 1 <= L -> forall j d, (j < length ws0)%nat ->
    done (nth j (worlds (solve cg gc L fuel tol ws0)) d) = true.
  Proof.
    intros HL j d Hj. rewrite solve_world by (lia || exact Hj).
    eapply Inv_done_after_L; [apply Inv_wrun; exact HL|lia].
  Qed.

  Lemma solve_Inv : 1 <= L -> forall j d, (j < length ws0)%nat ->
    Inv L (col j) (ovf (nth j ws0 d)) (Z.to_nat L) (nth j (worlds (solve cg gc L fuel tol ws0)) d).
  Proof. intros HL j d Hj. rewrite solve_world by (lia || exact Hj). apply Inv_wrun. exact HL. Qed.

  (* ---- ITER bit <-> the world never met the tolerance test within the limit ---- *)
  Theorem iter_bit_iff : 1 <= L -> forall j d, (j < length ws0)%nat ->
    Z.testbit (ovf (nth j ws0 d)) ITER_BIT = false ->
    (Z.testbit (ovf (nth j (worlds (solve cg gc L fuel tol ws0)) d)) ITER_BIT = true
     <-> (forall r, Z.of_nat r < L -> tol r j = false)).
  Proof.
    intros HL j d Hj Hclr. eapply Inv_bit_iff with (b := col j); [exact HL|apply solve_Inv; assumption| |exact Hclr].
    apply all_done; assumption.
  Qed.

  (* the same, phrased on the stopping event: stopped at the limit and the last test failed *)
  Theorem iter_bit_iff_stop : 1 <= L -> forall j d, (j < length ws0)%nat ->
    Z.testbit (ovf (nth j ws0 d)) ITER_BIT = false ->
    (Z.testbit (ovf (nth j (worlds (solve cg gc L fuel tol ws0)) d)) ITER_BIT = true
     <-> (niter (nth j (worlds (solve cg gc L fuel tol ws0)) d) = L /\ tol (Z.to_nat (L - 1)) j = false)).
  Proof.
    intros HL j d Hj Hclr. eapply Inv_bit_iff_stop with (b := col j); [exact HL|apply solve_Inv; assumption| |exact Hclr].
    apply all_done; assumption.
  Qed.

  (* the solve touches no other bit of the sticky overflow word *)
  Theorem other_bits_kept : 1 <= L -> forall j d i, (j < length ws0)%nat -> i <> ITER_BIT ->
    Z.testbit (ovf (nth j (worlds (solve cg gc L fuel tol ws0)) d)) i = Z.testbit (ovf (nth j ws0 d)) i.
  Proof. intros HL j d i Hj Hi. eapply Inv_other_bits; [apply solve_Inv; assumption|exact Hi]. Qed.

  (* ---- nsolving: counts the not-done worlds; both loop forms end with 0; the while loop runs
          at most L rounds (its fuel is never exhausted) ---- *)
  Theorem nsolving_counts_not_done :
    nsolving (solve cg gc L fuel tol ws0) = count_nd (worlds (solve cg gc L fuel tol ws0)).
  Proof. destruct solve_is_for as (n & E & _). rewrite E. apply rounds_ns. Qed.

  Theorem loop_terminates : 1 <= L ->
    nsolving (solve cg gc L fuel tol ws0) = 0 /\ (rounds (solve cg gc L fuel tol ws0) <= Z.to_nat L)%nat /\
    (gc = false -> rounds (solve cg gc L fuel tol ws0) = Z.to_nat L).
  Proof.
    intros HL. destruct solve_is_for as (n & E & [[Hgc ->]|(Hgc & Hn & Hstop & Hrun)]); rewrite E; fold st0;
      [|fold st0 in Hstop, Hrun].
    - destruct (for_loop_spec cg L tol (Z.to_nat L) 0 st0) as (_ & B & _). rewrite B.
      split; [apply all_done_from_L; lia|]. split; [lia|]. intros; lia.
    - destruct (for_loop_spec cg L tol n 0 st0) as (_ & B & _). rewrite B. cbn [plus].
      assert (n <= Z.to_nat L)%nat as Hle.
      { destruct (le_lt_dec n (Z.to_nat L)) as [|Hlt]; [assumption|].
        exfalso. apply (Hrun (Z.to_nat L) Hlt). apply all_done_from_L; lia. }
      split; [|split; [exact Hle|]].
      + destruct Hstop as [->|Z0]; [apply all_done_from_L; lia|exact Z0].
      + intros ->. rewrite andb_false_r in Hgc. discriminate.
  Qed.
End Solve.

(* ---------- done is absorbing, for every behaviour of the other worlds ---------- *)
Theorem done_task_identity : forall cg L b s, done s = true -> task_of cg L b s = (s, 0).
Proof. intros cg L b s D. rewrite task_of_eq. unfold solve_done_task. rewrite D. reflexivity. Qed.

Theorem done_is_absorbing_for : forall cg L tol n k st j d, (j < length (fst st))%nat ->
  done (nth j (fst st) d) = true -> nth j (worlds (for_loop cg L tol n k st)) d = nth j (fst st) d.
Proof.
  intros cg L tol n k st j d Hj D. destruct (for_loop_spec cg L tol n k st) as (_ & _ & _ & E).
  rewrite E by exact Hj. apply wrun_done. exact D.
Qed.

Theorem done_is_absorbing_while : forall cg L tol fuel k st j d, (j < length (fst st))%nat ->
  done (nth j (fst st) d) = true -> nth j (worlds (while_loop cg L tol fuel k st)) d = nth j (fst st) d.
Proof.
  intros cg L tol fuel k st j d Hj D. destruct (while_is_for cg L tol fuel k st) as (n & _ & E & _).
  rewrite E. apply done_is_absorbing_for; assumption.
Qed.

(* ---------- batch independence and transparency of the loop form ---------- *)
Theorem batch_independent : forall cg gc gc' L fuel fuel' tol tol' ws0 ws0' j j' d,
  0 <= L -> (Z.to_nat L <= fuel)%nat -> (Z.to_nat L <= fuel')%nat ->
  (j < length ws0)%nat -> (j' < length ws0')%nat ->
  ovf (nth j ws0 d) = ovf (nth j' ws0' d) ->
  (forall r, Z.of_nat r < L -> tol r j = tol' r j') ->
  nth j (worlds (solve cg gc L fuel tol ws0)) d = nth j' (worlds (solve cg gc' L fuel' tol' ws0')) d.
Proof.
  intros cg gc gc' L fuel fuel' tol tol' ws0 ws0' j j' d HL Hf Hf' Hj Hj' Ho Ht.
  rewrite !solve_world by assumption. unfold init_world. rewrite Ho.
  apply wrun_ext. intros r Hr. apply Ht. lia.
Qed.

Corollary graph_conditional_transparent : forall cg L fuel tol ws0,
  0 <= L -> (Z.to_nat L <= fuel)%nat ->
  worlds (solve cg true L fuel tol ws0) = worlds (solve cg false L fuel tol ws0).
Proof.
  intros cg L fuel tol ws0 HL Hf.
  assert (forall gc, length (worlds (solve cg gc L fuel tol ws0)) = length ws0) as Len.
  { intros gc. destruct (solve_is_for cg gc L fuel tol ws0) as (n & E & _). rewrite E. apply rounds_length. }
  apply nth_ext with (d := mkWS 0 false 0) (d' := mkWS 0 false 0); [rewrite !Len; reflexivity|].
  intros j Hj. rewrite Len in Hj. apply batch_independent; auto.
Qed.

(* ---------- iterations = 0: the documented corner ---------- *)
Theorem iterations_zero : forall cg gc fuel tol ws0,
  solve cg gc 0 fuel tol ws0 = (map init_world ws0, Z.of_nat (length (map init_world ws0)), 0%nat).
Proof. reflexivity. Qed.

(* with L = 0 a world "stops" without any tolerance test and the bit is NOT set: iter_bit_iff needs 1 <= L *)
Theorem iter_bit_iff_at_zero_refuted : exists cg gc fuel tol ws0 j d,
  (j < length ws0)%nat /\ Z.testbit (ovf (nth j ws0 d)) ITER_BIT = false /\
  ~ (Z.testbit (ovf (nth j (worlds (solve cg gc 0 fuel tol ws0)) d)) ITER_BIT = true
     <-> (forall r, Z.of_nat r < 0 -> tol r j = false)).
Proof.
  exists false, true, 5%nat, (fun _ _ => false), [mkWS 0 false 0], 0%nat, (mkWS 0 false 0).
  split; [cbn; lia|]. split; [reflexivity|]. intros [_ H].
  assert (forall r : nat, Z.of_nat r < 0 -> (fun _ _ : nat => false) r 0%nat = false) as A by (intros; reflexivity).
  specialize (H A). vm_compute in H. discriminate.
Qed.

(* ---------- the hypotheses are satisfiable / the model computes what one expects ---------- *)
Example mixed_batch :
  let tol := tol_of_table [[false; true; false]; [true; false; false]; [false; false; false]] in
  obs (solve false true 3 10 tol [mkWS 7 true 1; mkWS 0 false 0; mkWS 0 false 4])
  = [2; 0; 1; 1;   1; 0; 1; 0;   3; 1; 1; 516;   0; 3] /\
  obs (solve false false 3 10 tol [mkWS 7 true 1; mkWS 0 false 0; mkWS 0 false 4])
  = [2; 0; 1; 1;   1; 0; 1; 0;   3; 1; 1; 516;   0; 3].
Proof. split; vm_compute; reflexivity. Qed.

(* ---------- the protected per-world state of a done world under guarded kernels ---------- *)
Lemma guarded_kernels_identity : forall {X} (ks : list (X -> X)) x, run_kernels (map guarded ks) true x = x.
Proof. induction ks; intros; cbn; [reflexivity|]. apply IHks. Qed.

(* whatever the kernels compute and whatever oracle values arrive, for any number of further
   iterations: a done world keeps its protected state and its (niter, done, overflow) *)
Theorem done_world_frozen : forall {X} cg L (rs : list (list (X -> X) * bool)) (st : X * wstate),
  done (snd st) = true -> full_rounds cg L rs st = st.
Proof.
  intros X cg L rs. induction rs as [|r rs IH]; intros [x s] D; [reflexivity|].
  cbn [full_rounds fold_left]. cbn [snd] in D.
  assert (full_round cg L (fst r) (snd r) (x, s) = (x, s)) as E.
  { unfold full_round. cbn [fst snd]. rewrite D, guarded_kernels_identity.
    rewrite done_task_identity by exact D. reflexivity. }
  rewrite E. apply IH. exact D.
Qed.
