(* Proof/Inverse.v -- lemmas for C26 (Model/Inverse.v). *)
From Coq Require Import String List Bool ZArith Reals Lra.
From VF Require Import Base.Scalar Base.ScalarR Base.Vec Base.Kernel Base.KernelRd.
From VF Require Import Model.Pipeline Gen.Skel_pipeline Model.PipelineFacts Proof.Pipeline Gen.Skel_flags.
From VF Require Gen.T_inverse Gen.kforward.
From VF Require Import Model.Inverse.
Import ListNotations.
Local Open Scope string_scope.
Local Open Scope list_scope.

(* ====================================================================================== *)
(* T tie: the translated kernels compute exactly the per-dof values of the model             *)
(* ====================================================================================== *)
Section KernelsAre.
  Context {S : Type} `{Scalar S}.

  Lemma qfrc_inverse_kernel_is : forall w i (bias passive constraint Ma out : Z -> Z -> S) orc,
    T_inverse.k__qfrc_inverse w i bias passive constraint Ma out orc =
    [mkW "qfrc_inverse_out" [w; i] KSet
         (VS (qfrc_inverse_val (bias w i) (passive w i) (constraint w i) (Ma w i)))].
  Proof. reflexivity. Qed.

  Lemma qfrc_smooth_kernel_is : forall w i treeid bodyid (applied : Z -> Z -> S) awake
                                       (bias passive actuator out : Z -> Z -> S) orc,
    kforward.k_qfrc_smooth w i treeid bodyid applied awake bias passive actuator out orc =
    [mkW "qfrc_smooth_out" [w; i] KSet
         (VS (qfrc_smooth_val (bias w i) (passive w i) (actuator w i) (applied w i)))].
  Proof. reflexivity. Qed.

  (* inverse._qfrc_eulerdamp: qfrc[w,i] := qfrc[w,i] + (h * dd) * qacc[w,i] with
     dd = _poly_force_deriv(damping, dpoly, qvel, 1) *)
  Lemma qfrc_eulerdamp_kernel_is : forall w i (ts : Z -> S) (damping : Z -> Z -> S) (dpoly : Z -> Z -> list S)
                                          (qvel qacc qfrc : Z -> Z -> S) orc n0 n1 n2,
    T_inverse.k__qfrc_eulerdamp w i ts damping dpoly qvel qacc qfrc orc n0 n1 n2 =
    [mkW "qfrc_out" [w; i] KSet
         (VS (eulerdamp_val (qfrc w i) (ts (Z.rem w n0))
                (damp_deriv_val (damping (Z.rem w n1) i) (dpoly (Z.rem w n2) i) (qvel w i))
                (qacc w i)))].
  Proof. reflexivity. Qed.

  (* forward._compute_damping_deriv writes the same coefficient *)
  Lemma compute_damping_deriv_kernel_is : forall w i (damping : Z -> Z -> S) (dpoly : Z -> Z -> list S)
                                                 (qvel out : Z -> Z -> S) orc n1 n2,
    kforward.k__compute_damping_deriv w i damping dpoly qvel out orc n1 n2 =
    [mkW "deriv_out" [w; i] KSet
         (VS (damp_deriv_val (damping (Z.rem w n1) i) (dpoly (Z.rem w n2) i) (qvel w i)))].
  Proof. reflexivity. Qed.

  (* forward._euler_damp_qfrc adds h * dd to the last stored entry of row i of the (cloned) inertia matrix *)
  Lemma euler_damp_qfrc_kernel_is : forall w i (ts : Z -> S) (rownnz rowadr : Z -> Z)
                                           (dd Mout : Z -> Z -> S) orc n0,
    kforward.k__euler_damp_qfrc w i ts rownnz rowadr dd Mout orc n0 =
    [mkW "M_integration_out" [w; euler_diag_adr (rowadr i) (rownnz i)] KSet
         (VS (euler_diag_val (Mout w (euler_diag_adr (rowadr i) (rownnz i))) (ts (Z.rem w n0)) (dd w i)))].
  Proof. reflexivity. Qed.
End KernelsAre.

(* ====================================================================================== *)
(* inverse_of_forward                                                                        *)
(* ====================================================================================== *)
Local Open Scope R_scope.

(* Per dof, over the reals.  Forward dynamics leaves
       qfrc_smooth     = passive - bias + actuator + applied + xfrc      (kernel + xfrc_accumulate)
       residual        = Ma - (qfrc_smooth + constraint_f)               (KKT residual of the solver)
   inverse() computes, for the SAME Ma = (M qacc)_i,
       qfrc_inverse    = bias + Ma - passive - constraint_i.
   Then qfrc_inverse = applied + actuator + xfrc + residual + (constraint_f - constraint_i). *)
Theorem inverse_of_forward_identity :
  forall bias passive actuator applied xfrc Ma constraint_f constraint_i : R,
    let smooth := @qfrc_smooth_val R ScalarR bias passive actuator applied + xfrc in
    let residual := Ma - (smooth + constraint_f) in
    @qfrc_inverse_val R ScalarR bias passive constraint_i Ma =
    applied + actuator + xfrc + residual + (constraint_f - constraint_i).
Proof.
  intros bias passive actuator applied xfrc Ma constraint_f constraint_i. cbv zeta.
  unfold qfrc_smooth_val, qfrc_inverse_val. sR. lra.
Qed.

(* hence, when inverse() reproduces the forward constraint force, qfrc_inverse equals the applied
   generalized forces exactly when the forward KKT residual vanishes *)
Theorem inverse_of_forward :
  forall bias passive actuator applied xfrc Ma constraint : R,
    let smooth := @qfrc_smooth_val R ScalarR bias passive actuator applied + xfrc in
    (@qfrc_inverse_val R ScalarR bias passive constraint Ma = applied + actuator + xfrc) <->
    (Ma = smooth + constraint).
Proof.
  intros bias passive actuator applied xfrc Ma constraint. cbv zeta.
  unfold qfrc_smooth_val, qfrc_inverse_val. sR. split; intro E; lra.
Qed.

Example inverse_of_forward_example :
  let bias := 2 in let passive := -1 in let actuator := 3 in let applied := 1/2 in let xfrc := 1/4 in
  let constraint := 5 in
  let Ma := @qfrc_smooth_val R ScalarR bias passive actuator applied + xfrc + constraint in
  @qfrc_inverse_val R ScalarR bias passive constraint Ma = applied + actuator + xfrc.
Proof. cbv zeta. unfold qfrc_smooth_val, qfrc_inverse_val. sR. lra. Qed.

(* ====================================================================================== *)
(* discrete_acc_roundtrip                                                                    *)
(* ====================================================================================== *)
Section RoundTrip.
  Variables (Mmul Kmul solveM solveK : @dvec R -> @dvec R).
  (* solve operators: solveM is a left inverse of x |-> M x, solveK a right inverse of x |-> K x
     (both hold for the exact solves of invertible matrices); solveM respects pointwise equality *)
  Hypothesis solveM_left : forall x i, solveM (Mmul x) i = x i.
  Hypothesis solveK_right : forall y i, Kmul (solveK y) i = y i.
  Hypothesis solveM_ext : forall x y, (forall i, x i = y i) -> forall i, solveM x i = solveM y i.

  Theorem discrete_acc_roundtrip_gen : forall a i,
    discrete_acc_map Kmul solveM (integrator_acc Mmul solveK a) i = a i.
  Proof.
    intros a i. unfold discrete_acc_map, integrator_acc.
    rewrite (solveM_ext (Kmul (solveK (Mmul a))) (Mmul a) (solveK_right (Mmul a)) i).
    apply solveM_left.
  Qed.
End RoundTrip.

(* Euler with implicit damping: K = M + h diag(dd), written with the kernel's own per-dof expression *)
Theorem discrete_acc_roundtrip_euler :
  forall (Mmul solveM solveK : @dvec R -> @dvec R) (h : R) (dd : @dvec R),
    (forall x i, solveM (Mmul x) i = x i) ->
    (forall y i, Kmul_euler Mmul h dd (solveK y) i = y i) ->
    (forall x y, (forall i, x i = y i) -> forall i, solveM x i = solveM y i) ->
    forall a i,
      discrete_acc_map (Kmul_euler Mmul h dd) solveM (integrator_acc Mmul solveK a) i = a i.
Proof.
  intros Mmul solveM solveK h dd H1 H2 H3 a i.
  exact (discrete_acc_roundtrip_gen Mmul (Kmul_euler Mmul h dd) solveM solveK H1 H2 H3 a i).
Qed.

(* the per-dof meaning of K for Euler: (K x)_i = (M x)_i + h * dd_i * x_i *)
Lemma Kmul_euler_val : forall (Mmul : @dvec R -> @dvec R) h dd x i,
  Kmul_euler Mmul h dd x i = Mmul x i + h * dd i * x i.
Proof. intros. unfold Kmul_euler, eulerdamp_val. sR. reflexivity. Qed.

(* the hypotheses are satisfiable: diagonal inertia m_i > 0, damping derivative dd_i >= 0, h > 0 *)
Example roundtrip_hypotheses_satisfiable :
  forall (m dd : @dvec R) (h : R), (forall i, 0 < m i) -> (forall i, 0 <= dd i) -> 0 < h ->
  let Mmul := fun (x : @dvec R) i => m i * x i in
  let solveM := fun (y : @dvec R) i => y i / m i in
  let solveK := fun (y : @dvec R) i => y i / (m i + h * dd i) in
  (forall x i, solveM (Mmul x) i = x i) /\
  (forall y i, Kmul_euler Mmul h dd (solveK y) i = y i) /\
  (forall x y, (forall i, x i = y i) -> forall i, solveM x i = solveM y i).
Proof.
  intros m dd h Hm Hd Hh Mmul solveM solveK. repeat split.
  - intros x i. unfold solveM, Mmul. field. pose proof (Hm i). lra.
  - intros y i. rewrite Kmul_euler_val. unfold Mmul, solveK.
    assert (0 < m i + h * dd i).
    { pose proof (Hm i). pose proof (Hd i). assert (0 <= h * dd i) by (apply Rmult_le_pos; lra). lra. }
    field. lra.
  - intros x y E i. unfold solveM. rewrite E. reflexivity.
Qed.

(* when the integrator does NOT modify the acceleration but discrete_acc still applies its map (the
   guard mismatch below), the round trip fails for every dof with non-zero damping derivative: *)
Theorem discrete_acc_without_integrator_map :
  forall (m dd a : @dvec R) (h : R) i, 0 < m i ->
  let Mmul := fun (x : @dvec R) j => m j * x j in
  let solveM := fun (y : @dvec R) j => y j / m j in
  discrete_acc_map (Kmul_euler Mmul h dd) solveM a i = a i + h * dd i * a i / m i.
Proof.
  intros m dd a h i Hm Mmul solveM. unfold discrete_acc_map. unfold solveM at 1.
  rewrite Kmul_euler_val. unfold Mmul. field. lra.
Qed.

Local Close Scope R_scope.

(* ====================================================================================== *)
(* S facts                                                                                   *)
(* ====================================================================================== *)
Lemma inverse_stages_ok : inverse_stages = inverse_stages_expected.
Proof. vm_compute. reflexivity. Qed.

Lemma inverse_tail_ok : list_eqb stmt_eqb inverse_tail inverse_tail_expected = true.
Proof. vm_compute. reflexivity. Qed.

Lemma inverse_wellformed_ok :
  inverse_wellformed pv_inv_cont = true /\ inverse_wellformed pv_inv_disc_euler = true.
Proof. split; vm_compute; reflexivity. Qed.

(* inverse() writes no integration-state field except d.history (delayed sensors: the C37 finding) *)
Lemma inverse_state_disjoint :
  inter_nil state_minus_history (flat_map ev_writes (inverse_events pv_inv_cont)) = true /\
  inter_nil state_minus_history (flat_map ev_writes (inverse_events pv_inv_disc_euler)) = true.
Proof. split; vm_compute; reflexivity. Qed.

Theorem inverse_state_frame_except_history :
  forall (V : Type) (I : event -> store V -> store V) (v : string -> bool),
    respects V I ->
    forall pv, In pv [pv_inv_cont; pv_inv_disc_euler] ->
    forall s f, In f state_fields -> f <> "d.history" ->
      run V I v (inverse_events pv) s f = s f.
Proof.
  intros V I v HR pv Hpv s f Hf Hn.
  assert (D : inter_nil state_minus_history (flat_map ev_writes (inverse_events pv)) = true).
  { destruct Hpv as [<- | [<- | []]]; [exact (proj1 inverse_state_disjoint) | exact (proj2 inverse_state_disjoint)]. }
  apply (run_frame_fields V I v HR _ _ D s f).
  unfold state_minus_history. apply filter_In. split; [exact Hf|].
  apply negb_true_iff. apply String.eqb_neq. exact Hn.
Qed.

(* with INVDISCRETE off, inverse() does not write d.qacc at all; with it on, the writers are the linear
   solves of discrete_acc and the final restoring copy *)
Lemma inverse_qacc_writers :
  dedup (flat_map (writers "d.qacc") (inverse_events pv_inv_cont)) = nil /\
  mem "copy" (dedup (flat_map (writers "d.qacc") (inverse_events pv_inv_disc_euler))) = true.
Proof. split; vm_compute; reflexivity. Qed.

(* ---- discrete_guard_agree ---------------------------------------------------------------------- *)
Lemma guards_found :
  euler_guard = "not m.opt.disableflags & (DisableBit.EULERDAMP | DisableBit.DAMPER)" /\
  discrete_guards = ["m.opt.disableflags & DisableBit.EULERDAMP"] /\
  implicit_guard = "~(m.opt.disableflags | ~(DisableBit.ACTUATION | DisableBit.SPRING | DisableBit.DAMPER))".
Proof. vm_compute. repeat split. Qed.

(* the guards agree whenever DAMPER is not disabled, and whenever EULERDAMP is disabled *)
Theorem discrete_guard_agree_partial :
  (forall e, euler_modifies e false = discrete_inverts e false /\ euler_modifies e false <> None) /\
  (forall d, euler_modifies true d = discrete_inverts true d /\ euler_modifies true d <> None).
Proof.
  split; intros [|]; split; try (vm_compute; reflexivity); vm_compute; discriminate.
Qed.

(* they DISAGREE for EULERDAMP enabled (bit clear) and DAMPER disabled (bit set): euler() then advances
   with d.qacc unchanged, while discrete_acc still applies  qacc |-> M^-1 (M + h diag(dd)) qacc *)
Theorem discrete_guard_agree_refuted :
  exists e d, euler_modifies e d = Some false /\ discrete_inverts e d = Some true.
Proof. exists false, true. split; vm_compute; reflexivity. Qed.
