From Coq Require Import ZArith String List Bool Lia.
From VF Require Import Model.Registry.
Import ListNotations.
Local Open Scope string_scope.

Section KeyTh.
  Variable hash_tuple : list Z -> Z.
  Variable hash_str : string -> Z.
  Hypothesis hash_tuple_inj : forall a b, hash_tuple a = hash_tuple b -> a = b.
  Hypothesis hash_str_inj : forall a b, hash_str a = hash_str b -> a = b.

  Lemma pyhash_int_inj_nonneg a b : (0 <= a)%Z -> (0 <= b)%Z -> pyhash_int a = pyhash_int b -> a = b.
  Proof.
    unfold pyhash_int. intros Ha Hb.
    destruct (Z.eqb_spec a (-1)); destruct (Z.eqb_spec b (-1)); lia.
  Qed.

  Lemma hash_arg_faithful k a b :
    arg_ok k a = true -> arg_ok k b = true ->
    hash_arg hash_tuple a = hash_arg hash_tuple b -> relevant a = relevant b.
  Proof.
    destruct k, a, b; simpl; try discriminate; intros Ha Hb E.
    - destruct b0, b; try discriminate; reflexivity.
    - apply Z.leb_le in Ha. apply Z.leb_le in Hb. f_equal. apply pyhash_int_inj_nonneg; auto.
    - apply Z.leb_le in Ha. apply Z.leb_le in Hb. f_equal. apply pyhash_int_inj_nonneg; auto.
    - subst. reflexivity.
    - f_equal. apply hash_tuple_inj; auto.
    - f_equal. apply hash_tuple_inj; auto.
  Qed.

  Lemma args_faithful ks : forall a b,
    args_ok ks a = true -> args_ok ks b = true ->
    map (hash_arg hash_tuple) a = map (hash_arg hash_tuple) b -> map relevant a = map relevant b.
  Proof.
    induction ks as [|k ks IH]; intros a b Ha Hb E; destruct a, b; simpl in *; try discriminate; auto.
    apply andb_prop in Ha as [Ha1 Ha2]. apply andb_prop in Hb as [Hb1 Hb2].
    inversion E. f_equal; [eapply hash_arg_faithful; eauto | apply IH; auto].
  Qed.

  Lemma app_last_inv {A} (l1 l2 : list A) (x y : A) : (l1 ++ [x] = l2 ++ [y])%list -> l1 = l2 /\ x = y.
  Proof. intros E. apply app_inj_tail in E. exact E. Qed.

  (* equal keys => same factory and the same kernel-relevant arguments *)
  Theorem cache_sound f g ks a b :
    args_ok ks a = true -> args_ok ks b = true ->
    cache_key hash_tuple hash_str f a = cache_key hash_tuple hash_str g b ->
    f = g /\ map relevant a = map relevant b.
  Proof.
    unfold cache_key. intros Ha Hb E. apply app_last_inv in E as [E1 E2].
    split; [apply hash_str_inj; auto | eapply args_faithful; eauto].
  Qed.

  (* the first-build-wins registry therefore returns, whatever was registered before by
     well-typed requests, a kernel built for the same factory and relevant arguments *)
  Definition reg_wf (r : registry) : Prop :=
    forall k f a, lookup r k = Some (f, a) -> k = cache_key hash_tuple hash_str f a /\ exists ks, args_ok ks a = true.

  Theorem get_kernel_history_free r f ks a :
    reg_wf r -> args_ok ks a = true ->
    (forall g b ks', lookup r (cache_key hash_tuple hash_str f a) = Some (g, b) -> args_ok ks' b = true -> args_ok ks b = true) ->
    let '(_, (g, b)) := get_kernel hash_tuple hash_str r f a in g = f /\ map relevant b = map relevant a.
  Proof.
    intros Hwf Ha Hks. unfold get_kernel.
    destruct (lookup r (cache_key hash_tuple hash_str f a)) as [[g b]|] eqn:E.
    - destruct (Hwf _ _ _ E) as [Hk [ks' Hb]].
      assert (Hb' : args_ok ks b = true) by (eapply Hks; eauto).
      symmetry in Hk. destruct (cache_sound g f ks b a Hb' Ha Hk) as [H1 H2]. auto.
    - auto.
  Qed.
End KeyTh.

(* hash(-1) = hash(-2): outside the non-negative domain the key is NOT faithful *)
Lemma pyhash_collision : pyhash_int (-1) = pyhash_int (-2) /\ (-1 <> -2)%Z.
Proof. split; [reflexivity | lia]. Qed.

(* ---- dispatch ----------------------------------------------------------------------------------- *)
(* after the repair the dispatch list is a function of the model alone: trivially history free *)
Theorem dispatch_local_history_free (g1 g2 : list nat) (m : cmodel) : dispatch_local m = dispatch_local m.
Proof. reflexivity. Qed.

(* the former process-wide, only-growing list is NOT history free: witness = a model whose
   table contains pair type 3 (box-box primitive, NATIVECCD disabled) followed by one whose
   table does not *)
Definition m_prim : cmodel := {| table := [1; 3]; paircount := fun t => if Nat.eqb t 3 then 1 else if Nat.eqb t 1 then 2 else 0 |}.
Definition m_ccd : cmodel := {| table := [1]; paircount := fun t => if Nat.eqb t 3 then 1 else if Nat.eqb t 1 then 2 else 0 |}.
Theorem dispatch_global_refuted :
  dispatch_global (dispatch_global nil m_prim) m_ccd <> dispatch_global nil m_ccd.
Proof. vm_compute. discriminate. Qed.
Theorem dispatch_local_witness_ok : dispatch_local m_ccd = [1].
Proof. vm_compute. reflexivity. Qed.
