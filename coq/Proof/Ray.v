(* Proof/Ray.v -- C34 "Ray casting returns the nearest eligible hit" and C35 "Rendered depth and
   segmentation match ray casting": lemmas over the reals about
     * the hand models of Model/Ray.v (kernels _ray / _ray_bvh, render's per-pixel code), and
     * the definitions REGENERATED from /repo/mujoco_warp/_src/ray.py (Gen/T_ray.v) and
       render_util.py (Gen/T_render_util.v): _ray_quad, ray_sphere, ray_plane, _ray_eliminate,
       _ray_geom_mesh, compute_ray, _build_rays.
   Float32 rounding is not modelled (theorems are over R); the tie to the running code is the
   T-validation / kernel correspondence of bin/props/C34.py and C35.py. *)
From Coq Require Import ZArith Reals List Bool Lra Lia Psatz String.
From VF Require Import Base.Scalar Base.ScalarR Base.Vec Base.Loop Base.Kernel Model.Ray Gen.T_bvh Gen.T_ray Gen.T_render_util.
Import ListNotations.
Local Open Scope R_scope.



(* ======================================================================== part 1 *)
(* ------------------------------------------------------------------ nearest-hit folds *)
Definition MAXV : R := 10000000000.
Lemma MAXVAL_R : @MAXVAL R ScalarR = MAXV.
Proof. reflexivity. Qed.

Definition gdT := (Z -> R * list R)%type.
Definition dof (gd : gdT) (g : Z) : R := fst (gd g).
(* a geom counts iff its distance is a hit (>= 0) below the MJ_MAXVAL sentinel *)
Definition elig (gd : gdT) (g : Z) : Prop := 0 <= dof gd g < MAXV.

Definition accR := (R * Z * list R)%type.

(* the accumulator is "no hit so far" over the visited geoms V *)
Definition no_hit (gd : gdT) (V : list Z) (a : accR) : Prop :=
  a = @racc0 R ScalarR /\ forall g, In g V -> ~ elig gd g.
(* the accumulator holds the FIRST geom of V attaining the minimum eligible distance *)
Definition first_min (gd : gdT) (V : list Z) (a : accR) : Prop :=
  exists l1 l2, V = l1 ++ ageom a :: l2 /\ elig gd (ageom a) /\
    adist a = dof gd (ageom a) /\ anormal a = snd (gd (ageom a)) /\
    (forall g, In g l1 -> elig gd g -> adist a < dof gd g) /\
    (forall g, In g l2 -> elig gd g -> adist a <= dof gd g).
Definition nearest_spec (gd : gdT) (V : list Z) (a : accR) : Prop :=
  no_hit gd V a \/ first_min gd V a.

Lemma first_min_le gd V a : first_min gd V a -> forall g, In g V -> elig gd g -> adist a <= dof gd g.
Proof.
  intros (l1 & l2 & -> & He & Hd & _ & H1 & H2) g Hin Hg.
  apply in_app_or in Hin. destruct Hin as [Hin | [<- | Hin]].
  - left. now apply H1.
  - rewrite Hd. right; reflexivity.
  - now apply H2.
Qed.

Ltac bR := cbv [ray_step bvh_step neg_step clampd adist ageom anormal racc0 neg1 MAXVAL zero3 fst snd] in *; sR.

Lemma ray_step_spec gd V a g :
  nearest_spec gd V a -> nearest_spec gd (V ++ [g]) (ray_step gd a g).
Proof.
  intros [[-> Hn] | Hf].
  - (* nothing hit so far *)
    unfold ray_step, clampd. cbn [adist racc0 fst].
    change (@sltb R ScalarR) with Rltb. change (@s0 R ScalarR) with 0. rewrite MAXVAL_R.
    destruct (Rltb (fst (gd g)) 0) eqn:E0.
    + apply Rltb_true in E0.
      destruct (Rltb MAXV MAXV) eqn:E1; [apply Rltb_true in E1; lra|].
      left. split; [reflexivity|]. intros g' Hin. apply in_app_or in Hin. destruct Hin as [Hin|[<-|[]]].
      * now apply Hn. * unfold elig, dof. lra.
    + apply Rltb_false in E0.
      destruct (Rltb (fst (gd g)) MAXV) eqn:E1.
      * apply Rltb_true in E1. right. exists V, []. cbn [ageom adist anormal fst snd].
        repeat split; try reflexivity; unfold elig, dof in *; try lra.
        -- intros g' Hin Hg'. exfalso. exact (Hn g' Hin Hg').
        -- intros g' [].
      * apply Rltb_false in E1. left. split; [reflexivity|].
        intros g' Hin. apply in_app_or in Hin. destruct Hin as [Hin|[<-|[]]].
        -- now apply Hn. -- unfold elig, dof. lra.
  - pose proof (first_min_le gd V a Hf) as Hle.
    destruct Hf as (l1 & l2 & HV & He & Hd & Hnm & H1 & H2).
    unfold ray_step, clampd.
    change (@sltb R ScalarR) with Rltb. change (@s0 R ScalarR) with 0. rewrite MAXVAL_R.
    unfold elig in He. rewrite <- Hd in He.
    destruct (Rltb (fst (gd g)) 0) eqn:E0.
    + apply Rltb_true in E0.
      destruct (Rltb MAXV (adist a)) eqn:E1; [apply Rltb_true in E1; lra|].
      right. exists l1, (l2 ++ [g]). rewrite HV, <- app_assoc. cbn [app].
      repeat split; try assumption; try (unfold elig; rewrite <- Hd; lra).
      intros g' Hin Hg'. apply in_app_or in Hin. destruct Hin as [Hin|[<-|[]]].
      * now apply H2. * unfold elig, dof in Hg'. lra.
    + apply Rltb_false in E0.
      destruct (Rltb (fst (gd g)) (adist a)) eqn:E1.
      * apply Rltb_true in E1. right. exists V, []. cbn [ageom adist anormal fst snd].
        repeat split; try reflexivity; unfold elig, dof in *; try lra.
        -- intros g' Hin Hg'. specialize (Hle g' Hin Hg'). unfold dof in Hle. lra.
        -- intros g' [].
      * apply Rltb_false in E1.
        right. exists l1, (l2 ++ [g]). rewrite HV, <- app_assoc. cbn [app].
        repeat split; try assumption; try (unfold elig; rewrite <- Hd; lra).
        intros g' Hin Hg'. apply in_app_or in Hin. destruct Hin as [Hin|[<-|[]]].
        -- now apply H2. -- unfold dof. lra.
Qed.

Lemma fold_spec (step : accR -> Z -> accR) gd :
  (forall V a g, nearest_spec gd V a -> nearest_spec gd (V ++ [g]) (step a g)) ->
  forall l V a, nearest_spec gd V a -> nearest_spec gd (V ++ l) (fold_left step l a).
Proof.
  intros Hs l. induction l as [|g l IH]; intros V a Ha; cbn [fold_left].
  - now rewrite app_nil_r.
  - replace (V ++ g :: l) with ((V ++ [g]) ++ l) by (rewrite <- app_assoc; reflexivity).
    apply IH. now apply Hs.
Qed.

Lemma spec_init gd : nearest_spec gd [] (@racc0 R ScalarR).
Proof. left. split; [reflexivity | intros g []]. Qed.

(* invariant: the running minimum never exceeds the sentinel *)
Lemma spec_le_max gd V a : nearest_spec gd V a -> adist a <= MAXV.
Proof.
  intros [[-> _] | (l1 & l2 & _ & He & Hd & _)].
  - cbn. unfold MAXV. lra.
  - unfold elig in He. rewrite Hd. lra.
Qed.

(* _ray_bvh's update rule coincides with _ray's whenever the running minimum is <= MJ_MAXVAL *)
Lemma bvh_step_eq_ray_step gd a g : adist a <= MAXV -> bvh_step gd a g = ray_step gd a g.
Proof.
  intros Ha. unfold bvh_step, ray_step, clampd.
  change (@sltb R ScalarR) with Rltb. change (@sgeb R ScalarR) with (fun a b => Rleb b a).
  change (@s0 R ScalarR) with 0. rewrite MAXVAL_R. cbv beta.
  destruct (Rltb (fst (gd g)) 0) eqn:E0.
  - apply Rltb_true in E0. destruct (Rleb 0 (fst (gd g))) eqn:E1; [apply Rleb_true in E1; lra|].
    cbn [andb]. destruct (Rltb MAXV (adist a)) eqn:E2; [apply Rltb_true in E2; lra | reflexivity].
  - apply Rltb_false in E0. destruct (Rleb 0 (fst (gd g))) eqn:E1; [|apply Rleb_false in E1; lra].
    cbn [andb]. reflexivity.
Qed.

Lemma bvh_step_spec gd V a g :
  nearest_spec gd V a -> nearest_spec gd (V ++ [g]) (bvh_step gd a g).
Proof.
  intros Ha. rewrite bvh_step_eq_ray_step by (eapply spec_le_max; eauto). now apply ray_step_spec.
Qed.

Theorem ray_loop_spec gd n : nearest_spec gd (zrange n) (ray_loop gd n).
Proof. unfold ray_loop. apply (fold_spec _ gd (ray_step_spec gd) (zrange n) [] _ (spec_init gd)). Qed.

Theorem bvh_loop_spec gd order : nearest_spec gd order (bvh_loop gd order).
Proof. unfold bvh_loop. apply (fold_spec _ gd (bvh_step_spec gd) order [] _ (spec_init gd)). Qed.


(* ======================================================================== part 2 *)
Lemma in_zrange n g : In g (zrange n) <-> (0 <= g < n)%Z.
Proof.
  unfold zrange. rewrite in_map_iff. split.
  - intros (k & <- & Hk). apply in_seq in Hk. lia.
  - intros Hg. exists (Z.to_nat g). split; [lia|]. apply in_seq. lia.
Qed.

Lemma zrange_split_lt : forall k a l1 x l2,
  map Z.of_nat (seq a k) = l1 ++ x :: l2 -> forall y, In y l2 -> (x < y)%Z.
Proof.
  induction k as [|k IH]; intros a l1 x l2 Heq y Hy; cbn in Heq.
  - destruct l1; discriminate.
  - destruct l1 as [|z l1]; cbn in Heq; injection Heq as Hx Hr.
    + subst x l2. apply in_map_iff in Hy. destruct Hy as (m & <- & Hm). apply in_seq in Hm. lia.
    + eapply IH; eauto.
Qed.

Definition zero3R : list R := [0; 0; 0].
Lemma zero3_R : @zero3 R ScalarR = zero3R. Proof. reflexivity. Qed.

Lemma ray_result_nohit : ray_result (@racc0 R ScalarR) = (-1, (-1)%Z, zero3R).
Proof.
  unfold ray_result, racc0. cbn [adist ageom anormal fst snd].
  change (@sgeb R ScalarR) with (fun a b => Rleb b a). cbv beta.
  destruct (Rleb MAXVAL MAXVAL) eqn:E; [|apply Rleb_false in E; lra].
  unfold neg1. sR. replace (- (1)) with (-1) by lra. reflexivity.
Qed.

Lemma ray_result_hit (a : accR) : adist a < MAXV -> ray_result a = (adist a, ageom a, anormal a).
Proof.
  intros Ha. unfold ray_result. change (@sgeb R ScalarR) with (fun a b => Rleb b a). cbv beta.
  rewrite MAXVAL_R. destruct (Rleb MAXV (adist a)) eqn:E; [apply Rleb_true in E; lra | reflexivity].
Qed.

(* ---- C34 nearest_fold: kernel _ray (block of one lane, the CPU schedule) *)
Theorem nearest_fold (gd : gdT) (n : Z) :
  let '(dist, geom, normal) := ray_kernel gd n in
  ((forall g, (0 <= g < n)%Z -> ~ elig gd g) /\ dist = -1 /\ geom = (-1)%Z /\ normal = zero3R)
  \/
  ((0 <= geom < n)%Z /\ elig gd geom /\ dist = dof gd geom /\ normal = snd (gd geom) /\
   (forall g, (0 <= g < n)%Z -> elig gd g -> dist <= dof gd g) /\
   (forall g, (0 <= g < n)%Z -> elig gd g -> dof gd g = dist -> (geom <= g)%Z)).
Proof.
  unfold ray_kernel. pose proof (ray_loop_spec gd n) as Hs.
  destruct Hs as [[Ha Hn] | Hf].
  - rewrite Ha, ray_result_nohit. left. repeat split; try reflexivity.
    intros g Hg. apply Hn. now apply in_zrange.
  - pose proof (first_min_le _ _ _ Hf) as Hle.
    destruct Hf as (l1 & l2 & HV & He & Hd & Hnm & H1 & H2).
    rewrite ray_result_hit by (unfold elig in He; rewrite Hd; lra).
    right. repeat split; try assumption; try (unfold elig in He; lra).
    + assert (In (ageom (ray_loop gd n)) (zrange n)) by (rewrite HV; apply in_or_app; right; left; reflexivity).
      apply in_zrange in H. lia.
    + assert (In (ageom (ray_loop gd n)) (zrange n)) by (rewrite HV; apply in_or_app; right; left; reflexivity).
      apply in_zrange in H. lia.
    + intros g Hg Hel. apply Hle; [now apply in_zrange | assumption].
    + intros g Hg Hel Heq.
      assert (Hin : In g (zrange n)) by now apply in_zrange.
      rewrite HV in Hin. apply in_app_or in Hin. destruct Hin as [Hin | [<- | Hin]].
      * specialize (H1 g Hin Hel). lra.
      * lia.
      * unfold zrange in HV. pose proof (zrange_split_lt _ _ _ _ _ HV g Hin). lia.
Qed.

(* ---- _ray_bvh / cast_ray: same minimum for ANY visiting order; the geom is the first one
        in visiting order attaining it *)
Theorem nearest_fold_bvh (gd : gdT) (order : list Z) :
  let '(dist, geom, normal) := ray_bvh_kernel gd order in
  ((forall g, In g order -> ~ elig gd g) /\ dist = -1 /\ geom = (-1)%Z /\ normal = zero3R)
  \/
  (In geom order /\ elig gd geom /\ dist = dof gd geom /\ normal = snd (gd geom) /\
   (forall g, In g order -> elig gd g -> dist <= dof gd g)).
Proof.
  unfold ray_bvh_kernel. pose proof (bvh_loop_spec gd order) as Hs.
  destruct Hs as [[Ha Hn] | Hf].
  - rewrite Ha, ray_result_nohit. left. repeat split; try reflexivity. assumption.
  - pose proof (first_min_le _ _ _ Hf) as Hle.
    destruct Hf as (l1 & l2 & HV & He & Hd & Hnm & H1 & H2).
    rewrite ray_result_hit by (unfold elig in He; rewrite Hd; lra).
    right. repeat split; try assumption; try (unfold elig in He; lra).
    rewrite HV at 2. apply in_or_app; right; left; reflexivity.
Qed.

(* the distance returned is determined by the SET of geoms visited *)
Lemma spec_dist_unique gd V V' (a a' : accR) :
  (forall g, In g V <-> In g V') -> nearest_spec gd V a -> nearest_spec gd V' a' -> adist a = adist a'.
Proof.
  intros Hiff [[-> Hn] | Hf] [[-> Hn'] | Hf']; try reflexivity.
  - destruct Hf' as (l1 & l2 & HV & He & _). exfalso. apply (Hn (ageom a')); [|assumption].
    apply Hiff. rewrite HV. apply in_or_app; right; left; reflexivity.
  - destruct Hf as (l1 & l2 & HV & He & _). exfalso. apply (Hn' (ageom a)); [|assumption].
    apply Hiff. rewrite HV. apply in_or_app; right; left; reflexivity.
  - pose proof (first_min_le _ _ _ Hf) as Hle. pose proof (first_min_le _ _ _ Hf') as Hle'.
    destruct Hf as (l1 & l2 & HV & He & Hd & _). destruct Hf' as (l1' & l2' & HV' & He' & Hd' & _).
    assert (In (ageom a) V') by (apply Hiff; rewrite HV; apply in_or_app; right; left; reflexivity).
    assert (In (ageom a') V) by (apply Hiff; rewrite HV'; apply in_or_app; right; left; reflexivity).
    specialize (Hle _ H0 He'). specialize (Hle' _ H He). lra.
Qed.

(* brute force and BVH order agree on the distance when they visit the same geoms; if the
   minimiser is unique they agree on geom and normal as well *)
Theorem order_independent_dist gd n order :
  (forall g, In g order <-> (0 <= g < n)%Z) ->
  fst (fst (ray_bvh_kernel gd order)) = fst (fst (ray_kernel gd n)).
Proof.
  intros Hiff. unfold ray_bvh_kernel, ray_kernel.
  pose proof (bvh_loop_spec gd order) as H1. pose proof (ray_loop_spec gd n) as H2.
  assert (Heq : adist (bvh_loop gd order) = adist (ray_loop gd n)).
  { eapply spec_dist_unique; eauto. intros g. rewrite Hiff. symmetry. apply in_zrange. }
  unfold ray_result. rewrite Heq. reflexivity.
Qed.

(* ---- mj_ray's rule (x = -1; sol >= 0 and (x < 0 or sol < x)) gives the same triple as _ray's
        MJ_MAXVAL rule provided no hit distance reaches the sentinel *)
Lemma neg_loop_rel gd l : (forall g, In g l -> dof gd g < MAXV) ->
  forall (a b : accR),
  ((a = racc0 /\ b = (-1, (-1)%Z, zero3R)) \/ (a = b /\ 0 <= adist a < MAXV)) ->
  let a' := fold_left (ray_step gd) l a in let b' := fold_left (neg_step gd) l b in
  ((a' = racc0 /\ b' = (-1, (-1)%Z, zero3R)) \/ (a' = b' /\ 0 <= adist a' < MAXV)).
Proof.
  induction l as [|g l IH]; intros Hb a b Hab; cbn [fold_left]; [assumption|].
  apply IH; [intros; apply Hb; now right|].
  specialize (Hb g (or_introl eq_refl)). unfold dof in Hb.
  unfold ray_step, neg_step, clampd.
  change (@sltb R ScalarR) with Rltb. change (@sgeb R ScalarR) with (fun a b => Rleb b a).
  change (@s0 R ScalarR) with 0. rewrite MAXVAL_R. cbv beta.
  destruct Hab as [[-> ->] | [<- Ha]].
  - cbn [adist racc0 fst]. rewrite MAXVAL_R.
    destruct (Rltb (fst (gd g)) 0) eqn:E0.
    + apply Rltb_true in E0. destruct (Rleb 0 (fst (gd g))) eqn:E1; [apply Rleb_true in E1; lra|].
      destruct (Rltb MAXV MAXV) eqn:E2; [apply Rltb_true in E2; lra|]. left. split; reflexivity.
    + apply Rltb_false in E0. destruct (Rleb 0 (fst (gd g))) eqn:E1; [|apply Rleb_false in E1; lra].
      destruct (Rltb (fst (gd g)) MAXV) eqn:E2; [|apply Rltb_false in E2; lra].
      destruct (Rltb (-1) 0) eqn:E3; [|apply Rltb_false in E3; lra].
      cbn [andb orb]. right. split; [reflexivity|]. cbn. lra.
  - destruct (Rltb (fst (gd g)) 0) eqn:E0.
    + apply Rltb_true in E0. destruct (Rleb 0 (fst (gd g))) eqn:E1; [apply Rleb_true in E1; lra|].
      destruct (Rltb MAXV (adist a)) eqn:E2; [apply Rltb_true in E2; lra|]. cbn [andb]. right. split; [reflexivity|assumption].
    + apply Rltb_false in E0. destruct (Rleb 0 (fst (gd g))) eqn:E1; [|apply Rleb_false in E1; lra].
      destruct (Rltb (adist a) 0) eqn:E3; [apply Rltb_true in E3; lra|]. cbn [andb orb].
      destruct (Rltb (fst (gd g)) (adist a)) eqn:E2.
      * apply Rltb_true in E2. right. split; [reflexivity|]. cbn. lra.
      * right. split; [reflexivity|assumption].
Qed.

Theorem ray_kernel_eq_mj_rule gd n :
  (forall g, (0 <= g < n)%Z -> dof gd g < MAXV) -> ray_kernel gd n = neg_loop gd n.
Proof.
  intros Hb. unfold ray_kernel, ray_loop, neg_loop.
  pose proof (neg_loop_rel gd (zrange n) (fun g Hg => Hb g (proj1 (in_zrange n g) Hg)) racc0 (-1, (-1)%Z, zero3R)) as H.
  cbv zeta in H. change (@neg1 R ScalarR) with (-1). change (@zero3 R ScalarR) with zero3R.
  destruct H as [[-> ->] | [<- Ha]].
  - left. split; reflexivity.
  - apply ray_result_nohit.
  - rewrite ray_result_hit by lra.
    destruct (fold_left (ray_step gd) (zrange n) racc0) as [[d0 g0] n0]. reflexivity.
Qed.


(* ======================================================================== part 3 *)
(* ------------------------------------------------------------------ abstract BVH traversal *)
(* order-free invariant: the accumulator is a minimiser over the geoms accounted for so far *)
Definition best_spec (gd : gdT) (V : list Z) (a : accR) : Prop :=
  (a = @racc0 R ScalarR /\ forall g, In g V -> ~ elig gd g)
  \/ (In (ageom a) V /\ elig gd (ageom a) /\ adist a = dof gd (ageom a) /\ anormal a = snd (gd (ageom a)) /\
      forall g, In g V -> elig gd g -> adist a <= dof gd g).

Lemma best_spec_ext gd V V' a : (forall g, In g V <-> In g V') -> best_spec gd V a -> best_spec gd V' a.
Proof.
  intros Hiff [[-> Hn] | (Hi & He & Hd & Hnm & Hle)].
  - left. split; [reflexivity|]. intros g Hg. apply Hn. now apply Hiff.
  - right. split; [now apply Hiff|]. split; [assumption|]. split; [assumption|]. split; [assumption|].
    intros g Hg. apply Hle. now apply Hiff.
Qed.

Lemma nearest_spec_best gd V a : nearest_spec gd V a -> best_spec gd V a.
Proof.
  intros [Hn | Hf]; [left; exact Hn|]. pose proof (first_min_le _ _ _ Hf) as Hle.
  destruct Hf as (l1 & l2 & HV & He & Hd & Hnm & _). right.
  split; [rewrite HV; apply in_or_app; right; left; reflexivity|]. repeat (split; [assumption|]). assumption.
Qed.

Lemma best_le_max gd V a : best_spec gd V a -> adist a <= MAXV.
Proof.
  intros [[-> _] | (_ & He & Hd & _)]. - cbn. unfold MAXV. lra. - unfold elig in He. rewrite Hd. lra.
Qed.

(* geoms that cannot improve the current best may be added to the accounted set for free *)
Lemma best_spec_skip gd V W a :
  best_spec gd V a -> (forall g, In g W -> 0 <= dof gd g -> adist a <= dof gd g) -> best_spec gd (V ++ W) a.
Proof.
  intros Hs HW. pose proof (best_le_max _ _ _ Hs) as Hmax. destruct Hs as [[-> Hn] | (Hi & He & Hd & Hnm & Hle)].
  - left. split; [reflexivity|]. intros g Hg. apply in_app_or in Hg. destruct Hg as [Hg|Hg]; [now apply Hn|].
    intros [H0 H1]. specialize (HW g Hg H0). cbn in HW. unfold MAXV in *. lra.
  - right. split; [apply in_or_app; now left|]. repeat (split; [assumption|]).
    intros g Hg Hel. apply in_app_or in Hg. destruct Hg as [Hg|Hg]; [now apply Hle|]. apply HW; [assumption|apply Hel].
Qed.

Lemma bvh_step_best gd V a g : best_spec gd V a -> best_spec gd (V ++ [g]) (bvh_step gd a g).
Proof.
  intros Hs. pose proof (best_le_max _ _ _ Hs) as Hmax.
  unfold bvh_step. change (@sltb R ScalarR) with Rltb. change (@sgeb R ScalarR) with (fun a b => Rleb b a).
  change (@s0 R ScalarR) with 0. cbv beta.
  destruct (Rleb 0 (fst (gd g))) eqn:E0; cbn [andb].
  - apply Rleb_true in E0. destruct (Rltb (fst (gd g)) (adist a)) eqn:E1.
    + apply Rltb_true in E1. right. cbn [ageom adist anormal fst snd].
      repeat split; try reflexivity; unfold elig, dof in *; try lra.
      * apply in_or_app; right; left; reflexivity.
      * intros g' Hg' Hel. apply in_app_or in Hg'. destruct Hg' as [Hg'|[<-|[]]]; [|lra].
        destruct Hs as [[-> Hn] | (_ & _ & _ & _ & Hle)]; [exfalso; exact (Hn g' Hg' Hel)|].
        specialize (Hle g' Hg' Hel). unfold dof in Hle. lra.
    + apply Rltb_false in E1. apply best_spec_skip; [assumption|]. intros g' [<-|[]] _. exact E1.
  - apply Rleb_false in E0. apply best_spec_skip; [assumption|]. intros g' [<-|[]] H0. unfold dof in H0. lra.
Qed.

Section BVH.
  Variable Box : Type.
  (* distance at which the ray enters a box; None: the ray misses it *)
  Variable entry : Box -> option R.
  Variables prune swap : Box -> R -> bool.
  Variable gd : gdT.

  (* a subtree is skipped only if its box is missed or entered no nearer than the current best *)
  Hypothesis prune_sound : forall b best, prune b best = true ->
    match entry b with None => True | Some e => best <= e end.

  (* boxes contain the geoms below them: a geom hit at distance d >= 0 lies in a box the ray
     enters at some e <= d (monotonicity of the entry distance) *)
  Fixpoint covers (t : bvh Box) : Prop :=
    match t with
    | BLeaf b g => 0 <= dof gd g -> exists e, entry b = Some e /\ e <= dof gd g
    | BNode b l r => covers l /\ covers r /\
        forall g, In g (bvh_leaves l ++ bvh_leaves r) -> 0 <= dof gd g -> exists e, entry b = Some e /\ e <= dof gd g
    end.

  Lemma pruned_ok b best (W : list Z) :
    prune b best = true ->
    (forall g, In g W -> 0 <= dof gd g -> exists e, entry b = Some e /\ e <= dof gd g) ->
    forall g, In g W -> 0 <= dof gd g -> best <= dof gd g.
  Proof.
    intros Hp Hc g Hg H0. destruct (Hc g Hg H0) as (e & He & Hle).
    specialize (prune_sound b best Hp). rewrite He in prune_sound. lra.
  Qed.

  Lemma bvh_trav_best : forall t V a, covers t -> best_spec gd V a ->
    best_spec gd (V ++ bvh_leaves t) (bvh_trav prune swap gd t a).
  Proof.
    induction t as [b g | b l IHl r IHr]; intros V a Hc Hs; cbn [bvh_trav bvh_leaves].
    - destruct (prune b (adist a)) eqn:Hp.
      + apply best_spec_skip; [assumption|]. apply (pruned_ok b (adist a) [g] Hp). intros g' [<-|[]]. exact Hc.
      + now apply bvh_step_best.
    - destruct Hc as (Hcl & Hcr & Hcb). destruct (prune b (adist a)) eqn:Hp.
      + apply best_spec_skip; [assumption|]. now apply (pruned_ok b (adist a) _ Hp).
      + destruct (swap b (adist a)).
        * eapply best_spec_ext; [| apply IHl; [assumption | apply IHr; eassumption]].
          intros g. rewrite !in_app_iff. tauto.
        * eapply best_spec_ext; [| apply IHr; [assumption | apply IHl; eassumption]].
          intros g. rewrite !in_app_iff. tauto.
  Qed.

  (* C34 bvh_equals_brute_partial *)
  Theorem bvh_equals_brute (t : bvh Box) (n : Z) :
    covers t -> (forall g, In g (bvh_leaves t) <-> (0 <= g < n)%Z) ->
    let r1 := ray_result (bvh_trav prune swap gd t racc0) in
    let r2 := ray_kernel gd n in
    fst (fst r1) = fst (fst r2) /\
    (snd (fst r1) = (-1)%Z <-> snd (fst r2) = (-1)%Z) /\
    (snd (fst r1) <> (-1)%Z ->
       (0 <= snd (fst r1) < n)%Z /\ elig gd (snd (fst r1)) /\
       dof gd (snd (fst r1)) = fst (fst r1) /\ snd r1 = snd (gd (snd (fst r1)))) /\
    ((forall g g', (0 <= g < n)%Z -> (0 <= g' < n)%Z -> elig gd g -> dof gd g = dof gd g' -> g = g') -> r1 = r2).
  Proof.
    intros Hc Hl.
    assert (H1 : best_spec gd (zrange n) (bvh_trav prune swap gd t racc0)).
    { eapply best_spec_ext; [| apply (bvh_trav_best t [] racc0 Hc)].
      - intros g. cbn [app]. rewrite Hl. symmetry. apply in_zrange.
      - left. split; [reflexivity | intros g []]. }
    pose proof (nearest_spec_best _ _ _ (ray_loop_spec gd n)) as H2.
    unfold ray_kernel. set (a1 := bvh_trav prune swap gd t racc0) in *. set (a2 := ray_loop gd n) in *.
    cbv zeta.
    destruct H1 as [[E1 Hn1] | (Hi1 & He1 & Hd1 & Hm1 & Hle1)]; destruct H2 as [[E2 Hn2] | (Hi2 & He2 & Hd2 & Hm2 & Hle2)].
    - rewrite E1, E2, ray_result_nohit. cbn [fst snd]. split; [reflexivity|]. split; [tauto|]. split; [intros Hx; now elim Hx | reflexivity].
    - exfalso. exact (Hn1 _ Hi2 He2).
    - exfalso. exact (Hn2 _ Hi1 He1).
    - assert (Hd : adist a1 = adist a2).
      { specialize (Hle1 _ Hi2 He2). specialize (Hle2 _ Hi1 He1). lra. }
      assert (L1 : adist a1 < MAXV) by (unfold elig in He1; lra).
      assert (L2 : adist a2 < MAXV) by (unfold elig in He2; lra).
      rewrite (ray_result_hit a1 L1), (ray_result_hit a2 L2). cbn [fst snd].
      apply in_zrange in Hi1, Hi2.
      split; [assumption|]. split; [split; intros Hx; rewrite Hx in *; lia|].
      split.
      + intros _. split; [assumption|]. split; [assumption|]. split; [symmetry; assumption | assumption].
      + intros Huniq. assert (Hg : ageom a1 = ageom a2).
        { apply Huniq; try assumption. rewrite <- Hd1, <- Hd2. assumption. }
        rewrite Hd, Hg, Hm1, Hm2, Hg. reflexivity.
  Qed.
End BVH.


(* ======================================================================== part 4 *)
(* ------------------------------------------------------------------ block-size independence *)
Definition pick (b x : accR) : accR := if Rltb (adist x) (adist b) then x else b.

Lemma pick_assoc a b c : pick (pick a b) c = pick a (pick b c).
Proof.
  unfold pick.
  destruct (Rltb (adist b) (adist a)) eqn:E1; destruct (Rltb (adist c) (adist b)) eqn:E2;
  rewrite ?E1, ?E2; try reflexivity;
  repeat match goal with H : Rltb _ _ = true |- _ => apply Rltb_true in H | H : Rltb _ _ = false |- _ => apply Rltb_false in H end.
  - destruct (Rltb (adist c) (adist a)) eqn:E3; [reflexivity | apply Rltb_false in E3; lra].
  - destruct (Rltb (adist c) (adist a)) eqn:E3; [apply Rltb_true in E3; lra | reflexivity].
Qed.

Lemma argmin_first_fold l best : argmin_first l best = fold_left pick l best.
Proof. revert best. induction l as [|x l IH]; intros best; cbn; [reflexivity | apply IH]. Qed.

Lemma fold_pick_shift : forall r x acc, fold_left pick r (pick acc x) = pick acc (fold_left pick r x).
Proof.
  induction r as [|y r IH]; intros x acc; cbn [fold_left]; [reflexivity|].
  rewrite pick_assoc. apply IH.
Qed.

Definition lanes (gd : gdT) (n : Z) (B : nat) (base : Z) : list accR :=
  map (fun k => lane gd n (base + Z.of_nat k)%Z) (seq 0 B).

Lemma tile_iter_fold gd n B acc base : tile_iter gd n B acc base = fold_left pick (lanes gd n B base) acc.
Proof.
  unfold tile_iter. fold (lanes gd n B base). destruct (lanes gd n B base) as [|x r]; [reflexivity|].
  cbn [fold_left]. rewrite argmin_first_fold, fold_pick_shift. reflexivity.
Qed.

Lemma fold_left_flat_map {A B} (f : A -> B -> A) (g : Z -> list B) (l : list Z) (a : A) :
  fold_left (fun acc x => fold_left f (g x) acc) l a = fold_left f (flat_map g l) a.
Proof.
  revert a. induction l as [|x l IH]; intros a; cbn; [reflexivity|]. rewrite fold_left_app. apply IH.
Qed.

Lemma seq_as_map a n : seq a n = map (Nat.add a) (seq 0 n).
Proof.
  revert a. induction n as [|n IH]; intros a; cbn; [reflexivity|].
  f_equal; [lia|]. rewrite (IH (S a)), (IH 1%nat), map_map. apply map_ext. intros; lia.
Qed.

Lemma lanes_flat gd n B m :
  flat_map (lanes gd n B) (map (fun i => (Z.of_nat i * Z.of_nat B)%Z) (seq 0 m))
  = map (fun k => lane gd n (Z.of_nat k)) (seq 0 (m * B)).
Proof.
  induction m as [|m IH]; [reflexivity|].
  rewrite seq_S, map_app, flat_map_app, IH. cbn [map flat_map]. rewrite app_nil_r.
  replace (S m * B)%nat with (m * B + B)%nat by lia. rewrite seq_app, map_app. apply f_equal.
  cbn [Nat.add]. unfold lanes. rewrite (seq_as_map (m * B) B), map_map.
  apply map_ext. intros k. apply f_equal. lia.
Qed.

Lemma pick_lane_step gd n (acc : accR) g : (g < n)%Z -> pick acc (lane gd n g) = ray_step gd acc g.
Proof.
  intros Hg. unfold pick, lane, ray_step. destruct (Z.ltb_spec g n); [|lia]. reflexivity.
Qed.

Lemma pick_lane_pad gd n (acc : accR) g : (n <= g)%Z -> adist acc <= MAXV -> pick acc (lane gd n g) = acc.
Proof.
  intros Hg Ha. unfold pick, lane. destruct (Z.ltb_spec g n); [lia|]. cbn [adist fst]. rewrite MAXVAL_R.
  destruct (Rltb MAXV (adist acc)) eqn:E; [apply Rltb_true in E; lra | reflexivity].
Qed.

Lemma fold_pad gd n : forall (l : list nat) acc, (forall k, In k l -> (n <= Z.of_nat k)%Z) -> adist acc <= MAXV ->
  fold_left pick (map (fun k => lane gd n (Z.of_nat k)) l) acc = acc.
Proof.
  induction l as [|k l IH]; intros acc Hl Ha; cbn; [reflexivity|].
  rewrite pick_lane_pad; [apply IH | apply Hl; now left | assumption]; [intros; apply Hl; now right | assumption].
Qed.

Lemma fold_real gd n : forall (l : list nat) acc, (forall k, In k l -> (Z.of_nat k < n)%Z) ->
  fold_left pick (map (fun k => lane gd n (Z.of_nat k)) l) acc = fold_left (ray_step gd) (map Z.of_nat l) acc.
Proof.
  induction l as [|k l IH]; intros acc Hl; cbn; [reflexivity|].
  rewrite pick_lane_step by (apply Hl; now left). apply IH. intros; apply Hl; now right.
Qed.

Lemma fold_left_ext {A B} (f g : A -> B -> A) : (forall a x, f a x = g a x) ->
  forall l a, fold_left f l a = fold_left g l a.
Proof. intros Hfg l. induction l as [|x l IH]; intros a; cbn; [reflexivity|]. rewrite Hfg. apply IH. Qed.

Lemma niter_covers n B : (0 < B)%nat -> (0 <= n)%Z -> (Z.to_nat n <= ray_niter n B * B)%nat.
Proof.
  intros HB Hn. unfold ray_niter.
  rewrite Z.quot_div_nonneg by lia.
  pose proof (Z.div_mod (n + Z.of_nat B - 1) (Z.of_nat B) ltac:(lia)) as Hdm.
  pose proof (Z.mod_pos_bound (n + Z.of_nat B - 1) (Z.of_nat B) ltac:(lia)) as Hmb.
  assert (0 <= (n + Z.of_nat B - 1) / Z.of_nat B)%Z by (apply Z.div_pos; lia).
  nia.
Qed.

(* C34: the result of _ray does not depend on the block size (wp.block_dim()) *)
Theorem ray_loop_tiled_eq gd n B : (0 < B)%nat -> (0 <= n)%Z -> ray_loop_tiled gd n B = ray_loop gd n.
Proof.
  intros HB Hn. unfold ray_loop_tiled.
  rewrite (fold_left_ext _ _ (tile_iter_fold gd n B)).
  rewrite (fold_left_flat_map pick (lanes gd n B)), lanes_flat.
  pose proof (niter_covers n B HB Hn) as Hc.
  set (N := Z.to_nat n) in *. set (M := (ray_niter n B * B)%nat) in *.
  replace M with (N + (M - N))%nat by lia. rewrite seq_app, map_app, fold_left_app.
  rewrite (fold_real gd n (seq 0 N)) by (intros k Hk; apply in_seq in Hk; unfold N in *; lia).
  fold (zrange n). fold (ray_loop gd n).
  apply fold_pad.
  - intros k Hk. apply in_seq in Hk. unfold N in *. lia.
  - eapply spec_le_max. apply ray_loop_spec.
Qed.


(* ======================================================================== part 5 *)
Ltac vsimp :=
  cbv [vget vset vset_nat vconst repeat vadd vsub vscale vscaler vdivs vneg vdot vdot_acc vlen vlen_sq vcross vmap2 map
       mat_vec mtranspose mrow mcol mget flat_map seq firstn skipn app
       nth Z.to_nat Pos.to_nat Pos.iter_op Nat.add Nat.mul Nat.eqb
       Z.add Z.mul Pos.add Pos.mul Pos.succ fst snd] in *;
  sR.

Definition EPS : R := 1 / 1000000000000000.     (* types.MJ_MINVAL = 1e-15 *)
Lemma EPS_pos : 0 < EPS. Proof. unfold EPS. lra. Qed.

Ltac rb :=
  repeat match goal with
  | H : Rltb _ _ = true |- _ => apply Rltb_true in H
  | H : Rltb _ _ = false |- _ => apply Rltb_false in H
  | H : Rleb _ _ = true |- _ => apply Rleb_true in H
  | H : Rleb _ _ = false |- _ => apply Rleb_false in H
  | H : Reqb _ _ = true |- _ => apply Reqb_true in H
  | H : Reqb _ _ = false |- _ => apply Reqb_false in H
  end.

(* ---- _ray_quad: a x^2 + 2 b x + c = 0 *)
Definition quad (a b c t : R) : R := a * t * t + 2 * b * t + c.

Lemma ray_quad_spec (a b c : R) : 0 <= a -> (a = 0 -> b = 0) ->
  let x := fst (_ray_quad a b c) in
  (x = -1 /\ (b * b - a * c < EPS \/ forall t, 0 <= t -> quad a b c t <> 0))
  \/ (0 <= x /\ EPS <= b * b - a * c /\ quad a b c x = 0 /\ forall t, 0 <= t -> quad a b c t = 0 -> x <= t).
Proof.
  intros Ha Hab. unfold _ray_quad, safe_div__S_S. sR.
  fold EPS.
  destruct (Rltb (b * b - a * c) EPS) eqn:Ed.
  - rb. left. cbn [fst]. split; [lra | now left].
  - rb. pose proof EPS_pos as He.
    assert (Hap : 0 < a).
    { destruct (Req_dec a 0) as [Ha0 | Ha0]; [| lra]. rewrite Ha0, (Hab Ha0) in Ed. lra. }
    destruct (Reqb a 0) eqn:Ea; [rb; lra|]. cbn [negb].
    set (s := sqrt (b * b - a * c)).
    assert (Hs : s * s = b * b - a * c) by (apply sqrt_sqrt; lra).
    assert (Hs0 : 0 <= s) by apply sqrt_pos.
    set (x0 := (- b - s) * (1 / a)). set (x1 := (- b + s) * (1 / a)).
    assert (H0 : a * x0 = - b - s) by (unfold x0; field; lra).
    assert (H1 : a * x1 = - b + s) by (unfold x1; field; lra).
    assert (Q0 : quad a b c x0 = 0).
    { unfold quad. replace (a * x0 * x0) with ((a * x0) * (a * x0) * (1 / a)) by (field; lra).
      replace (2 * b * x0) with (2 * b * (a * x0) * (1 / a)) by (field; lra). rewrite H0.
      replace c with ((a * c) * (1 / a)) at 1 by (field; lra).
      replace (a * c) with (b * b - s * s) by lra. field. lra. }
    assert (Q1 : quad a b c x1 = 0).
    { unfold quad. replace (a * x1 * x1) with ((a * x1) * (a * x1) * (1 / a)) by (field; lra).
      replace (2 * b * x1) with (2 * b * (a * x1) * (1 / a)) by (field; lra). rewrite H1.
      replace c with ((a * c) * (1 / a)) at 1 by (field; lra).
      replace (a * c) with (b * b - s * s) by lra. field. lra. }
    assert (Hroots : forall t, quad a b c t = 0 -> t = x0 \/ t = x1).
    { intros t Qt. unfold quad in Qt, Q0.
      assert (Hf : (t - x0) * (a * t + a * x0 + 2 * b) = 0) by nra.
      apply Rmult_integral in Hf. destruct Hf as [Hf | Hf]; [left; lra|].
      right. assert (a * t = a * x1) by lra. apply (Rmult_eq_reg_l a); lra. }
    assert (H01 : x0 <= x1).
    { apply (Rmult_le_reg_l a); [assumption | lra]. }
    destruct (Rleb 0 x0) eqn:E0.
    + rb. right. cbn [fst]. repeat split; try assumption.
      intros t Ht Qt. destruct (Hroots t Qt); lra.
    + rb. destruct (Rleb 0 x1) eqn:E1.
      * rb. right. cbn [fst]. repeat split; try assumption.
        intros t Ht Qt. destruct (Hroots t Qt); lra.
      * rb. left. cbn [fst]. split; [lra|]. right. intros t Ht Qt. destruct (Hroots t Qt); lra.
Qed.


(* ======================================================================== part 6 *)
Definition v3 (x y z : R) : list R := [x; y; z].
Definition dot3 (a b : list R) : R := @vdot R ScalarR a b.
(* point of the ray at parameter t *)
Definition ray_at (p v : list R) (t : R) : list R := @vadd R ScalarR p (@vscaler R ScalarR v t).
Definition sqdist (a b : list R) : R := dot3 (@vsub R ScalarR a b) (@vsub R ScalarR a b).

Lemma sphere_quad cx cy cz r2 px py pz vx vy vz t :
  sqdist (ray_at (v3 px py pz) (v3 vx vy vz) t) (v3 cx cy cz) - r2 =
  quad (dot3 (v3 vx vy vz) (v3 vx vy vz))
       (dot3 (v3 vx vy vz) (@vsub R ScalarR (v3 px py pz) (v3 cx cy cz)))
       (dot3 (@vsub R ScalarR (v3 px py pz) (v3 cx cy cz)) (@vsub R ScalarR (v3 px py pz) (v3 cx cy cz)) - r2) t.
Proof. unfold sqdist, ray_at, dot3, v3, quad. vsimp. ring. Qed.

(* C34 ray_sphere closed form *)
Theorem ray_sphere_spec cx cy cz r2 px py pz vx vy vz :
  let c := v3 cx cy cz in let p := v3 px py pz in let v := v3 vx vy vz in
  let x := fst (ray_sphere c r2 p v) in let nrm := snd (ray_sphere c r2 p v) in
  let disc := dot3 v (@vsub R ScalarR p c) * dot3 v (@vsub R ScalarR p c)
              - dot3 v v * (sqdist p c - r2) in
  (x = -1 /\ nrm = v3 0 0 0 /\ (disc < EPS \/ forall t, 0 <= t -> sqdist (ray_at p v t) c <> r2))
  \/ (0 <= x /\ EPS <= disc /\ sqdist (ray_at p v x) c = r2 /\
      (forall t, 0 <= t -> sqdist (ray_at p v t) c = r2 -> x <= t) /\
      nrm = @vnormalize R ScalarR (@vsub R ScalarR (ray_at p v x) c) /\
      (0 < r2 -> dot3 nrm nrm = 1 /\ nrm = @vdivs R ScalarR (@vsub R ScalarR (ray_at p v x) c) (sqrt r2))).
Proof.
  cbv zeta.
  set (c := v3 cx cy cz). set (p := v3 px py pz). set (v := v3 vx vy vz).
  set (a := dot3 v v). set (b := dot3 v (@vsub R ScalarR p c)). set (cc := sqdist p c - r2).
  assert (Ha : 0 <= a) by (unfold a, dot3, v, v3; vsimp; nra).
  assert (Hab : a = 0 -> b = 0).
  { unfold a, b, dot3, v, p, c, v3. vsimp. intros H0.
    assert (vx = 0) by nra. assert (vy = 0) by nra. assert (vz = 0) by nra. subst. ring. }
  pose proof (ray_quad_spec a b cc Ha Hab) as Hq. cbv zeta in Hq.
  assert (Hfst : fst (ray_sphere c r2 p v) = fst (_ray_quad a b cc)).
  { unfold ray_sphere. fold (dot3 v v) (dot3 v (vsub p c)). fold a b.
    change (ssub (vdot (vsub p c) (vsub p c)) r2) with cc.
    destruct (_ray_quad a b cc) as [sol xs]. reflexivity. }
  assert (Hsnd : snd (ray_sphere c r2 p v) =
      if Rleb 0 (fst (_ray_quad a b cc)) then @vnormalize R ScalarR (@vsub R ScalarR (ray_at p v (fst (_ray_quad a b cc))) c) else v3 0 0 0).
  { unfold ray_sphere. fold (dot3 v v) (dot3 v (vsub p c)). fold a b.
    change (ssub (vdot (vsub p c) (vsub p c)) r2) with cc.
    destruct (_ray_quad a b cc) as [sol xs]. cbn [fst snd]. reflexivity. }
  rewrite Hfst, Hsnd.
  assert (Hsq : forall t, sqdist (ray_at p v t) c = r2 <-> quad a b cc t = 0).
  { intros t. pose proof (sphere_quad cx cy cz r2 px py pz vx vy vz t) as E. fold c p v in E. fold a b in E.
    unfold cc, sqdist at 2. unfold sqdist at 1 in E. unfold sqdist at 1. split; intros; lra. }
  destruct Hq as [(Hx & Hno) | (Hx & Hdisc & Hroot & Hmin)].
  - left. split; [assumption|]. rewrite Hx.
    destruct (Rleb 0 (-1)) eqn:E; [rb; lra|]. split; [reflexivity|].
    destruct Hno as [Hd | Hno]; [left; exact Hd | right]. intros t Ht Habs. apply (Hno t Ht). now apply Hsq.
  - right. destruct (Rleb 0 (fst (_ray_quad a b cc))) eqn:E; [|rb; lra].
    set (x := fst (_ray_quad a b cc)) in *.
    split; [assumption|]. split; [exact Hdisc|]. split; [now apply Hsq|].
    split; [intros t Ht Hr; apply Hmin; [assumption | now apply Hsq]|].
    split; [reflexivity|].
    intros Hr2. apply Hsq in Hroot.
    assert (Hlen : @vlen R ScalarR (@vsub R ScalarR (ray_at p v x) c) = sqrt r2).
    { unfold vlen, vlen_sq. fold (dot3 (@vsub R ScalarR (ray_at p v x) c) (@vsub R ScalarR (ray_at p v x) c)).
      fold (sqdist (ray_at p v x) c). rewrite Hroot. reflexivity. }
    assert (Hsr : 0 < sqrt r2) by (apply sqrt_lt_R0; assumption).
    unfold vnormalize. rewrite Hlen. change (@sltb R ScalarR s0 (sqrt r2)) with (Rltb 0 (sqrt r2)).
    destruct (Rltb 0 (sqrt r2)) eqn:E2; [|rb; lra].
    split; [|reflexivity].
    assert (Hss : sqrt r2 * sqrt r2 = r2) by (apply sqrt_sqrt; lra).
    unfold sqdist, dot3, ray_at, p, v, c, v3 in *. revert Hroot. vsimp. intros Hroot.
    field_simplify; [| lra]. rewrite <- Hss in Hroot at 1.
    apply (Rmult_eq_reg_r (sqrt r2 ^ 2)); [| nra]. field_simplify; [| lra]. nra.
Qed.


(* ======================================================================== part 7 *)
(* ---- ray_plane *)
Definition m9 (a b c d e f g h i : R) : list R := [a; b; c; d; e; f; g; h; i].
Definition col (m : list R) (k : nat) : list R := [nth k m 0; nth (3 + k) m 0; nth (6 + k) m 0].

(* a rectangle side: unlimited when size <= 0 *)
Definition within (sz coord : R) : Prop := sz <= 0 \/ Rabs coord <= sz.

Theorem ray_plane_spec cx cy cz m00 m01 m02 m10 m11 m12 m20 m21 m22 s0_ s1_ s2_ px py pz vx vy vz :
  let c := v3 cx cy cz in let p := v3 px py pz in let v := v3 vx vy vz in
  let M := m9 m00 m01 m02 m10 m11 m12 m20 m21 m22 in
  let ax := col M 0 in let ay := col M 1 in let n := col M 2 in
  let r := ray_plane c M (v3 s0_ s1_ s2_) p v in
  let Hit t := 0 <= t /\ dot3 n v <= - EPS /\ dot3 n (@vsub R ScalarR (ray_at p v t) c) = 0 /\
               within s0_ (dot3 ax (@vsub R ScalarR (ray_at p v t) c)) /\
               within s1_ (dot3 ay (@vsub R ScalarR (ray_at p v t) c)) in
  (fst r = -1 /\ snd r = v3 0 0 0 /\ forall t, ~ Hit t)
  \/ (Hit (fst r) /\ snd r = n /\ forall t, Hit t -> t = fst r).
Proof.
  cbv zeta. unfold ray_plane, _ray_map, within, dot3, ray_at, col, m9, v3.
  vsimp. fold EPS.
  set (lz := m02 * (px - cx) + m12 * (py - cy) + m22 * (pz - cz)).
  set (vzl := m02 * vx + m12 * vy + m22 * vz).
  set (lx := m00 * (px - cx) + m10 * (py - cy) + m20 * (pz - cz)).
  set (vxl := m00 * vx + m10 * vy + m20 * vz).
  set (ly := m01 * (px - cx) + m11 * (py - cy) + m21 * (pz - cz)).
  set (vyl := m01 * vx + m11 * vy + m21 * vz).
  pose proof EPS_pos as He.
  assert (Hplane : forall t, m02 * (px + vx * t - cx) + m12 * (py + vy * t - cy) + m22 * (pz + vz * t - cz) = lz + t * vzl)
    by (intros; unfold lz, vzl; ring).
  assert (Hx : forall t, m00 * (px + vx * t - cx) + m10 * (py + vy * t - cy) + m20 * (pz + vz * t - cz) = lx + t * vxl)
    by (intros; unfold lx, vxl; ring).
  assert (Hy : forall t, m01 * (px + vx * t - cx) + m11 * (py + vy * t - cy) + m21 * (pz + vz * t - cz) = ly + t * vyl)
    by (intros; unfold ly, vyl; ring).
  destruct (Rltb (- EPS) vzl) eqn:E1.
  - rb. left. cbn [fst snd]. split; [lra|]. split; [reflexivity|]. intros t (_ & Hf & _). lra.
  - rb. assert (Hroot : forall t, lz + t * vzl = 0 -> t = - lz / vzl).
    { intros t Ht. field_simplify_eq; [| lra]. nra. }
    destruct (Rltb (- lz / vzl) 0) eqn:E2.
    + rb. left. cbn [fst snd]. split; [lra|]. split; [reflexivity|].
      intros t (Ht & _ & Hp & _). rewrite Hplane in Hp. apply Hroot in Hp. lra.
    + rb. set (x := - lz / vzl) in *.
      assert (Hxr : lz + x * vzl = 0) by (unfold x; field; lra).
      match goal with |- context [if ?b then _ else _] => destruct b eqn:E3 end.
      * right. cbn [fst snd]. rewrite Hplane, Hx, Hy.
        apply andb_prop in E3. destruct E3 as [Ea Eb].
        apply orb_prop in Ea. apply orb_prop in Eb.
        split; [| split; [reflexivity|]].
        -- split; [assumption|]. split; [lra|]. split; [assumption|].
           split; [destruct Ea as [Ea|Ea]; rb; [left; lra | right; lra] | destruct Eb as [Eb|Eb]; rb; [left; lra | right; lra]].
        -- intros t (_ & _ & Hp & _). rewrite Hplane in Hp. now apply Hroot.
      * left. cbn [fst snd]. split; [lra|]. split; [reflexivity|].
        intros t (Ht & _ & Hp & Hw0 & Hw1). rewrite Hplane in Hp. apply Hroot in Hp. fold x in Hp. subst t.
        rewrite Hx in Hw0. rewrite Hy in Hw1.
        apply andb_false_elim in E3. destruct E3 as [E3 | E3]; apply orb_false_elim in E3; destruct E3 as [Ea Eb]; rb.
        -- destruct Hw0; lra.
        -- destruct Hw1; lra.
Qed.


(* ======================================================================== part 8 *)
(* ---- _ray_eliminate: the property's sentence, literally *)
Definition alpha (rgba : list R) : R := nth 3 rgba 0.
Definition group_slot (grp : Z) : Z := Z.min 5 (Z.max 0 grp).
Definition no_group_mask (gg : list R) : Prop :=
  nth 0 gg 0 = -1 /\ nth 1 gg 0 = -1 /\ nth 2 gg 0 = -1 /\ nth 3 gg 0 = -1 /\ nth 4 gg 0 = -1 /\ nth 5 gg 0 = -1.
Definition no_group_maskb (gg : list R) : bool :=
  Reqb (nth 0 gg 0) (-1) && Reqb (nth 1 gg 0) (-1) && Reqb (nth 2 gg 0) (-1) && Reqb (nth 3 gg 0) (-1)
  && Reqb (nth 4 gg 0) (-1) && Reqb (nth 5 gg 0) (-1).

Lemma no_group_maskb_spec gg : no_group_maskb gg = true <-> no_group_mask gg.
Proof.
  unfold no_group_maskb, no_group_mask. rewrite !andb_true_iff, !Reqb_true. tauto.
Qed.

Definition elim_bool (body_weldid geom_bodyid geom_matid geom_group : Z -> Z) (geom_rgba mat_rgba : Z -> list R)
           (g : Z) (gg : list R) (flg_static : bool) (bodyexclude : Z) : bool :=
  Z.eqb (geom_bodyid g) bodyexclude
  || (Z.ltb (geom_matid g) 0 && Reqb (alpha (geom_rgba g)) 0)
  || (Z.geb (geom_matid g) 0 && Reqb (alpha (mat_rgba (geom_matid g))) 0)
  || (negb flg_static && Z.eqb (body_weldid (geom_bodyid g)) 0)
  || (negb (no_group_maskb gg) && Reqb (nth (Z.to_nat (group_slot (geom_group g))) gg 0) 0).

Lemma eliminate_as_bool bw gb gm ggr grgba mrgba g gg flg bex :
  _ray_eliminate bw gb gm ggr grgba mrgba g gg flg bex = elim_bool bw gb gm ggr grgba mrgba g gg flg bex.
Proof.
  unfold _ray_eliminate, elim_bool, alpha, group_slot, vget. sR.
  change (IZR (- (1))) with (-1).
  change (Z.to_nat 0) with 0%nat. change (Z.to_nat 1) with 1%nat. change (Z.to_nat 2) with 2%nat.
  change (Z.to_nat 3) with 3%nat. change (Z.to_nat 4) with 4%nat. change (Z.to_nat 5) with 5%nat.
  fold (no_group_maskb gg).
  destruct (Z.eqb (gb g) bex); [reflexivity|].
  destruct (Z.ltb_spec (gm g) 0); destruct (Z.geb_spec (gm g) 0); try lia;
  destruct (Reqb (nth 3 (grgba g) 0) 0); destruct (Reqb (nth 3 (mrgba (gm g)) 0) 0); cbn [andb orb];
  try reflexivity;
  destruct flg; cbn [negb andb orb]; try reflexivity;
  destruct (Z.eqb (bw (gb g)) 0); cbn [andb orb]; try reflexivity;
  destruct (no_group_maskb gg); cbn [negb andb orb]; reflexivity.
Qed.

Theorem eliminate_rule (body_weldid geom_bodyid geom_matid geom_group : Z -> Z) (geom_rgba mat_rgba : Z -> list R)
        (g : Z) (gg : list R) (flg_static : bool) (bodyexclude : Z) :
  _ray_eliminate body_weldid geom_bodyid geom_matid geom_group geom_rgba mat_rgba g gg flg_static bodyexclude = true
  <->
  (   geom_bodyid g = bodyexclude                                            (* excluded body *)
   \/ ((geom_matid g < 0)%Z /\ alpha (geom_rgba g) = 0)                       (* invisible geom *)
   \/ ((geom_matid g >= 0)%Z /\ alpha (mat_rgba (geom_matid g)) = 0)          (* invisible material *)
   \/ (flg_static = false /\ body_weldid (geom_bodyid g) = 0%Z)               (* static geom, flag off *)
   \/ (~ no_group_mask gg /\ nth (Z.to_nat (group_slot (geom_group g))) gg 0 = 0)).  (* masked group *)
Proof.
  rewrite eliminate_as_bool. unfold elim_bool.
  rewrite !orb_true_iff, !andb_true_iff, !Reqb_true, Z.eqb_eq, Z.eqb_eq, Z.ltb_lt, Z.geb_le, !negb_true_iff.
  rewrite <- no_group_maskb_spec. rewrite not_true_iff_false.
  destruct flg_static; intuition (try discriminate; try lia).
Qed.


(* ======================================================================== part 9 *)
(* ---- the per-geom candidate of kernel _ray is the translated _ray_geom_mesh *)
Section Scene.
  Variables (nmeshface : Z) (body_weldid geom_type geom_bodyid : Z -> Z) (geom_dataid geom_matid : Z -> Z -> Z)
            (geom_group : Z -> Z) (geom_size geom_rgba : Z -> Z -> list R)
            (mesh_vertadr mesh_faceadr : Z -> Z) (mesh_vert : Z -> list R) (mesh_face : Z -> list Z)
            (hfield_size : Z -> list R) (hfield_nrow hfield_ncol hfield_adr : Z -> Z) (hfield_data : Z -> R)
            (mat_rgba geom_xpos geom_xmat : Z -> Z -> list R)
            (worldid : Z) (pnt vec : list R) (geomgroup : list R) (flg_static : bool) (bodyexclude : Z)
            (sh_matid sh_rgba sh_mat sh_dataid sh_size sh_faceadr : Z).

  Definition cand (g : Z) : R * list R :=
    _ray_geom_mesh nmeshface body_weldid geom_type geom_bodyid geom_dataid geom_matid geom_group geom_size geom_rgba
      mesh_vertadr mesh_faceadr mesh_vert mesh_face hfield_size hfield_nrow hfield_ncol hfield_adr hfield_data
      mat_rgba geom_xpos geom_xmat worldid pnt vec geomgroup flg_static bodyexclude g
      sh_matid sh_rgba sh_mat sh_dataid sh_size sh_faceadr.

  Definition eliminated (g : Z) : bool :=
    _ray_eliminate body_weldid geom_bodyid (geom_matid (Z.rem worldid sh_matid)) geom_group
      (geom_rgba (Z.rem worldid sh_rgba)) (mat_rgba (Z.rem worldid sh_mat)) g geomgroup flg_static bodyexclude.

  Lemma cand_eliminated g : eliminated g = true -> cand g = (-1, [0; 0; 0]).
  Proof.
    unfold cand, eliminated, _ray_geom_mesh. intros ->. cbn [negb]. sR. unfold vconst. cbn [repeat].
    replace (- (1)) with (-1) by lra. reflexivity.
  Qed.

  Lemma cand_primitive g : eliminated g = false -> geom_type g <> 7%Z -> geom_type g <> 1%Z ->
    cand g = ray_geom (geom_xpos worldid g) (geom_xmat worldid g) (geom_size (Z.rem worldid sh_size) g) pnt vec (geom_type g).
  Proof.
    unfold cand, eliminated, _ray_geom_mesh. intros -> H7 H1. cbn [negb].
    destruct (Z.eqb_spec (geom_type g) 7); [contradiction|]. destruct (Z.eqb_spec (geom_type g) 1); [contradiction|]. reflexivity.
  Qed.

  Lemma eliminated_not_eligible g : eliminated g = true -> ~ elig cand g.
  Proof. intros He [H0 _]. unfold dof in H0. rewrite (cand_eliminated g He) in H0. cbn in H0. lra. Qed.

  (* C34, the kernel: (dist, geomid, normal) written by _ray for one ray *)
  Theorem ray_returns_nearest_eligible (ngeom : Z) :
    let '(dist, geom, normal) := ray_kernel cand ngeom in
    ((forall g, (0 <= g < ngeom)%Z -> eliminated g = true \/ ~ (0 <= dof cand g < MAXV)) /\
       dist = -1 /\ geom = (-1)%Z /\ normal = [0; 0; 0])
    \/
    ((0 <= geom < ngeom)%Z /\ eliminated geom = false /\ 0 <= dist < MAXV /\ (dist, normal) = cand geom /\
     (forall g, (0 <= g < ngeom)%Z -> eliminated g = false -> 0 <= dof cand g < MAXV -> dist <= dof cand g) /\
     (forall g, (0 <= g < ngeom)%Z -> eliminated g = false -> dof cand g = dist -> (geom <= g)%Z)).
  Proof.
    pose proof (nearest_fold cand ngeom) as H. destruct (ray_kernel cand ngeom) as [[dist geom] normal].
    destruct H as [(Hn & Hd & Hg & Hnm) | (Hr & He & Hd & Hnm & Hmin & Htie)].
    - left. repeat split; try assumption. intros g Hg'. right. exact (Hn g Hg').
    - right. split; [assumption|]. split.
      { destruct (eliminated geom) eqn:E; [|reflexivity]. exfalso. exact (eliminated_not_eligible geom E He). }
      split; [unfold elig in He; rewrite Hd; exact He|]. split.
      { rewrite Hd, Hnm. unfold dof. destruct (cand geom); reflexivity. }
      split.
      + intros g Hg' _ Hel. exact (Hmin g Hg' Hel).
      + intros g Hg' _ Heq. refine (Htie g Hg' _ Heq). unfold elig. rewrite Heq, Hd. exact He.
  Qed.
End Scene.


(* ======================================================================== part 10 *)
(* ------------------------------------------------------------------ C35: compute_ray *)
(* the decimal literal render_util.py multiplies fovy by (wp.static(wp.pi / 180.0)) *)
Definition DEG : R := 3490658503988659 / 200000000000000000.

Lemma normalize_dir x y z : z <> 0 ->
  let l := sqrt (x * x + y * y + z * z) in
  0 < l /\ @vnormalize R ScalarR [x; y; z] = [x / l; y / l; z / l] /\
  dot3 (@vnormalize R ScalarR [x; y; z]) (@vnormalize R ScalarR [x; y; z]) = 1.
Proof.
  intros Hz l. assert (Hpos : 0 < x * x + y * y + z * z) by nra.
  assert (Hl : 0 < l) by (apply sqrt_lt_R0; assumption).
  assert (Hll : l * l = x * x + y * y + z * z) by (apply sqrt_sqrt; lra).
  assert (E : @vnormalize R ScalarR [x; y; z] = [x / l; y / l; z / l]).
  { unfold vnormalize, vlen, vlen_sq. vsimp. fold l.
    destruct (Rltb 0 l) eqn:E; [reflexivity | rb; lra]. }
  split; [assumption|]. split; [assumption|]. rewrite E. unfold dot3. vsimp.
  field_simplify; [| lra]. replace (x ^ 2 + y ^ 2 + z ^ 2) with (l * l) by (rewrite Hll; ring). field. lra.
Qed.

(* pixel centre in normalised image coordinates *)
Definition pu (W px : Z) : R := (IZR px + 1 / 2) / IZR W.
Definition pv (Hh py : Z) : R := (IZR py + 1 / 2) / IZR Hh.

(* orthographic: every pixel gets the optical axis *)
Theorem pixel_ray_orthographic fovy sens intr W Hh px py znear :
  compute_ray 1 fovy sens intr W Hh px py znear = [0; 0; -1].
Proof. unfold compute_ray. cbn [Z.eqb Pos.eqb]. sR. replace (- (1)) with (-1) by lra. reflexivity. Qed.

(* perspective camera given by its vertical field of view (sensorsize[1] = 0) *)
Theorem pixel_ray_fovy proj fovy sw intr W Hh px py znear :
  proj <> 1%Z -> (0 < W)%Z -> (0 < Hh)%Z -> 0 < znear ->
  let d := compute_ray proj fovy [sw; 0] intr W Hh px py znear in
  let th := tan (1 / 2 * (fovy * DEG)) in
  let aspect := IZR W / IZR Hh in
  dot3 d d = 1 /\ nth 2 d 0 < 0 /\
  nth 0 d 0 = (th * aspect * (2 * pu W px - 1)) * (- nth 2 d 0) /\
  nth 1 d 0 = (th * (1 - 2 * pv Hh py)) * (- nth 2 d 0) /\
  d = @vnormalize R ScalarR (plane_point (- (znear * th * aspect)) (znear * th * aspect) (znear * th) (- (znear * th)) znear W Hh px py).
Proof.
  intros Hp HW HH Hz. cbv zeta.
  assert (HWr : 0 < IZR W) by (apply IZR_lt; lia). assert (HHr : 0 < IZR Hh) by (apply IZR_lt; lia).
  unfold compute_ray. destruct (Z.eqb_spec proj 1); [contradiction|].
  unfold plane_point, vget.
  change (Z.to_nat 0) with 0%nat. change (Z.to_nat 1) with 1%nat. change (Z.to_nat 2) with 2%nat. change (Z.to_nat 3) with 3%nat.
  cbn [nth]. sR. cbv [stan]. fold DEG.
  destruct (Reqb 0 0) eqn:E0; [|rb; lra]. cbn [negb fst snd].
  set (th := tan (1 / 2 * (fovy * DEG))).
  set (x := - (znear * th * (IZR W / IZR Hh)) + (znear * th * (IZR W / IZR Hh) - - (znear * th * (IZR W / IZR Hh))) * ((IZR px + 1 / 2) / IZR W)).
  set (y := znear * th + (- (znear * th) - znear * th) * ((IZR py + 1 / 2) / IZR Hh)).
  destruct (normalize_dir x y (- znear) ltac:(lra)) as (Hl & En & Hu). cbv zeta in *.
  set (l := sqrt (x * x + y * y + - znear * - znear)) in *.
 split; [exact Hu|].
  match goal with |- context [@vnormalize R ?I ?v] => change (@vnormalize R I v) with (@vnormalize R ScalarR v) end.
  rewrite En. cbn [nth].
  split; [unfold Rdiv; assert (0 < / l) by (apply Rinv_0_lt_compat; lra); nra|].
  split; [unfold x, pu; field; lra|]. split; [unfold y, pv; field; lra | reflexivity].
Qed.


(* ======================================================================== part 11 *)
(* sensor size after fitting the image aspect ratio, as compute_ray does *)
Definition eff_sensor (W Hh : Z) (sw sh : R) : R * R :=
  let ta := IZR W / IZR Hh in let sa := sw / sh in
  if Rltb sa ta then (sw, sw / ta) else if Rltb ta sa then (sh * ta, sh) else (sw, sh).

Theorem pixel_ray_intrinsic proj fovy sw sh fx fy cx cy W Hh px py znear :
  proj <> 1%Z -> (0 < W)%Z -> (0 < Hh)%Z -> 0 < znear -> sh <> 0 -> fx <> 0 -> fy <> 0 ->
  let d := compute_ray proj fovy [sw; sh] [fx; fy; cx; cy] W Hh px py znear in
  let sw' := fst (eff_sensor W Hh sw sh) in let sh' := snd (eff_sensor W Hh sw sh) in
  dot3 d d = 1 /\ nth 2 d 0 < 0 /\
  nth 0 d 0 = ((sw' * (pu W px - 1 / 2) + cx) / fx) * (- nth 2 d 0) /\
  nth 1 d 0 = ((sh' * (1 / 2 - pv Hh py) - cy) / fy) * (- nth 2 d 0).
Proof.
  intros Hp HW HH Hz Hsh Hfx Hfy. cbv zeta.
  assert (HWr : 0 < IZR W) by (apply IZR_lt; lia). assert (HHr : 0 < IZR Hh) by (apply IZR_lt; lia).
  unfold compute_ray, eff_sensor. destruct (Z.eqb_spec proj 1); [contradiction|].
  unfold vget.
  change (Z.to_nat 0) with 0%nat. change (Z.to_nat 1) with 1%nat. change (Z.to_nat 2) with 2%nat. change (Z.to_nat 3) with 3%nat.
  cbn [nth]. sR.
  destruct (Reqb sh 0) eqn:E0; [rb; contradiction|]. cbn [negb].
  assert (Hgen : forall sw' sh',
     let x := - (znear / fx) * (sw' * (1 / 2) - cx) + (znear / fx * (sw' * (1 / 2) + cx) - - (znear / fx) * (sw' * (1 / 2) - cx)) * ((IZR px + 1 / 2) / IZR W) in
     let y := znear / fy * (sh' * (1 / 2) - cy) + (- (znear / fy) * (sh' * (1 / 2) + cy) - znear / fy * (sh' * (1 / 2) - cy)) * ((IZR py + 1 / 2) / IZR Hh) in
     let d := @vnormalize R ScalarR [x; y; - znear] in
     dot3 d d = 1 /\ nth 2 d 0 < 0 /\
     nth 0 d 0 = ((sw' * (pu W px - 1 / 2) + cx) / fx) * (- nth 2 d 0) /\
     nth 1 d 0 = ((sh' * (1 / 2 - pv Hh py) - cy) / fy) * (- nth 2 d 0)).
  { intros sw' sh' x y. cbv zeta.
    destruct (normalize_dir x y (- znear) ltac:(lra)) as (Hl & En & Hu). cbv zeta in *.
    set (l := sqrt (x * x + y * y + - znear * - znear)) in *.
    split; [exact Hu|]. rewrite En. cbn [nth].
    split; [unfold Rdiv; assert (0 < / l) by (apply Rinv_0_lt_compat; lra); nra|].
    split; [unfold x, pu; field; lra | unfold y, pv; field; lra]. }
  destruct (Rltb (sw / sh) (IZR W / IZR Hh)) eqn:E1; cbn [fst snd].
  - apply (Hgen sw (sw / (IZR W / IZR Hh))).
  - destruct (Rltb (IZR W / IZR Hh) (sw / sh)) eqn:E2; cbn [fst snd].
    + apply (Hgen (sh * (IZR W / IZR Hh)) sh).
    + apply (Hgen sw sh).
Qed.

(* _build_rays stores pixel (px,py) at offset + px + py*W; the render kernel recovers
   px = local % W, py = local // W (C truncation) *)
Lemma build_rays_index (W px py : Z) : (0 <= px < W)%Z -> (0 <= py)%Z ->
  Z.rem (px + py * W) W = px /\ Z.quot (px + py * W) W = py.
Proof.
  intros Hx Hy. rewrite Z.rem_mod_nonneg, Z.quot_div_nonneg by nia.
  rewrite Z.mod_add, Z.div_add by lia. rewrite Z.mod_small, Z.div_small by lia. lia.
Qed.


(* ======================================================================== part 12 *)
(* the value _build_rays stores for pixel (xid, yid) *)
Lemma build_rays_write xid yid offset W Hh proj fovy sens intr znear (ray_out : Z -> list R) orc :
  k__build_rays xid yid offset W Hh proj fovy sens intr znear ray_out orc
  = [mkW "ray_out"%string [(offset + xid + yid * W)%Z] KSet (VV (compute_ray proj fovy sens intr W Hh xid yid znear))].
Proof. reflexivity. Qed.

(* ---- back-face culling of cast_ray *)
Lemma cull_hit_off dir dn : @cull_hit R ScalarR false dir dn = dn.
Proof. reflexivity. Qed.

Lemma cull_hit_on dir d n :
  @cull_hit R ScalarR true dir (d, n) = if Rleb 0 d && Rltb 0 (dot3 dir n) then (-1, n) else (d, n).
Proof.
  unfold cull_hit, dot3. cbn [fst snd andb]. sR.
  destruct (Rleb 0 d && Rltb 0 (vdot dir n)); [|reflexivity]. unfold neg1. sR. replace (- (1)) with (-1) by lra. reflexivity.
Qed.

(* ---- one rendered pixel = nearest_fold instance *)
Theorem render_pixel_spec (cull : bool) (proj : Z) (fovy : R) (W Hh local : Z) (cam_xpos cam_xmat dir_local : list R)
        (gd : list R -> list R -> Z -> R * list R) (order : list Z) :
  (forall g, In g order -> (0 <= g)%Z) ->
  let dir_world := @mat_vec R ScalarR 3 3 cam_xmat dir_local in
  let origin := render_origin proj fovy W Hh local cam_xpos cam_xmat in
  let cand := fun g => cull_hit cull dir_world (gd origin dir_world g) in
  let '(depth, seg) := render_pixel cull proj fovy W Hh local cam_xpos cam_xmat dir_local gd order in
  ((forall g, In g order -> ~ elig cand g) /\ depth = 0 /\ seg = ((-1)%Z, (-1)%Z))
  \/
  (exists g, In g order /\ elig cand g /\ seg = (g, 5%Z) /\
             depth = dof cand g * - nth 2 dir_local 0 /\
             forall g', In g' order -> elig cand g' -> dof cand g <= dof cand g').
Proof.
  intros Hpos. cbv zeta. unfold render_pixel.
  set (dir_world := mat_vec 3 3 cam_xmat dir_local).
  set (origin := render_origin proj fovy W Hh local cam_xpos cam_xmat).
  set (cand := fun g => cull_hit cull dir_world (gd origin dir_world g)).
  pose proof (bvh_loop_spec cand order) as Hs. unfold render_out.
  destruct Hs as [[Ha Hn] | Hf].
  - rewrite Ha. cbn [ageom racc0 fst snd Z.eqb]. left. split; [assumption|]. split; reflexivity.
  - pose proof (first_min_le _ _ _ Hf) as Hle.
    destruct Hf as (l1 & l2 & HV & He & Hd & _).
    assert (Hin : In (ageom (bvh_loop cand order)) order) by (rewrite HV at 2; apply in_or_app; right; left; reflexivity).
    destruct (Z.eqb_spec (ageom (bvh_loop cand order)) (-1)) as [E | E]; [specialize (Hpos _ Hin); lia|].
    right. exists (ageom (bvh_loop cand order)). split; [assumption|]. split; [assumption|].
    split; [reflexivity|]. split.
    + rewrite Hd. unfold vget. change (Z.to_nat 2) with 2%nat. sR. reflexivity.
    + intros g' Hg' Hel. rewrite <- Hd. now apply Hle.
Qed.

(* every projection but the orthographic one starts the ray at the camera position *)
Lemma render_origin_perspective proj fovy W Hh local (cam_xpos cam_xmat : list R) :
  proj <> 1%Z -> render_origin proj fovy W Hh local cam_xpos cam_xmat = cam_xpos.
Proof. intros Hp. unfold render_origin. destruct (Z.eqb_spec proj 1); [contradiction | reflexivity]. Qed.

(* the world origin is the camera-frame origin mapped by the camera pose *)
Lemma render_origin_world proj fovy W Hh local cx cy cz m00 m01 m02 m10 m11 m12 m20 m21 m22 :
  let cam_xmat := m9 m00 m01 m02 m10 m11 m12 m20 m21 m22 in
  render_origin proj fovy W Hh local [cx; cy; cz] cam_xmat
  = @vadd R ScalarR [cx; cy; cz] (@mat_vec R ScalarR 3 3 cam_xmat (render_origin_cam proj fovy W Hh local)).
Proof.
  cbv zeta. unfold render_origin, render_origin_cam. destruct (Z.eqb proj 1); [reflexivity|].
  unfold zero3, m9. vsimp.
  match goal with |- [?a; ?b; ?c] = [?a'; ?b'; ?c'] => replace a' with a by ring; replace b' with b by ring; replace c' with c by ring end.
  reflexivity.
Qed.

(* a point lies on the ray (origin, direction) *)
Definition on_ray (r : list R * list R) (p : list R) : Prop :=
  exists t, p = @vadd R ScalarR (fst r) (@vscaler R ScalarR (snd r) t).

(* ---- orthographic cameras (after /repo 2e971a4): the ray of pixel (px,py) (local index px + py W) is
        parallel to the optical axis and passes through the centre of that pixel on the image window of
        height fovy (half extents hw = (fovy/2) W/H, hh = fovy/2), at any depth znear *)
Theorem pixel_ray_orthographic_origin fovy sens intr W Hh px py znear :
  (0 < W)%Z -> (0 < Hh)%Z -> (0 <= px < W)%Z -> (0 <= py)%Z ->
  let hh := fovy / 2 in let hw := hh * IZR W / IZR Hh in
  let r := render_ray_cam 1 fovy W Hh (px + py * W) (compute_ray 1 fovy sens intr W Hh px py znear) in
  snd r = [0; 0; -1] /\
  fst r = [hw * (2 * pu W px - 1); hh * (1 - 2 * pv Hh py); 0] /\
  on_ray r (plane_point (- hw) hw hh (- hh) znear W Hh px py).
Proof.
  intros HW HH Hpx Hpy. cbv zeta.
  assert (HWr : 0 < IZR W) by (apply IZR_lt; lia). assert (HHr : 0 < IZR Hh) by (apply IZR_lt; lia).
  destruct (build_rays_index W px py Hpx Hpy) as [Hr Hq].
  unfold render_ray_cam, render_origin_cam, ortho_offset_cam. cbn [Z.eqb Pos.eqb fst snd].
  rewrite Hr, Hq, pixel_ray_orthographic.
  assert (Eo : [smul (sdiv (smul (smul (slit 1 2) fovy) (sofZ W)) (sofZ Hh)) (ssub (smul (sofZ 2) (sdiv (sadd (sofZ px) (slit 1 2)) (sofZ W))) (sofZ 1));
                smul (smul (slit 1 2) fovy) (ssub (sofZ 1) (smul (sofZ 2) (sdiv (sadd (sofZ py) (slit 1 2)) (sofZ Hh)))); s0]
               = [fovy / 2 * IZR W / IZR Hh * (2 * pu W px - 1); fovy / 2 * (1 - 2 * pv Hh py); 0]).
  { sR. unfold pu, pv. f_equal; [field; lra | f_equal; field; lra]. }
  rewrite Eo. split; [reflexivity|]. split; [reflexivity|].
  exists znear. unfold plane_point, pu, pv. vsimp. f_equal; [field; lra | f_equal; [field; lra | f_equal; ring]].
Qed.

(* distinct pixels of an orthographic camera get distinct parallel rays (fovy <> 0) *)
Theorem ortho_rays_distinct fovy sens intr W Hh px py px' py' znear :
  (0 < W)%Z -> (0 < Hh)%Z -> (0 <= px < W)%Z -> (0 <= py)%Z -> (0 <= px' < W)%Z -> (0 <= py')%Z -> fovy <> 0 ->
  (px, py) <> (px', py') ->
  let r := render_ray_cam 1 fovy W Hh (px + py * W) (compute_ray 1 fovy sens intr W Hh px py znear) in
  let r' := render_ray_cam 1 fovy W Hh (px' + py' * W) (compute_ray 1 fovy sens intr W Hh px' py' znear) in
  snd r = snd r' /\ fst r <> fst r'.
Proof.
  intros HW HH Hpx Hpy Hpx' Hpy' Hf Hne. cbv zeta.
  assert (HWr : 0 < IZR W) by (apply IZR_lt; lia). assert (HHr : 0 < IZR Hh) by (apply IZR_lt; lia).
  destruct (pixel_ray_orthographic_origin fovy sens intr W Hh px py znear HW HH Hpx Hpy) as (D1 & O1 & _).
  destruct (pixel_ray_orthographic_origin fovy sens intr W Hh px' py' znear HW HH Hpx' Hpy') as (D2 & O2 & _).
  cbv zeta in *. split; [rewrite D1, D2; reflexivity|].
  rewrite O1, O2. intros Heq. injection Heq as Hx Hy. apply Hne.
  unfold pu in Hx. unfold pv in Hy.
  assert (Ex : IZR px = IZR px').
  { assert (K : fovy / 2 * IZR W / IZR Hh <> 0) by (unfold Rdiv; repeat apply Rmult_integral_contrapositive_currified; try lra; apply Rinv_neq_0_compat; lra).
    apply Rmult_eq_reg_l in Hx; [|exact K]. 
    assert ((IZR px + 1 / 2) / IZR W = (IZR px' + 1 / 2) / IZR W) by lra.
    apply (Rmult_eq_reg_r (/ IZR W)); [unfold Rdiv in H; lra | apply Rinv_neq_0_compat; lra]. }
  assert (Ey : IZR py = IZR py').
  { assert (K : fovy / 2 <> 0) by lra.
    apply Rmult_eq_reg_l in Hy; [|exact K].
    assert ((IZR py + 1 / 2) / IZR Hh = (IZR py' + 1 / 2) / IZR Hh) by lra.
    apply (Rmult_eq_reg_r (/ IZR Hh)); [unfold Rdiv in H; lra | apply Rinv_neq_0_compat; lra]. }
  apply eq_IZR in Ex. apply eq_IZR in Ey. congruence.
Qed.

(* ======================================================================== part 13 *)
(* ---- ray_ellipsoid (partial: stated in the geom's local frame lp + t lv = mat^T (pnt + t vec - pos);
        the returned normal is not characterised) *)
Definition ell (sx sy sz : R) (q : list R) : R :=
  nth 0 q 0 * nth 0 q 0 / (sx * sx) + nth 1 q 0 * nth 1 q 0 / (sy * sy) + nth 2 q 0 * nth 2 q 0 / (sz * sz).

Lemma sww_nonneg s w : 0 < s -> 0 <= s * w * w.
Proof. intros Hs. rewrite Rmult_assoc. apply Rmult_le_pos; [lra | apply Rle_0_sqr]. Qed.
Lemma sww_zero s w : 0 < s -> s * w * w = 0 -> w = 0.
Proof.
  intros Hs H. rewrite Rmult_assoc in H. apply Rmult_integral in H. destruct H as [H | H]; [lra|].
  apply Rmult_integral in H. destruct H; assumption.
Qed.

Theorem ray_ellipsoid_partial cx cy cz m00 m01 m02 m10 m11 m12 m20 m21 m22 sx sy sz px py pz vx vy vz :
  sx <> 0 -> sy <> 0 -> sz <> 0 ->
  let c := v3 cx cy cz in let p := v3 px py pz in let v := v3 vx vy vz in
  let M := m9 m00 m01 m02 m10 m11 m12 m20 m21 m22 in
  let lp := fst (_ray_map c M p v) in let lv := snd (_ray_map c M p v) in
  let x := fst (ray_ellipsoid c M (v3 sx sy sz) p v) in
  (x = -1 /\ forall t, 0 <= t -> ell sx sy sz (ray_at lp lv t) = 1 ->
                       (* only a (near-)tangent ray can be reported as a miss *)
                       exists a b cc, a * t * t + 2 * b * t + cc = 0 /\ b * b - a * cc < EPS)
  \/ (0 <= x /\ ell sx sy sz (ray_at lp lv x) = 1 /\
      forall t, 0 <= t -> ell sx sy sz (ray_at lp lv t) = 1 -> x <= t).
Proof.
  intros Hsx Hsy Hsz. cbv zeta.
  unfold ray_ellipsoid, _ray_map, safe_div__S_S, ell, ray_at, m9, v3, vmulc.
  vsimp.
  set (l0 := m00 * (px - cx) + m10 * (py - cy) + m20 * (pz - cz)).
  set (l1 := m01 * (px - cx) + m11 * (py - cy) + m21 * (pz - cz)).
  set (l2 := m02 * (px - cx) + m12 * (py - cy) + m22 * (pz - cz)).
  set (w0 := m00 * vx + m10 * vy + m20 * vz).
  set (w1 := m01 * vx + m11 * vy + m21 * vz).
  set (w2 := m02 * vx + m12 * vy + m22 * vz).
  assert (Hx2 : sx * sx <> 0) by nra. assert (Hy2 : sy * sy <> 0) by nra. assert (Hz2 : sz * sz <> 0) by nra.
  destruct (Reqb (sx * sx) 0) eqn:E0; [rb; contradiction|].
  destruct (Reqb (sy * sy) 0) eqn:E1; [rb; contradiction|].
  destruct (Reqb (sz * sz) 0) eqn:E2; [rb; contradiction|]. cbn [negb].
  set (s0_ := 1 / (sx * sx)). set (s1_ := 1 / (sy * sy)). set (s2_ := 1 / (sz * sz)).
  assert (P0 : 0 < s0_) by (unfold s0_; apply Rdiv_lt_0_compat; nra).
  assert (P1 : 0 < s1_) by (unfold s1_; apply Rdiv_lt_0_compat; nra).
  assert (P2 : 0 < s2_) by (unfold s2_; apply Rdiv_lt_0_compat; nra).
  set (a := s0_ * w0 * w0 + s1_ * w1 * w1 + s2_ * w2 * w2).
  set (b := s0_ * w0 * l0 + s1_ * w1 * l1 + s2_ * w2 * l2).
  set (cc := s0_ * l0 * l0 + s1_ * l1 * l1 + s2_ * l2 * l2 - 1).
  pose proof (sww_nonneg s0_ w0 P0) as N0. pose proof (sww_nonneg s1_ w1 P1) as N1. pose proof (sww_nonneg s2_ w2 P2) as N2.
  assert (Ha : 0 <= a) by (unfold a; lra).
  assert (Hab : a = 0 -> b = 0).
  { unfold a, b. intros H0.
    assert (Z0 : w0 = 0) by (apply (sww_zero s0_); [assumption | lra]).
    assert (Z1 : w1 = 0) by (apply (sww_zero s1_); [assumption | lra]).
    assert (Z2 : w2 = 0) by (apply (sww_zero s2_); [assumption | lra]).
    rewrite Z0, Z1, Z2. ring. }
  pose proof (ray_quad_spec a b cc Ha Hab) as Hq. cbv zeta in Hq.
  assert (Hell : forall t, (l0 + w0 * t) * (l0 + w0 * t) / (sx * sx) + (l1 + w1 * t) * (l1 + w1 * t) / (sy * sy) + (l2 + w2 * t) * (l2 + w2 * t) / (sz * sz) = quad a b cc t + 1).
  { intros t. unfold quad, a, b, cc, s0_, s1_, s2_. field. repeat split; assumption. }
  destruct (_ray_quad a b cc) as [sol xs] eqn:Eq. cbn [fst snd] in *.
  destruct Hq as [(Hx & Hno) | (Hx & Hdisc & Hroot & Hmin)].
  - left. split; [exact Hx|]. intros t Ht He. rewrite Hell in He.
    exists a, b, cc. split; [unfold quad in He; lra|].
    destruct Hno as [Hd | Hno]; [exact Hd|]. exfalso. apply (Hno t Ht). lra.
  - right. split; [exact Hx|]. split; [rewrite Hell; lra|].
    intros t Ht He. apply Hmin; [assumption|]. rewrite Hell in He. lra.
Qed.


(* ray_geom dispatches on the geom type; any other type (mesh / hfield are handled by the caller) misses *)
Lemma ray_geom_dispatch (pos mat size pnt vec : list R) :
  ray_geom pos mat size pnt vec 0 = ray_plane pos mat size pnt vec /\
  ray_geom pos mat size pnt vec 2 = ray_sphere pos (nth 0 size 0 * nth 0 size 0) pnt vec /\
  ray_geom pos mat size pnt vec 3 = ray_capsule pos mat size pnt vec /\
  ray_geom pos mat size pnt vec 4 = ray_ellipsoid pos mat size pnt vec /\
  ray_geom pos mat size pnt vec 5 = ray_cylinder pos mat size pnt vec /\
  ray_geom pos mat size pnt vec 6 = (fst (fst (ray_box pos mat size pnt vec)), snd (ray_box pos mat size pnt vec)) /\
  (forall t : Z, t <> 0%Z -> t <> 2%Z -> t <> 3%Z -> t <> 4%Z -> t <> 5%Z -> t <> 6%Z ->
     ray_geom pos mat size pnt vec t = (-1, [0; 0; 0])).
Proof.
  repeat split; try reflexivity.
  - unfold ray_geom. cbn [Z.eqb Pos.eqb]. destruct (ray_box pos mat size pnt vec) as [[d a] n]. reflexivity.
  - intros t H0 H2 H3 H4 H5 H6. unfold ray_geom.
    destruct (Z.eqb_spec t 0); [contradiction|]. destruct (Z.eqb_spec t 2); [contradiction|].
    destruct (Z.eqb_spec t 3); [contradiction|]. destruct (Z.eqb_spec t 4); [contradiction|].
    destruct (Z.eqb_spec t 5); [contradiction|]. destruct (Z.eqb_spec t 6); [contradiction|].
    sR. unfold vconst. cbn [repeat]. replace (- (1)) with (-1) by lra. reflexivity.
Qed.

(* ======================================================================== satisfiability examples *)
(* hypotheses of bvh_equals_brute hold for a concrete two-leaf hierarchy (boxes = their entry distance) *)
Example bvh_hyps_sat :
  let entry := fun b : R => Some b in
  let prune := fun (b best : R) => Rleb best b in
  let gd : gdT := fun g => if Z.eqb g 0 then (2, [0; 0; 1]) else (1, [0; 0; 1]) in
  let t := BNode (1 / 2) (BLeaf (3 / 2) 0%Z) (BLeaf (1 / 2) 1%Z) in
  (forall b best, prune b best = true -> match entry b with None => True | Some e => best <= e end) /\
  covers R entry gd t /\ (forall g, In g (bvh_leaves t) <-> (0 <= g < 2)%Z) /\
  ray_result (bvh_trav prune (fun _ _ => false) gd t racc0) = (1, 1%Z, [0; 0; 1]).
Proof.
  cbv zeta. split; [intros b best Hp; apply Rleb_true in Hp; exact Hp|]. split; [|split].
  - cbn [covers bvh_leaves app]. unfold dof. cbn. repeat split.
    + intros _. exists (3 / 2). split; [reflexivity | lra].
    + intros _. exists (1 / 2). split; [reflexivity | lra].
    + intros g [<- | [<- | []]] _; cbn; exists (1 / 2); (split; [reflexivity | lra]).
  - intros g. cbn. lia.
  - assert (Lt : forall a b, a < b -> Rltb a b = true) by (intros; now apply Rltb_true).
    assert (Lf : forall a b, b <= a -> Rltb a b = false) by (intros; now apply Rltb_false).
    assert (Le : forall a b, a <= b -> Rleb a b = true) by (intros; now apply Rleb_true).
    assert (Lef : forall a b, b < a -> Rleb a b = false) by (intros; now apply Rleb_false).
    unfold ray_result, bvh_trav, bvh_step, racc0. cbn [adist ageom anormal fst snd Z.eqb].
    change (@sltb R ScalarR) with Rltb. change (@sgeb R ScalarR) with (fun a b => Rleb b a).
    change (@s0 R ScalarR) with 0. rewrite MAXVAL_R. cbv beta. unfold MAXV.
    rewrite (Lef 10000000000 (1 / 2)) by lra. rewrite (Lef 10000000000 (3 / 2)) by lra.
    rewrite (Le 0 2) by lra. rewrite (Lt 2 10000000000) by lra. cbn [andb adist fst snd].
    rewrite (Lef 2 (1 / 2)) by lra. rewrite (Le 0 1) by lra. rewrite (Lt 1 2) by lra. cbn [andb adist ageom anormal fst snd].
    rewrite (Lef 10000000000 1) by lra. reflexivity.
Qed.

(* hypotheses of the pixel theorems are met by an 8x6 image with a 45 degree camera *)
Example pixel_hyps_sat : (0%Z <> 1%Z) /\ (0 < 8)%Z /\ (0 < 6)%Z /\ 0 < 1 / 100 /\ (0 <= 3 < 8)%Z.
Proof. repeat split; try lia; lra. Qed.

(* eliminate_rule: a geom on the excluded body is eliminated; a visible dynamic geom with no mask is kept *)
Example eliminate_examples :
  let none := [-1; -1; -1; -1; -1; -1] in
  _ray_eliminate (fun _ => 1%Z) (fun _ => 3%Z) (fun _ => (-1)%Z) (fun _ => 0%Z) (fun _ => [1; 1; 1; 1]) (fun _ => [1; 1; 1; 1]) 0%Z none true 3%Z = true /\
  _ray_eliminate (fun _ => 1%Z) (fun _ => 3%Z) (fun _ => (-1)%Z) (fun _ => 0%Z) (fun _ => [1; 1; 1; 1]) (fun _ => [1; 1; 1; 1]) 0%Z none false (-1)%Z = false.
Proof.
  cbv zeta. rewrite !eliminate_as_bool. unfold elim_bool, no_group_maskb, alpha, group_slot. cbn [Z.eqb Z.ltb Z.geb Z.compare Pos.compare Pos.compare_cont Pos.eqb nth Z.to_nat Z.min Z.max negb andb orb].
  repeat match goal with |- context [Reqb ?a ?b] => let E := fresh in destruct (Reqb a b) eqn:E; rb; try lra end; cbn; split; reflexivity.
Qed.

(* ======================================================================== _ray_bvh primitive -> geom map (flex stride) *)
(* within world w's block of the scene BVH (ngeom geoms then nflexgeom flex primitives) primitive
   w*(ngeom+nflexgeom)+k is geom enabled_geom_ids[k] for k < ngeom and is skipped otherwise *)
Lemma bvh_geom_of_block (n f w : Z) (en : Z -> Z) (k : Z) :
  bvh_geom_of n f w en (w * (n + f) + k) = if Z.ltb k n then Some (en k) else None.
Proof.
  unfold bvh_geom_of. replace (w * (n + f) + k - w * (n + f))%Z with k by ring.
  destruct (Z.geb_spec k n), (Z.ltb_spec k n); try lia; reflexivity.
Qed.

Definition prim_geoms (n f w : Z) (en : Z -> Z) (prims : list Z) : list Z :=
  flat_map (fun b => match bvh_geom_of n f w en b with Some g => [g] | None => [] end) prims.

Lemma bvh_prims_fold (gd : gdT) n f w en : forall prims acc,
  fold_left (bvh_prim_step gd n f w en) prims acc = fold_left (bvh_step gd) (prim_geoms n f w en prims) acc.
Proof.
  induction prims as [|b prims IH]; intros acc; [reflexivity|].
  cbn [fold_left]. unfold prim_geoms. cbn [flat_map]. rewrite fold_left_app. fold (prim_geoms n f w en prims).
  rewrite IH. unfold bvh_prim_step. destruct (bvh_geom_of n f w en b); reflexivity.
Qed.

(* _ray_bvh over yielded primitive indices = the order-model over the geoms they denote *)
Theorem ray_bvh_kernel_prims_eq (gd : gdT) n f w en prims :
  ray_bvh_kernel_prims gd n f w en prims = ray_bvh_kernel gd (prim_geoms n f w en prims).
Proof. unfold ray_bvh_kernel_prims, ray_bvh_kernel, bvh_loop. now rewrite bvh_prims_fold. Qed.

(* the whole block of world w denotes exactly the enabled geoms, whatever the number of flex primitives
   and whichever world (the defect repaired in ae9ede3 made worlds >= 1 read other entries) *)
Lemma prim_geoms_real n f w en : forall l : list Z, (forall k, In k l -> (k < n)%Z) ->
  prim_geoms n f w en (map (fun k => (w * (n + f) + k)%Z) l) = map en l.
Proof.
  induction l as [|k l IH]; intros Hl; [reflexivity|].
  unfold prim_geoms in *. cbn [map flat_map]. rewrite bvh_geom_of_block.
  destruct (Z.ltb_spec k n) as [_ | Hk]; [| specialize (Hl k (or_introl eq_refl)); lia].
  cbn [app]. f_equal. apply IH. intros; apply Hl; now right.
Qed.

Lemma prim_geoms_flex n f w en : forall l : list Z, (forall k, In k l -> (n <= k)%Z) ->
  prim_geoms n f w en (map (fun k => (w * (n + f) + k)%Z) l) = [].
Proof.
  induction l as [|k l IH]; intros Hl; [reflexivity|].
  unfold prim_geoms in *. cbn [map flat_map]. rewrite bvh_geom_of_block.
  destruct (Z.ltb_spec k n) as [Hk | _]; [specialize (Hl k (or_introl eq_refl)); lia|].
  cbn [app]. apply IH. intros; apply Hl; now right.
Qed.

Lemma prim_geoms_app n f w en l1 l2 : prim_geoms n f w en (l1 ++ l2) = prim_geoms n f w en l1 ++ prim_geoms n f w en l2.
Proof. unfold prim_geoms. apply flat_map_app. Qed.

Theorem world_block_geoms (n f w : Z) (en : Z -> Z) : (0 <= n)%Z -> (0 <= f)%Z ->
  prim_geoms n f w en (map (fun k => (w * (n + f) + k)%Z) (zrange (n + f))) = map en (zrange n).
Proof.
  intros Hn Hf. unfold zrange. replace (Z.to_nat (n + f)) with (Z.to_nat n + Z.to_nat f)%nat by lia.
  rewrite seq_app, !map_app, prim_geoms_app.
  rewrite prim_geoms_real, prim_geoms_flex; [apply app_nil_r | |].
  - intros k Hk. apply in_map_iff in Hk. destruct Hk as (j & <- & Hj). apply in_seq in Hj. lia.
  - intros k Hk. apply in_map_iff in Hk. destruct Hk as (j & <- & Hj). apply in_seq in Hj. lia.
Qed.

(* ======================================================================== hfield BVH mesh: merging coplanar cells *)
(* bvh._optimize_hfield_mesh (host Python) replaces a rectangle of grid cells by one quad when every cell passes
   fits_plane: (1) the cell is planar, (2) its corner (rr,cc) lies on the start cell's plane, (3) its x- and
   y-slopes equal the start cell's.  Hand model with exact arithmetic (the 1e-5 tolerances read as equalities);
   z r c = elevation at grid node (row r, column c).  Tied to the code by the mesh-exactness obligation of
   bin/props/C34.py, which runs the real function on generated terrains. *)
Definition hf_plane (z : Z -> Z -> R) (r c : Z) (sx sy : R) (rr cc : Z) : R :=
  z r c + IZR (rr - r) * sy + IZR (cc - c) * sx.
Definition cell_fits (z : Z -> Z -> R) (r c : Z) (sx sy : R) (rr cc : Z) : Prop :=
  z rr cc + z (rr + 1)%Z (cc + 1)%Z = z rr (cc + 1)%Z + z (rr + 1)%Z cc /\
  z rr cc = hf_plane z r c sx sy rr cc /\
  z rr (cc + 1)%Z - z rr cc = sx /\ z (rr + 1)%Z cc - z rr cc = sy.

(* the merge is exact: every grid node of the merged rectangle (corners and interior) lies on the quad's plane *)
Theorem hfield_merge_exact (z : Z -> Z -> R) (r c h w : Z) (sx sy : R) :
  (1 <= h)%Z -> (1 <= w)%Z ->
  (forall rr cc, (r <= rr < r + h)%Z -> (c <= cc < c + w)%Z -> cell_fits z r c sx sy rr cc) ->
  forall rr cc, (r <= rr <= r + h)%Z -> (c <= cc <= c + w)%Z -> z rr cc = hf_plane z r c sx sy rr cc.
Proof.
  intros Hh Hw Hfit rr cc Hr Hc.
  set (r0 := if Z.ltb rr (r + h) then rr else (rr - 1)%Z).
  set (c0 := if Z.ltb cc (c + w) then cc else (cc - 1)%Z).
  assert (Hr0 : (r <= r0 < r + h)%Z) by (unfold r0; destruct (Z.ltb_spec rr (r + h)); lia).
  assert (Hc0 : (c <= c0 < c + w)%Z) by (unfold c0; destruct (Z.ltb_spec cc (c + w)); lia).
  destruct (Hfit r0 c0 Hr0 Hc0) as (Hp & H00 & Hsx & Hsy).
  unfold hf_plane in *.
  unfold r0, c0 in *. destruct (Z.ltb_spec rr (r + h)) as [Ea | Ea]; destruct (Z.ltb_spec cc (c + w)) as [Eb | Eb].
  - exact H00.
  - replace (cc - 1 + 1)%Z with cc in * by lia. rewrite !minus_IZR in *. lra.
  - replace (rr - 1 + 1)%Z with rr in * by lia. rewrite !minus_IZR in *. lra.
  - replace (rr - 1 + 1)%Z with rr in * by lia. replace (cc - 1 + 1)%Z with cc in * by lia. rewrite !minus_IZR in *. lra.
Qed.

(* the slope test (3) is NOT implied by (1) and (2): a flat cell followed by a planar ramp cell passes (1), (2)
   (the shared corner is on the start plane by construction) while the ramp's far corner is off the plane *)
Theorem hfield_merge_needs_slope_test :
  exists (z : Z -> Z -> R),
    let sx := z 0%Z 1%Z - z 0%Z 0%Z in let sy := z 1%Z 0%Z - z 0%Z 0%Z in
    cell_fits z 0 0 sx sy 0 0 /\
    (z 0%Z 1%Z + z 1%Z 2%Z = z 0%Z 2%Z + z 1%Z 1%Z /\ z 0%Z 1%Z = hf_plane z 0 0 sx sy 0 1) /\
    z 0%Z 2%Z <> hf_plane z 0 0 sx sy 0 2.
Proof.
  exists (fun _ cc => if Z.eqb cc 2 then 1 else 0). cbv zeta. unfold cell_fits, hf_plane. cbn. repeat split; lra.
Qed.

(* ======================================================================== _ray_quad: both roots *)
(* both roots stored by _ray_quad *)
Lemma ray_quad_roots (a b c : R) : 0 <= a -> (a = 0 -> b = 0) ->
  (b * b - a * c < EPS /\ snd (_ray_quad a b c) = [-1; -1])
  \/ (EPS <= b * b - a * c /\ 0 < a /\ exists x0 x1, snd (_ray_quad a b c) = [x0; x1] /\ x0 <= x1 /\
      quad a b c x0 = 0 /\ quad a b c x1 = 0 /\ forall t, quad a b c t = 0 -> t = x0 \/ t = x1).
Proof.
  intros Ha Hab. unfold _ray_quad, safe_div__S_S. sR. fold EPS.
  destruct (Rltb (b * b - a * c) EPS) eqn:Ed.
  - rb. left. cbn [snd]. split; [lra|]. replace (- (1)) with (-1) by lra. reflexivity.
  - rb. pose proof EPS_pos as He. right.
    assert (Hap : 0 < a).
    { destruct (Req_dec a 0) as [Ha0 | Ha0]; [| lra]. rewrite Ha0, (Hab Ha0) in Ed. lra. }
    destruct (Reqb a 0) eqn:Ea; [rb; lra|]. cbn [negb].
    set (s := sqrt (b * b - a * c)).
    assert (Hs : s * s = b * b - a * c) by (apply sqrt_sqrt; lra).
    assert (Hs0 : 0 <= s) by apply sqrt_pos.
    set (x0 := (- b - s) * (1 / a)). set (x1 := (- b + s) * (1 / a)).
    assert (H0 : a * x0 = - b - s) by (unfold x0; field; lra).
    assert (H1 : a * x1 = - b + s) by (unfold x1; field; lra).
    assert (Q0 : quad a b c x0 = 0).
    { unfold quad. replace (a * x0 * x0) with ((a * x0) * (a * x0) * (1 / a)) by (field; lra).
      replace (2 * b * x0) with (2 * b * (a * x0) * (1 / a)) by (field; lra). rewrite H0.
      replace c with ((a * c) * (1 / a)) at 1 by (field; lra).
      replace (a * c) with (b * b - s * s) by lra. field. lra. }
    assert (Q1 : quad a b c x1 = 0).
    { unfold quad. replace (a * x1 * x1) with ((a * x1) * (a * x1) * (1 / a)) by (field; lra).
      replace (2 * b * x1) with (2 * b * (a * x1) * (1 / a)) by (field; lra). rewrite H1.
      replace c with ((a * c) * (1 / a)) at 1 by (field; lra).
      replace (a * c) with (b * b - s * s) by lra. field. lra. }
    split; [lra|]. split; [assumption|]. exists x0, x1.
    split; [destruct (Rleb 0 x0); [reflexivity | destruct (Rleb 0 x1); reflexivity]|].
    split; [apply (Rmult_le_reg_l a); [assumption | lra]|].
    split; [assumption|]. split; [assumption|].
    intros t Qt. unfold quad in Qt, Q0.
    assert (Hf : (t - x0) * (a * t + a * x0 + 2 * b) = 0) by nra.
    apply Rmult_integral in Hf. destruct Hf as [Hf | Hf]; [left; lra|].
    right. assert (a * t = a * x1) by lra. apply (Rmult_eq_reg_l a); lra.
Qed.


(* ======================================================================== scene-BVH leaf layout: write side *)
(* what build / refit write is what _ray_bvh and cast_ray read: with stride ngeom + nflexgeom the leaf of
   (world w, enabled geom k) is mapped back to enabled_geom_ids[k], the flex leaves are skipped, and no two
   (world, primitive) pairs share a leaf *)
Theorem refit_leaf_layout (n f w : Z) (en : Z -> Z) :
  (forall k, (0 <= k < n)%Z -> bvh_geom_of n f w en (geom_leaf (n + f) w k) = Some (en k)) /\
  (forall j, (0 <= j)%Z -> bvh_geom_of n f w en (flex_leaf (n + f) n w j) = None) /\
  (forall w' k k', (0 <= k < n + f)%Z -> (0 <= k' < n + f)%Z ->
     geom_leaf (n + f) w k = geom_leaf (n + f) w' k' -> w = w' /\ k = k').
Proof.
  unfold geom_leaf, flex_leaf. repeat split.
  - intros k Hk. rewrite bvh_geom_of_block. destruct (Z.ltb_spec k n); [reflexivity | lia].
  - intros j Hj. replace (w * (n + f) + n + j)%Z with (w * (n + f) + (n + j))%Z by ring.
    rewrite bvh_geom_of_block. destruct (Z.ltb_spec (n + j) n); [lia | reflexivity].
  - assert (w = w') by nia. assumption.
  - assert (w = w') by nia. subst. lia.
Qed.

(* the translated flex-bounds kernel writes lower / upper / group of flex primitive tid1 of world tid0 at
   flex_leaf total_bvh_size bvh_ngeom tid0 tid1, and nowhere else *)
Theorem flex_bounds_write_index (w j : Z) (flex_vertadr flex_vertnum : Z -> Z) (flex_edge : Z -> list Z) (flex_radius : Z -> R)
        (flexvert_xpos : Z -> Z -> list R) (flex_geom_flexid flex_geom_edgeid : Z -> Z) (bvh_ngeom total : Z)
        (lower_out upper_out : Z -> list R) (group_out : Z -> Z) (orc : nat -> Z) :
  Forall (fun wr => w_idx wr = [flex_leaf total bvh_ngeom w j])
         (k__compute_flex_bvh_bounds w j flex_vertadr flex_vertnum flex_edge flex_radius flexvert_xpos flex_geom_flexid
                                     flex_geom_edgeid bvh_ngeom total lower_out upper_out group_out orc).
Proof.
  unfold k__compute_flex_bvh_bounds, flex_leaf.
  destruct (Z.geb (flex_geom_edgeid j) 0); cbn [fst snd app]; repeat constructor.
Qed.

(* the stride MUST include the flex primitives: with stride ngeom (and at least one flex primitive) the box of
   (world 1, geom 0) lands on world 0's first flex leaf, not on the leaf the ray kernels read for it *)
Lemma stride_without_flex_refuted (n f : Z) (en : Z -> Z) : (0 <= n)%Z -> (1 <= f)%Z ->
  geom_leaf n 1 0 <> geom_leaf (n + f) 1 0 /\ bvh_geom_of n f 0 en (geom_leaf n 1 0) = None.
Proof.
  intros Hn Hf. unfold geom_leaf. split; [lia|].
  replace (1 * n + 0)%Z with (0 * (n + f) + n)%Z by ring. rewrite bvh_geom_of_block.
  destruct (Z.ltb_spec n n); [lia | reflexivity].
Qed.

(* ======================================================================== _orthogonal_basis *)
Lemma normalize3 x y z : 0 < x * x + y * y + z * z ->
  let l := sqrt (x * x + y * y + z * z) in
  0 < l /\ l * l = x * x + y * y + z * z /\ @vnormalize R ScalarR [x; y; z] = [x / l; y / l; z / l].
Proof.
  intros Hpos l. assert (Hl : 0 < l) by (apply sqrt_lt_R0; assumption).
  assert (Hll : l * l = x * x + y * y + z * z) by (apply sqrt_sqrt; lra).
  split; [assumption|]. split; [assumption|].
  unfold vnormalize, vlen, vlen_sq. vsimp. fold l.
  destruct (Rltb 0 l) eqn:E; [reflexivity | rb; lra].
Qed.

Lemma neg_inv_rel c : c <> 0 -> - (1) / c * c = -1.
Proof. intros. field. assumption. Qed.

Lemma unit_div x y z l : 0 < l -> l * l = x * x + y * y + z * z ->
  x / l * (x / l) + y / l * (y / l) + z / l * (z / l) = 1.
Proof. intros Hl Hll. field_simplify; [| lra]. replace (x ^ 2 + y ^ 2 + z ^ 2) with (l * l) by (rewrite Hll; ring). field. lra. Qed.

From Coq Require Import Nsatz.

(* _orthogonal_basis (Duff et al.) of a UNIT vector: two unit vectors orthogonal to it and to each other,
   with no exceptional direction *)
Theorem orthogonal_basis_unit (x y z : R) : (x * x + y * y + z * z = 1)%R ->
  let b0 := fst (_orthogonal_basis [x; y; z]) in let b1 := snd (_orthogonal_basis [x; y; z]) in
  (dot3 b0 [x; y; z] = 0 /\ dot3 b1 [x; y; z] = 0 /\ dot3 b0 b1 = 0 /\ dot3 b0 b0 = 1 /\ dot3 b1 b1 = 1)%R.
Proof.
  intros Hu. cbv zeta. unfold _orthogonal_basis, dot3. vsimp.
  destruct (Rleb 0 z) eqn:E.
  - apply Rleb_true in E. cbn [fst snd].
    set (a := (- (1) / (1 + z))%R). assert (Ha : (a * (1 + z) = -1)%R) by (unfold a; apply neg_inv_rel; lra). clearbody a.
    clear E. repeat split; nsatz.
  - apply Rleb_false in E. cbn [fst snd].
    set (a := (- (1) / (- (1) + z))%R). assert (Ha : (a * (- (1) + z) = -1)%R) by (unfold a; apply neg_inv_rel; lra). clearbody a.
    clear E. repeat split; nsatz.
Qed.

(* what ray_mesh / ray_hfield use since /repo 8617230: the basis of the NORMALISED direction is
   orthogonal to the direction itself for every non-zero vec, of any length *)
Theorem orthogonal_basis_normalized (x y z : R) : (0 < x * x + y * y + z * z)%R ->
  let b0 := fst (_orthogonal_basis (@vnormalize R ScalarR [x; y; z])) in
  let b1 := snd (_orthogonal_basis (@vnormalize R ScalarR [x; y; z])) in
  (dot3 b0 [x; y; z] = 0 /\ dot3 b1 [x; y; z] = 0 /\ dot3 b0 b1 = 0 /\ dot3 b0 b0 = 1 /\ dot3 b1 b1 = 1)%R.
Proof.
  intros Hpos. cbv zeta. destruct (normalize3 x y z Hpos) as (Hl & Hll & En). cbv zeta in *.
  set (l := sqrt (x * x + y * y + z * z)) in *. rewrite En.
  pose proof (orthogonal_basis_unit (x / l) (y / l) (z / l) (unit_div x y z l Hl Hll)) as (H0 & H1 & H2 & H3 & H4).
  cbv zeta in *. repeat split; try assumption.
  - replace (dot3 (fst (_orthogonal_basis [(x / l)%R; (y / l)%R; (z / l)%R])) [x; y; z])
      with (l * dot3 (fst (_orthogonal_basis [(x / l)%R; (y / l)%R; (z / l)%R])) [(x / l)%R; (y / l)%R; (z / l)%R])%R.
    + rewrite H0. ring.
    + assert (Hz : (z = z / l * l)%R) by (field; lra).
      unfold _orthogonal_basis, dot3. vsimp. destruct (Rleb 0 (z / l)) eqn:E; rb; cbn [fst snd].
      * assert ((0 <= z)%R) by (rewrite Hz; apply Rmult_le_pos; lra). field. split; lra.
      * assert ((z / l * l < 0)%R) by nra. assert ((z < 0)%R) by lra. field. split; lra.
  - replace (dot3 (snd (_orthogonal_basis [(x / l)%R; (y / l)%R; (z / l)%R])) [x; y; z])
      with (l * dot3 (snd (_orthogonal_basis [(x / l)%R; (y / l)%R; (z / l)%R])) [(x / l)%R; (y / l)%R; (z / l)%R])%R.
    + rewrite H1. ring.
    + assert (Hz : (z = z / l * l)%R) by (field; lra).
      unfold _orthogonal_basis, dot3. vsimp. destruct (Rleb 0 (z / l)) eqn:E; rb; cbn [fst snd].
      * assert ((0 <= z)%R) by (rewrite Hz; apply Rmult_le_pos; lra). field. split; lra.
      * assert ((z / l * l < 0)%R) by nra. assert ((z < 0)%R) by lra. field. split; lra.
Qed.
