(* Proof/Dyn.v -- lemmas for C02 about Model/Dyn.v and the REGENERATED Gen/math.v,
   Gen/passive_util.v.
   1. tree_accumulate_topo / tree_accumulate_sched_correct: leaf-to-root accumulation in any
      child-before-parent order, in particular level by level with any order inside a
      level, equals the recursive subtree sum; equals MuJoCo's sequential backward loop.
   2. over R: inert_sym, motion_cross antisymmetry, force/motion duality, the velocity-product
      force does no work.
   3. crb_M_entry_subtree: an entry of M computed from the accumulated crb is the sum of
      the per-body contributions over the subtree.
   4. qfrc_smooth, polynomial damping. *)
From Coq Require Import ZArith Reals List Bool Lia Lra Psatz Permutation Sorted ZifyBool.
From VF Require Import Base.Scalar Base.ScalarR Base.Vec Gen.math Gen.passive_util Model.Dyn.
Import ListNotations.
Local Open Scope Z_scope.

(* ---------- arrays ---------------------------------------------------------------- *)
Lemma aset_nat_length {A} (l : list A) k x : length (aset_nat l k x) = length l.
Proof. revert k; induction l; destruct k; simpl; auto. Qed.
Lemma aset_length {A} (l : list A) i x : length (aset l i x) = length l.
Proof. unfold aset. destruct (i <? 0); auto using aset_nat_length. Qed.
Lemma aset_nat_same {A} d (l : list A) k x : (k < length l)%nat -> nth k (aset_nat l k x) d = x.
Proof. revert k; induction l; destruct k; simpl; intros; try lia; auto. apply IHl; lia. Qed.
Lemma aset_nat_other {A} d (l : list A) k j x : k <> j -> nth j (aset_nat l k x) d = nth j l d.
Proof. revert k j; induction l; destruct k, j; simpl; intros; try congruence; auto. Qed.
Lemma aget_aset_same {A} d (l : list A) i x :
  0 <= i < Z.of_nat (length l) -> aget d (aset l i x) i = x.
Proof.
  intros. unfold aget, aset. destruct (i <? 0) eqn:E; [lia|]. apply aset_nat_same. lia.
Qed.
Lemma aget_aset_other {A} d (l : list A) i j x :
  0 <= j -> i <> j -> aget d (aset l i x) j = aget d l j.
Proof.
  intros. unfold aget, aset. destruct (i <? 0) eqn:E; auto. apply aset_nat_other. lia.
Qed.

Lemma zseq_S n : zseq (S n) = zseq n ++ [Z.of_nat n].
Proof. unfold zseq. rewrite seq_S, map_app. reflexivity. Qed.
Lemma in_zseq n x : In x (zseq n) <-> 0 <= x < Z.of_nat n.
Proof.
  unfold zseq. rewrite in_map_iff. split.
  - intros (k & <- & Hk). apply in_seq in Hk. lia.
  - intros. exists (Z.to_nat x). split; [lia|]. apply in_seq. lia.
Qed.
Lemma zseq_NoDup n : NoDup (zseq n).
Proof.
  unfold zseq. apply FinFun.Injective_map_NoDup.
  - intros a b; lia.
  - apply seq_NoDup.
Qed.

(* ---------- generic list facts ------------------------------------------------------ *)
Lemma filter_all {A} (p : A -> bool) l : (forall x, In x l -> p x = true) -> filter p l = l.
Proof.
  induction l; simpl; intros; auto. rewrite H by auto. f_equal. apply IHl. auto.
Qed.
Lemma filter_none {A} (p : A -> bool) l : (forall x, In x l -> p x = false) -> filter p l = [].
Proof.
  induction l; simpl; intros; auto. rewrite H by auto. apply IHl. auto.
Qed.
Lemma filter_disj_app {A} (p q : A -> bool) l :
  (forall x, In x l -> p x = true -> q x = false) ->
  Permutation (filter p l ++ filter q l) (filter (fun x => p x || q x) l).
Proof.
  induction l; simpl; intros Hd; auto.
  assert (IH : Permutation (filter p l ++ filter q l) (filter (fun x => p x || q x) l)) by auto.
  destruct (p a) eqn:Ep; simpl.
  - rewrite (Hd a) by auto. apply perm_skip, IH.
  - destruct (q a) eqn:Eq.
    + eapply Permutation_trans; [apply Permutation_sym, Permutation_middle|]. apply perm_skip, IH.
    + apply IH.
Qed.
Lemma concat_levels_perm (f : Z -> Z) keys l :
  NoDup keys ->
  Permutation (concat (map (fun k => filter (fun i => f i =? k) l) keys))
              (filter (fun i => existsb (fun k => f i =? k) keys) l).
Proof.
  induction keys as [|k ks IH]; intros ND; simpl.
  - rewrite filter_none; auto.
  - inversion ND; subst.
    eapply Permutation_trans; [apply Permutation_app_head, IH; auto|].
    apply filter_disj_app. intros x _ Hx.
    apply Z.eqb_eq in Hx. destruct (existsb (fun k0 => f x =? k0) ks) eqn:E; auto.
    apply existsb_exists in E. destruct E as (k' & Hin & Hk'). apply Z.eqb_eq in Hk'. congruence.
Qed.
Lemma NoDup_app_l {A} (l l' : list A) : NoDup (l ++ l') -> NoDup l.
Proof.
  induction l; simpl; intros H; [constructor|]. inversion H; subst. constructor; auto.
  intros Hin. apply H2. apply in_or_app. auto.
Qed.
Lemma Forall2_weaken {A B} (P Q : A -> B -> Prop) a b :
  (forall x y, P x y -> Q x y) -> Forall2 P a b -> Forall2 Q a b.
Proof. induction 2; constructor; auto. Qed.
Lemma Permutation_concat_Forall2 {A} (a b : list (list A)) :
  Forall2 (@Permutation A) a b -> Permutation (concat a) (concat b).
Proof. induction 1; simpl; auto. apply Permutation_app; auto. Qed.
Lemma Permutation_concat_rev {A} (a : list (list A)) : Permutation (concat (rev a)) (concat a).
Proof.
  induction a; simpl; auto. rewrite concat_app. simpl. rewrite app_nil_r.
  eapply Permutation_trans; [apply Permutation_app_comm|]. apply Permutation_app_head, IHa.
Qed.
Lemma fold_left_concat {A B} (f : A -> B -> A) (ls : list (list B)) a :
  fold_left f (concat ls) a = fold_left (fun st l => fold_left f l st) ls a.
Proof. revert a; induction ls; simpl; intros; auto. rewrite fold_left_app. apply IHls. Qed.
Lemma Forall2_map_r {A B C} (P : A -> C -> Prop) (f : B -> C) a b :
  Forall2 P a (map f b) -> Forall2 (fun x y => P x (f y)) a b.
Proof.
  revert a; induction b; simpl; intros a0 H; inversion H; subst; constructor; auto.
Qed.

(* sortedness *)
Lemma SS_app {A} (R : A -> A -> Prop) l1 l2 :
  StronglySorted R l1 -> StronglySorted R l2 -> (forall a b, In a l1 -> In b l2 -> R a b) ->
  StronglySorted R (l1 ++ l2).
Proof.
  induction l1; simpl; intros H1 H2 Hc; auto.
  apply StronglySorted_inv in H1. destruct H1 as [H1 Hf]. constructor.
  - apply IHl1; auto.
  - apply Forall_app. split; auto. apply Forall_forall. intros; apply Hc; auto.
Qed.
Lemma SS_split {A} (R : A -> A -> Prop) P c Q : StronglySorted R (P ++ c :: Q) -> Forall (R c) Q.
Proof.
  induction P; simpl; intros H; apply StronglySorted_inv in H; destruct H; auto.
Qed.
Lemma SS_rev l : StronglySorted Z.lt l -> StronglySorted (fun a b => b < a) (rev l).
Proof.
  induction 1; simpl; [constructor|]. apply SS_app; auto.
  - repeat constructor.
  - intros x y Hx Hy. destruct Hy as [<-|[]]. apply in_rev in Hx.
    rewrite Forall_forall in H0. auto.
Qed.
Lemma SS_lt_NoDup l : StronglySorted Z.lt l -> NoDup l.
Proof.
  induction 1; constructor; auto. intros Hin. rewrite Forall_forall in H0.
  apply H0 in Hin. lia.
Qed.
Lemma SS_const {A} (dep : A -> Z) k s :
  (forall x, In x s -> dep x = k) -> StronglySorted (fun a b => dep b <= dep a) s.
Proof.
  induction s; intros; constructor.
  - apply IHs. intros; apply H; simpl; auto.
  - apply Forall_forall. intros x Hx. rewrite (H a), (H x); simpl; auto. lia.
Qed.
Lemma SS_concat {A} (dep : A -> Z) scheds ks :
  Forall2 (fun s k => forall x, In x s -> dep x = k) scheds ks ->
  StronglySorted (fun a b => b < a) ks ->
  StronglySorted (fun a b => dep b <= dep a) (concat scheds).
Proof.
  induction 1 as [|s k ss ks' Hs Hrest IH]; simpl; intros Hk; [constructor|].
  apply StronglySorted_inv in Hk. destruct Hk as [Hk Hf].
  apply SS_app; auto.
  - eapply SS_const; eauto.
  - intros a b Ha Hb. rewrite (Hs a Ha).
    assert (exists k', In k' ks' /\ dep b = k') as (k' & Hk' & ->).
    { clear - Hrest Hb. induction Hrest; simpl in *; [tauto|].
      apply in_app_or in Hb. destruct Hb as [Hb|Hb].
      - exists y; auto.
      - destruct (IHHrest Hb) as (k' & ? & ?). exists k'; auto. }
    rewrite Forall_forall in Hf. apply Hf in Hk'. lia.
Qed.

(* sorted(bodies) *)
Lemma ins_uniq_in x y l : In y (ins_uniq x l) <-> y = x \/ In y l.
Proof.
  induction l as [|z r IH]; simpl.
  - intuition.
  - destruct (x <? z) eqn:E1; simpl; [intuition|].
    destruct (x =? z) eqn:E2; simpl.
    + apply Z.eqb_eq in E2; subst. intuition.
    + rewrite IH. intuition.
Qed.
Lemma ins_uniq_sorted x l : StronglySorted Z.lt l -> StronglySorted Z.lt (ins_uniq x l).
Proof.
  induction 1 as [|z r Hr IH Hf]; simpl.
  - repeat constructor.
  - destruct (x <? z) eqn:E1.
    + constructor; [constructor; auto|]. constructor; [lia|].
      rewrite Forall_forall in *. intros y Hy. apply Hf in Hy. lia.
    + destruct (x =? z) eqn:E2; [constructor; auto|].
      constructor; auto. rewrite Forall_forall in *. intros y Hy.
      apply ins_uniq_in in Hy. destruct Hy as [->|Hy]; [lia|auto].
Qed.
Lemma sort_uniq_in y l : In y (sort_uniq l) <-> In y l.
Proof.
  induction l; simpl; [tauto|]. rewrite ins_uniq_in, IHl. intuition.
Qed.
Lemma sort_uniq_sorted l : StronglySorted Z.lt (sort_uniq l).
Proof. induction l; simpl; [constructor|]. apply ins_uniq_sorted; auto. Qed.

(* ---------- body_depth -------------------------------------------------------------- *)
Section Depth.
  Variable parent : list Z.
  Hypothesis WF : wf_forest parent.

  Let dstep (dep : list Z) (i : Z) := aset dep i (aget (-1) dep (aget 0 parent i) + 1).
  Let depk (k : nat) := fold_left dstep (zseq k) (repeat (-1) (length parent)).

  Lemma depk_inv k : (k <= length parent)%nat ->
    length (depk k) = length parent /\
    ((0 < k)%nat -> aget (-1) (depk k) 0 = 0) /\
    forall i, 0 < i < Z.of_nat k -> aget (-1) (depk k) i = aget (-1) (depk k) (aget 0 parent i) + 1.
  Proof.
    destruct WF as (Hn & H0 & Hp).
    induction k; intros Hk.
    - unfold depk; simpl. rewrite repeat_length. repeat split; intros; lia.
    - destruct IHk as (IL & I0 & IR); [lia|].
      assert (E : depk (S k) = dstep (depk k) (Z.of_nat k)).
      { unfold depk. rewrite zseq_S, fold_left_app. reflexivity. }
      rewrite E. unfold dstep. repeat split.
      + rewrite aset_length; auto.
      + intros _. destruct k.
        * simpl Z.of_nat. rewrite H0. rewrite aget_aset_same by lia.
          unfold depk; simpl. unfold aget. simpl Z.to_nat.
          destruct (length parent); [lia|]. simpl. reflexivity.
        * rewrite aget_aset_other by lia. apply I0. lia.
      + intros i Hi. destruct (Z.eq_dec i (Z.of_nat k)) as [->|Hne].
        * specialize (Hp (Z.of_nat k)). rewrite aget_aset_same by lia.
          rewrite aget_aset_other by lia. reflexivity.
        * specialize (Hp i). rewrite !aget_aset_other by lia. apply IR. lia.
  Qed.

  Lemma body_depth_length : length (body_depth parent) = length parent.
  Proof. apply (depk_inv (length parent)). lia. Qed.
  Lemma body_depth_root : aget (-1) (body_depth parent) 0 = 0.
  Proof. destruct WF as (Hn & _). apply (depk_inv (length parent)); lia. Qed.
  Lemma body_depth_child i : 0 < i < Z.of_nat (length parent) ->
    aget (-1) (body_depth parent) i = aget (-1) (body_depth parent) (aget 0 parent i) + 1.
  Proof. apply (depk_inv (length parent)). lia. Qed.
End Depth.

(* ---------- leaf-to-root accumulation ---------------------------------------------- *)
Section AccProof.
  Context {V : Type}.
  Variable vplus : V -> V -> V.
  Variable vdef : V.
  Hypothesis vplus_assoc : forall a b c, vplus (vplus a b) c = vplus a (vplus b c).
  Hypothesis vplus_comm : forall a b, vplus a b = vplus b a.
  Variable g : acc_guard.
  Variable parent : list Z.
  Hypothesis WF : wf_forest parent.
  Variable init : list V.

  Notation n := (length parent).
  Notation sub := (subtree_sum vplus vdef g parent init).
  Notation task := (acc_task vplus vdef g parent).
  Notation child := (acc_child g parent).

  Lemma fold_perm l l' : Permutation l l' -> forall a, fold_left vplus l a = fold_left vplus l' a.
  Proof.
    induction 1; simpl; intros; auto.
    - f_equal. rewrite !vplus_assoc. f_equal. apply vplus_comm.
    - rewrite IHPermutation1. auto.
  Qed.

  Lemma skip0 : acc_skips g parent 0 = true.
  Proof. destruct WF as (_ & H0 & _). destruct g; simpl; [reflexivity|]. rewrite H0. reflexivity. Qed.

  Lemma child_facts b c : 0 <= c < Z.of_nat n -> child b c = true ->
    aget 0 parent c = b /\ acc_skips g parent c = false /\ 0 <= b < c.
  Proof.
    intros Hc H. unfold acc_child in H. apply andb_true_iff in H. destruct H as [H1 H2].
    apply Z.eqb_eq in H1. apply negb_true_iff in H2.
    assert (c <> 0) by (intros ->; rewrite skip0 in H2; discriminate).
    destruct WF as (_ & _ & Hp). specialize (Hp c). repeat split; auto; lia.
  Qed.

  Lemma ssf_indep f1 : forall f2 b, 0 <= b < Z.of_nat n ->
    Z.of_nat n - b <= Z.of_nat f1 -> Z.of_nat n - b <= Z.of_nat f2 ->
    subtree_sum_f vplus vdef g parent f1 init b = subtree_sum_f vplus vdef g parent f2 init b.
  Proof.
    induction f1; intros f2 b Hb H1 H2; destruct f2; try lia.
    simpl. f_equal. apply map_ext_in. intros c Hc.
    unfold acc_children in Hc. apply filter_In in Hc. destruct Hc as [Hc1 Hc2].
    apply in_zseq in Hc1. destruct (child_facts b c Hc1 Hc2) as (_ & _ & ?).
    apply IHf1; lia.
  Qed.

  Lemma sub_eq b : 0 <= b < Z.of_nat n ->
    sub b = fold_left vplus (map sub (acc_children g parent b)) (aget vdef init b).
  Proof.
    intros Hb. unfold subtree_sum. rewrite (ssf_indep n (S n) b) by lia. reflexivity.
  Qed.

  Hypothesis Hlen : length init = length parent.

  Definition acc_inv (P : list Z) (st : list V) : Prop :=
    length st = n /\
    forall b, 0 <= b < Z.of_nat n ->
      aget vdef st b = fold_left vplus (map sub (filter (child b) P)) (aget vdef init b).

  Lemma acc_inv_step P c st :
    acc_inv P st -> 0 <= c < Z.of_nat n ->
    (acc_skips g parent c = false -> Permutation (filter (child c) P) (acc_children g parent c)) ->
    acc_inv (P ++ [c]) (task st c).
  Proof.
    intros (IL & IV) Hc Hperm. unfold acc_task.
    destruct (acc_skips g parent c) eqn:Es.
    - split; auto. intros b Hb. rewrite filter_app. simpl.
      unfold acc_child at 2. rewrite Es, andb_false_r. rewrite app_nil_r. auto.
    - assert (c <> 0) by (intros ->; rewrite skip0 in Es; discriminate).
      destruct WF as (_ & _ & Hp). specialize (Hp c ltac:(lia)).
      split; [rewrite aset_length; auto|].
      intros b Hb. rewrite filter_app. simpl. unfold acc_child at 2. rewrite Es. simpl.
      rewrite andb_true_r.
      destruct (Z.eq_dec (aget 0 parent c) b) as [E|E].
      + rewrite E. rewrite Z.eqb_refl. rewrite aget_aset_same by lia.
        rewrite map_app, fold_left_app. simpl. f_equal.
        * apply IV; auto.
        * rewrite IV by lia. rewrite (fold_perm _ _ (Permutation_map sub (Hperm eq_refl))).
          symmetry. apply sub_eq. lia.
      + rewrite aget_aset_other by lia.
        replace (aget 0 parent c =? b) with false by (symmetry; apply Z.eqb_neq; auto).
        rewrite app_nil_r. auto.
  Qed.

  Definition topo_ok (T : list Z) : Prop :=
    forall P c Q, T = P ++ c :: Q ->
      forall x, 0 <= x < Z.of_nat n -> child c x = true -> In x P.

  Lemma acc_inv_run Q : forall P st,
    acc_inv P st -> NoDup (P ++ Q) -> (forall x, In x (P ++ Q) -> 0 <= x < Z.of_nat n) ->
    topo_ok (P ++ Q) -> acc_inv (P ++ Q) (fold_left task Q st).
  Proof.
    induction Q as [|c Q IH]; intros P st Hinv ND Hr Ht; simpl.
    - rewrite app_nil_r. auto.
    - replace (P ++ c :: Q) with ((P ++ [c]) ++ Q) in * by (rewrite <- app_assoc; reflexivity).
      apply IH; auto.
      apply acc_inv_step; auto.
      + apply Hr. apply in_or_app. left. apply in_or_app. right. simpl; auto.
      + intros _. apply NoDup_Permutation.
        * apply NoDup_filter. apply NoDup_app_l in ND. apply NoDup_app_l in ND. auto.
        * apply NoDup_filter, zseq_NoDup.
        * intros x. unfold acc_children. rewrite !filter_In, in_zseq. split; intros [H1 H2]; split; auto.
          -- apply Hr. apply in_or_app. left. apply in_or_app. left. auto.
          -- apply (Ht P c Q); auto. rewrite <- app_assoc. reflexivity.
  Qed.

  (* any execution order in which a body is processed after all its (contributing) children *)
  Theorem tree_accumulate_topo T :
    Permutation T (zseq n) -> topo_ok T ->
    forall b, 0 <= b < Z.of_nat n -> aget vdef (fold_left task T init) b = sub b.
  Proof.
    intros HP Ht b Hb.
    assert (Hinv : acc_inv ([] ++ T) (fold_left task T init)).
    { apply acc_inv_run; simpl; auto.
      - split; auto.
      - eapply Permutation_NoDup; [apply Permutation_sym, HP | apply zseq_NoDup].
      - intros x Hx. apply in_zseq. eapply Permutation_in; eauto. }
    simpl in Hinv. destruct Hinv as (_ & IV). rewrite IV by auto.
    rewrite sub_eq by auto. apply fold_perm. apply Permutation_map.
    apply NoDup_Permutation.
    - apply NoDup_filter. eapply Permutation_NoDup; [apply Permutation_sym, HP | apply zseq_NoDup].
    - apply NoDup_filter, zseq_NoDup.
    - intros x. unfold acc_children. rewrite !filter_In. split; intros [H1 H2]; split; auto.
      + eapply Permutation_in; eauto.
      + eapply Permutation_in; [apply Permutation_sym|]; eauto.
  Qed.

  (* the level schedule of put_model / crb / com_pos / rne, any order inside each level *)
  Notation dep := (aget (-1) (body_depth parent)).

  Lemma level_concat_perm scheds :
    Forall2 (@Permutation Z) scheds (rev (body_tree parent)) -> Permutation (concat scheds) (zseq n).
  Proof.
    intros HF.
    eapply Permutation_trans; [apply Permutation_concat_Forall2, HF|].
    eapply Permutation_trans; [apply Permutation_concat_rev|].
    unfold body_tree, level_of.
    eapply Permutation_trans;
      [apply (concat_levels_perm dep (sort_uniq (body_depth parent)) (zseq n)), SS_lt_NoDup, sort_uniq_sorted|].
    rewrite filter_all; auto.
    intros x Hx. apply in_zseq in Hx. apply existsb_exists. exists (dep x). split; [|apply Z.eqb_refl].
    apply sort_uniq_in. unfold aget. apply nth_In. rewrite body_depth_length by auto. lia.
  Qed.

  Lemma level_concat_sorted scheds :
    Forall2 (@Permutation Z) scheds (rev (body_tree parent)) ->
    StronglySorted (fun a b => dep b <= dep a) (concat scheds).
  Proof.
    intros HF. unfold body_tree in HF. rewrite <- map_rev in HF. apply Forall2_map_r in HF.
    eapply SS_concat with (ks := rev (sort_uniq (body_depth parent))).
    - eapply Forall2_weaken; [|exact HF]. simpl. intros s k Hs x Hx.
      eapply Permutation_in in Hx; [|exact Hs]. unfold level_of in Hx.
      apply filter_In in Hx. destruct Hx as [_ Hx]. apply Z.eqb_eq in Hx. auto.
    - apply SS_rev, sort_uniq_sorted.
  Qed.

  Theorem tree_accumulate_sched_correct scheds :
    Forall2 (@Permutation Z) scheds (rev (body_tree parent)) ->
    forall b, 0 <= b < Z.of_nat n ->
      aget vdef (tree_accumulate_sched vplus vdef g parent scheds init) b = sub b.
  Proof.
    intros HF b Hb. unfold tree_accumulate_sched, acc_launch.
    rewrite <- fold_left_concat.
    apply tree_accumulate_topo; auto.
    - apply level_concat_perm; auto.
    - intros P c Q HT x Hx Hch.
      destruct (child_facts c x Hx Hch) as (Hpx & _ & Hcx).
      assert (Hin : In x (concat scheds)).
      { eapply Permutation_in; [apply Permutation_sym, level_concat_perm; auto|]. apply in_zseq; auto. }
      rewrite HT in Hin. apply in_app_or in Hin. destruct Hin as [Hin|[Hin|Hin]]; auto; [lia|].
      pose proof (level_concat_sorted scheds HF) as HS. rewrite HT in HS.
      apply SS_split in HS. rewrite Forall_forall in HS. apply HS in Hin.
      rewrite (body_depth_child parent WF x) in Hin by lia. rewrite Hpx in Hin. lia.
  Qed.

  (* the CPU order (ascending tid inside each level) *)
  Corollary tree_accumulate_correct b : 0 <= b < Z.of_nat n ->
    aget vdef (tree_accumulate vplus vdef g parent init) b = sub b.
  Proof.
    apply tree_accumulate_sched_correct.
    induction (rev (body_tree parent)); constructor; auto.
  Qed.

  (* MuJoCo C's sequential backward loop is one more topological order *)
  Lemma zseq_sorted k : StronglySorted Z.lt (zseq k).
  Proof.
    induction k; [constructor|]. rewrite zseq_S. apply SS_app; auto.
    - repeat constructor.
    - intros a b0 Ha [<-|[]]. apply in_zseq in Ha. lia.
  Qed.

  Theorem serial_accumulate_correct b : 0 <= b < Z.of_nat n ->
    aget vdef (serial_accumulate vplus vdef g parent init) b = sub b.
  Proof.
    intros Hb. unfold serial_accumulate, acc_launch. apply tree_accumulate_topo; auto.
    - apply Permutation_sym, Permutation_rev.
    - intros P c Q HT x Hx Hch.
      destruct (child_facts c x Hx Hch) as (_ & _ & Hcx).
      assert (Hin : In x (rev (zseq n))) by (rewrite <- in_rev; apply in_zseq; auto).
      rewrite HT in Hin. apply in_app_or in Hin. destruct Hin as [Hin|[Hin|Hin]]; auto; [lia|].
      pose proof (SS_rev _ (zseq_sorted n)) as HS. rewrite HT in HS.
      apply SS_split in HS. rewrite Forall_forall in HS. apply HS in Hin. lia.
  Qed.

  (* hence: MJWarp's level-parallel schedule and MuJoCo's loop agree at every body *)
  Corollary tree_accumulate_eq_serial scheds :
    Forall2 (@Permutation Z) scheds (rev (body_tree parent)) ->
    forall b, 0 <= b < Z.of_nat n ->
      aget vdef (tree_accumulate_sched vplus vdef g parent scheds init) b
      = aget vdef (serial_accumulate vplus vdef g parent init) b.
  Proof.
    intros. rewrite tree_accumulate_sched_correct, serial_accumulate_correct; auto.
  Qed.
End AccProof.

(* ---------- flat form: the subtree as a list of bodies ------------------------------- *)
(* subtree_nodes b = b followed by the subtrees of its contributing children (preorder) *)
Section Flat.
  Context {V : Type}.
  Variable vplus : V -> V -> V.
  Variable vdef : V.
  Hypothesis vplus_assoc : forall a b c, vplus (vplus a b) c = vplus a (vplus b c).
  Variable g : acc_guard.
  Variable parent : list Z.
  Variable init : list V.

  Lemma fold_shift l : forall a x, vplus a (fold_left vplus l x) = fold_left vplus l (vplus a x).
  Proof. induction l; simpl; intros; auto. rewrite IHl, vplus_assoc. reflexivity. Qed.

  Lemma ssf_flat f : forall b,
    subtree_sum_f vplus vdef g parent f init b
    = fold_left vplus (map (aget vdef init) (tl (subtree_nodes_f g parent f b))) (aget vdef init b).
  Proof.
    induction f; intros b; simpl; auto.
    generalize (aget vdef init b) as a. induction (acc_children g parent b) as [|c cs IHc]; intros a; simpl; auto.
    rewrite map_app, fold_left_app. rewrite IHc. f_equal.
    rewrite IHf. destruct f; simpl; try rewrite fold_shift; reflexivity.
  Qed.

  Theorem subtree_sum_flat b :
    subtree_sum vplus vdef g parent init b
    = fold_left vplus (map (aget vdef init) (tl (subtree_nodes g parent b))) (aget vdef init b).
  Proof. apply ssf_flat. Qed.
End Flat.

(* ---------- algebra of the translated spatial functions over R ---------------------- *)
Local Open Scope R_scope.

(* smooth.py _M:  buf = inert_vec(crb[bodyid_i], cdof[i]);  M[i, j] += dot(cdof[j], buf)
   for j = i, parent(i), ...: the quantity added to one entry *)
Definition M_entry {S : Type} `{Scalar S} (crb_i cdof_i cdof_j : list S) : S :=
  vdot cdof_j (inert_vec crb_i cdof_i).

Ltac dsimp :=
  cbv [inert_vec motion_cross motion_cross_force M_entry
       vget vset vconst vadd vsub vscale vscaler vdivs vneg vdot vdot_acc vlen_sq vcross vmap2 map
       app nth Z.to_nat Pos.to_nat Pos.iter_op Nat.add Nat.mul Nat.eqb
       Z.add Z.mul Pos.add Pos.mul Pos.succ] in *;
  sR.

Definition v6 (a b c d e f : R) : list R := [a;b;c;d;e;f].
Definition v10 (a b c d e f g h i j : R) : list R := [a;b;c;d;e;f;g;h;i;j].

Lemma inert_sym_explicit i0 i1 i2 i3 i4 i5 i6 i7 i8 i9 a0 a1 a2 a3 a4 a5 b0 b1 b2 b3 b4 b5 :
  vdot (v6 a0 a1 a2 a3 a4 a5) (inert_vec (v10 i0 i1 i2 i3 i4 i5 i6 i7 i8 i9) (v6 b0 b1 b2 b3 b4 b5))
  = vdot (v6 b0 b1 b2 b3 b4 b5) (inert_vec (v10 i0 i1 i2 i3 i4 i5 i6 i7 i8 i9) (v6 a0 a1 a2 a3 a4 a5)).
Proof. unfold v6, v10. dsimp. ring. Qed.

Lemma len6 (v : list R) : length v = 6%nat -> exists a b c d e f, v = v6 a b c d e f.
Proof.
  do 7 (destruct v as [|? v]; simpl; try discriminate). intros _. do 6 eexists. reflexivity.
Qed.
Lemma len10 (v : list R) : length v = 10%nat -> exists a b c d e f g h i j, v = v10 a b c d e f g h i j.
Proof.
  do 11 (destruct v as [|? v]; simpl; try discriminate). intros _. do 10 eexists. reflexivity.
Qed.

Lemma inert_sym (I v w : list R) :
  length I = 10%nat -> length v = 6%nat -> length w = 6%nat ->
  vdot v (inert_vec I w) = vdot w (inert_vec I v).
Proof.
  intros HI Hv Hw.
  destruct (len10 I HI) as (i0&i1&i2&i3&i4&i5&i6&i7&i8&i9&->).
  destruct (len6 v Hv) as (a0&a1&a2&a3&a4&a5&->).
  destruct (len6 w Hw) as (b0&b1&b2&b3&b4&b5&->).
  apply inert_sym_explicit.
Qed.

Lemma motion_cross_antisym (u v : list R) : length u = 6%nat -> length v = 6%nat ->
  motion_cross u v = vneg (motion_cross v u).
Proof.
  intros Hu Hv.
  destruct (len6 u Hu) as (a0&a1&a2&a3&a4&a5&->).
  destruct (len6 v Hv) as (b0&b1&b2&b3&b4&b5&->).
  unfold v6. dsimp. repeat (f_equal; try ring).
Qed.

Lemma motion_cross_self (v : list R) : length v = 6%nat -> motion_cross v v = vconst 6 0.
Proof.
  intros Hv. destruct (len6 v Hv) as (b0&b1&b2&b3&b4&b5&->).
  unfold v6. dsimp. simpl. repeat (f_equal; try ring).
Qed.

Lemma motion_cross_force_dual (v f u : list R) :
  length v = 6%nat -> length f = 6%nat -> length u = 6%nat ->
  vdot (motion_cross_force v f) u = - vdot f (motion_cross v u).
Proof.
  intros Hv Hf Hu.
  destruct (len6 v Hv) as (a0&a1&a2&a3&a4&a5&->).
  destruct (len6 f Hf) as (b0&b1&b2&b3&b4&b5&->).
  destruct (len6 u Hu) as (c0&c1&c2&c3&c4&c5&->).
  unfold v6. dsimp. ring.
Qed.

(* the velocity-product force of RNE does no work: v . (v x* (I v)) = 0 *)
Lemma gyroscopic_no_work (I v : list R) : length I = 10%nat -> length v = 6%nat ->
  vdot (motion_cross_force v (inert_vec I v)) v = 0.
Proof.
  intros HI Hv.
  destruct (len10 I HI) as (i0&i1&i2&i3&i4&i5&i6&i7&i8&i9&->).
  destruct (len6 v Hv) as (a0&a1&a2&a3&a4&a5&->).
  unfold v6, v10. dsimp. ring.
Qed.

(* componentwise addition of real vectors, total on lists (keeps the longer tail) so
   that it is a commutative monoid on all lists; on equal lengths it is Warp's vec + vec *)
Fixpoint ladd (a b : list R) : list R :=
  match a, b with
  | x :: a', y :: b' => (x + y) :: ladd a' b'
  | [], _ => b
  | _, [] => a
  end.
Lemma ladd_assoc a : forall b c, ladd (ladd a b) c = ladd a (ladd b c).
Proof.
  induction a; intros [|y b] [|z c]; simpl; auto. rewrite IHa. f_equal; ring.
Qed.
Lemma ladd_comm a : forall b, ladd a b = ladd b a.
Proof. induction a; intros [|y b]; simpl; auto. rewrite IHa. f_equal; ring. Qed.
Lemma ladd_length a : forall b, length a = length b -> length (ladd a b) = length a.
Proof. induction a; intros [|y b]; simpl; auto; intros H; f_equal; apply IHa; lia. Qed.
Lemma ladd_vadd a : forall b, length a = length b -> ladd a b = @vadd R ScalarR a b.
Proof.
  induction a; intros [|y b]; simpl; auto; try discriminate.
  intros H. unfold vadd. simpl. f_equal. apply IHa. lia.
Qed.

(* inert_vec is linear in the inertia *)
Lemma M_entry_add I1 I2 u v : length I1 = 10%nat -> length I2 = 10%nat ->
  length u = 6%nat -> length v = 6%nat ->
  M_entry (ladd I1 I2) u v = M_entry I1 u v + M_entry I2 u v.
Proof.
  intros H1 H2 Hu Hv.
  destruct (len10 I1 H1) as (i0&i1&i2&i3&i4&i5&i6&i7&i8&i9&->).
  destruct (len10 I2 H2) as (j0&j1&j2&j3&j4&j5&j6&j7&j8&j9&->).
  destruct (len6 u Hu) as (a0&a1&a2&a3&a4&a5&->).
  destruct (len6 v Hv) as (b0&b1&b2&b3&b4&b5&->).
  unfold v6, v10. simpl ladd. dsimp. ring.
Qed.

Definition Rsum (l : list R) : R := fold_right Rplus 0 l.

Lemma M_entry_fold u v : length u = 6%nat -> length v = 6%nat ->
  forall Is I0, length I0 = 10%nat -> (forall I, In I Is -> length I = 10%nat) ->
  length (fold_left ladd Is I0) = 10%nat /\
  M_entry (fold_left ladd Is I0) u v = M_entry I0 u v + Rsum (map (fun I => M_entry I u v) Is).
Proof.
  intros Hu Hv. induction Is as [|I Is IH]; intros I0 H0 HIs; simpl.
  - split; auto. ring.
  - assert (HI : length I = 10%nat) by (apply HIs; simpl; auto).
    destruct (IH (ladd I0 I)) as (L & E).
    + rewrite ladd_length; lia.
    + intros; apply HIs; simpl; auto.
    + split; auto. rewrite E, M_entry_add by auto. ring.
Qed.

(* crb[b] after the level-parallel accumulation, under ANY in-level order, acts on a
   pair of motion vectors as the sum over the bodies k of subtree(b) of cinert[k]:
     cdof_j . crb[b] cdof_i  =  sum_{k in subtree(b)} cdof_j . cinert[k] cdof_i           *)
Theorem crb_M_entry_subtree parent cinert scheds b u v :
  wf_forest parent -> length cinert = length parent ->
  (forall I, In I cinert -> length I = 10%nat) ->
  Forall2 (@Permutation Z) scheds (rev (body_tree parent)) ->
  (0 <= b < Z.of_nat (length parent))%Z -> length u = 6%nat -> length v = 6%nat ->
  M_entry (aget [] (tree_accumulate_sched ladd [] SkipParent0 parent scheds cinert) b) u v
  = Rsum (map (fun k => M_entry (aget [] cinert k) u v) (subtree_nodes SkipParent0 parent b)).
Proof.
  intros WF HL H10 HF Hb Hu Hv.
  rewrite (tree_accumulate_sched_correct ladd [] ladd_assoc ladd_comm SkipParent0 parent WF cinert HL scheds HF b Hb).
  rewrite (subtree_sum_flat ladd [] ladd_assoc).
  assert (Hnodes : forall k, In k (subtree_nodes SkipParent0 parent b) -> (0 <= k < Z.of_nat (length parent))%Z).
  { unfold subtree_nodes. generalize (length parent) at 1 as f. intros f; revert b Hb.
    induction f; intros b Hb k; simpl.
    - intros [<-|[]]; auto.
    - intros [<-|Hk]; auto. apply in_concat in Hk. destruct Hk as (l & Hl & Hk).
      apply in_map_iff in Hl. destruct Hl as (c & <- & Hc).
      unfold acc_children in Hc. apply filter_In in Hc. destruct Hc as [Hc _]. apply in_zseq in Hc.
      eapply IHf; eauto. }
  assert (Hget : forall k, (0 <= k < Z.of_nat (length parent))%Z -> length (aget [] cinert k) = 10%nat).
  { intros k Hk. apply H10. unfold aget. apply nth_In. lia. }
  unfold subtree_nodes in *. destruct (subtree_nodes_f SkipParent0 parent (length parent) b) as [|b0 rest] eqn:E.
  { destruct (length parent); simpl in E; discriminate. }
  assert (b0 = b) by (destruct (length parent); simpl in E; congruence). subst b0.
  simpl tl. 
  destruct (M_entry_fold u v Hu Hv (map (aget [] cinert) rest) (aget [] cinert b)) as (_ & EE).
  - apply Hget; auto.
  - intros I HI. apply in_map_iff in HI. destruct HI as (k & <- & Hk). apply Hget. apply Hnodes. simpl; auto.
  - rewrite EE. simpl. rewrite map_map. reflexivity.
Qed.

(* qfrc_smooth *)
Lemma qfrc_smooth_awake (es : bool) bt db ta (applied bias passive actuator : list R) i :
  es && tree_sleeping bt db ta i = false ->
  qfrc_smooth_task es bt db ta applied bias passive actuator i
  = aget 0 passive i - aget 0 bias i + aget 0 actuator i + aget 0 applied i.
Proof. intros E. unfold qfrc_smooth_task. rewrite E. sR. reflexivity. Qed.

Lemma qfrc_smooth_nosleep bt db ta (applied bias passive actuator : list R) i :
  qfrc_smooth_task false bt db ta applied bias passive actuator i
  = aget 0 passive i - aget 0 bias i + aget 0 actuator i + aget 0 applied i.
Proof. apply qfrc_smooth_awake. reflexivity. Qed.

Lemma qfrc_smooth_sleeping bt db ta (applied bias passive actuator : list R) i :
  (0 <= aget 0%Z bt (aget 0%Z db i))%Z -> aget 0%Z ta (aget 0%Z bt (aget 0%Z db i)) = 0%Z ->
  qfrc_smooth_task true bt db ta applied bias passive actuator i = 0.
Proof.
  intros H1 H2. unfold qfrc_smooth_task, tree_sleeping. rewrite H2.
  replace (0 <=? _)%Z with true by (symmetry; apply Z.leb_le; auto). reflexivity.
Qed.

(* polynomial damping is dissipative *)
Lemma poly_force_even_in_v l p0 p1 v : _poly_force l [p0; p1] (- v) 1 = _poly_force l [p0; p1] v 1.
Proof. unfold _poly_force. simpl. sR. rewrite Rabs_Ropp. reflexivity. Qed.

Lemma poly_damper_dissipative l p0 p1 v : 0 <= l -> 0 <= p0 -> 0 <= p1 ->
  v * (- v * _poly_force l [p0; p1] v 1) <= 0.
Proof.
  intros. unfold _poly_force. simpl. cbv [vget nth Z.to_nat Pos.to_nat Pos.iter_op Nat.add]. sR.
  pose proof (Rabs_pos v). 
  assert (0 <= p0 * Rabs v) by (apply Rmult_le_pos; auto).
  assert (0 <= p1 * Rabs v * Rabs v) by (repeat apply Rmult_le_pos; auto).
  assert (0 <= v * v) by nra.
  set (k := l + p0 * Rabs v + p1 * Rabs v * Rabs v) in *.
  assert (0 <= k) by (unfold k; lra).
  replace (v * (- v * k)) with (- ((v * v) * k)) by ring.
  assert (0 <= (v * v) * k) by (apply Rmult_le_pos; auto). lra.
Qed.

Lemma poly_force_linear l x flg : _poly_force l [0; 0] x flg = l.
Proof. unfold _poly_force. cbv [vget nth Z.to_nat Pos.to_nat Pos.iter_op Nat.add]. sR. destruct (flg =? 1)%Z; ring. Qed.

(* ---------- non-vacuity -------------------------------------------------------------- *)
Local Open Scope Z_scope.
Definition ex_parent : list Z := [0; 0; 1; 1; 0; 4; 5; 2].
Example ex_wf : wf_forest ex_parent.
Proof.
  split; [simpl; lia|]. split; [reflexivity|]. simpl. intros i Hi.
  assert (i = 1 \/ i = 2 \/ i = 3 \/ i = 4 \/ i = 5 \/ i = 6 \/ i = 7) as H by lia.
  destruct H as [->|[->|[->|[->|[->|[->| ->]]]]]]; cbv; split; congruence.
Qed.
(* a schedule that differs from the CPU order inside every level *)
Definition ex_scheds : list (list Z) := [[7; 6]; [5; 2; 3]; [4; 1]; [0]].
Example ex_scheds_ok : Forall2 (@Permutation Z) ex_scheds (rev (body_tree ex_parent)).
Proof.
  vm_compute. repeat constructor.
  apply (Permutation_cons_append [2; 3] 5).
Qed.
Example ex_run :
  tree_accumulate_sched Z.add 0 SkipBody0 ex_parent ex_scheds [1; 2; 4; 8; 16; 32; 64; 128]
  = [255; 142; 132; 8; 112; 96; 64; 128].
Proof. vm_compute. reflexivity. Qed.
